#!/bin/sh
# Builds the stub libflux (link-time stand-in for the Rust library, which cannot be
# built offline) into /verif/build/libflux and writes a pkg-config file for it.
set -e
HERE=$(cd "$(dirname "$0")" && pwd)
OUT=${1:-/verif/build/libflux}
mkdir -p "$OUT/lib" "$OUT/pkgconfig" "$OUT/include/influxdata"
cp "$HERE/include/influxdata/flux.h" "$OUT/include/influxdata/flux.h"
gcc -O1 -c -I"$OUT/include" "$HERE/stub.c" -o "$OUT/lib/stub.o"
rm -f "$OUT/lib/libflux.a"
ar rcs "$OUT/lib/libflux.a" "$OUT/lib/stub.o"
cat > "$OUT/pkgconfig/flux.pc" <<PC
Name: flux
Version: 0.191.0
Description: stub libflux for offline verification builds
Cflags: -I$OUT/include
Libs: -L$OUT/lib -lflux
PC
