// Marks the module root only. Every build passes -modfile=/verif/build/mod*/go.mod, which
// bin/check regenerates from /repo/go.mod (plus rapid and a replace of kapacitor => /repo).
module verifharness

go 1.25.7
