package c18

import (
	"fmt"
	"testing"
	"time"

	imodels "github.com/influxdata/influxdb/models"
	"verifharness/kit"

	"pgregory.net/rapid"
)

func TestProbeRejects(t *testing.T) {
	r := kit.NewRec("C18", "Probe", "x")
	g := genStream(r)
	seen := map[string]int{}
	n, tot := 0, 0
	rapid.Check(t, func(rt *rapid.T) {
		c := g(rt)
		for _, p := range c.Points {
			tot++
			mps, err := imodels.ParsePointsWithPrecision(p.line(), time.Unix(0, 0).UTC(), "n")
			if err != nil || len(mps) != 1 {
				n++
				k := fmt.Sprintf("%d pts err=%v", len(mps), err)
				if len(k) > 300 {
					k = k[:300]
				}
				if seen[k] == 0 && len(seen) < 25 {
					fmt.Printf("REJECT %q\n   -> %s\n", clip(string(p.line()), 200), k)
				}
				seen[k]++
			}
		}
	})
	fmt.Println("rejected", n, "of", tot)
}
