package c18

import (
	"bytes"
	"fmt"
	"io"
	"strconv"
	"strings"
	"testing"
	"time"

	imodels "github.com/influxdata/influxdb/models"
	"github.com/influxdata/kapacitor"
	"github.com/influxdata/kapacitor/clock"
	"github.com/influxdata/kapacitor/edge"
	"github.com/influxdata/kapacitor/models"
	"verifharness/kit"

	"pgregory.net/rapid"
)

// SPoint is the abstract content of one recorded stream point. The point that is
// actually recorded is what the write path makes of it: the point is rendered as one
// line of line protocol and parsed with the parser of the /write endpoint, then turned
// into an edge.PointMessage exactly as TaskMaster.WritePoints does. Query=true models a
// point of "record query -type stream" (services/replay runQueryStream): name, tags and
// field keys still go through line protocol (InfluxDB got them that way), but the fields
// are float64/string/bool only and tags may have empty values (GROUP BY of a missing tag).
type SPoint struct {
	DB     string `json:"db"`
	RP     string `json:"rp"`
	Name   string `json:"name"`
	Tags   []KV   `json:"tags,omitempty"`
	Fields []Fld  `json:"fields"`
	Time   int64  `json:"time"`
	Query  bool   `json:"query,omitempty"`
}

type StreamCase struct {
	Precision string   `json:"precision"` // "n" is what services/replay uses; u, ms, s: the other values of the API parameter
	RecTime   bool     `json:"rectime"`
	Zero      int64    `json:"zero"` // zero time of the replay clock (unix ns)
	Points    []SPoint `json:"points"`
}

const streamRule = "rapid: 0-50 points (write-path points through the line-protocol parser, query-recorded points) x precision n|u|ms|s x recTime x clock zero; " +
	"non-trivial = the recording holds a string field with a metacharacter, an integer-valued float or an |int| > 2^53; distinct by case hash"

const (
	exNewline       = "string-field-with-newline (known: replay/stream/newline-in-string-field)"
	exLongLine      = "point-line-over-64KiB (repaired: replay/stream/line-over-64KiB; excluded only with VERIF_C18_EXCLUDE)"
	exBlankKey      = "field-key-beginning-with-tab-or-NUL (known: replay/stream/field-key-leading-blank-lost)"
	exNameBackslash = "backslash-before-metachar-in-measurement-tag-or-field-key (known: replay/stream/backslash-before-metachar-in-name)"
)

// leadingBlank: the field key begins with a byte the line-protocol parser skips as whitespace (space itself is escaped).
func leadingBlank(k string) bool { return k != "" && (k[0] == '\t' || k[0] == 0) }

// slashy: the name holds a backslash directly before a line-protocol metacharacter, or ends with one.
func slashy(s string) bool {
	for i := 0; i < len(s); i++ {
		if s[i] == '\\' && (i+1 == len(s) || strings.IndexByte(",= \"\\", s[i+1]) >= 0) {
			return true
		}
	}
	return false
}

var dbPool = []string{"db", "telegraf", "my db", "dé", "a,b", "x=y", "\"q\"", "_internal", "db.with.dot", "a/b", "世界", "db-1_x"}
var rpPool = []string{"rp", "autogen", "", "two words", "default", "rp,1", "ré"}
var precNs = map[string]int64{"n": 1, "u": 1e3, "ms": 1e6, "s": 1e9}

func genStream(r *kit.Rec) func(t *rapid.T) StreamCase {
	// one point; Time holds the gap to the previous point until the case is assembled, DB=="" means "the recording's main db/rp"
	point := rapid.Custom(func(t *rapid.T) SPoint {
		var p SPoint
		if rapid.IntRange(0, 3).Draw(t, "otherdb") == 0 {
			p.DB = rapid.SampledFrom(dbPool).Draw(t, "db")
			p.RP = rapid.SampledFrom(rpPool).Draw(t, "rp")
		}
		p.Query = rapid.IntRange(0, 4).Draw(t, "query") == 0
		// known defect: line protocol has no escape for a backslash outside string fields; a name or key with a
		// backslash right before a metacharacter (or at its end) is not written back as it was parsed. Avoided, counted.
		name := func(label string) string {
			s := genName(t, label)
			if slashy(s) && !keep("backslash") {
				r.Exclude(exNameBackslash)
				s = strings.ReplaceAll(s, "\\", "/")
			}
			return s
		}
		p.Name = name("name")
		nt := rapid.SampledFrom([]int{0, 0, 1, 1, 2, 3, 5}).Draw(t, "ntags")
		seen := map[string]bool{}
		for j := 0; j < nt; j++ {
			k := name("tagk")
			if seen[k] {
				continue
			}
			seen[k] = true
			v := name("tagv")
			if p.Query && rapid.IntRange(0, 4).Draw(t, "emptytag") == 0 {
				v = ""
			}
			p.Tags = append(p.Tags, KV{k, v})
		}
		nf := rapid.SampledFrom([]int{1, 1, 1, 2, 2, 3, 4}).Draw(t, "nfields")
		seen = map[string]bool{}
		for j := 0; j < nf; j++ {
			k := name("fieldk")
			if leadingBlank(k) && !keep("blankkey") {
				// known defect: a field key that begins with a tab or NUL is skipped as whitespace when it is read back. Avoided, counted.
				r.Exclude(exBlankKey)
				k = "t" + k[1:]
			}
			if seen[k] {
				k = k + strconv.Itoa(j)
			}
			seen[k] = true
			f := Fld{K: k}
			kinds := "ifsb"
			if p.Query {
				kinds = "ffsb"
			}
			switch kinds[rapid.IntRange(0, 3).Draw(t, "ftype")] {
			case 'i':
				f.T, f.V = "i", strconv.FormatInt(genInt(t, "int"), 10)
			case 'f':
				f.T, f.V = "f", genFloat(t, "float")
			case 'b':
				f.T, f.V = "b", strconv.FormatBool(rapid.Bool().Draw(t, "bool"))
			default:
				f.T, f.V = "s", genString(t, "str", true)
				if strings.Contains(f.V, "\n") && !keep("newline") {
					// known defect: the stream recording is line oriented. Avoided by construction, counted.
					r.Exclude(exNewline)
					f.V = strings.ReplaceAll(f.V, "\n", "\\n")
				}
				if rapid.IntRange(0, 199).Draw(t, "big") == 0 {
					if f.V == "" {
						f.V = "x"
					}
					if keep("longline") {
						// long records, below and above 64 KiB (the default token limit of a line scanner)
						f.Rep = rapid.SampledFrom([]int{20000, 60000, 65536, 66000, 70000, 200000}).Draw(t, "big-rep")/len(f.V) + 1
					} else {
						// repaired defect (VERIF_C18_EXCLUDE=longline only): records over 64 KiB could not be read back. Stay below, counted.
						r.Exclude(exLongLine)
						f.Rep = rapid.SampledFrom([]int{20000, 60000, 4096}).Draw(t, "big-rep")/len(f.V) + 1
					}
				}
			}
			p.Fields = append(p.Fields, f)
		}
		p.Time = rapid.SampledFrom([]int64{0, 1, 1, 999, 1e3, 1e6, 1e9, 1e9, 10e9, -1e9, -1, 3600e9, 123456789}).Draw(t, "gap")
		return p
	})
	return func(t *rapid.T) StreamCase {
		var c StreamCase
		c.Precision = rapid.SampledFrom([]string{"n", "n", "n", "u", "ms", "s"}).Draw(t, "precision")
		unit := precNs[c.Precision]
		c.RecTime = rapid.Bool().Draw(t, "rectime")
		c.Zero = rapid.SampledFrom([]int64{0, 31536000e9, 1_500_000_000_000_000_000, 1_999_999_999_999_999_999, 1_600_000_000_123_456_789, 1}).Draw(t, "zero")
		// timestamps: anywhere in [-2e18, 3e18] (so that a shifted time stays inside int64 ns),
		// a base plus gaps that include 0 (equal times) and negative gaps (late arrival)
		cur := rapid.SampledFrom([]int64{1_500_000_000_000_000_000, 1_500_000_000_123_456_789, 0, 1, -1_000_000_000_000_000_000, 2_900_000_000_000_000_000, 86400e9, -1, 31536000e9 + 1}).Draw(t, "base")
		db0 := rapid.SampledFrom(dbPool).Draw(t, "db0")
		rp0 := rapid.SampledFrom(rpPool).Draw(t, "rp0")
		c.Points = rapid.SliceOfN(point, 0, 50).Draw(t, "points")
		for i := range c.Points {
			p := &c.Points[i]
			if p.DB == "" {
				p.DB, p.RP = db0, rp0
			}
			gap := p.Time
			cur += gap * unitMul(gap, unit)
			p.Time = clampTime(cur, unit) // a multiple of the recording precision
			for !keep("longline") && len(p.line())+len(p.DB)+len(p.RP) > 60000 {
				// keep the whole record below the 64 KiB limit (escaping may double a string)
				for j := range p.Fields {
					if p.Fields[j].Rep > 1 {
						p.Fields[j].Rep /= 2
					}
				}
			}
		}
		return c
	}
}

// unitMul scales sub-unit gaps up so that coarser precisions still see distinct times.
func unitMul(gap, unit int64) int64 {
	if gap < 0 {
		gap = -gap
	}
	if gap != 0 && gap < unit {
		return unit
	}
	return 1
}

func mod(a, m int64) int64 {
	r := a % m
	if r < 0 {
		r += m
	}
	return r
}

func clampTime(t, unit int64) int64 {
	const lo, hi = -2_000_000_000_000_000_000, 3_000_000_000_000_000_000
	if t < lo {
		t = lo
	}
	if t > hi {
		t = hi
	}
	return t - mod(t, unit)
}

// ---- line protocol rendering of the abstract point (what a client would send)

var lpNameEsc = strings.NewReplacer(",", "\\,", " ", "\\ ")
var lpTagEsc = strings.NewReplacer(",", "\\,", " ", "\\ ", "=", "\\=")
var lpFieldKeyEsc = strings.NewReplacer(",", "\\,", " ", "\\ ", "=", "\\=", "\"", "\\\"")
var lpStringEsc = strings.NewReplacer("\"", "\\\"", "\\", "\\\\")

func (p SPoint) line() []byte {
	var b bytes.Buffer
	b.WriteString(lpNameEsc.Replace(p.Name))
	for _, kv := range p.Tags {
		if kv.V == "" {
			continue // cannot be written in line protocol; added after parsing for query points
		}
		b.WriteString("," + lpTagEsc.Replace(kv.K) + "=" + lpTagEsc.Replace(kv.V))
	}
	b.WriteByte(' ')
	for i, f := range p.Fields {
		if i > 0 {
			b.WriteByte(',')
		}
		b.WriteString(lpFieldKeyEsc.Replace(f.K) + "=")
		switch f.T {
		case "i":
			b.WriteString(f.V + "i")
		case "f", "b":
			b.WriteString(f.V)
		default:
			b.WriteString("\"" + lpStringEsc.Replace(f.str()) + "\"")
		}
	}
	b.WriteString(" " + strconv.FormatInt(p.Time, 10))
	return b.Bytes()
}

// build returns the point as the recording path sees it, or ok=false if the write
// path rejects the line (then nothing is recorded).
func (p SPoint) build() (edge.PointMessage, bool) {
	mps, err := imodels.ParsePointsWithPrecision(p.line(), time.Unix(0, 0).UTC(), "n") // services/httpd serveWriteLine
	if err != nil || len(mps) != 1 {
		return nil, false
	}
	mp := mps[0]
	f, err := mp.Fields()
	if err != nil {
		return nil, false
	}
	tags := models.Tags(mp.Tags().Map())
	if p.Query {
		for _, kv := range p.Tags {
			if kv.V == "" {
				if _, dup := tags[kv.K]; !dup {
					tags[kv.K] = ""
				}
			}
		}
	}
	// TaskMaster.WritePoints / runQueryStream
	return edge.NewPointMessage(string(mp.Name()), p.DB, p.RP, models.Dimensions{}, models.Fields(f), tags, mp.Time()), true
}

func dropEmpty(m map[string]string) map[string]string {
	out := map[string]string{}
	for k, v := range m {
		if v != "" {
			out[k] = v
		}
	}
	return out
}

func runStream(c StreamCase, cc *kit.Case) {
	if sig, msg := streamCore(c, cc); sig != "" {
		cc.Fail(sig, "%s", msg)
	}
}

// streamCore evaluates one case; it returns the failure signature and message ("" = held).
func streamCore(c StreamCase, cc *kit.Case) (string, string) {
	labels := map[string]bool{}
	label := func(l string) { labels[l] = true } // once per case: the histogram counts cases
	var ref []kit.Pt
	var buf bytes.Buffer
	hasNewline, maxLine, badName, blankKey := false, 0, false, false
	nt := false
	for i, sp := range c.Points {
		msg, ok := sp.build()
		if !ok {
			label("point-rejected-by-write-path")
			continue
		}
		pt := kit.PtOf(msg)
		ref = append(ref, pt)
		before := buf.Len()
		// services/replay doRecordStream / saveStreamQuery
		if err := kapacitor.WritePointForRecording(&buf, msg, c.Precision); err != nil {
			return fail("record/stream/write-error", "point %d: WritePointForRecording: %v", i, err)
		}
		if l := buf.Len() - before; l > maxLine {
			maxLine = l
		}
		// labels and the non-trivial rule, on the point that really is recorded
		for _, k := range kit.SortedKeys(pt.Fields) {
			fv := pt.Fields[k]
			switch fv.T {
			case "s":
				if strings.Contains(fv.V, "\n") {
					hasNewline = true
					label("string-with-newline")
				}
				if isMeta(fv.V) {
					nt = true
					label("string-with-metachar")
				}
				if len(fv.V) > 4000 {
					label("long-string")
				}
			case "i":
				n := fv.Go().(int64)
				if n > pow53 || n < -pow53 {
					nt = true
					label("int-beyond-2^53")
				}
			case "f":
				x := fv.Go().(float64)
				if x == float64(int64(x)) && x < 1e18 && x > -1e18 {
					nt = true
					label("integer-valued-float")
				}
			}
			if isMeta(k) {
				label("field-key-with-metachar")
			}
			if slashy(k) {
				badName = true
			}
			if leadingBlank(k) {
				blankKey = true
			}
		}
		if len(pt.Tags) == 0 {
			label("empty-tag-set")
		}
		for _, k := range kit.SortedKeys(pt.Tags) {
			if isMeta(k) || isMeta(pt.Tags[k]) {
				label("tag-with-metachar")
			}
			if pt.Tags[k] == "" {
				label("tag-with-empty-value")
			}
			if slashy(k) || slashy(pt.Tags[k]) {
				badName = true
			}
		}
		if isMeta(pt.Name) {
			label("measurement-with-metachar")
		}
		if slashy(pt.Name) {
			badName = true
		}
		if sp.Query {
			label("query-recorded-point")
		}
	}
	if len(ref) == 0 {
		label("empty-recording")
	}
	if c.RecTime {
		label("recTime")
	} else {
		label("shifted")
	}
	label("precision=" + c.Precision)
	distinct := map[string]bool{}
	for _, p := range ref {
		distinct[p.DB+"\x00"+p.RP] = true
	}
	if len(distinct) > 1 {
		label("several-dbrp")
	}
	if nt {
		cc.NonTrivial()
	}
	// signature: the two known input classes get their own signature, everything else a generic one
	sig := func(generic string) string {
		switch {
		case hasNewline:
			return "replay/stream/newline-in-string-field"
		case maxLine > 64*1024:
			return "replay/stream/line-over-64KiB"
		case blankKey:
			return "replay/stream/field-key-leading-blank-lost"
		case badName:
			return "replay/stream/backslash-before-metachar-in-name"
		}
		return "replay/stream/" + generic
	}
	for _, l := range kit.SortedKeys(labels) {
		cc.Label(l)
	}
	recording := buf.Bytes()
	show := func() string {
		return fmt.Sprintf("recording (%d bytes, longest point record %d): %q", len(recording), maxLine, clip(string(recording), 1500))
	}

	// ---- replay (services/replay doReplayFromRecording), settable clock already past every time
	zero := time.Unix(0, c.Zero).UTC()
	clk := clock.New(zero)
	clk.Set(farFuture)
	col := &streamCol{}
	errC := kapacitor.ReplayStreamFromIO(clk, io.NopCloser(bytes.NewReader(recording)), col, c.RecTime, c.Precision)
	var err error
	select {
	case err = <-errC:
	case <-time.After(hangBound):
		return fail("replay/hang", "stream replay did not end within %v although the clock never blocks; %s", hangBound, show())
	}
	col.mu.Lock()
	got := append([]kit.Pt(nil), col.pts...)
	closed, afterClose := col.closed, col.afterClose
	col.mu.Unlock()
	if err != nil {
		return fail(sig("error"), "replay of a recording of %d points failed: %v\n%s", len(ref), err, show())
	}
	if closed != 1 || afterClose != 0 {
		return fail(sig("close"), "the replay ended with nil but the stream collector was closed %d times (want exactly once); %d points were collected after Close", closed, afterClose)
	}
	if len(got) != len(ref) {
		return fail(sig("count"), "%d points recorded, %d delivered\n%s", len(ref), len(got), show())
	}
	var shift int64
	for i, r := range ref {
		g := got[i]
		if g.DB != r.DB || g.RP != r.RP || g.Name != r.Name {
			return fail(sig("identity"), "point %d recorded as db=%q rp=%q name=%q, delivered as db=%q rp=%q name=%q\n%s", i, r.DB, r.RP, r.Name, g.DB, g.RP, g.Name, show())
		}
		// line protocol has no empty tag value: a tag with an empty value and an absent tag are
		// the same thing in the InfluxDB data model; both are accepted (see assumptions)
		if !sameTags(dropEmpty(r.Tags), dropEmpty(g.Tags)) {
			return fail(sig("tags"), "point %d recorded with tags %q, delivered with %q\n%s", i, r.Tags, g.Tags, show())
		}
		if g.Group != r.Group || !sameDims(g.Dims, r.Dims) || g.ByName != r.ByName {
			return fail(sig("group"), "point %d recorded in group %q dims %v byName=%v, delivered in group %q dims %v byName=%v", i, r.Group, r.Dims, r.ByName, g.Group, g.Dims, g.ByName)
		}
		if class, msg := cmpFields(r.Fields, g.Fields); class != "" {
			return fail(sig(class), "point %d (%s): %s\n%s", i, r.Name, msg, show())
		}
		d := g.Time - r.Time
		if i == 0 {
			shift = d
		}
		if c.RecTime && d != 0 {
			return fail(sig("time"), "recorded-time replay (precision %s): point %d recorded at %d delivered at %d (delta %d)\n%s", c.Precision, i, r.Time, g.Time, d, show())
		}
		if d != shift {
			return fail(sig("time-shift"), "replay relative to the clock (zero %d, precision %s): point 0 was shifted by %d, point %d (recorded at %d, delivered at %d) by %d\n%s", c.Zero, c.Precision, shift, i, r.Time, g.Time, d, show())
		}
	}
	return "", ""
}

var streamAssumptions = []string{
	"stream recordings hold points of the write path (line protocol through influxdb/models.ParsePointsWithPrecision, then TaskMaster.WritePoints) or of 'record query -type stream' (runQueryStream: float64/string/bool fields, tags of the series incl. empty values); every generated point is rendered as line protocol and parsed by that parser, and the parser's output is what is recorded (a line the parser rejects records nothing)",
	"field types int64, float64 (finite), string, bool: uint64 is not enabled in this build of influxdb/models (no 'uint' build tag); NaN/Inf cannot be written in line protocol",
	"database names are non-empty printable strings and retention policy names printable (possibly empty) strings without line terminators (InfluxDB meta.ValidName); they may contain spaces, commas, quotes, unicode",
	"a tag with an empty value (only possible for query-recorded points) and an absent tag are accepted as the same tag set: line protocol cannot express an empty tag value and the InfluxDB data model does not distinguish them",
	"precision 'n' is what services/replay uses; for the coarser values of the API parameter (u, ms, s) the recorded timestamps are multiples of that unit, so that 'identical timestamps' is meaningful",
	"timestamps lie in [-2e18, 3e18] ns and the clock zero in [0, 2e18] so that a shifted timestamp is representable; strings are valid UTF-8 (the case file is JSON)",
	"the replay clock is a kapacitor/clock settable clock set to year 9999 before the replay starts: Until never blocks; a 30 s bound is hang detection only (signature replay/hang)",
	"the recording bytes are handed to ReplayStreamFromIO directly, without the gzip layer of the file data source (recording files made and replayed by the service are the subject of unit File)",
	"excluded by construction (known findings, witnesses under replays/C18): a string field containing a newline; a measurement, tag key, tag value or field key with a backslash directly before , = space \" \\ or at its end; a field key beginning with tab or NUL. Records longer than 64 KiB (defect repaired by a fix: commit) are generated; VERIF_C18_EXCLUDE=longline excludes them again",
}

func TestStream(t *testing.T) {
	r := kit.NewRec("C18", "Stream", streamRule, streamAssumptions...)
	kit.Check(t, r, genStream(r), stick(streamCore))
}

func TestReplayStream(t *testing.T) {
	r := kit.NewRec("C18", "Stream", streamRule, streamAssumptions...)
	kit.Replay(t, r, runStream)
}
