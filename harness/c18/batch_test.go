package c18

import (
	"bytes"
	"encoding/json"
	"fmt"
	"io"
	"sort"
	"strconv"
	"strings"
	"testing"
	"time"

	imodels "github.com/influxdata/influxdb/models"
	"github.com/influxdata/kapacitor"
	"github.com/influxdata/kapacitor/clock"
	"github.com/influxdata/kapacitor/edge"
	"github.com/influxdata/kapacitor/influxdb"
	"verifharness/kit"

	"pgregory.net/rapid"
)

// A batch recording is an archive with one file per query node of the task (record batch,
// services/replay doRecordBatch) or one file (record query -type batch, doRecordQuery).
// Every recorded batch is a series of an InfluxQL query response turned into a batch by
// edge.ResultToBufferedBatches; the case therefore holds query-response series and the
// harness builds the batches with that very function (numbers arrive as json.Number
// because the HTTP client decodes with UseNumber, times as RFC3339Nano strings).

type BRow struct {
	Time int64 `json:"time"`
	Vals []Val `json:"vals"` // one per column: n(umber text) s b z(null); "i" = int64 injected behind the query decoder (never generated, see replays/C18/not-a-finding)
}

type BSeries struct {
	Name string   `json:"name"`
	Tags []KV     `json:"tags,omitempty"` // GROUP BY tags of the series; a value may be empty
	Cols []string `json:"cols"`
	Rows []BRow   `json:"rows"`
	Stop int64    `json:"stop"` // stop time of the query that returned the series (record batch)
}

type BFile struct {
	Task          bool      `json:"task"`          // true: record batch (tmax from the query bounds), false: record query
	ByName        bool      `json:"byname"`        // task groups by measurement
	GroupedByTime bool      `json:"groupedbytime"` // the query has GROUP BY time(): tmax stays the greatest point time
	Series        []BSeries `json:"series"`
}

type BatchCase struct {
	RecTime bool    `json:"rectime"`
	Zero    int64   `json:"zero"`
	Files   []BFile `json:"files"`
}

const batchRule = "rapid: 1-3 files x 0-10 query-response series (0-8 rows, 1-4 columns of number|string|bool|null, group-by tags) x record batch|record query x recTime x clock zero; " +
	"non-trivial = the recording holds a string field with a metacharacter, an integer-valued number or an integer of magnitude > 2^53; distinct by case hash"

const (
	exEmptyBatch = "empty-batch (repaired: replay/batch/empty-batch-dropped; excluded only with VERIF_C18_EXCLUDE)"
	exTmax       = "shifted-replay-of-batch-whose-tmax-is-not-its-last-point-time (repaired: replay/batch/tmax-not-shifted; excluded only with VERIF_C18_EXCLUDE)"
	exZeroBefore = "shifted-replay-with-clock-zero-before-first-point (repaired: replay/batch/tmax-not-shifted; excluded only with VERIF_C18_EXCLUDE)"
	exPerFile    = "shifted-replay-of-files-starting-at-different-times (known: replay/batch/per-file-shift)"
)

// generator-side shapes: times are gaps until the case is assembled
type gRow struct {
	Gap  int64
	Vals []Val // always 4, cut to the number of columns
}
type gSeries struct {
	OtherName  string
	TagVals    []string // always 3, cut to the number of tag keys ("" = empty value)
	Cols       []string
	Rows       []gRow
	SameWindow bool
	StopGap    int64
}
type gFile struct {
	BFile
	Desc     bool
	StartOff int64
	Name     string
	TagKeys  []string
	Ser      []gSeries
}

func genBatch(r *kit.Rec) func(t *rapid.T) BatchCase {
	val := rapid.Custom(func(t *rapid.T) Val {
		var v Val
		switch rapid.IntRange(0, 9).Draw(t, "vtype") {
		case 0:
			v.T = "z"
		case 1, 2, 3:
			v.T, v.V = "n", genFloat(t, "float")
		case 4, 5:
			v.T, v.V = "n", strconv.FormatInt(genInt(t, "int"), 10)
		case 6, 7, 8:
			v.T, v.V = "s", genString(t, "str", true)
		default:
			v.T, v.V = "b", strconv.FormatBool(rapid.Bool().Draw(t, "bool"))
		}
		return v
	})
	row := rapid.Custom(func(t *rapid.T) gRow {
		return gRow{
			Gap:  rapid.SampledFrom([]int64{0, 1, 1e3, 1e6, 1e9, 1e9, 10e9, 60e9, 123456789}).Draw(t, "gap"),
			Vals: rapid.SliceOfN(val, 4, 4).Draw(t, "vals"),
		}
	})
	series := rapid.Custom(func(t *rapid.T) gSeries {
		var s gSeries
		if rapid.IntRange(0, 5).Draw(t, "othername") == 0 {
			s.OtherName = genName(t, "name2")
		}
		for j := 0; j < 3; j++ {
			v := genName(t, "tagv")
			if rapid.IntRange(0, 5).Draw(t, "emptytag") == 0 {
				v = ""
			}
			s.TagVals = append(s.TagVals, v)
		}
		ncol := rapid.SampledFrom([]int{1, 1, 2, 2, 3, 4}).Draw(t, "ncols")
		seenC := map[string]bool{"time": true}
		for j := 0; j < ncol; j++ {
			k := genName(t, "col")
			if seenC[k] {
				k += strconv.Itoa(j)
			}
			seenC[k] = true
			s.Cols = append(s.Cols, k)
		}
		s.Rows = rapid.SliceOfN(row, 0, 8).Draw(t, "rows")
		// series of one file either cover the same window (several groups of one query) or follow each other (successive queries)
		s.SameWindow = rapid.Bool().Draw(t, "samewindow")
		s.StopGap = rapid.SampledFrom([]int64{1, 1e9, 10e9, 999}).Draw(t, "stopgap")
		return s
	})
	file := rapid.Custom(func(t *rapid.T) gFile {
		var f gFile
		f.Task = rapid.Bool().Draw(t, "task")
		if f.Task {
			f.ByName = rapid.Bool().Draw(t, "byname")
			f.GroupedByTime = rapid.IntRange(0, 2).Draw(t, "groupedbytime") == 0
		}
		f.Desc = rapid.IntRange(0, 5).Draw(t, "desc") == 0
		f.StartOff = rapid.SampledFrom([]int64{0, 0, 1, 5e9, -5e9, 3600e9}).Draw(t, "filestart")
		f.Name = genName(t, "name")
		ntk := rapid.SampledFrom([]int{0, 0, 1, 1, 2, 3}).Draw(t, "ntagkeys")
		seenK := map[string]bool{}
		for j := 0; j < ntk; j++ {
			k := genName(t, "tagk")
			if !seenK[k] {
				seenK[k] = true
				f.TagKeys = append(f.TagKeys, k)
			}
		}
		max := 10
		if rapid.IntRange(0, 2).Draw(t, "few") == 0 {
			max = 2
		}
		f.Ser = rapid.SliceOfN(series, 0, max).Draw(t, "series")
		return f
	})
	return func(t *rapid.T) BatchCase {
		var c BatchCase
		c.RecTime = rapid.Bool().Draw(t, "rectime")
		constrainTmax := !c.RecTime && !keep("tmax")
		constrainFile := !c.RecTime && !keep("perfile")
		start := rapid.SampledFrom([]int64{1_500_000_000_000_000_000, 1_500_000_000_123_456_789, 0, 1, -1_000_000_000_000_000_000, 2_900_000_000_000_000_000, 86400e9, -1}).Draw(t, "start")
		c.Zero = rapid.SampledFrom([]int64{0, 31536000e9, 1_500_000_000_000_000_000, 1_999_999_999_999_999_999, 1}).Draw(t, "zero")
		zeroOff := rapid.SampledFrom([]int64{0, 1, 1e9, 86400e9, 400_000_000_000_000_000}).Draw(t, "zero-off")
		maxFiles := 1
		if rapid.Bool().Draw(t, "multifile") {
			maxFiles = 3
		}
		gfiles := rapid.SliceOfN(file, 1, maxFiles).Draw(t, "files")
		counted := map[string]bool{}
		excl := func(class string) {
			if !counted[class] {
				counted[class] = true
				r.Exclude(class)
			}
		}
		for fi, gf := range gfiles {
			f := gf.BFile
			if len(gfiles) > 1 && !f.Task {
				// an archive with several files is a "record batch" recording (one file per query node)
				f.Task = true
			}
			desc := gf.Desc
			if constrainTmax {
				// repaired defect (VERIF_C18_EXCLUDE=tmax only): in a shifted replay tmax was not shifted with the points.
				// Then only batches whose tmax is the time of their last point are generated for recTime=false, counted.
				if f.Task && !f.GroupedByTime {
					excl(exTmax)
					f.GroupedByTime = true
				}
				if desc {
					excl(exTmax)
					desc = false
				}
			}
			if constrainFile && len(gfiles) > 1 && desc {
				// every file must start at the common start: ascending rows, so that the first row is the earliest
				excl(exPerFile)
				desc = false
			}
			fileStart := start
			if fi > 0 && gf.StartOff != 0 {
				if constrainFile {
					// known defect: every file is shifted by its own offset
					excl(exPerFile)
				} else {
					fileStart += gf.StartOff
				}
			}
			cur := fileStart
			for si, gs := range gf.Ser {
				s := BSeries{Name: gf.Name, Cols: gs.Cols}
				if gs.OtherName != "" {
					s.Name = gs.OtherName
				}
				for j, k := range gf.TagKeys {
					s.Tags = append(s.Tags, KV{k, gs.TagVals[j]})
				}
				ncol := len(s.Cols)
				if si > 0 && gs.SameWindow {
					cur = fileStart
				}
				var times []int64
				for ri, gr := range gs.Rows {
					if !(si == 0 && ri == 0) {
						cur += gr.Gap
					}
					times = append(times, clampTime(cur, 1))
				}
				if desc {
					sort.Slice(times, func(i, j int) bool { return times[i] > times[j] })
				}
				anyValue := false
				for ri, gr := range gs.Rows {
					rw := BRow{Time: times[ri], Vals: append([]Val(nil), gr.Vals[:ncol]...)}
					for _, v := range rw.Vals {
						if v.T != "z" {
							anyValue = true
						}
					}
					s.Rows = append(s.Rows, rw)
				}
				nullRow := func() BRow {
					rw := BRow{Time: clampTime(cur, 1), Vals: make([]Val, ncol)}
					for j := range rw.Vals {
						rw.Vals[j].T = "z"
					}
					return rw
				}
				if constrainFile && len(gfiles) > 1 && si == 0 {
					// every file must start at the common start (see exPerFile): the first row of the first series holds a value
					if len(s.Rows) == 0 {
						s.Rows = append(s.Rows, nullRow())
					}
					allNull := true
					for _, v := range s.Rows[0].Vals {
						if v.T != "z" {
							allNull = false
						}
					}
					if allNull {
						s.Rows[0].Vals[0] = Val{T: "n", V: "2"}
					}
					anyValue = true
				}
				if !anyValue && !keep("empty") {
					// repaired defect (VERIF_C18_EXCLUDE=empty only): empty batches were not replayed. Give the series one value, counted.
					excl(exEmptyBatch)
					if len(s.Rows) == 0 {
						s.Rows = append(s.Rows, nullRow())
					}
					s.Rows[0].Vals[0] = Val{T: "n", V: "1.5"}
				}
				maxT := cur
				for _, rw := range s.Rows {
					if rw.Time > maxT {
						maxT = rw.Time
					}
				}
				s.Stop = clampTime(maxT+gs.StopGap, 1)
				cur = s.Stop
				f.Series = append(f.Series, s)
			}
			c.Files = append(c.Files, f)
		}
		if constrainTmax {
			first, ok := c.latestFileStart()
			if ok && c.Zero < first {
				// repaired defect (same as exTmax): with the clock zero before the data the points moved back and tmax stayed
				excl(exZeroBefore)
				c.Zero = first + zeroOff
			}
		}
		return c
	}
}

// latestFileStart: the greatest "time of the first point of a file" (every file is shifted
// relative to its own first point).
func (c BatchCase) latestFileStart() (int64, bool) {
	var best int64
	found := false
	for _, f := range c.Files {
	file:
		for _, s := range f.Series {
			for _, rw := range s.Rows {
				for _, v := range rw.Vals {
					if v.T != "z" {
						if !found || rw.Time > best {
							best = rw.Time
						}
						found = true
						break file
					}
				}
			}
		}
	}
	return best, found
}

// build makes the batches of one file exactly as startRecordBatch / runQueryBatch do.
func (f BFile) build() ([]edge.BufferedBatchMessage, error) {
	var out []edge.BufferedBatchMessage
	for _, s := range f.Series {
		row := imodels.Row{Name: s.Name, Columns: append([]string{"time"}, s.Cols...)}
		if len(s.Tags) > 0 {
			row.Tags = map[string]string{}
			for _, kv := range s.Tags {
				row.Tags[kv.K] = kv.V
			}
		}
		for _, rw := range s.Rows {
			vals := []interface{}{time.Unix(0, rw.Time).UTC().Format(time.RFC3339Nano)}
			for _, v := range rw.Vals {
				switch v.T {
				case "n":
					vals = append(vals, json.Number(v.V))
				case "s":
					vals = append(vals, v.str())
				case "b":
					vals = append(vals, v.V == "true")
				case "i": // not producible by the query decoder; API-level demonstration only
					n, _ := strconv.ParseInt(v.V, 10, 64)
					vals = append(vals, n)
				default:
					vals = append(vals, nil)
				}
			}
			row.Values = append(row.Values, vals)
		}
		bs, err := edge.ResultToBufferedBatches(influxdb.Result{Series: []imodels.Row{row}}, f.ByName)
		if err != nil {
			return nil, err
		}
		for _, b := range bs {
			if f.Task {
				// startRecordBatch: "Set stop time based off query bounds"
				if b.Begin().Time().IsZero() || !f.GroupedByTime {
					b.Begin().SetTime(time.Unix(0, s.Stop).UTC())
				}
			}
			out = append(out, b)
		}
	}
	return out, nil
}

// unsetTime is what kit.BtOf reports for the zero time.Time.
var unsetTime = time.Time{}.UnixNano()

func fmtBt(b kit.Bt) string {
	var sb strings.Builder
	fmt.Fprintf(&sb, "{name=%q tags=%q group=%q byName=%v tmax=%d points:", b.Name, b.Tags, b.Group, b.ByName, b.TMax)
	for _, p := range b.Points {
		fmt.Fprintf(&sb, " [t=%d %s]", p.Time, sortedFV(p.Fields))
	}
	sb.WriteString("}")
	return clip(sb.String(), 1200)
}

func runBatch(c BatchCase, cc *kit.Case) {
	if sig, msg := batchCore(c, cc); sig != "" {
		cc.Fail(sig, "%s", msg)
	}
}

// batchCore evaluates one case; it returns the failure signature and message ("" = held).
func batchCore(c BatchCase, cc *kit.Case) (string, string) {
	labels := map[string]bool{}
	label := func(l string) { labels[l] = true } // once per case: the histogram counts cases
	nfiles := len(c.Files)
	ref := make([][]kit.Bt, nfiles)
	recs := make([][]byte, nfiles)
	nt, hasEmpty, hasInt := false, false, false
	for i, f := range c.Files {
		bs, err := f.build()
		if err != nil {
			return fail("harness/batch-build", "file %d: ResultToBufferedBatches: %v", i, err)
		}
		var buf bytes.Buffer
		for j, b := range bs {
			bt := kit.BtOf(b)
			ref[i] = append(ref[i], bt)
			// services/replay saveBatchRecording / saveBatchQuery
			if err := kapacitor.WriteBatchForRecording(&buf, b); err != nil {
				return fail("record/batch/write-error", "file %d batch %d: WriteBatchForRecording: %v", i, j, err)
			}
			if len(bt.Points) == 0 {
				hasEmpty = true
				label("empty-batch")
			}
			if len(bt.Tags) == 0 {
				label("empty-tag-set")
			}
			for _, k := range kit.SortedKeys(bt.Tags) {
				if isMeta(k) || isMeta(bt.Tags[k]) {
					label("tag-with-metachar")
				}
				if bt.Tags[k] == "" {
					label("tag-with-empty-value")
				}
			}
			if isMeta(bt.Name) {
				label("measurement-with-metachar")
			}
			if n := len(bt.Points); n > 0 && bt.TMax != bt.Points[n-1].Time {
				label("tmax-after-last-point")
			}
			for _, p := range bt.Points {
				for _, k := range kit.SortedKeys(p.Fields) {
					fv := p.Fields[k]
					switch fv.T {
					case "s":
						if isMeta(fv.V) {
							nt = true
							label("string-with-metachar")
						}
						if strings.Contains(fv.V, "\n") {
							label("string-with-newline")
						}
					case "f":
						x := fv.Go().(float64)
						if x == float64(int64(x)) && x < 1e18 && x > -1e18 {
							nt = true
							label("integer-valued-number")
						}
						if x > float64(pow53) || x < -float64(pow53) {
							nt = true
							label("integer-beyond-2^53")
						}
					case "i":
						hasInt = true
						label("int64-field(api-only)")
					}
					if isMeta(k) {
						label("field-key-with-metachar")
					}
				}
			}
		}
		if f.Task {
			label("record-batch")
		} else {
			label("record-query")
		}
		if f.ByName {
			label("group-by-measurement")
		}
		groups := map[string]bool{}
		for _, b := range ref[i] {
			groups[b.Group] = true
		}
		if len(groups) >= 3 {
			label("many-groups")
		}
		recs[i] = buf.Bytes()
	}
	if c.RecTime {
		label("recTime")
	} else {
		label("shifted")
	}
	label(fmt.Sprintf("files=%d", nfiles))
	if nt {
		cc.NonTrivial()
	}
	show := func(i int) string {
		return fmt.Sprintf("recording file %d (%d bytes): %s", i, len(recs[i]), clip(string(recs[i]), 1500))
	}

	for _, l := range kit.SortedKeys(labels) {
		cc.Label(l)
	}
	// ---- replay (services/replay doReplayFromRecording)
	clk := clock.New(time.Unix(0, c.Zero).UTC())
	clk.Set(farFuture)
	data := make([]io.ReadCloser, nfiles)
	cols := make([]*batchCol, nfiles)
	bcols := make([]kapacitor.BatchCollector, nfiles)
	for i := range recs {
		data[i] = io.NopCloser(bytes.NewReader(recs[i]))
		cols[i] = &batchCol{}
		bcols[i] = cols[i]
	}
	errC := kapacitor.ReplayBatchFromIO(clk, data, bcols, c.RecTime)
	var err error
	select {
	case err = <-errC:
	case <-time.After(hangBound):
		return fail("replay/hang", "batch replay did not end within %v although the clock never blocks; %s", hangBound, show(0))
	}
	if err != nil {
		return fail("replay/batch/error", "replay failed: %v\n%s", err, show(0))
	}
	got := make([][]kit.Bt, nfiles)
	for i, col := range cols {
		col.mu.Lock()
		got[i] = append([]kit.Bt(nil), col.bts...)
		closed, afterClose := col.closed, col.afterClose
		col.mu.Unlock()
		if closed != 1 || afterClose != 0 {
			return fail("replay/batch/close", "the replay ended with nil but batch collector %d was closed %d times (want exactly once); %d batches were collected after Close", i, closed, afterClose)
		}
	}
	return batchCmp{recTime: c.RecTime, zero: strconv.FormatInt(c.Zero, 10), hasEmpty: hasEmpty, hasInt: hasInt, show: show, label: label}.compare(ref, got)
}

// batchCmp is the comparison of the delivered batches with the recorded ones, shared by the units
// Batch (readers fed directly) and File (recording files made and replayed by services/replay).
// ref[i] / got[i]: the batches recorded for / delivered to the i-th query node ("file" i of the archive).
type batchCmp struct {
	recTime          bool
	zero             string // zero time of the replay clock, for messages only
	hasEmpty, hasInt bool
	show             func(i int) string
	label            func(string)
}

func (bc batchCmp) compare(ref, got [][]kit.Bt) (string, string) {
	hasEmpty, hasInt, show, label := bc.hasEmpty, bc.hasInt, bc.show, bc.label
	type delta struct {
		file, batch, point int // point -1: tmax
		d                  int64
	}
	var deltas []delta
	for i := range ref {
		if len(got[i]) != len(ref[i]) {
			// known class: exactly the empty batches are missing
			var nonEmpty []kit.Bt
			for _, b := range ref[i] {
				if len(b.Points) > 0 {
					nonEmpty = append(nonEmpty, b)
				}
			}
			if hasEmpty && len(got[i]) == len(nonEmpty) {
				idx := 0
				for j, b := range ref[i] {
					if len(b.Points) == 0 {
						idx = j
						break
					}
				}
				return fail("replay/batch/empty-batch-dropped", "file %d: %d batches recorded, %d delivered: the recorded empty batches (first: batch %d %s) were not delivered\n%s", i, len(ref[i]), len(got[i]), idx, fmtBt(ref[i][idx]), show(i))
			}
			return fail("replay/batch/count", "file %d: %d batches recorded, %d delivered\n%s", i, len(ref[i]), len(got[i]), show(i))
		}
		for j, rb := range ref[i] {
			gb := got[i][j]
			if gb.Name != rb.Name || !sameTags(gb.Tags, rb.Tags) {
				return fail("replay/batch/identity", "file %d batch %d recorded as name=%q tags=%q, delivered as name=%q tags=%q\n%s", i, j, rb.Name, rb.Tags, gb.Name, gb.Tags, show(i))
			}
			if gb.Group != rb.Group || !sameDims(gb.Dims, rb.Dims) || gb.ByName != rb.ByName {
				return fail("replay/batch/group", "file %d batch %d recorded in group %q dims %q byName=%v, delivered in group %q dims %q byName=%v\n%s", i, j, rb.Group, rb.Dims, rb.ByName, gb.Group, gb.Dims, gb.ByName, show(i))
			}
			if len(gb.Points) != len(rb.Points) {
				return fail("replay/batch/point-count", "file %d batch %d: %d points recorded, %d delivered\nrecorded %s\ndelivered %s", i, j, len(rb.Points), len(gb.Points), fmtBt(rb), fmtBt(gb))
			}
			if rb.TMax == unsetTime {
				// an empty series of "record query" has no tmax at all (zero time.Time); the replay gives such a batch
				// the tmax of the batch before it ("Set tmax to last batch if not set"): nothing to compare
				label("empty-batch-without-tmax")
			} else {
				deltas = append(deltas, delta{i, j, -1, gb.TMax - rb.TMax})
			}
			for k, rp := range rb.Points {
				gp := gb.Points[k]
				if !sameTags(gp.Tags, rp.Tags) {
					return fail("replay/batch/point-tags", "file %d batch %d point %d recorded with tags %q, delivered with %q", i, j, k, rp.Tags, gp.Tags)
				}
				if class, msg := cmpFields(rp.Fields, gp.Fields); class != "" {
					sig := "replay/batch/" + class
					if class == "field-type" && hasInt {
						sig = "replay/batch/int-field-becomes-float"
					}
					return fail(sig, "file %d batch %d point %d: %s\n%s", i, j, k, msg, show(i))
				}
				deltas = append(deltas, delta{i, j, k, gp.Time - rp.Time})
			}
		}
	}
	// ---- times
	if bc.recTime {
		for _, d := range deltas {
			if d.d != 0 {
				what := fmt.Sprintf("point %d", d.point)
				if d.point < 0 {
					what = "tmax"
				}
				return fail("replay/batch/time", "recorded-time replay: file %d batch %d %s was delivered %d ns away from its recorded time\nrecorded %s\ndelivered %s", d.file, d.batch, what, d.d, fmtBt(ref[d.file][d.batch]), fmtBt(got[d.file][d.batch]))
			}
		}
		return "", ""
	}
	// one constant for everything: first the points of each file, then the files against each other, then tmax
	fileShift := map[int]int64{}
	for _, d := range deltas {
		if d.point < 0 {
			continue
		}
		fs, ok := fileShift[d.file]
		if !ok {
			fileShift[d.file] = d.d
			continue
		}
		if d.d != fs {
			return fail("replay/batch/time-shift", "replay relative to the clock (zero %s): the first point of file %d was shifted by %d ns, batch %d point %d by %d ns\nrecorded %s\ndelivered %s", bc.zero, d.file, fs, d.batch, d.point, d.d, fmtBt(ref[d.file][d.batch]), fmtBt(got[d.file][d.batch]))
		}
	}
	for _, d := range deltas {
		// a file without any point: its batches' tmax must still move together
		if _, ok := fileShift[d.file]; !ok {
			fileShift[d.file] = d.d
		}
	}
	var files []int
	for f := range fileShift {
		files = append(files, f)
	}
	sort.Ints(files)
	for k, f := range files {
		if k > 0 && fileShift[f] != fileShift[files[0]] {
			return fail("replay/batch/per-file-shift", "replay relative to the clock (zero %s): the points of file %d were shifted by %d ns, those of file %d by %d ns (the first points were recorded at %d and %d)", bc.zero,
				files[0], fileShift[files[0]], f, fileShift[f], firstTime(ref[files[0]]), firstTime(ref[f]))
		}
	}
	for _, d := range deltas {
		if d.point >= 0 {
			continue
		}
		fs := fileShift[d.file]
		if d.d != fs {
			return fail("replay/batch/tmax-not-shifted", "replay relative to the clock (zero %s): the points of file %d were shifted by %d ns but tmax of batch %d by %d ns\nrecorded %s\ndelivered %s", bc.zero, d.file, fs, d.batch, d.d, fmtBt(ref[d.file][d.batch]), fmtBt(got[d.file][d.batch]))
		}
	}
	return "", ""
}

func firstTime(bs []kit.Bt) int64 {
	for _, b := range bs {
		if len(b.Points) > 0 {
			return b.Points[0].Time
		}
	}
	return 0
}

var batchAssumptions = []string{
	"batch recordings hold what services/replay records: series of InfluxQL query responses (values json.Number|string|bool|null as decoded by influxdb.HTTPClient with UseNumber, times as RFC3339Nano strings, the series' GROUP BY tags on the batch and on every point) turned into batches by edge.ResultToBufferedBatches, with tmax set from the query stop time (record batch, unless GROUP BY time()) or left at the greatest point time (record query); the harness calls that function itself",
	"consequence: numeric fields of a recorded batch are always float64 (ResultToBufferedBatches converts every json.Number with Float64()) - an int64 field cannot occur in a recording made by the service, so the int64->float64 change of the JSON batch format is not reachable (demonstration case under replays/C18/not-a-finding)",
	"strings are valid UTF-8 (they come out of a JSON decoder); rows of a series are in ascending or descending time order as InfluxDB returns them; the query stop time is later than every point of its series",
	"nil and empty tag sets are the same tag set; batch group id, dimensions and byName flag are compared exactly",
	"timestamps lie in [-2e18, 3e18] ns and the clock zero in [0, 2e18]",
	"the replay clock is a kapacitor/clock settable clock set to year 9999 before the replay starts; a 30 s bound is hang detection only (signature replay/hang)",
	"the files are handed to ReplayBatchFromIO directly, without the zip archive of the file data source (recording files made and replayed by the service are the subject of unit File)",
	"a batch whose recorded tmax is unset (zero time: an empty series of 'record query') may be delivered with any tmax (the replay gives it the tmax of the batch before it)",
	"excluded by construction (known finding replay/batch/per-file-shift, witness under replays/C18): for recTime=false, files of one archive whose first timestamps differ. Empty batches, batches whose tmax differs from their last point time and a clock zero before the data (defects repaired by fix: commits) are generated; VERIF_C18_EXCLUDE=empty,tmax excludes them again",
}

func TestBatch(t *testing.T) {
	r := kit.NewRec("C18", "Batch", batchRule, batchAssumptions...)
	kit.Check(t, r, genBatch(r), stick(batchCore))
}

func TestReplayBatch(t *testing.T) {
	r := kit.NewRec("C18", "Batch", batchRule, batchAssumptions...)
	kit.Replay(t, r, runBatch)
}
