package c18

// Unit File: the recording FILE, made and replayed by services/replay.
//
// Stream and Batch hand the bytes of Write*ForRecording straight to Replay*FromIO. What the
// user replays is a file: a zip archive with one entry per query node (record batch / record
// query -type batch) or a gzip stream (record query -type stream), written through the
// service's data source (BatchArchiver / StreamWriter) and read back through BatchReaders /
// StreamReader while the replay runs, every entry by its own goroutine. The data source is
// only reachable through the service, so this unit drives the service end to end, the way the
// server wires it (server.appendReplayService) and the way the HTTP API is used:
//
//	POST /recordings/batch | /recordings/query   (InfluxDB = a fake that answers the k-th query of
//	                                              query node i with the generated response)
//	GET  /recordings/<id> until finished
//	POST /replays {recording, task, recording-time, clock: fast}
//	GET  /replays/<id> until finished
//
// and observes what the task receives with a transparent |log() sink directly under every
// query node (under |from() for a stream task).
//
// Generator: 1-4 query nodes (one task in ten of kind "task": 5-24 query nodes, mostly small
// sources - the archive names its entries by the decimal index of the node, so beyond ten nodes
// the entry names have different lengths and their order as strings differs from the order of
// the nodes), 0-3 queries each, 0-3 series per response, a few explicit rows
// plus (size class of the source) 0 / tens / hundreds / thousands of rows of high-entropy
// values, so that entries range from empty to many read buffers of compressed data and the
// sources of one archive finish at very different moments.
//
// Oracle: the comparison of unit Batch (batchCmp) per query node - same batches, same order,
// names, tags, groups, fields with types, times identical or all shifted by one constant - and
// the replay must end "finished" without an error after the last recorded item.

import (
	"bytes"
	"context"
	"encoding/json"
	"fmt"
	"net/http"
	"net/http/httptest"
	"os"
	"path/filepath"
	"regexp"
	"strconv"
	"strings"
	"sync"
	"testing"
	"time"

	"github.com/influxdata/flux"
	imodels "github.com/influxdata/influxdb/models"
	"github.com/influxdata/kapacitor"
	kclient "github.com/influxdata/kapacitor/client/v1"
	"github.com/influxdata/kapacitor/edge"
	"github.com/influxdata/kapacitor/influxdb"
	"github.com/influxdata/kapacitor/models"
	"github.com/influxdata/kapacitor/services/httpd"
	"github.com/influxdata/kapacitor/services/replay"
	"verifharness/kit"

	"pgregory.net/rapid"
)

// ---------------------------------------------------------------- case data

// FRow is one explicit row of a series: Off is its time as an offset (ns) into the query window.
type FRow struct {
	Off  int64 `json:"off"`
	Vals []Val `json:"vals"` // one per column: n(umber text) s b z(null)
}

// FSeries is one series of a query response. Bulk > 0 appends Bulk rows whose values are a pure
// function of Seed (splitmix64): random-looking numbers and strings that do not compress, so that
// a large archive entry stays a small case file.
type FSeries struct {
	Tags []string `json:"tags,omitempty"` // values of the source's GROUP BY tags, in the order of TagKeys
	Rows []FRow   `json:"rows,omitempty"`
	Bulk int      `json:"bulk,omitempty"`
	Seed uint64   `json:"seed,omitempty"`
}

// FSource is one query node of the task (one entry of the archive).
type FSource struct {
	ByName        bool        `json:"byname,omitempty"`        // .groupByMeasurement()
	GroupedByTime bool        `json:"groupedbytime,omitempty"` // the query has GROUP BY time(): tmax stays the greatest point time
	TagKeys       []string    `json:"tagkeys,omitempty"`       // .groupBy(...)
	Cols          []string    `json:"cols"`
	Queries       [][]FSeries `json:"queries"` // response to the k-th query of the node; beyond the list: empty response
}

type FileCase struct {
	Kind    string    `json:"kind"` // task: record batch of a task | query: record query -type batch | squery: record query -type stream
	RecTime bool      `json:"rectime"`
	Start   int64     `json:"start"` // unix seconds: start of the recorded range (task) / time of the first row (query)
	Sources []FSource `json:"sources"`
}

const fileRule = "rapid: recording made by services/replay through its file data source (record batch of a task with 1-4, one in ten 5-24, query nodes x 0-3 queries x 0-3 series; record query -type batch; record query -type stream) " +
	"and replayed from the recording file by POST /replays x recTime; sources from empty to thousands of incompressible rows; " +
	"non-trivial = the archive holds at least two entries with data, or the recording file is larger than 8 KiB; distinct by case hash"

const (
	window        = int64(3600)   // seconds: .period(1h).every(1h)
	maxRowOff     = int64(3000e9) // explicit rows lie in the first 3000 s of the window
	bulkStep      = int64(100e6)  // bulk rows follow every 100 ms (at most 3000 of them: 300 s)
	maxBulk       = 3000
	groupStep     = int64(1e9)   // GROUP BY time(1s): rows of a grouped query lie on whole seconds, bulk rows follow every second
	maxGroupedOff = int64(500e9) // so that explicit rows + 3000 bulk rows stay inside the window
	fileDB        = "db"
	fileRP        = "rp"
	srcPrefix     = "src"
	maxSources    = 24 // query nodes of a "many sources" task: archive entries "0".."23"
	sinkPrefix    = "S"
)

var fileTagKeys = []string{"host", "dc", "k"}

func splitmix(x *uint64) uint64 {
	*x += 0x9e3779b97f4a7c15
	z := *x
	z = (z ^ (z >> 30)) * 0xbf58476d1ce4e5b9
	z = (z ^ (z >> 27)) * 0x94d049bb133111eb
	return z ^ (z >> 31)
}

// ---------------------------------------------------------------- generator

func genFile(r *kit.Rec) func(t *rapid.T) FileCase {
	return func(t *rapid.T) FileCase {
		var c FileCase
		c.Kind = rapid.SampledFrom([]string{"task", "task", "task", "task", "task", "task", "task", "query", "squery", "squery"}).Draw(t, "kind")
		c.RecTime = rapid.Bool().Draw(t, "rectime")
		c.Start = rapid.SampledFrom([]int64{1_456_833_600, 1_500_000_000, 1_500_000_123, 946_684_800, 86400, 1_600_000_000}).Draw(t, "start")
		nsrc := 1
		many := false
		if c.Kind == "task" {
			nsrc = rapid.SampledFrom([]int{1, 1, 2, 2, 2, 2, 3, 3, 4, 0}).Draw(t, "nsources")
			if nsrc == 0 {
				// a task with many query nodes: the archive holds one entry per node, named by the node's
				// decimal index (batchArchive.Archive), so that beyond ten nodes the names have different
				// lengths and the order of the names as strings is no longer the order of the nodes
				many = true
				lo := 5
				if rapid.IntRange(0, 2).Draw(t, "two-digit-entries") != 0 {
					lo = 11
				}
				nsrc = rapid.IntRange(lo, maxSources).Draw(t, "nsources-many")
			}
		}
		stream := c.Kind == "squery"
		for i := 0; i < nsrc; i++ {
			var s FSource
			if c.Kind == "task" {
				s.ByName = rapid.IntRange(0, 3).Draw(t, "byname") == 0
				s.GroupedByTime = rapid.IntRange(0, 3).Draw(t, "groupedbytime") == 0
			}
			ntk := rapid.SampledFrom([]int{0, 0, 1, 1, 2, 3}).Draw(t, "ntagkeys")
			s.TagKeys = append(s.TagKeys, fileTagKeys[:ntk]...)
			ncol := rapid.SampledFrom([]int{1, 2, 2, 3}).Draw(t, "ncols")
			seen := map[string]bool{"time": true}
			for j := 0; j < ncol; j++ {
				var k string
				if stream {
					// names with line-protocol metacharacters are the business of unit Stream (and of its known findings)
					k = rapid.SampledFrom(plainAtoms).Draw(t, "col")
				} else {
					k = genName(t, "col")
				}
				if seen[k] {
					k += strconv.Itoa(j)
				}
				seen[k] = true
				s.Cols = append(s.Cols, k)
			}
			// size class of the source: how many incompressible rows one of its series gets
			bulk := 0
			sizes := []int{0, 0, 0, 0, 0, 0, 0, 0, 0, 0, 1, 1, 1, 1, 1, 2, 2, 2, 2, 3}
			if many {
				// many sources: mostly small ones (the cost of a case is the sum over its sources)
				sizes = []int{0, 0, 0, 0, 0, 0, 0, 0, 0, 0, 0, 0, 0, 0, 0, 0, 1, 1, 1, 2}
			}
			switch rapid.SampledFrom(sizes).Draw(t, "sizeclass") {
			case 1:
				bulk = rapid.IntRange(10, 80).Draw(t, "bulk")
			case 2:
				bulk = rapid.IntRange(250, 700).Draw(t, "bulk")
			case 3:
				bulk = rapid.IntRange(1200, maxBulk).Draw(t, "bulk")
			}
			nq := 1
			if c.Kind == "task" {
				nq = rapid.SampledFrom([]int{0, 1, 1, 1, 2, 2, 3}).Draw(t, "nqueries")
			}
			if bulk > 0 && nq == 0 {
				nq = 1
			}
			for k := 0; k < nq; k++ {
				maxSer := 3
				if len(s.TagKeys) == 0 || stream {
					// without GROUP BY tags a response holds at most one series per measurement;
					// record query -type stream merges the series of a response by time: one series keeps the order unambiguous
					maxSer = 1
				}
				nser := rapid.IntRange(0, maxSer).Draw(t, "nseries")
				if bulk > 0 && k == 0 && nser == 0 {
					nser = 1
				}
				var resp []FSeries
				usedTags := map[string]bool{}
				for si := 0; si < nser; si++ {
					var fs FSeries
					for j := range s.TagKeys {
						var v string
						if stream {
							v = rapid.SampledFrom(plainAtoms).Draw(t, "tagv")
						} else {
							v = genName(t, "tagv")
						}
						if rapid.IntRange(0, 7).Draw(t, "emptytag") == 0 {
							v = ""
						}
						if j == 0 && usedTags[v] {
							// the series of one response differ in their tag sets
							v += "#" + strconv.Itoa(si)
						}
						if j == 0 {
							usedTags[v] = true
						}
						fs.Tags = append(fs.Tags, v)
					}
					nrows := rapid.SampledFrom([]int{0, 1, 1, 2, 3, 5}).Draw(t, "nrows")
					off := int64(0)
					for ri := 0; ri < nrows; ri++ {
						if ri > 0 || rapid.Bool().Draw(t, "firstoff") {
							off += rapid.SampledFrom([]int64{0, 1, 1e3, 1e6, 1e9, 1e9, 10e9, 60e9, 123456789}).Draw(t, "gap")
						}
						if off > maxRowOff {
							off = maxRowOff
						}
						rw := FRow{Off: off}
						for j := 0; j < ncol; j++ {
							var v Val
							switch rapid.IntRange(0, 9).Draw(t, "vtype") {
							case 0:
								v.T = "z"
							case 1, 2, 3:
								v.T, v.V = "n", genFloat(t, "float")
							case 4:
								v.T, v.V = "n", strconv.FormatInt(genInt(t, "int"), 10)
							case 5, 6, 7, 8:
								v.T, v.V = "s", genString(t, "str", !stream)
							default:
								v.T, v.V = "b", strconv.FormatBool(rapid.Bool().Draw(t, "bool"))
							}
							rw.Vals = append(rw.Vals, v)
						}
						fs.Rows = append(fs.Rows, rw)
					}
					if bulk > 0 && k == 0 && si == nser-1 {
						fs.Bulk = bulk
						fs.Seed = rapid.Uint64().Draw(t, "seed")
					}
					resp = append(resp, fs)
				}
				s.Queries = append(s.Queries, resp)
			}
			c.Sources = append(c.Sources, s)
		}
		if !c.RecTime && len(c.Sources) > 1 && !keep("perfile") {
			// known finding replay/batch/per-file-shift: every entry of the archive is shifted by its own
			// offset, so for a shifted replay every source starts with a point at the very start of the range. Counted.
			changed := false
			for i := range c.Sources {
				s := &c.Sources[i]
				if len(s.Queries) == 0 {
					s.Queries = append(s.Queries, nil)
					changed = true
				}
				if len(s.Queries[0]) == 0 {
					fs := FSeries{}
					for range s.TagKeys {
						fs.Tags = append(fs.Tags, "a")
					}
					s.Queries[0] = append(s.Queries[0], fs)
					changed = true
				}
				fs := &s.Queries[0][0]
				if len(fs.Rows) == 0 {
					rw := FRow{}
					for range s.Cols {
						rw.Vals = append(rw.Vals, Val{T: "z"})
					}
					fs.Rows = append(fs.Rows, rw)
					changed = true
				}
				if fs.Rows[0].Off != 0 {
					fs.Rows[0].Off = 0
					changed = true
				}
				allNull := true
				for _, v := range fs.Rows[0].Vals {
					if v.T != "z" {
						allNull = false
					}
				}
				if allNull {
					fs.Rows[0].Vals[0] = Val{T: "n", V: "2"}
					changed = true
				}
			}
			if changed {
				r.Exclude(exPerFile)
			}
		}
		return c
	}
}

// ---------------------------------------------------------------- the InfluxDB responses

// rows builds the query-response series of the k-th query of source i as influxdb.HTTPClient delivers
// them (UseNumber, RFC3339Nano times). Every call builds fresh values: the service and the reference
// never share a map or a slice.
func (c FileCase) rows(i, k int) []imodels.Row {
	s := c.Sources[i]
	if k >= len(s.Queries) {
		return nil
	}
	base := (c.Start + int64(k)*window) * 1e9
	var out []imodels.Row
	for _, fs := range s.Queries[k] {
		row := imodels.Row{Name: srcPrefix + strconv.Itoa(i), Columns: []string{"time"}}
		for _, col := range s.Cols {
			if s.GroupedByTime {
				col = "first_" + col // SELECT first(*) ... GROUP BY time(1s)
			}
			row.Columns = append(row.Columns, col)
		}
		if len(s.TagKeys) > 0 {
			row.Tags = map[string]string{}
			for j, tk := range s.TagKeys {
				if j < len(fs.Tags) {
					row.Tags[tk] = fs.Tags[j]
				}
			}
		}
		last, step := int64(0), bulkStep
		if s.GroupedByTime {
			step = groupStep
		}
		for ri, rw := range fs.Rows {
			off := rw.Off
			if s.GroupedByTime {
				// one row per GROUP BY time(1s) interval: whole seconds, strictly increasing
				off -= off % groupStep
				if off > maxGroupedOff {
					off = maxGroupedOff
				}
				if ri > 0 && off <= last {
					off = last + groupStep
				}
			}
			vals := []interface{}{time.Unix(0, base+off).UTC().Format(time.RFC3339Nano)}
			for j := range s.Cols {
				var v Val
				if j < len(rw.Vals) {
					v = rw.Vals[j]
				}
				switch v.T {
				case "n":
					vals = append(vals, json.Number(v.V))
				case "s":
					vals = append(vals, v.str())
				case "b":
					vals = append(vals, v.V == "true")
				default:
					vals = append(vals, nil)
				}
			}
			row.Values = append(row.Values, vals)
			last = off
		}
		seed := fs.Seed
		for b := 0; b < fs.Bulk && b < maxBulk; b++ {
			last += step
			vals := []interface{}{time.Unix(0, base+last).UTC().Format(time.RFC3339Nano)}
			for j := range s.Cols {
				x := splitmix(&seed)
				if j%2 == 0 {
					vals = append(vals, json.Number(strconv.FormatFloat(float64(x>>11)/float64(1<<53)*1000, 'g', -1, 64)))
				} else {
					vals = append(vals, fmt.Sprintf("%016x", x))
				}
			}
			row.Values = append(row.Values, vals)
		}
		out = append(out, row)
	}
	return out
}

func (c FileCase) nQueries() int {
	n := 0
	for _, s := range c.Sources {
		if len(s.Queries) > n {
			n = len(s.Queries)
		}
	}
	return n
}

// expected builds what is recorded for source i, exactly as startRecordBatch / runQueryBatch do
// (the same construction as BFile.build of unit Batch).
func (c FileCase) expected(i int) ([]kit.Bt, error) {
	s := c.Sources[i]
	var out []kit.Bt
	for k := range s.Queries {
		rows := c.rows(i, k)
		if len(rows) == 0 {
			continue // a response without series records nothing
		}
		bs, err := edge.ResultToBufferedBatches(influxdb.Result{Series: rows}, s.ByName)
		if err != nil {
			return nil, err
		}
		stop := time.Unix(c.Start+int64(k+1)*window, 0).UTC()
		for _, b := range bs {
			if c.Kind == "task" {
				// startRecordBatch: "Set stop time based off query bounds"
				if b.Begin().Time().IsZero() || !s.GroupedByTime {
					b.Begin().SetTime(stop)
				}
			}
			out = append(out, kit.BtOf(b))
		}
	}
	return out, nil
}

// expectedPoints: record query -type stream turns the series into points (runQueryStream); the case
// has one series, whose rows are written in the order of the response.
func (c FileCase) expectedPoints() ([]kit.Pt, error) {
	rows := c.rows(0, 0)
	if len(rows) == 0 {
		return nil, nil
	}
	bs, err := edge.ResultToBufferedBatches(influxdb.Result{Series: rows}, false)
	if err != nil {
		return nil, err
	}
	var out []kit.Pt
	for _, b := range bs {
		for _, bp := range b.Points() {
			out = append(out, kit.PtOf(edge.NewPointMessage(b.Name(), fileDB, fileRP, models.Dimensions{}, bp.Fields(), bp.Tags(), bp.Time())))
		}
	}
	return out, nil
}

// ---------------------------------------------------------------- fakes around the service

var srcRE = regexp.MustCompile(srcPrefix + `(\d+)`)

// fileInflux answers the k-th query that names measurement src<i> with the k-th response of source i.
type fileInflux struct {
	c       FileCase
	mu      sync.Mutex
	next    map[int]int
	queries []string
}

func (f *fileInflux) NewNamedClient(name string) (influxdb.Client, error) { return f, nil }

func (f *fileInflux) Ping(ctx context.Context) (time.Duration, string, error) { return 0, "", nil }
func (f *fileInflux) Write(bp influxdb.BatchPoints) error                     { return nil }
func (f *fileInflux) WriteV2(w influxdb.FluxWrite) error                      { return nil }
func (f *fileInflux) QueryFlux(q influxdb.FluxQuery) (flux.ResultIterator, error) {
	return nil, nil
}
func (f *fileInflux) QueryFluxResponse(q influxdb.FluxQuery) (*influxdb.Response, error) {
	return &influxdb.Response{}, nil
}
func (f *fileInflux) CreateBucketV2(bucket string, org string, orgID string) error { return nil }

func (f *fileInflux) Query(q influxdb.Query) (*influxdb.Response, error) {
	m := srcRE.FindStringSubmatch(q.Command)
	f.mu.Lock()
	f.queries = append(f.queries, q.Command)
	if m == nil {
		f.mu.Unlock()
		return &influxdb.Response{}, nil
	}
	i, _ := strconv.Atoi(m[1])
	k := f.next[i]
	f.next[i]++
	f.mu.Unlock()
	if i >= len(f.c.Sources) {
		return &influxdb.Response{}, nil
	}
	rows := f.c.rows(i, k)
	if len(rows) == 0 {
		return &influxdb.Response{}, nil
	}
	return &influxdb.Response{Results: []influxdb.Result{{Series: rows}}}, nil
}

type fileTaskStore struct{ tasks map[string]*kapacitor.Task }

func (s fileTaskStore) Load(id string) (*kapacitor.Task, error) {
	if t, ok := s.tasks[id]; ok {
		return t, nil
	}
	return nil, fmt.Errorf("unknown task %q", id)
}

// routeCatcher is the HTTPD service of the replay service: it keeps the routes so that the harness
// can call the handlers the way the HTTP server would.
type routeCatcher struct{ routes []httpd.Route }

func (h *routeCatcher) AddRoutes(r []httpd.Route) error {
	h.routes = append(h.routes, r...)
	return nil
}
func (h *routeCatcher) DelRoutes([]httpd.Route) {}

func (h *routeCatcher) do(method, pattern, path string, body any) (int, []byte, error) {
	for _, rt := range h.routes {
		if rt.Method != method || rt.Pattern != pattern {
			continue
		}
		hf, ok := rt.HandlerFunc.(func(http.ResponseWriter, *http.Request))
		if !ok {
			return 0, nil, fmt.Errorf("route %s %s has a handler of type %T", method, pattern, rt.HandlerFunc)
		}
		var rd *bytes.Reader
		if body != nil {
			b, err := json.Marshal(body)
			if err != nil {
				return 0, nil, err
			}
			rd = bytes.NewReader(b)
		} else {
			rd = bytes.NewReader(nil)
		}
		req := httptest.NewRequest(method, httpd.BasePath+path, rd)
		w := httptest.NewRecorder()
		hf(w, req)
		return w.Code, w.Body.Bytes(), nil
	}
	return 0, nil, fmt.Errorf("the replay service registered no route %s %s", method, pattern)
}

// await polls GET <pattern>/<id> until the service no longer answers 202 Accepted (running).
func (h *routeCatcher) await(pattern, id string, into any) (bool, error) {
	deadline := time.Now().Add(hangBound)
	for n := 0; ; n++ {
		code, body, err := h.do("GET", pattern+"/", pattern+"/"+id, nil)
		if err != nil {
			return false, err
		}
		if code == http.StatusOK {
			return true, json.Unmarshal(body, into)
		}
		if code != http.StatusAccepted {
			return false, fmt.Errorf("GET %s/%s: status %d: %s", pattern, id, code, clip(string(body), 300))
		}
		if time.Now().After(deadline) {
			return false, nil
		}
		if n < 200 {
			time.Sleep(50 * time.Microsecond)
		} else {
			time.Sleep(time.Millisecond)
		}
	}
}

// script renders the task whose query nodes are the sources of the case.
func (c FileCase) script() (string, kapacitor.TaskType) {
	if c.Kind == "squery" {
		return "stream\n    |from()\n    |log().prefix('" + sinkPrefix + "0')\n", kapacitor.StreamTask
	}
	var sb strings.Builder
	for i, s := range c.Sources {
		sel := "*"
		if s.GroupedByTime {
			sel = `first(*)`
		}
		fmt.Fprintf(&sb, "var q%d = batch\n    |query('SELECT %s FROM \"%s\".\"%s\".\"%s%d\"')\n        .period(1h)\n        .every(1h)\n", i, sel, fileDB, fileRP, srcPrefix, i)
		var dims []string
		if s.GroupedByTime {
			dims = append(dims, "time(1s)")
		}
		for _, k := range s.TagKeys {
			dims = append(dims, "'"+k+"'")
		}
		if len(dims) > 0 {
			fmt.Fprintf(&sb, "        .groupBy(%s)\n", strings.Join(dims, ", "))
		}
		if s.ByName {
			sb.WriteString("        .groupByMeasurement()\n")
		}
		fmt.Fprintf(&sb, "q%d\n    |log().prefix('%s%d')\n", i, sinkPrefix, i)
	}
	return sb.String(), kapacitor.BatchTask
}

// ---------------------------------------------------------------- the property body

func runFile(c FileCase, cc *kit.Case) {
	if sig, msg := fileCore(c, cc); sig != "" {
		cc.Fail(sig, "%s", msg)
	}
}

func fileCore(c FileCase, cc *kit.Case) (string, string) {
	labels := map[string]bool{}
	label := func(l string) { labels[l] = true }
	flush := func() {
		for _, l := range kit.SortedKeys(labels) {
			cc.Label(l)
		}
		labels = map[string]bool{}
	}
	defer flush()
	nsrc := len(c.Sources)
	if nsrc == 0 || (c.Kind != "task" && nsrc != 1) {
		return fail("harness/file-case", "kind %q with %d sources", c.Kind, nsrc)
	}
	stream := c.Kind == "squery"

	// ---- what is recorded
	ref := make([][]kit.Bt, nsrc)
	var refPts []kit.Pt
	hasEmpty := false
	npoints := make([]int, nsrc)
	withData := 0
	if stream {
		var err error
		if refPts, err = c.expectedPoints(); err != nil {
			return fail("harness/file-build", "ResultToBufferedBatches: %v", err)
		}
		npoints[0] = len(refPts)
	} else {
		for i := range c.Sources {
			var err error
			if ref[i], err = c.expected(i); err != nil {
				return fail("harness/file-build", "source %d: ResultToBufferedBatches: %v", i, err)
			}
			for _, b := range ref[i] {
				if len(b.Points) == 0 {
					hasEmpty = true
					label("empty-batch")
				}
				npoints[i] += len(b.Points)
			}
			if len(ref[i]) == 0 {
				label("source-without-batches")
			} else {
				withData++
			}
			groups := map[string]bool{}
			for _, b := range ref[i] {
				groups[b.Group] = true
			}
			if len(groups) >= 3 {
				label("many-groups")
			}
		}
	}
	label("kind=" + c.Kind)
	switch {
	case nsrc <= 4:
		label(fmt.Sprintf("sources=%d", nsrc))
	case nsrc <= 10:
		label("sources=5..10")
	default:
		label("sources>=11(entry names of different lengths)")
	}
	if c.RecTime {
		label("recTime")
	} else {
		label("shifted")
	}
	minP, maxP := npoints[0], npoints[0]
	for _, n := range npoints {
		if n < minP {
			minP = n
		}
		if n > maxP {
			maxP = n
		}
	}
	if nsrc > 1 && maxP >= 200 && minP*10 <= maxP {
		label("large-source-next-to-small-source")
	}

	// ---- the daemon's pieces around the replay service (server.appendReplayService)
	dir, err := os.MkdirTemp("", "verif-c18-file")
	if err != nil {
		return fail("harness/file-env", "temp dir: %v", err)
	}
	defer os.RemoveAll(dir)
	influx := &fileInflux{c: c, next: map[int]int{}}
	env, err := kit.NewEnv(kit.EnvOpts{Influx: influx})
	if err != nil {
		return fail("harness/file-env", "task master: %v", err)
	}
	defer env.Close()
	store, err := kit.OpenStore(filepath.Join(dir, "kapacitor.db"))
	if err != nil {
		return fail("harness/file-env", "bolt store: %v", err)
	}
	defer store.Close()
	u := kit.Unique()
	taskID, recID, repID := "task"+u, "rec"+u, "rep"+u
	script, tt := c.script()
	task, err := env.TM.NewTask(taskID, script, tt, []kapacitor.DBRP{{Database: fileDB, RetentionPolicy: fileRP}}, 0, nil)
	if err != nil {
		return fail("harness/file-task", "task definition rejected: %v\n%s", err, script)
	}
	routes := &routeCatcher{}
	svc := replay.NewService(replay.Config{Dir: filepath.Join(dir, "replay")}, kit.DiagService.NewReplayHandler())
	svc.StorageService = store
	svc.TaskStore = fileTaskStore{tasks: map[string]*kapacitor.Task{taskID: task}}
	svc.HTTPDService = routes
	svc.InfluxDBService = influx
	svc.TaskMaster = env.TM
	svc.TaskMasterLookup = kapacitor.NewTaskMasterLookup()
	if err := svc.Open(); err != nil {
		return fail("harness/file-env", "replay service open: %v", err)
	}
	defer svc.Close()

	// ---- record
	var code int
	var body []byte
	switch c.Kind {
	case "task":
		start := time.Unix(c.Start, 0).UTC()
		stop := start.Add(time.Duration(c.nQueries()) * time.Duration(window) * time.Second)
		if c.nQueries() == 0 {
			stop = start.Add(time.Second) // no query fits: an archive of empty entries
		}
		code, body, err = routes.do("POST", "/recordings/batch", "/recordings/batch", kclient.RecordBatchOptions{ID: recID, Task: taskID, Start: start, Stop: stop})
	default:
		q := fmt.Sprintf(`SELECT * FROM "%s"."%s"."%s0"`, fileDB, fileRP, srcPrefix)
		for j, k := range c.Sources[0].TagKeys {
			if j == 0 {
				q += " GROUP BY "
			} else {
				q += ", "
			}
			q += `"` + k + `"`
		}
		typ := kclient.BatchTask
		if stream {
			typ = kclient.StreamTask
		}
		code, body, err = routes.do("POST", "/recordings/query", "/recordings/query", kclient.RecordQueryOptions{ID: recID, Type: typ, Query: q})
	}
	if err != nil {
		return fail("harness/file-route", "%v", err)
	}
	if code != http.StatusCreated {
		return fail("record/file/rejected", "the recording request was answered with status %d: %s", code, clip(string(body), 400))
	}
	var recording kclient.Recording
	done, err := routes.await("/recordings", recID, &recording)
	if err != nil {
		return fail("harness/file-route", "%v", err)
	}
	if !done {
		return fail("record/hang", "the recording did not end within %v although the InfluxDB fake answers at once", hangBound)
	}
	if recording.Status != kclient.Finished || recording.Error != "" {
		return fail("record/file/error", "the recording ended with status %v, error %q", recording.Status, recording.Error)
	}
	// every query of every source was asked exactly as often as the range has periods
	if c.Kind == "task" {
		influx.mu.Lock()
		for i := range c.Sources {
			if got, want := influx.next[i], c.nQueries(); got != want {
				influx.mu.Unlock()
				return fail("harness/file-queries", "source %d was queried %d times, the recorded range holds %d periods; queries: %q", i, got, want, influx.queries)
			}
		}
		influx.mu.Unlock()
	}
	if recording.Size > 4<<10 {
		label("file>4KiB")
	}
	if recording.Size > 16<<10 {
		label("file>16KiB")
	}
	if recording.Size > 64<<10 {
		label("file>64KiB")
	}
	if withData >= 2 || recording.Size > 8<<10 {
		cc.NonTrivial()
	}
	flush()

	// ---- replay from the recording file
	code, body, err = routes.do("POST", "/replays", "/replays", kclient.CreateReplayOptions{ID: repID, Recording: recID, Task: taskID, RecordingTime: c.RecTime, Clock: kclient.Fast})
	if err != nil {
		return fail("harness/file-route", "%v", err)
	}
	if code != http.StatusCreated {
		return fail("replay/file/rejected", "the replay request was answered with status %d: %s", code, clip(string(body), 400))
	}
	var rep kclient.Replay
	done, err = routes.await("/replays", repID, &rep)
	if err != nil {
		return fail("harness/file-route", "%v", err)
	}
	desc := fmt.Sprintf("recording file of %d bytes, points per source %v", recording.Size, npoints)
	if !done {
		return fail("replay/hang", "the replay did not end within %v although the fast clock never blocks; %s", hangBound, desc)
	}
	if rep.Status != kclient.Finished || rep.Error != "" {
		return fail("replay/file/error", "the replay of the recording ended with status %v, error %q; %s", rep.Status, rep.Error, desc)
	}

	// ---- what the task received
	if stream {
		var got []kit.Pt
		for _, o := range env.Sink.By(sinkPrefix + "0") {
			if o.P != nil {
				got = append(got, *o.P)
			}
		}
		return cmpFilePoints(c, refPts, got, desc)
	}
	got := make([][]kit.Bt, nsrc)
	for i := range c.Sources {
		for _, o := range env.Sink.By(sinkPrefix + strconv.Itoa(i)) {
			if o.B != nil {
				got[i] = append(got[i], *o.B)
			}
		}
	}
	show := func(i int) string {
		return fmt.Sprintf("source %d of %d; %s", i, nsrc, desc)
	}
	return batchCmp{recTime: c.RecTime, zero: "of the fast clock: the time of the replay", hasEmpty: hasEmpty, show: show, label: label}.compare(ref, got)
}

// cmpFilePoints: the comparison of unit Stream for the points of a stream recording file.
func cmpFilePoints(c FileCase, ref, got []kit.Pt, desc string) (string, string) {
	if len(got) != len(ref) {
		return fail("replay/stream/count", "%d points recorded, %d delivered; %s", len(ref), len(got), desc)
	}
	var shift int64
	for i, r := range ref {
		g := got[i]
		if g.DB != r.DB || g.RP != r.RP || g.Name != r.Name {
			return fail("replay/stream/identity", "point %d recorded as db=%q rp=%q name=%q, delivered as db=%q rp=%q name=%q", i, r.DB, r.RP, r.Name, g.DB, g.RP, g.Name)
		}
		if !sameTags(dropEmpty(r.Tags), dropEmpty(g.Tags)) {
			return fail("replay/stream/tags", "point %d recorded with tags %q, delivered with %q", i, r.Tags, g.Tags)
		}
		if g.Group != r.Group || !sameDims(g.Dims, r.Dims) || g.ByName != r.ByName {
			return fail("replay/stream/group", "point %d recorded in group %q dims %v byName=%v, delivered in group %q dims %v byName=%v", i, r.Group, r.Dims, r.ByName, g.Group, g.Dims, g.ByName)
		}
		if class, msg := cmpFields(r.Fields, g.Fields); class != "" {
			return fail("replay/stream/"+class, "point %d (%s): %s", i, r.Name, msg)
		}
		d := g.Time - r.Time
		if i == 0 {
			shift = d
		}
		if c.RecTime && d != 0 {
			return fail("replay/stream/time", "recorded-time replay: point %d recorded at %d delivered at %d (delta %d)", i, r.Time, g.Time, d)
		}
		if d != shift {
			return fail("replay/stream/time-shift", "replay relative to the clock: point 0 was shifted by %d, point %d (recorded at %d, delivered at %d) by %d", shift, i, r.Time, g.Time, d)
		}
	}
	return "", ""
}

var fileAssumptions = []string{
	"the replay service is assembled as server.appendReplayService does (StorageService = Bolt store, TaskStore, HTTPDService, InfluxDBService, TaskMaster, TaskMasterLookup) and driven through the handlers of its HTTP routes (POST /recordings/batch, POST /recordings/query, GET /recordings/<id>, POST /replays, GET /replays/<id>) with the option structs of client/v1; 202 Accepted = still running (handleRecording / handleReplay)",
	"InfluxDB is a fake that answers the k-th query naming measurement src<i> with the generated response of query node i (series named like the measurement, tags = the node's GROUP BY tags, distinct tag sets within one response, at most one series without GROUP BY tags; values json.Number|string|bool|null, RFC3339Nano times inside the query's window [start+k*1h, start+(k+1)*1h), rows ascending; for a node with GROUP BY time(1s) - SELECT first(*) - columns first_<field> and one row per whole second) and every other query with an empty response; large sources get their rows from a splitmix64 sequence of the case's seed (numbers and 16-digit hex strings that do not compress)",
	"what is recorded is modelled as in unit Batch: every series of a response becomes a batch through edge.ResultToBufferedBatches (the harness calls that function itself), tmax = stop time of the query unless the query has GROUP BY time() (startRecordBatch: 'Set stop time based off query bounds'), left as built for record query; a response without series records nothing; record query -type stream writes the rows of its single series as points of the query's db and rp in response order (runQueryStream)",
	"the task's query nodes use .period(1h).every(1h) without alignment and the recorded range is [start, start + n*1h], so that every node runs exactly n queries (checked: a different number of queries is a harness error, not a violation)",
	"a batch task may declare any number of query nodes (TICKscript sets no limit; generated: 1-4, one task in ten 5-24); what was recorded from the responses to the queries of node i (measurement src<i>) must be delivered to node i and to no other node - the archive's entry per node (batchArchive.Archive names it by the node's decimal index) is an implementation detail the check does not look at",
	"'delivered to the task' is observed by a |log() node directly under every query node (under |from() for the stream task): query and from nodes pass the replayed data on unchanged",
	"the replay uses the fast clock of the API ('clock': 'fast'), whose zero time is the wall time of the replay: for recTime=false only the equality of all shifts is checked, never their value",
	"stream recording files: measurement, tag and field names are plain and strings hold no line terminators (the stream format's known findings are the business of unit Stream); a tag with an empty value and an absent tag are the same tag set (as in unit Stream)",
	"nil and empty tag sets are the same tag set; batch group id, dimensions and byName flag are compared exactly; a batch whose recorded tmax is unset may be delivered with any tmax (as in unit Batch)",
	"30 s bounds on the recording and on the replay are hang detection only (signatures record/hang, replay/hang); the polling interval is not a correctness signal",
	"excluded by construction (known finding replay/batch/per-file-shift): for recTime=false, sources of one archive whose first timestamps differ - every source then starts with a point at the start of the range",
}

func TestFile(t *testing.T) {
	r := kit.NewRec("C18", "File", fileRule, fileAssumptions...)
	kit.Check(t, r, genFile(r), stick(fileCore))
}

func TestReplayFile(t *testing.T) {
	r := kit.NewRec("C18", "File", fileRule, fileAssumptions...)
	kit.Replay(t, r, runFile)
}
