package c18

import (
	"bytes"
	"encoding/json"
	"io"
	"testing"
	"time"

	imodels "github.com/influxdata/influxdb/models"
	"github.com/influxdata/kapacitor"
	"github.com/influxdata/kapacitor/clock"
)

// FuzzReaders: the stream and batch recording readers on arbitrary bytes must end the
// replay with an error or nil - never panic (a panic in the reader goroutine kills the
// process), never hang. Thorough tier only (native fuzzing is not seedable).
//
// Two crash classes found by this target were repaired by fix: commits and are no longer
// skipped (VERIF_C18_EXCLUDE=readercrash skips them again, for a tree without the fixes): a
// stream recording whose point line (every third line) holds no point at all (blank,
// whitespace only or a '#' comment): readPointsFromIO indexes mps[0] of an empty slice;
// a batch recording with a top-level JSON null: bufferedBatchMessage.UnmarshalJSON
// dereferences the nil it decoded.
func FuzzReaders(f *testing.F) {
	seeds := []string{
		"db\nrp\ncpu,host=a value=1 1500000000000000000\n",
		"db\nrp\ncpu value=\"x\",i=3i,b=true 1\ndb\nrp\ncpu value=2 2\n",
		"{\"name\":\"cpu\",\"tmax\":\"2017-07-14T02:40:10Z\",\"group\":\"host=a\",\"tags\":{\"host\":\"a\"},\"points\":[{\"fields\":{\"value\":1.5},\"tags\":{\"host\":\"a\"},\"time\":\"2017-07-14T02:40:00Z\"}]}\n",
		"{\"name\":\"cpu\",\"byname\":true,\"points\":[{\"fields\":{\"s\":\"x\",\"b\":false},\"tags\":null,\"time\":\"0001-01-01T00:00:00Z\"}]}\n{\"name\":\"m\"}\n",
		"db\nrp\n#comment\n", "db\nrp\n\ndb\nrp\n \t\n", // repaired: record without a point
		"db\nrp\n", "db\n", "\n\n\n", "{", "[]", "null", "{\"points\":[{}]}", "{\"points\":[null]}", "{\"tags\":{\"a\":null},\"points\":[{\"fields\":null}]}", "1 2 3",
	}
	for _, s := range seeds {
		f.Add([]byte(s), true)
		f.Add([]byte(s), false)
	}
	f.Fuzz(func(t *testing.T, data []byte, recTime bool) {
		if !keep("readercrash") && emptyPointLine(data) {
			t.Skip("known: replay/stream/reader-panics-on-record-without-point")
		}
		if !keep("readercrash") && nullBatch(data) {
			t.Skip("known: replay/batch/reader-panics-on-json-null")
		}
		clk := clock.New(time.Unix(0, 0).UTC())
		clk.Set(farFuture)
		sc := &streamCol{}
		select {
		case <-kapacitor.ReplayStreamFromIO(clk, io.NopCloser(bytes.NewReader(data)), sc, recTime, "n"):
		case <-time.After(hangBound):
			t.Fatalf("[sig=replay/hang] stream reader did not end within %v on %q", hangBound, data)
		}
		bc := &batchCol{}
		select {
		case <-kapacitor.ReplayBatchFromIO(clk, []io.ReadCloser{io.NopCloser(bytes.NewReader(data))}, []kapacitor.BatchCollector{bc}, recTime):
		case <-time.After(hangBound):
			t.Fatalf("[sig=replay/hang] batch reader did not end within %v on %q", hangBound, data)
		}
	})
}

// emptyPointLine reports whether some complete record of the stream format (db line, rp
// line, point line) has a point line in which the line-protocol parser finds neither a
// point nor an error. Lines are split as bufio.ScanLines does.
func emptyPointLine(data []byte) bool {
	lines := bytes.Split(data, []byte("\n"))
	if n := len(lines); n > 0 && len(lines[n-1]) == 0 {
		lines = lines[:n-1] // no empty final token after a trailing newline
	}
	for i := 2; i < len(lines); i += 3 {
		l := bytes.TrimSuffix(lines[i], []byte("\r"))
		mps, err := imodels.ParsePointsWithPrecision(l, time.Time{}, "n")
		if err != nil {
			return false // the reader stops here with this error
		}
		if len(mps) == 0 {
			return true
		}
	}
	return false
}

// nullBatch reports whether the JSON stream holds a top-level null before its first syntax error.
func nullBatch(data []byte) bool {
	dec := json.NewDecoder(bytes.NewReader(data))
	for dec.More() {
		var raw json.RawMessage
		if err := dec.Decode(&raw); err != nil {
			return false
		}
		if bytes.Equal(bytes.TrimSpace(raw), []byte("null")) {
			return true
		}
	}
	return false
}
