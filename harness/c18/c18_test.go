// C18 — replaying a recording reproduces the recorded data.
//
// Two units, Stream and Batch (stream_test.go, batch_test.go). Both follow the same plan:
//
//	generate what a real recording can contain (built through the very functions the
//	recording paths of services/replay use: the line-protocol parser of the write path,
//	edge.ResultToBufferedBatches for query results)
//	-> kapacitor.WritePointForRecording / WriteBatchForRecording (as services/replay does)
//	-> kapacitor.ReplayStreamFromIO / ReplayBatchFromIO with a settable kapacitor/clock
//	   that was moved to the far future before the replay starts (Until never blocks)
//	-> a collecting StreamCollector / BatchCollector of the harness.
//
// Oracle (from the property text): same sequence — db, rp, name, tags, field names,
// field values AND dynamic Go types, group, order; times identical (recTime) or all
// shifted by ONE constant; the error channel yields nil and every collector has been
// closed exactly once, after its last item.
//
// This file: the shared pieces (collectors, string generators, comparison helpers).
package c18

import (
	"fmt"
	"os"
	"reflect"
	"sort"
	"strings"
	"sync"
	"time"

	"github.com/influxdata/kapacitor/edge"
	"verifharness/kit"

	"pgregory.net/rapid"
)

// hangBound is hang detection only (a replay of 50 points takes well under a
// millisecond; the clock never blocks): it has its own failure signature.
const hangBound = 30 * time.Second

var farFuture = time.Date(9999, 1, 1, 0, 0, 0, 0, time.UTC)

// keep(class) reports that the exclusion-by-construction of a known defect class is
// switched off: VERIF_C18_NOEXCLUDE=all or a comma list of newline,longline,empty,tmax,perfile.
// Used to demonstrate that the search finds each class by itself.
func keep(class string) bool {
	v := os.Getenv("VERIF_C18_NOEXCLUDE")
	if v == "all" {
		return true
	}
	for _, c := range strings.Split(v, ",") {
		if c == class {
			return true
		}
	}
	return false
}

const pow53 = int64(1) << 53

// ---------------------------------------------------------------- case data

// KV is one tag (slices keep the case JSON stable and shrinkable; keys are unique).
type KV struct {
	K string `json:"k"`
	V string `json:"v"`
}

// Val is a typed value. T: i(nt64) f(loat64) s(tring) b(ool) z(null, batch columns
// only) n(JSON number text as InfluxDB sends it, batch columns only).
// Strings are V repeated Rep times (Rep 0 = once) so that long values stay small in the case file.
type Val struct {
	T   string `json:"t"`
	V   string `json:"v"`
	Rep int    `json:"rep,omitempty"`
}

func (v Val) str() string {
	if v.Rep > 1 {
		return strings.Repeat(v.V, v.Rep)
	}
	return v.V
}

// Fld is one field of a stream point.
type Fld struct {
	K string `json:"k"`
	Val
}

// ---------------------------------------------------------------- collectors

type streamCol struct {
	mu         sync.Mutex
	pts        []kit.Pt
	closed     int
	afterClose int
}

func (c *streamCol) CollectPoint(p edge.PointMessage) error {
	pt := kit.PtOf(p) // deep copy at delivery time
	c.mu.Lock()
	if c.closed > 0 {
		c.afterClose++
	}
	c.pts = append(c.pts, pt)
	c.mu.Unlock()
	return nil
}

func (c *streamCol) Close() error {
	c.mu.Lock()
	c.closed++
	c.mu.Unlock()
	return nil
}

type batchCol struct {
	mu         sync.Mutex
	bts        []kit.Bt
	closed     int
	afterClose int
}

func (c *batchCol) CollectBatch(b edge.BufferedBatchMessage) error {
	bt := kit.BtOf(b)
	c.mu.Lock()
	if c.closed > 0 {
		c.afterClose++
	}
	c.bts = append(c.bts, bt)
	c.mu.Unlock()
	return nil
}

func (c *batchCol) Close() error {
	c.mu.Lock()
	c.closed++
	c.mu.Unlock()
	return nil
}

// ---------------------------------------------------------------- generators

// atoms of names and string values: letters, digits, multi-byte runes and every
// metacharacter of line protocol / JSON. '\n' and '\r' are only used for string fields.
var plainAtoms = []string{"cpu", "m", "a", "b", "x1", "host", "value", "A", "Z9", "_", "-", "."}
var metaAtoms = []string{" ", ",", "=", "\"", "'", "\\", "\t", "#", "/", ":", ";", "é", "世界", "😀", " ", " ",
	"<", ">", "&", "{", "}", "[", "]", "i", "u", "1", "0", "true", "null", "\\n", "\\\"", "\\,", "\\ ", "\\=", "\\\\", "%", "|", "$", "`", "\x7f", "\x01"}
var lineAtoms = []string{"\n", "\r", "\r\n", "\n\n"}

func isMeta(s string) bool {
	for _, r := range s {
		switch {
		case r >= 'a' && r <= 'z', r >= 'A' && r <= 'Z', r >= '0' && r <= '9', r == '_', r == '-', r == '.':
		default:
			return true
		}
	}
	return false
}

// genName draws a non-empty string: plain (mostly) or built from 1-4 atoms incl. metacharacters.
func genName(t *rapid.T, label string) string {
	if rapid.IntRange(0, 9).Draw(t, label+"-style") < 5 {
		return rapid.SampledFrom(plainAtoms).Draw(t, label)
	}
	n := rapid.IntRange(1, 4).Draw(t, label+"-n")
	s := ""
	for i := 0; i < n; i++ {
		if rapid.Bool().Draw(t, label+"-meta") {
			s += rapid.SampledFrom(metaAtoms).Draw(t, label+"-atom")
		} else {
			s += rapid.SampledFrom(plainAtoms).Draw(t, label+"-atom")
		}
	}
	return s
}

// genString draws a string field value: may be empty, may contain line terminators
// (withLines), metacharacters, multi-byte runes.
func genString(t *rapid.T, label string, withLines bool) string {
	switch rapid.IntRange(0, 9).Draw(t, label+"-style") {
	case 0:
		return ""
	case 1, 2, 3:
		return rapid.SampledFrom(plainAtoms).Draw(t, label)
	}
	n := rapid.IntRange(1, 5).Draw(t, label+"-n")
	s := ""
	for i := 0; i < n; i++ {
		k := rapid.IntRange(0, 9).Draw(t, label+"-kind")
		switch {
		case k < 4:
			s += rapid.SampledFrom(plainAtoms).Draw(t, label+"-atom")
		case k < 9 || !withLines:
			s += rapid.SampledFrom(metaAtoms).Draw(t, label+"-atom")
		default:
			s += rapid.SampledFrom(lineAtoms).Draw(t, label+"-atom")
		}
	}
	return s
}

var intPool = []int64{0, 1, -1, 3, 42, -7, pow53 - 1, pow53, pow53 + 1, -(pow53 + 1), 1<<60 + 1, -(1<<60 + 1), 1<<63 - 1, -1 << 63, 1<<62 + 12345, 1e15, 1e18}

func genInt(t *rapid.T, label string) int64 {
	if rapid.IntRange(0, 3).Draw(t, label+"-kind") == 0 {
		return rapid.Int64().Draw(t, label)
	}
	return rapid.SampledFrom(intPool).Draw(t, label)
}

var floatPool = []string{"0", "-0", "1", "3", "-2.5", "0.1", "0.3333333333333333", "123456789.125", "1e-320", "5e-324", "2.2250738585072014e-308",
	"1.7976931348623157e+308", "-1.7976931348623157e+308", "1e+20", "1e+21", "1e+22", "9007199254740992", "9007199254740994", "-9007199254740993",
	"1.152921504606847e+18", "9.223372036854776e+18", "1e-7", "100", "1e+06", "123456.7", "-1"}

// genFloat draws a finite float64 in the canonical 'g' text form of kit.FV.
func genFloat(t *rapid.T, label string) string {
	if rapid.IntRange(0, 3).Draw(t, label+"-kind") == 0 {
		f := rapid.Float64().Draw(t, label)
		return kit.F(f).V // rapid.Float64 draws finite values only
	}
	return rapid.SampledFrom(floatPool).Draw(t, label)
}

// ---------------------------------------------------------------- comparison helpers

func sortedFV(m map[string]kit.FV) string {
	ks := make([]string, 0, len(m))
	for k := range m {
		ks = append(ks, k)
	}
	sort.Strings(ks)
	var sb strings.Builder
	for _, k := range ks {
		fmt.Fprintf(&sb, "%q=%s:%q ", k, m[k].T, clip(m[k].V, 80))
	}
	return sb.String()
}

func clip(s string, n int) string {
	if len(s) <= n {
		return s
	}
	return s[:n] + fmt.Sprintf("...(%d bytes)", len(s))
}

// sameTags: maps compared as maps; nil and empty are the same tag set.
func sameTags(a, b map[string]string) bool {
	if len(a) == 0 && len(b) == 0 {
		return true
	}
	return reflect.DeepEqual(a, b)
}

func sameDims(a, b []string) bool {
	if len(a) == 0 && len(b) == 0 {
		return true
	}
	return reflect.DeepEqual(a, b)
}

// cmpFields compares field names, dynamic types and values (floats bit-exact through
// the shortest round-trip text of kit.FV; strings byte-exact). It returns the failure
// class ("field-names" | "field-type" | "field-value") and a description, or "".
func cmpFields(rec, got map[string]kit.FV) (string, string) {
	for k := range rec {
		if _, ok := got[k]; !ok {
			return "field-names", fmt.Sprintf("field %q was recorded but not delivered; recorded {%s} delivered {%s}", k, sortedFV(rec), sortedFV(got))
		}
	}
	for k := range got {
		if _, ok := rec[k]; !ok {
			return "field-names", fmt.Sprintf("field %q was delivered but not recorded; recorded {%s} delivered {%s}", k, sortedFV(rec), sortedFV(got))
		}
	}
	for _, k := range kit.SortedKeys(rec) {
		r, g := rec[k], got[k]
		if r.T != g.T {
			return "field-type", fmt.Sprintf("field %q recorded as %s delivered as %s", k, describe(r), describe(g))
		}
		if r.V != g.V {
			return "field-value", fmt.Sprintf("field %q recorded as %s delivered as %s", k, describe(r), describe(g))
		}
	}
	return "", ""
}

func describe(f kit.FV) string {
	names := map[string]string{"i": "int64", "f": "float64", "s": "string", "b": "bool", "n": "nil"}
	n := names[f.T]
	if n == "" {
		n = "type " + f.T
	}
	return fmt.Sprintf("%s %q", n, clip(f.V, 120))
}

func fail(sig, format string, args ...any) (string, string) {
	return sig, fmt.Sprintf(format, args...)
}

// stick keeps the shrinker on the defect class it found first: once a search case has
// failed, cases failing with another signature count as passing (search only; replays
// and the evaluation of every generated case before the first failure are not affected).
func stick[C any](core func(C, *kit.Case) (string, string)) func(C, *kit.Case) {
	first := ""
	return func(c C, cc *kit.Case) {
		sig, msg := core(c, cc)
		if sig == "" {
			return
		}
		if first == "" {
			first = sig
		}
		if sig == first {
			cc.Fail(sig, "%s", msg)
		}
	}
}
