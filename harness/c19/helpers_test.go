package c19

import (
	"fmt"
	"io"
	"math"
	"runtime"
	"sort"
	"strings"
	"sync"
	"unicode/utf8"

	"github.com/influxdata/kapacitor/udf/agent"
	"verifharness/kit"

	"pgregory.net/rapid"
)

// ---------------------------------------------------------------- fragmentation

// fragReader hands the bytes of src to its reader in the generated chunk sizes
// (cycled; 0 = as many bytes as the caller asks for). It never returns (0, nil) and
// never returns data together with io.EOF (bufio, which every production caller puts
// in front of the stream, does not either).
type fragReader struct {
	src   io.Reader
	sizes []int
	i     int
	scan  *scanner // fed with every byte, in order (harness-owned frame parser)

	reads        int
	splitPrefix  int // reads that ended inside a length prefix (>=1 prefix byte delivered, prefix incomplete)
	splitPayload int // reads that ended inside a payload
}

func (f *fragReader) Read(p []byte) (int, error) {
	if len(p) == 0 {
		return 0, nil
	}
	n := 0
	if len(f.sizes) > 0 {
		n = f.sizes[f.i%len(f.sizes)]
		f.i++
	}
	if n <= 0 || n > len(p) {
		n = len(p)
	}
	m, err := f.src.Read(p[:n])
	if m > 0 {
		f.reads++
		if f.scan != nil {
			f.scan.feed(p[:m])
			switch {
			case f.scan.inPrefix():
				f.splitPrefix++
			case f.scan.inPayload():
				f.splitPayload++
			}
		}
		if err == io.EOF {
			err = nil // the EOF is reported by the next call
		}
	}
	return m, err
}

// directReader is a ByteReadReader without bufio in front: ReadByte consumes a read of
// one byte, Read returns the generated short reads directly to ReadMessage.
type directReader struct{ f *fragReader }

func (d directReader) Read(p []byte) (int, error) { return d.f.Read(p) }
func (d directReader) ReadByte() (byte, error) {
	var b [1]byte
	for {
		n, err := d.f.Read(b[:])
		if n == 1 {
			return b[0], nil
		}
		if err != nil {
			return 0, err
		}
	}
}

type readCloser struct {
	io.Reader
	io.Closer
}

// scanner is the harness' own incremental parser of the varint framing (udf.proto:
// "a varint header that contains the length of the following message"). It is used to
// classify where read boundaries fall and to count/inspect frames; it decides nothing.
type scanner struct {
	inPay   bool
	pfx     int // prefix bytes of the current frame seen so far
	size    uint64
	shift   uint
	remain  uint64
	frames  int
	multi   int // frames with a length prefix of >= 2 bytes (payload >= 128 bytes)
	big     int // frames with a payload > 4096 bytes (larger than bufio's buffer)
	collect bool
	payload []byte
	onFrame func(payload []byte)
	offs    []frameOff // recorded when keep is set
	keep    bool
	pos     int
}

type frameOff struct{ start, pfx, size int }

func (s *scanner) feed(b []byte) {
	for _, c := range b {
		s.pos++
		if !s.inPay {
			s.size |= uint64(c&0x7f) << s.shift
			s.shift += 7
			s.pfx++
			if c < 0x80 {
				if s.pfx > 1 {
					s.multi++
				}
				if s.size > 4096 {
					s.big++
				}
				if s.keep {
					s.offs = append(s.offs, frameOff{start: s.pos - s.pfx, pfx: s.pfx, size: int(s.size)})
				}
				s.remain = s.size
				s.inPay = true
				if s.remain == 0 {
					s.endFrame()
				}
			}
			continue
		}
		if s.collect {
			s.payload = append(s.payload, c)
		}
		s.remain--
		if s.remain == 0 {
			s.endFrame()
		}
	}
}

func (s *scanner) endFrame() {
	s.frames++
	if s.onFrame != nil {
		s.onFrame(s.payload)
	}
	s.payload = s.payload[:0]
	s.inPay, s.pfx, s.size, s.shift = false, 0, 0, 0
}

func (s *scanner) inPrefix() bool  { return !s.inPay && s.pfx > 0 }
func (s *scanner) inPayload() bool { return s.inPay }

// ---------------------------------------------------------------- pipes

// bufPipe is an in-memory pipe with an unbounded buffer (the analogue of an OS pipe /
// socket buffer): writes never block, so consecutive messages coalesce in the buffer
// and the fragmenting reader cuts them at arbitrary places. io.Pipe (the other wiring)
// is synchronous and never coalesces two writes into one read.
type bufPipe struct {
	mu      sync.Mutex
	cond    *sync.Cond
	buf     []byte
	wclosed bool
	rclosed bool
}

func newBufPipe() *bufPipe {
	p := &bufPipe{}
	p.cond = sync.NewCond(&p.mu)
	return p
}

type bufPipeR struct{ p *bufPipe }
type bufPipeW struct{ p *bufPipe }

func (w bufPipeW) Write(b []byte) (int, error) {
	p := w.p
	p.mu.Lock()
	defer p.mu.Unlock()
	if p.rclosed || p.wclosed {
		return 0, io.ErrClosedPipe
	}
	p.buf = append(p.buf, b...)
	p.cond.Broadcast()
	return len(b), nil
}
func (w bufPipeW) Close() error {
	w.p.mu.Lock()
	w.p.wclosed = true
	w.p.cond.Broadcast()
	w.p.mu.Unlock()
	return nil
}
func (r bufPipeR) Read(b []byte) (int, error) {
	p := r.p
	p.mu.Lock()
	defer p.mu.Unlock()
	for len(p.buf) == 0 {
		if p.rclosed {
			return 0, io.ErrClosedPipe
		}
		if p.wclosed {
			return 0, io.EOF
		}
		p.cond.Wait()
	}
	if p.rclosed {
		return 0, io.ErrClosedPipe
	}
	n := copy(b, p.buf)
	p.buf = p.buf[n:]
	return n, nil
}
func (r bufPipeR) Close() error {
	r.p.mu.Lock()
	r.p.rclosed = true
	r.p.cond.Broadcast()
	r.p.mu.Unlock()
	return nil
}

func newPipe(buffered bool) (io.ReadCloser, io.WriteCloser) {
	if buffered {
		p := newBufPipe()
		return bufPipeR{p}, bufPipeW{p}
	}
	return io.Pipe()
}

// ---------------------------------------------------------------- misc

func goroutineDump(max int) string {
	buf := make([]byte, 1<<20)
	n := runtime.Stack(buf, true)
	s := string(buf[:n])
	if len(s) > max {
		s = s[:max] + "\n...[truncated]"
	}
	return s
}

func clip(s string) string {
	if len(s) > 120 {
		return fmt.Sprintf("%q...(%d bytes)", s[:120], len(s))
	}
	return fmt.Sprintf("%q", s)
}

// ---------------------------------------------------------------- generators

var hostileStrings = []string{
	"", "a", "v1", "x y", " lead", "trail ", "q\"uote", "s'ingle", "back\\slash", "\\\"", "new\nline", "cr\r\nlf", "tab\there",
	"comma,k=v", "k=v", "=", ",", "\\", "\"", "ünïcödé", "日本語テキスト", "😀🚀", "\x00nul\x00", "  ", "\ufeffbom", "é",
	"null", "true", "1", "-0", "NaN", "1i", "host=a,dc=b", "\x7f", " ",
}

var keyPool = []string{
	"host", "dc", "region", "value", "f1", "f2", "x", "a b", "k,x", "t=1", "é", "日本", "q\"k", "nl\nkey", "back\\k", "time", "name", "😀",
}

var namePool = []string{"cpu", "m", "mem usage", "a,b", "q\"m", "日本", "m=1", "nl\nm", "é", "_internal", "cpu\\load"}

func longString(n int, seed int) string {
	pat := []string{"0123456789", "aé日😀-", "x"}[seed%3]
	s := strings.Repeat(pat, n/len(pat)+1)
	s = s[:n]
	for !utf8.ValidString(s) { // do not cut a rune in the middle
		s = s[:len(s)-1]
	}
	return s
}

// bigLeft bounds the number of >= 4000 byte strings per case (reset by the case generators;
// generation is sequential, so this is a pure function of the draws).
var bigLeft int

// hugeLeft bounds the number of > 1 MiB payloads per case the same way.
var hugeLeft int

// excludeHook counts input classes the generator avoids by construction (kit.Rec.Exclude).
var excludeHook func(class string)

// genStr draws a valid-UTF-8 string: mostly from the hostile pool, sometimes arbitrary,
// sometimes long enough to need a 2- or 3-byte length prefix / exceed bufio's buffer.
func genStr(t *rapid.T, label string) string {
	k := rapid.IntRange(0, 99).Draw(t, label+"/class")
	if k >= 96 {
		if bigLeft <= 0 {
			k = 90
		}
		bigLeft--
	}
	switch {
	case k < 62:
		return rapid.SampledFrom(hostileStrings).Draw(t, label)
	case k < 84:
		s := rapid.String().Draw(t, label)
		if !utf8.ValidString(s) {
			s = strings.ToValidUTF8(s, "?")
		}
		return s
	case k < 86:
		// the class "string that is not valid UTF-8" (line protocol accepts such tag values and
		// string fields) is avoided by construction: proto3 refuses to marshal it and the server
		// aborts (witness replays/C19/Echo-invalid-utf8-string-aborts-server.json)
		if excludeHook != nil {
			excludeHook("string-not-valid-utf8")
		}
		return strings.ToValidUTF8("caf\xe9 \xff\xfe"+rapid.SampledFrom(hostileStrings).Draw(t, label), "\ufffd")
	case k < 96:
		return longString(rapid.SampledFrom([]int{120, 127, 128, 130, 200, 300}).Draw(t, label+"/len"), k)
	case k < 99:
		return longString(rapid.SampledFrom([]int{4000, 4096, 4200, 5000}).Draw(t, label+"/len"), k)
	default:
		return longString(rapid.SampledFrom([]int{16300, 16384, 17000, 20000}).Draw(t, label+"/len"), k)
	}
}

func genKey(t *rapid.T, label string) string {
	if rapid.IntRange(0, 19).Draw(t, label+"/class") == 19 {
		return longString(rapid.SampledFrom([]int{127, 140}).Draw(t, label+"/len"), 0)
	}
	return rapid.SampledFrom(keyPool).Draw(t, label)
}

var intPool = []int64{0, 1, -1, 2, 42, math.MinInt64, math.MaxInt64, 1<<53 + 1, -(1<<53 + 1), 127, 128, -128, 1 << 31, 1 << 32}
var floatPool = []float64{0, math.Copysign(0, -1), 1, -1, 1.5, 0.1, 1e-300, math.SmallestNonzeroFloat64, math.MaxFloat64, -math.MaxFloat64,
	math.Inf(1), math.Inf(-1), math.NaN(), 1 << 53, 3, 42}
var timePool = []int64{0, 1, -1, 1_000_000_000_000_000_000, 1_500_000_000_123_456_789, math.MaxInt64, math.MinInt64, 999_999_999, 1_000_000_000}

func genInt(t *rapid.T, label string) int64 {
	if rapid.Bool().Draw(t, label+"/pool") {
		return rapid.SampledFrom(intPool).Draw(t, label)
	}
	return rapid.Int64().Draw(t, label)
}

func genFloat(t *rapid.T, label string) float64 {
	if rapid.Bool().Draw(t, label+"/pool") {
		return rapid.SampledFrom(floatPool).Draw(t, label)
	}
	return rapid.Float64().Draw(t, label)
}

func genTime(t *rapid.T, label string) int64 {
	switch rapid.IntRange(0, 3).Draw(t, label+"/class") {
	case 0:
		return rapid.SampledFrom(timePool).Draw(t, label)
	case 1:
		return rapid.Int64().Draw(t, label)
	default:
		return 1_600_000_000_000_000_000 + rapid.Int64Range(0, 1_000_000_000_000).Draw(t, label)
	}
}

// genFV draws a field value of one of the four field types kapacitor knows.
func genFV(t *rapid.T, label string) kit.FV {
	switch rapid.IntRange(0, 3).Draw(t, label+"/type") {
	case 0:
		return kit.I(genInt(t, label))
	case 1:
		return kit.F(genFloat(t, label))
	case 2:
		return kit.S(genStr(t, label))
	default:
		return kit.B(rapid.Bool().Draw(t, label))
	}
}

func genFields(t *rapid.T, label string, min, max int) map[string]kit.FV {
	n := rapid.IntRange(min, max).Draw(t, label+"/n")
	if n == 0 {
		return nil
	}
	m := map[string]kit.FV{}
	for i := 0; i < n; i++ {
		m[genKey(t, label+"/key")] = genFV(t, label+"/val")
	}
	return m
}

func genTags(t *rapid.T, label string, min, max int) map[string]string {
	n := rapid.IntRange(min, max).Draw(t, label+"/n")
	if n == 0 {
		return nil
	}
	m := map[string]string{}
	for i := 0; i < n; i++ {
		m[genKey(t, label+"/key")] = genStr(t, label+"/val")
	}
	return m
}

func genBytes(t *rapid.T, label string) []byte {
	switch rapid.IntRange(0, 9).Draw(t, label+"/class") {
	case 0:
		return nil
	case 1:
		return []byte{}
	case 2:
		return []byte{0}
	case 3:
		n := rapid.SampledFrom([]int{126, 127, 128, 129, 300, 4090, 4096, 5000, 16384, 20000, 1<<20 + 1, 1500000, 1<<21 + 77}).Draw(t, label+"/len")
		if n > 1<<20 {
			// larger than ReadMessage's first buffer: the buffer is grown while the message is read
			if hugeLeft <= 0 {
				n = 5000
			}
			hugeLeft--
		}
		if n >= 4000 {
			if bigLeft <= 0 {
				n = 300
			}
			bigLeft--
		}
		b := make([]byte, n)
		x := byte(rapid.IntRange(0, 255).Draw(t, label+"/fill"))
		for i := range b {
			b[i] = x + byte(i*7)
		}
		return b
	default:
		return rapid.SliceOfN(rapid.Byte(), 0, 40).Draw(t, label)
	}
}

// genChunks draws the read-size pattern of a fragmenting reader.
func genChunks(t *rapid.T, label string) []int {
	switch rapid.IntRange(0, 6).Draw(t, label+"/class") {
	case 0:
		return []int{1} // byte at a time: every multi-byte prefix is split
	case 1:
		return []int{0} // whole: whatever the caller asks for
	case 2:
		return rapid.SliceOfN(rapid.IntRange(1, 3), 1, 8).Draw(t, label)
	case 3:
		return rapid.SliceOfN(rapid.IntRange(1, 64), 1, 8).Draw(t, label)
	case 4:
		return rapid.SliceOfN(rapid.SampledFrom([]int{1, 2, 3, 126, 127, 128, 129, 4095, 4096, 4097, 0}), 1, 8).Draw(t, label)
	case 5:
		return rapid.SliceOfN(rapid.IntRange(1, 300), 1, 12).Draw(t, label)
	default:
		return []int{1, rapid.IntRange(1, 5000).Draw(t, label)}
	}
}

// ---------------------------------------------------------------- option specs (Init / Info payloads)

type OptVal struct {
	T int32  `json:"t"` // agent.ValueType
	B bool   `json:"b,omitempty"`
	I int64  `json:"i,omitempty"`
	F uint64 `json:"f,omitempty"` // float64 bits
	S string `json:"s,omitempty"`
}

type OptSpec struct {
	Name string   `json:"name"`
	Vals []OptVal `json:"vals,omitempty"`
}

func genOptVal(t *rapid.T, label string) OptVal {
	v := OptVal{T: int32(rapid.IntRange(0, 4).Draw(t, label+"/type"))}
	switch agent.ValueType(v.T) {
	case agent.ValueType_BOOL:
		v.B = rapid.Bool().Draw(t, label)
	case agent.ValueType_INT, agent.ValueType_DURATION:
		v.I = genInt(t, label)
	case agent.ValueType_DOUBLE:
		v.F = math.Float64bits(genFloat(t, label))
	case agent.ValueType_STRING:
		v.S = genStr(t, label)
	}
	return v
}

func genOpts(t *rapid.T, label string) []OptSpec {
	n := rapid.IntRange(0, 3).Draw(t, label+"/n")
	var out []OptSpec
	for i := 0; i < n; i++ {
		o := OptSpec{Name: genStr(t, label+"/name")}
		k := rapid.IntRange(0, 3).Draw(t, label+"/nv")
		for j := 0; j < k; j++ {
			o.Vals = append(o.Vals, genOptVal(t, label+"/val"))
		}
		out = append(out, o)
	}
	return out
}

func genInfoOpts(t *rapid.T, label string) map[string][]int32 {
	n := rapid.IntRange(0, 3).Draw(t, label+"/n")
	if n == 0 {
		return nil
	}
	m := map[string][]int32{}
	for i := 0; i < n; i++ {
		k := rapid.IntRange(0, 3).Draw(t, label+"/nv")
		var vt []int32
		for j := 0; j < k; j++ {
			vt = append(vt, int32(rapid.IntRange(0, 4).Draw(t, label+"/vt")))
		}
		m[genStr(t, label+"/name")] = vt
	}
	return m
}

func (v OptVal) proto() *agent.OptionValue {
	ov := &agent.OptionValue{Type: agent.ValueType(v.T)}
	switch ov.Type {
	case agent.ValueType_BOOL:
		ov.Value = &agent.OptionValue_BoolValue{BoolValue: v.B}
	case agent.ValueType_INT:
		ov.Value = &agent.OptionValue_IntValue{IntValue: v.I}
	case agent.ValueType_DOUBLE:
		ov.Value = &agent.OptionValue_DoubleValue{DoubleValue: math.Float64frombits(v.F)}
	case agent.ValueType_STRING:
		ov.Value = &agent.OptionValue_StringValue{StringValue: v.S}
	case agent.ValueType_DURATION:
		ov.Value = &agent.OptionValue_DurationValue{DurationValue: v.I}
	}
	return ov
}

func optsProto(specs []OptSpec) []*agent.Option {
	var out []*agent.Option
	for _, s := range specs {
		o := &agent.Option{Name: s.Name}
		for _, v := range s.Vals {
			o.Values = append(o.Values, v.proto())
		}
		out = append(out, o)
	}
	return out
}

func infoOptsProto(m map[string][]int32) map[string]*agent.OptionInfo {
	if len(m) == 0 {
		return nil
	}
	out := map[string]*agent.OptionInfo{}
	for k, vts := range m {
		oi := &agent.OptionInfo{}
		for _, vt := range vts {
			oi.ValueTypes = append(oi.ValueTypes, agent.ValueType(vt))
		}
		out[k] = oi
	}
	return out
}

// pointProto builds the wire point of a plain point (fields split by dynamic type).
func pointProto(p kit.Pt) *agent.Point {
	ap := &agent.Point{Time: p.Time, Name: p.Name, Database: p.DB, RetentionPolicy: p.RP, Group: p.Group,
		Dimensions: append([]string(nil), p.Dims...), ByName: p.ByName}
	if len(p.Tags) > 0 {
		ap.Tags = map[string]string{}
		for k, v := range p.Tags {
			ap.Tags[k] = v
		}
	}
	for _, k := range kit.SortedKeys(p.Fields) {
		switch v := p.Fields[k].Go().(type) {
		case int64:
			if ap.FieldsInt == nil {
				ap.FieldsInt = map[string]int64{}
			}
			ap.FieldsInt[k] = v
		case float64:
			if ap.FieldsDouble == nil {
				ap.FieldsDouble = map[string]float64{}
			}
			ap.FieldsDouble[k] = v
		case string:
			if ap.FieldsString == nil {
				ap.FieldsString = map[string]string{}
			}
			ap.FieldsString[k] = v
		case bool:
			if ap.FieldsBool == nil {
				ap.FieldsBool = map[string]bool{}
			}
			ap.FieldsBool[k] = v
		}
	}
	return ap
}

func fieldTypes(m map[string]kit.FV, into map[string]bool) {
	for _, v := range m {
		into[v.T] = true
	}
}

func sortedSet(m map[string]bool) []string {
	var out []string
	for k := range m {
		out = append(out, k)
	}
	sort.Strings(out)
	return out
}
