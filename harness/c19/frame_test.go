// C19, unit Frame — every protocol message written with agent.WriteMessage is read back
// by agent.ReadMessage as the same message, for every fragmentation of the byte stream.
package c19

import (
	"bufio"
	"bytes"
	"encoding/binary"
	"io"
	"testing"

	"github.com/influxdata/kapacitor/udf/agent"
	"google.golang.org/protobuf/proto"
	"verifharness/kit"

	"pgregory.net/rapid"
)

// MsgSpec is the plain (JSON) form of one agent.Request / agent.Response.
type MsgSpec struct {
	K string `json:"k"` // empty info init keepalive snapshot restore error begin point end

	Time int64  `json:"time,omitempty"` // keepalive
	Data []byte `json:"data,omitempty"` // snapshot response / restore request
	Ok   bool   `json:"ok,omitempty"`   // init / restore response
	Err  string `json:"err,omitempty"`  // init / restore / error response

	TaskID string    `json:"task,omitempty"` // init request
	NodeID string    `json:"node,omitempty"`
	Opts   []OptSpec `json:"opts,omitempty"`

	Wants    int32              `json:"wants,omitempty"` // info response
	Provides int32              `json:"provides,omitempty"`
	InfoOpts map[string][]int32 `json:"infoopts,omitempty"`

	P     *kit.Pt           `json:"p,omitempty"` // point
	Name  string            `json:"name,omitempty"`
	Group string            `json:"group,omitempty"`
	Tags  map[string]string `json:"tags,omitempty"`
	Size  int64             `json:"size,omitempty"`
	Tmax  int64             `json:"tmax,omitempty"`
	ByNm  bool              `json:"byname,omitempty"`
}

type FrameCase struct {
	Resp    bool      `json:"resp"`    // a stream of Responses (else Requests)
	Msgs    []MsgSpec `json:"msgs"`    // written in this order
	Chunks  []int     `json:"chunks"`  // read sizes of the fragmenting reader, cycled; 0 = as asked
	Reader  string    `json:"reader"`  // bufio | bufio16 | direct
	Reuse   bool      `json:"reuse"`   // one message object for all reads (agent.go) instead of a fresh one per read (server.go)
	CutBack int       `json:"cutback"` // > 0: the stream is truncated by this many bytes
}

const frameRule = "rapid: sequences of 0-14 Requests or Responses of every kind (plus the empty message) with generated payloads x read-size patterns (1 byte ... whole) x reader (bufio 4096 / bufio 16 / unbuffered) x message reuse x optional truncation; " +
	"non-trivial = a read boundary falls strictly inside a multi-byte varint length prefix and the sequence holds a point with >= 2 field types; distinct by case hash"

func genPointSpec(t *rapid.T) *kit.Pt {
	p := &kit.Pt{Name: rapid.SampledFrom(namePool).Draw(t, "name"), Time: genTime(t, "time")}
	if rapid.Bool().Draw(t, "dbrp") {
		p.DB, p.RP = genStr(t, "db"), genStr(t, "rp")
	}
	p.Group = genStr(t, "group")
	p.Dims = rapid.SliceOfN(rapid.SampledFrom(keyPool), 0, 3).Draw(t, "dims")
	if len(p.Dims) == 0 {
		p.Dims = nil
	}
	p.ByName = rapid.Bool().Draw(t, "byname")
	p.Tags = genTags(t, "tags", 0, 4)
	p.Fields = genFields(t, "fields", 0, 5)
	return p
}

func genMsg(t *rapid.T, resp bool) MsgSpec {
	kinds := []string{"empty", "info", "init", "keepalive", "snapshot", "restore", "begin", "point", "point", "point", "end"}
	if resp {
		kinds = append(kinds, "error")
	}
	m := MsgSpec{K: rapid.SampledFrom(kinds).Draw(t, "kind")}
	switch m.K {
	case "info":
		if resp {
			m.Wants = int32(rapid.IntRange(0, 1).Draw(t, "wants"))
			m.Provides = int32(rapid.IntRange(0, 1).Draw(t, "provides"))
			m.InfoOpts = genInfoOpts(t, "infoopts")
		}
	case "init":
		if resp {
			m.Ok = rapid.Bool().Draw(t, "ok")
			m.Err = genStr(t, "err")
		} else {
			m.TaskID, m.NodeID = genStr(t, "task"), genStr(t, "node")
			m.Opts = genOpts(t, "opts")
		}
	case "keepalive":
		m.Time = genTime(t, "katime")
	case "snapshot":
		if resp {
			m.Data = genBytes(t, "snap")
		}
	case "restore":
		if resp {
			m.Ok = rapid.Bool().Draw(t, "ok")
			m.Err = genStr(t, "err")
		} else {
			m.Data = genBytes(t, "snap")
		}
	case "error":
		m.Err = genStr(t, "err")
	case "begin":
		m.Name, m.Group, m.Tags = rapid.SampledFrom(namePool).Draw(t, "name"), genStr(t, "group"), genTags(t, "tags", 0, 3)
		m.Size = genInt(t, "size")
		m.ByNm = rapid.Bool().Draw(t, "byname")
	case "end":
		m.Name, m.Group, m.Tags = rapid.SampledFrom(namePool).Draw(t, "name"), genStr(t, "group"), genTags(t, "tags", 0, 3)
		m.Tmax = genTime(t, "tmax")
		m.ByNm = rapid.Bool().Draw(t, "byname")
	case "point":
		m.P = genPointSpec(t)
	}
	return m
}

func genFrame(t *rapid.T) FrameCase {
	bigLeft, hugeLeft = 3, 1
	c := FrameCase{Resp: rapid.Bool().Draw(t, "resp")}
	n := rapid.IntRange(0, 14).Draw(t, "n")
	for i := 0; i < n; i++ {
		c.Msgs = append(c.Msgs, genMsg(t, c.Resp))
	}
	c.Chunks = genChunks(t, "chunks")
	c.Reader = rapid.SampledFrom([]string{"bufio", "bufio", "bufio16", "direct"}).Draw(t, "reader")
	c.Reuse = rapid.Bool().Draw(t, "reuse")
	if rapid.IntRange(0, 5).Draw(t, "cut") == 0 {
		c.CutBack = rapid.IntRange(1, 400).Draw(t, "cutback")
	}
	return c
}

func copyTags(m map[string]string) map[string]string {
	if len(m) == 0 {
		return nil
	}
	out := map[string]string{}
	for k, v := range m {
		out[k] = v
	}
	return out
}

func (m MsgSpec) begin() *agent.BeginBatch {
	return &agent.BeginBatch{Name: m.Name, Group: m.Group, Tags: copyTags(m.Tags), Size: m.Size, ByName: m.ByNm}
}
func (m MsgSpec) end() *agent.EndBatch {
	return &agent.EndBatch{Name: m.Name, Group: m.Group, Tags: copyTags(m.Tags), Tmax: m.Tmax, ByName: m.ByNm}
}

// build makes the protobuf message of a spec (a fresh object on every call).
func (m MsgSpec) build(resp bool) proto.Message {
	if !resp {
		r := &agent.Request{}
		switch m.K {
		case "info":
			r.Message = &agent.Request_Info{Info: &agent.InfoRequest{}}
		case "init":
			r.Message = &agent.Request_Init{Init: &agent.InitRequest{Options: optsProto(m.Opts), TaskID: m.TaskID, NodeID: m.NodeID}}
		case "keepalive":
			r.Message = &agent.Request_Keepalive{Keepalive: &agent.KeepaliveRequest{Time: m.Time}}
		case "snapshot":
			r.Message = &agent.Request_Snapshot{Snapshot: &agent.SnapshotRequest{}}
		case "restore":
			r.Message = &agent.Request_Restore{Restore: &agent.RestoreRequest{Snapshot: m.Data}}
		case "begin":
			r.Message = &agent.Request_Begin{Begin: m.begin()}
		case "point":
			r.Message = &agent.Request_Point{Point: pointProto(*m.P)}
		case "end":
			r.Message = &agent.Request_End{End: m.end()}
		}
		return r
	}
	r := &agent.Response{}
	switch m.K {
	case "info":
		r.Message = &agent.Response_Info{Info: &agent.InfoResponse{Wants: agent.EdgeType(m.Wants), Provides: agent.EdgeType(m.Provides), Options: infoOptsProto(m.InfoOpts)}}
	case "init":
		r.Message = &agent.Response_Init{Init: &agent.InitResponse{Success: m.Ok, Error: m.Err}}
	case "keepalive":
		r.Message = &agent.Response_Keepalive{Keepalive: &agent.KeepaliveResponse{Time: m.Time}}
	case "snapshot":
		r.Message = &agent.Response_Snapshot{Snapshot: &agent.SnapshotResponse{Snapshot: m.Data}}
	case "restore":
		r.Message = &agent.Response_Restore{Restore: &agent.RestoreResponse{Success: m.Ok, Error: m.Err}}
	case "error":
		r.Message = &agent.Response_Error{Error: &agent.ErrorResponse{Error: m.Err}}
	case "begin":
		r.Message = &agent.Response_Begin{Begin: m.begin()}
	case "point":
		r.Message = &agent.Response_Point{Point: pointProto(*m.P)}
	case "end":
		r.Message = &agent.Response_End{End: m.end()}
	}
	return r
}

func newMsg(resp bool) proto.Message {
	if resp {
		return new(agent.Response)
	}
	return new(agent.Request)
}

func uvarintLen(n int) int {
	var b [binary.MaxVarintLen64]byte
	return binary.PutUvarint(b[:], uint64(n))
}

func detBytes(m proto.Message) []byte {
	b, _ := proto.MarshalOptions{Deterministic: true}.Marshal(m)
	return b
}

func runFrame(c FrameCase, cc *kit.Case) {
	// ---- write
	var stream bytes.Buffer
	orig := make([]proto.Message, len(c.Msgs))
	ends := make([]int, len(c.Msgs)) // end offset of frame i, from proto.Size (independent of WriteMessage)
	off := 0
	multiPrefix, twoTypes := false, false
	for i, ms := range c.Msgs {
		orig[i] = ms.build(c.Resp)
		if err := agent.WriteMessage(orig[i], &stream); err != nil {
			cc.Fail("frame/write-error", "WriteMessage(message %d, %s) failed: %v", i, ms.K, err)
			return
		}
		sz := proto.Size(orig[i])
		off += uvarintLen(sz) + sz
		ends[i] = off
		if uvarintLen(sz) > 1 {
			multiPrefix = true
		}
		if ms.P != nil {
			ty := map[string]bool{}
			fieldTypes(ms.P.Fields, ty)
			if len(ty) >= 2 {
				twoTypes = true
			}
		}
		cc.Label("kind:" + ms.K)
		if len(ms.Data) > 1<<20 {
			if i+1 < len(c.Msgs) {
				cc.Label("payload>1MiB-followed")
			} else {
				cc.Label("payload>1MiB-last")
			}
		}
	}
	data := stream.Bytes()
	if len(data) != off {
		cc.Fail("frame/write-length", "WriteMessage wrote %d bytes for %d messages; varint(len)+len of the messages sums to %d", len(data), len(c.Msgs), off)
		return
	}
	cut := false
	if c.CutBack > 0 && len(data) > 0 {
		cut = true
		k := len(data) - c.CutBack
		if k < 0 {
			k = 0
		}
		data = data[:k]
	}
	complete := 0
	for complete < len(ends) && ends[complete] <= len(data) {
		complete++
	}
	atBoundary := len(data) == 0 || (complete > 0 && ends[complete-1] == len(data))

	// ---- read back through the fragmenting reader
	fr := &fragReader{src: bytes.NewReader(data), sizes: c.Chunks, scan: &scanner{}}
	var r agent.ByteReadReader
	switch c.Reader {
	case "bufio16":
		r = bufio.NewReaderSize(fr, 16)
	case "direct":
		r = directReader{fr}
	default:
		r = bufio.NewReader(fr) // what udf.go, agent.go and udf/test do
	}
	var buf []byte // one buffer for the whole stream, as both callers do
	reused := newMsg(c.Resp)
	var got []proto.Message
	for i := 0; i < complete; i++ {
		m := reused
		if !c.Reuse {
			m = newMsg(c.Resp)
		}
		if err := agent.ReadMessage(&buf, r, m); err != nil {
			cc.Fail("frame/read-error", "ReadMessage of message %d/%d (%s, %d bytes payload) failed: %v (reader %s, chunks %v, %d reads so far)",
				i, len(c.Msgs), c.Msgs[i].K, proto.Size(orig[i]), err, c.Reader, c.Chunks, fr.reads)
			return
		}
		if !proto.Equal(orig[i], m) {
			cc.Fail("frame/message-differs", "message %d (%s) read back differs (reader %s, chunks %v)\nwritten: %s\nread:    %s", i, c.Msgs[i].K, c.Reader, c.Chunks, clip(orig[i].(interface{ String() string }).String()), clip(m.(interface{ String() string }).String()))
			return
		}
		if !bytes.Equal(detBytes(orig[i]), detBytes(m)) {
			cc.Fail("frame/message-bytes-differ", "message %d (%s) read back is proto.Equal but serialises differently (sign of zero / NaN payload?)", i, c.Msgs[i].K)
			return
		}
		if !c.Reuse {
			got = append(got, m)
		}
	}
	// a message delivered earlier must not change when later messages are read into the shared buffer
	for i, m := range got {
		if !proto.Equal(orig[i], m) {
			cc.Fail("frame/message-aliased", "message %d (%s) changed after later reads into the same buffer", i, c.Msgs[i].K)
			return
		}
	}
	// ---- end of stream
	last := newMsg(c.Resp)
	err := agent.ReadMessage(&buf, r, last)
	switch {
	case err == nil:
		cc.Fail("frame/phantom-message", "after the %d complete messages of a %d-byte stream ReadMessage delivered one more: %s", complete, len(data), clip(last.(interface{ String() string }).String()))
		return
	case atBoundary && err != io.EOF:
		cc.Fail("frame/eof", "stream ends after message %d/%d at a frame boundary: ReadMessage returned %v, want io.EOF (the clean end both read loops test for)", complete, len(c.Msgs), err)
		return
	case !atBoundary && err == io.EOF:
		cc.Label("truncated-midframe-reported-as-clean-EOF") // not asserted: outside the statement
	}

	// ---- labels
	if c.Resp {
		cc.Label("responses")
	} else {
		cc.Label("requests")
	}
	cc.Label("reader:" + c.Reader)
	if c.Reuse {
		cc.Label("message-reused")
	}
	if cut {
		cc.Label("truncated")
		if atBoundary {
			cc.Label("truncated-at-boundary")
		}
	}
	if len(c.Msgs) == 0 {
		cc.Label("empty-stream")
	}
	if multiPrefix {
		cc.Label("prefix>=2B")
	}
	if fr.scan.big > 0 {
		cc.Label("payload>4096")
	}
	if fr.splitPrefix > 0 {
		cc.Label("prefix-split")
	}
	if fr.splitPayload > 0 {
		cc.Label("payload-split")
	}
	if len(c.Chunks) == 1 && c.Chunks[0] == 1 {
		cc.Label("byte-at-a-time")
	}
	if fr.splitPrefix > 0 && twoTypes && !cut {
		cc.NonTrivial()
	}
}

var frameAssumptions = []string{
	"Frame: messages are valid protobuf messages (strings are valid UTF-8: proto3 refuses to marshal anything else, so such a message is never 'written'); the empty Request/Response (zero-length frame) is included",
	"Frame: the reader is a bufio.Reader over the fragmenting reader (what udf.go/agent.go/udf/test do; sizes 4096 and 16) or an unbuffered ByteReadReader; reads never return (0,nil) and never return data together with io.EOF (bufio never does)",
	"Frame: equality is proto.Equal plus equality of the deterministic serialisation (bit-exact floats); truncated streams must deliver exactly the complete messages and then an error (io.EOF is demanded only at a frame boundary)",
}

func TestFrame(t *testing.T) {
	r := kit.NewRec("C19", "Frame", frameRule, frameAssumptions...)
	kit.Check(t, r, genFrame, runFrame)
}

func TestReplayFrame(t *testing.T) {
	r := kit.NewRec("C19", "Frame", frameRule, frameAssumptions...)
	kit.Replay(t, r, runFrame)
}

// ---------------------------------------------------------------- native fuzzing

const fuzzMaxLen = 64 << 20

// FuzzReadMessage: arbitrary bytes handed to ReadMessage yield messages or an error,
// never a panic. Inputs are cut in front of the first frame whose varint length exceeds
// 64 MiB (ReadMessage allocates whatever length the stream announces; that class is
// reported separately and excluded here so that the fuzzer can look behind it).
func FuzzReadMessage(f *testing.F) {
	var seedBuf bytes.Buffer
	for _, ms := range []MsgSpec{{K: "keepalive", Time: 42}, {K: "empty"}, {K: "restore", Data: []byte{1, 2, 3}},
		{K: "point", P: &kit.Pt{Name: "m", Time: 1, Tags: map[string]string{"a": "b"}, Fields: map[string]kit.FV{"i": kit.I(1), "f": kit.F(1.5), "s": kit.S("x"), "b": kit.B(true)}}},
		{K: "begin", Name: "m", Size: 2}, {K: "end", Name: "m", Tmax: 9}} {
		_ = agent.WriteMessage(ms.build(false), &seedBuf)
		_ = agent.WriteMessage(ms.build(true), &seedBuf)
	}
	f.Add(seedBuf.Bytes(), true, uint8(0))
	f.Add(seedBuf.Bytes(), false, uint8(1))
	f.Add([]byte{0x80}, true, uint8(1))
	f.Add([]byte{0x05, 1, 2}, false, uint8(3))
	f.Add([]byte{0xff, 0xff, 0xff, 0xff, 0xff, 0xff, 0xff, 0xff, 0xff, 0x7f}, true, uint8(0))
	f.Add([]byte{0x80, 0x80, 0x80, 0x20, 0}, true, uint8(2)) // exactly 64 MiB announced, 1 byte present
	f.Fuzz(func(t *testing.T, data []byte, resp bool, chunk uint8) {
		// cut in front of the first over-long frame (harness-owned scan of the framing)
		pos := 0
		for pos < len(data) {
			size, n := binary.Uvarint(data[pos:])
			if n <= 0 { // incomplete or overflowing varint: ReadUvarint reports an error
				break
			}
			if size > fuzzMaxLen {
				data = data[:pos]
				break
			}
			if size > uint64(len(data)-pos-n) {
				break
			}
			pos += n + int(size)
		}
		fr := &fragReader{src: bytes.NewReader(data), sizes: []int{int(chunk)}}
		r := bufio.NewReader(fr)
		var buf []byte
		for i := 0; i <= len(data); i++ {
			m := newMsg(resp)
			if err := agent.ReadMessage(&buf, r, m); err != nil {
				return
			}
			// a delivered message is a well-formed message: it can be written and read again unchanged
			var b bytes.Buffer
			if err := agent.WriteMessage(m, &b); err != nil {
				t.Fatalf("[sig=fuzz/rewrite-error] a message delivered by ReadMessage cannot be written: %v", err)
			}
			m2 := newMsg(resp)
			var buf2 []byte
			if err := agent.ReadMessage(&buf2, bufio.NewReader(&b), m2); err != nil || !proto.Equal(m, m2) {
				t.Fatalf("[sig=fuzz/reread-differs] delivered message does not survive a write/read cycle: %v", err)
			}
		}
		t.Fatalf("[sig=fuzz/too-many-messages] more messages delivered than bytes in the stream (%d)", len(data))
	})
}
