// C19, unit Node — the UDF node inside a running task. Units Frame/Echo/Race drive udf.Server
// directly; here the echoing UDF sits in a pipeline: the task master's UDFService hands the UDF node
// a kapacitor.UDFSocket whose "socket" is a pair of in-process pipes (fragmented by generated read
// sizes) to a real udf/agent.Agent with the mirroring handler, the task's snapshot loop asks the
// UDF for snapshots while data flows, and a restarted task restores the saved snapshot.
//
// Oracle: a log() node directly above the UDF node and one directly below it observe the same
// messages, in the same order, attribute by attribute (name, database, retention policy, group id,
// dimensions, tags, field names / types / values, time, batch boundaries); every snapshot the task
// saves carries, for the UDF node, bytes that the UDF supplied, in the order it supplied them; the
// bytes handed to the UDF's Restore after a restart are the bytes of the saved snapshot.
package c19

import (
	"bytes"
	"encoding/binary"
	"fmt"
	"io"
	"strings"
	"sync"
	"sync/atomic"
	"testing"
	"time"

	"verifharness/kit"

	"github.com/influxdata/kapacitor"
	"github.com/influxdata/kapacitor/udf"
	"github.com/influxdata/kapacitor/udf/agent"
	"pgregory.net/rapid"
)

type NodeCase struct {
	Form       string   `json:"form"` // stream | window | query
	Dims       []string `json:"dims,omitempty"`
	Star       bool     `json:"star,omitempty"`   // groupBy(*)
	ByMeas     bool     `json:"bymeas,omitempty"` // .groupByMeasurement()
	WinN       int      `json:"win,omitempty"`    // window form: periodCount = everyCount
	Points     []kit.Pt `json:"points,omitempty"`
	More       []kit.Pt `json:"more,omitempty"` // fed after the restart
	Batches    []kit.Bt `json:"batches,omitempty"`
	Buffered   bool     `json:"buffered"`
	RespChunks []int    `json:"resp_chunks"`
	ReqChunks  []int    `json:"req_chunks"`
	TimeoutMs  int      `json:"timeout_ms"` // keepalive timeout of the UDF (0 = off)
	SnapMs     int      `json:"snap_ms"`    // snapshot interval of the task (0 = no snapshots)
	Snap       []byte   `json:"snap,omitempty"`
	Restart    bool     `json:"restart,omitempty"`
	// StopFirst: the first life ends with StopTask (the user disables the task) and the second one
	// runs in the same task master, instead of a restart of the daemon
	StopFirst bool `json:"stopfirst,omitempty"`
	// HoldB (with StopFirst): the log() below the UDF node does not take anything until 50 ms
	// after StopTask was called, and the points are fed Repeat times: the edge below the UDF
	// node is full when the task is stopped
	// OpenDelayMs: the UDF takes this long to accept the connection (Socket.Open returns late)
	OpenDelayMs int `json:"open_delay_ms,omitempty"`
	HoldB  bool `json:"holdb,omitempty"`
	Repeat int  `json:"repeat,omitempty"`
}

const ruleNode = "rapid: tasks stream|from()[.groupBy(0-2 tags | *)][.groupByMeasurement()]|log()@echo()|log(), ...|window().periodCount(n).everyCount(n)|log()@echoB()|log() and batch|query()|log()@echoB()|log() " +
	"over 0-14 points / 0-5 batches with int64/float64/string/bool fields and hostile strings; the UDF is udf/agent's Agent with a mirroring handler behind kapacitor.UDFSocket over in-process pipes fragmented by generated read sizes; " +
	"optionally a task snapshot interval of 1-3 ms (snapshot requests interleaved with the data) and a restart of the task from the last saved snapshot followed by more points; " +
	"oracle: the log() below the UDF node shows exactly what the log() above it shows, attribute by attribute and in order; saved snapshots carry bytes the UDF supplied, in order; Restore receives the saved bytes; " +
	"non-trivial = >= 4 messages crossed the UDF node, >= 2 groups, and (a snapshot was saved while data flowed or a batch of >= 2 points crossed); distinct by case hash"

var nodeDims = []string{"host", "dc", "a b", "é"}

func genNode(t *rapid.T) NodeCase {
	bigLeft, hugeLeft = 1, 0
	c := NodeCase{Form: rapid.SampledFrom([]string{"stream", "stream", "window", "query"}).Draw(t, "form")}
	c.Buffered = rapid.Bool().Draw(t, "buffered")
	c.RespChunks = genChunks(t, "resp_chunks")
	c.ReqChunks = genChunks(t, "req_chunks")
	c.TimeoutMs = rapid.SampledFrom([]int{0, 0, 500, 2000}).Draw(t, "timeout")
	if rapid.IntRange(0, 2).Draw(t, "snapshots") == 0 {
		c.SnapMs = rapid.IntRange(1, 3).Draw(t, "snapms")
		c.Snap = genBytes(t, "snap")
		if len(c.Snap) == 0 {
			c.Snap = []byte{0}
		}
		c.Restart = rapid.Bool().Draw(t, "restart")
		c.OpenDelayMs = rapid.SampledFrom([]int{0, 0, 0, 5, 20}).Draw(t, "opendelay")
		c.StopFirst = c.Restart && rapid.Bool().Draw(t, "stopfirst")
		if c.StopFirst {
			// StopTask aborts the UDF; with a transport that can fill up in both directions the
			// abort never returns (C07's known finding stop/hang/udf, found by this unit): the
			// stop-then-start form runs over the unbounded pipes
			c.Buffered = true
			if rapid.IntRange(0, 5).Draw(t, "holdb") == 0 {
				c.TimeoutMs = 0 // nothing is read from the UDF while the edge below it is held
				c.HoldB, c.Repeat = true, rapid.SampledFrom([]int{1, 150, 300}).Draw(t, "repeat")
			}
		}
	}
	if c.Form != "query" {
		switch rapid.IntRange(0, 3).Draw(t, "grouping") {
		case 0:
		case 1:
			c.Star = true
		default:
			c.Dims = sortedUnique(rapid.SliceOfN(rapid.SampledFrom(nodeDims), 1, 2).Draw(t, "dims"))
		}
		c.ByMeas = rapid.IntRange(0, 2).Draw(t, "bymeas") == 0
		if c.Form == "window" {
			c.WinN = rapid.IntRange(1, 4).Draw(t, "win")
		}
		names := rapid.SliceOfN(rapid.SampledFrom(namePool), 1, 2).Draw(t, "names")
		vals := []string{genStr(t, "v0"), genStr(t, "v1")}
		pt := func(label string) kit.Pt {
			p := kit.Pt{Name: rapid.SampledFrom(names).Draw(t, label+"name"), DB: "db", RP: "rp", Time: genTime(t, label+"time")}
			p.Tags = genTags(t, label+"tags", 0, 2)
			for _, d := range nodeDims[:2+rapid.IntRange(0, 2).Draw(t, label+"ndims")] {
				if rapid.IntRange(0, 3).Draw(t, label+"has") != 0 {
					if p.Tags == nil {
						p.Tags = map[string]string{}
					}
					p.Tags[d] = rapid.SampledFrom(vals).Draw(t, label+"val")
				}
			}
			p.Fields = genFields(t, label+"fields", 1, 4)
			return p
		}
		for i, n := 0, rapid.IntRange(0, 14).Draw(t, "npoints"); i < n; i++ {
			c.Points = append(c.Points, pt("p"))
		}
		if c.Restart {
			for i, n := 0, rapid.IntRange(1, 4).Draw(t, "nmore"); i < n; i++ {
				c.More = append(c.More, pt("m"))
			}
		}
		return c
	}
	c.Restart, c.StopFirst, c.HoldB, c.Repeat = false, false, false, 0
	for i, n := 0, rapid.IntRange(0, 5).Draw(t, "nbatches"); i < n; i++ {
		c.Batches = append(c.Batches, *genBatch(t))
	}
	return c
}

func tickStr(s string) string {
	return "'" + strings.NewReplacer(`\`, `\\`, `'`, `\'`).Replace(s) + "'"
}

func (c NodeCase) script() string {
	var s strings.Builder
	if c.Form == "query" {
		s.WriteString(`batch|query('SELECT * FROM "db"."rp"."m"').period(10s).every(10s)`)
	} else {
		s.WriteString("stream|from()")
		switch {
		case c.Star:
			s.WriteString(".groupBy(*)")
		case len(c.Dims) > 0:
			var qs []string
			for _, d := range c.Dims {
				qs = append(qs, tickStr(d))
			}
			s.WriteString(".groupBy(" + strings.Join(qs, ", ") + ")")
		}
		if c.ByMeas {
			s.WriteString(".groupByMeasurement()")
		}
		if c.Form == "window" {
			fmt.Fprintf(&s, "|window().periodCount(%d).everyCount(%d)", c.WinN, c.WinN)
		}
	}
	s.WriteString("|log().prefix('A')")
	if c.Form == "stream" {
		s.WriteString("@echo()")
	} else {
		s.WriteString("@echoB()")
	}
	s.WriteString("|log().prefix('B')")
	return s.String()
}

// ---------------------------------------------------------------- the UDF service of the task master

type nodeHandler struct {
	a     *agent.Agent
	batch bool
	svc   *nodeUDFs
}

func (h *nodeHandler) Info() (*agent.InfoResponse, error) {
	et := agent.EdgeType_STREAM
	if h.batch {
		et = agent.EdgeType_BATCH
	}
	return &agent.InfoResponse{Wants: et, Provides: et, Options: map[string]*agent.OptionInfo{}}, nil
}
func (h *nodeHandler) Init(r *agent.InitRequest) (*agent.InitResponse, error) {
	h.svc.mu.Lock()
	h.svc.inits = append(h.svc.inits, r.TaskID+"/"+r.NodeID)
	h.svc.mu.Unlock()
	return &agent.InitResponse{Success: true}, nil
}
func (h *nodeHandler) Snapshot() (*agent.SnapshotResponse, error) {
	h.svc.mu.Lock()
	defer h.svc.mu.Unlock()
	b := binary.AppendUvarint(append([]byte(nil), h.svc.base...), uint64(len(h.svc.supplied)))
	h.svc.supplied = append(h.svc.supplied, b)
	return &agent.SnapshotResponse{Snapshot: append([]byte(nil), b...)}, nil
}
func (h *nodeHandler) Restore(req *agent.RestoreRequest) (*agent.RestoreResponse, error) {
	h.svc.mu.Lock()
	h.svc.restored = append(h.svc.restored, append([]byte{}, req.Snapshot...))
	h.svc.mu.Unlock()
	return &agent.RestoreResponse{Success: true}, nil
}
func (h *nodeHandler) BeginBatch(b *agent.BeginBatch) error {
	h.a.Responses <- &agent.Response{Message: &agent.Response_Begin{Begin: b}}
	return nil
}
func (h *nodeHandler) Point(p *agent.Point) error {
	h.svc.echoed.Add(1)
	h.a.Responses <- &agent.Response{Message: &agent.Response_Point{Point: p}}
	return nil
}
func (h *nodeHandler) EndBatch(e *agent.EndBatch) error {
	h.a.Responses <- &agent.Response{Message: &agent.Response_End{End: e}}
	return nil
}
func (h *nodeHandler) Stop() { close(h.a.Responses) }

// pipeSocket is the kapacitor.Socket of one UDF node: two in-process pipes to an agent.
type pipeSocket struct {
	svc   *nodeUDFs
	batch bool

	once               sync.Once
	reqR, respR        io.ReadCloser
	reqW, respW        io.WriteCloser
	respFrag           *fragReader
	agentDone          chan error
}

func (s *pipeSocket) Open() error {
	if d := s.svc.c.OpenDelayMs; d > 0 {
		time.Sleep(time.Duration(d) * time.Millisecond)
	}
	s.reqR, s.reqW = newPipe(s.svc.c.Buffered)
	s.respR, s.respW = newPipe(s.svc.c.Buffered)
	reqFrag := &fragReader{src: s.reqR, sizes: s.svc.c.ReqChunks}
	s.respFrag = &fragReader{src: s.respR, sizes: s.svc.c.RespChunks, scan: &scanner{}}
	a := agent.New(readCloser{reqFrag, s.reqR}, s.respW)
	a.Handler = &nodeHandler{a: a, batch: s.batch, svc: s.svc}
	if err := a.Start(); err != nil {
		return err
	}
	s.agentDone = make(chan error, 1)
	go func() { s.agentDone <- a.Wait() }()
	s.svc.mu.Lock()
	s.svc.sockets = append(s.svc.sockets, s)
	s.svc.mu.Unlock()
	return nil
}

// Close is what closing the connection does: the agent sees EOF on its input; whatever it still
// writes is swallowed until it closes its output.
func (s *pipeSocket) Close() error {
	s.once.Do(func() {
		s.reqW.Close()
		go io.Copy(io.Discard, s.respR)
	})
	return nil
}
func (s *pipeSocket) In() io.WriteCloser { return s.reqW }
func (s *pipeSocket) Out() io.Reader     { return s.respFrag }

type nodeUDFs struct {
	c    *NodeCase
	base []byte

	mu       sync.Mutex
	supplied [][]byte
	restored [][]byte
	inits    []string
	sockets  []*pipeSocket
	diagErrs []string
	echoed   atomic.Int64 // points the agent has echoed
}

func (u *nodeUDFs) List() []string { return []string{"echo", "echoB"} }
func (u *nodeUDFs) Info(name string) (udf.Info, bool) {
	switch name {
	case "echo":
		return udf.Info{Wants: agent.EdgeType_STREAM, Provides: agent.EdgeType_STREAM, Options: map[string]*agent.OptionInfo{}}, true
	case "echoB":
		return udf.Info{Wants: agent.EdgeType_BATCH, Provides: agent.EdgeType_BATCH, Options: map[string]*agent.OptionInfo{}}, true
	}
	return udf.Info{}, false
}
func (u *nodeUDFs) Create(name, taskID, nodeID string, d udf.Diagnostic, abortCallback func()) (udf.Interface, error) {
	sock := &pipeSocket{svc: u, batch: name == "echoB"}
	return kapacitor.NewUDFSocket(taskID, nodeID, sock, d, time.Duration(u.c.TimeoutMs)*time.Millisecond, abortCallback), nil
}

// snapStore is the task master's TaskStore: it keeps every snapshot the task saves.
type snapStore struct {
	mu    sync.Mutex
	saved []*kapacitor.TaskSnapshot
	load  *kapacitor.TaskSnapshot
}

func (s *snapStore) SaveSnapshot(id string, snap *kapacitor.TaskSnapshot) error {
	cp := &kapacitor.TaskSnapshot{NodeSnapshots: map[string][]byte{}}
	for k, v := range snap.NodeSnapshots {
		cp.NodeSnapshots[k] = append([]byte(nil), v...)
	}
	s.mu.Lock()
	s.saved = append(s.saved, cp)
	s.mu.Unlock()
	return nil
}
func (s *snapStore) HasSnapshot(id string) bool {
	s.mu.Lock()
	defer s.mu.Unlock()
	return s.load != nil
}
func (s *snapStore) LoadSnapshot(id string) (*kapacitor.TaskSnapshot, error) {
	s.mu.Lock()
	defer s.mu.Unlock()
	if s.load == nil {
		return nil, fmt.Errorf("no snapshot")
	}
	return s.load, nil
}

func udfSnap(s *kapacitor.TaskSnapshot) []byte {
	for k, v := range s.NodeSnapshots {
		if strings.HasPrefix(k, "echo") {
			return v
		}
	}
	return nil
}

// ---------------------------------------------------------------- run

func runNode(c NodeCase, cc *kit.Case) {
	cc.Label("form:" + c.Form)
	svc := &nodeUDFs{c: &c, base: c.Snap}
	store := &snapStore{}
	newEnv := func() *kit.Env {
		env, err := kit.NewEnv(kit.EnvOpts{Prepare: func(e *kit.Env) {
			e.TM.UDFService = svc
			e.TM.TaskStore = store
		}})
		if err != nil {
			cc.Fail("harness/env", "env: %v", err)
			return nil
		}
		return env
	}
	env := newEnv()
	if env == nil {
		return
	}
	defer func() { env.Close() }()
	script := c.script()
	tt := kapacitor.StreamTask
	if c.Form == "query" {
		tt = kapacitor.BatchTask
	}
	id := "n" + kit.Unique()

	releaseB := make(chan struct{})
	var releaseOnce sync.Once
	openB := func() { releaseOnce.Do(func() { close(releaseB) }) }
	defer openB()
	if c.HoldB && c.StopFirst && c.Form != "query" {
		cc.Label("edge-below-the-udf-held-at-stop")
		env.Sink.OnObs = func(prefix string) {
			if prefix == "B" {
				<-releaseB
			}
		}
	}
	// one life of the task: start, feed, end; returns false after a failure
	life := func(pts []kit.Pt, bts []kit.Bt, stop bool) bool {
		task, err := env.TM.NewTask(id, script, tt, kit.DefaultDBRP, time.Duration(c.SnapMs)*time.Millisecond, nil)
		if err != nil {
			cc.Fail("harness/script-rejected", "script rejected: %v\n%s", err, script)
			return false
		}
		et, err := env.TM.StartTask(task)
		if err != nil {
			cc.Fail("node/start-error", "StartTask: %v\n%s", err, script)
			return false
		}
		waitSnap := func(n int) {
			if c.SnapMs == 0 {
				return
			}
			// let the snapshot loop run while data is under way (bounded; no verdict depends on it)
			deadline := time.Now().Add(300 * time.Millisecond)
			for time.Now().Before(deadline) {
				store.mu.Lock()
				k := len(store.saved)
				store.mu.Unlock()
				if k >= n {
					return
				}
				time.Sleep(200 * time.Microsecond)
			}
		}
		store.mu.Lock()
		before := len(store.saved)
		store.mu.Unlock()
		if c.Form == "query" {
			cols := env.TM.BatchCollectors(id)
			if len(cols) != 1 {
				cc.Fail("harness/collectors", "%d batch collectors", len(cols))
				return false
			}
			for i, b := range bts {
				if err := cols[0].CollectBatch(b.Msg()); err != nil {
					cc.Fail("node/collect-error", "collect batch: %v", err)
					return false
				}
				if i == len(bts)/2 {
					waitSnap(before + 1)
				}
			}
			waitSnap(before + 2)
			cols[0].Close()
		} else {
			for i, p := range pts {
				if err := env.TM.WriteKapacitorPoint(p.Msg()); err != nil {
					cc.Fail("node/write-error", "write: %v", err)
					return false
				}
				if i == len(pts)/2 {
					waitSnap(before + 1)
				}
			}
			waitSnap(before + 2)
			if stop {
				if c.HoldB {
					// let the edge below the UDF node fill up (bounded; no verdict depends on it)
					want := int64(len(pts))
					if want > 1100 {
						want = 1100
					}
					for deadline := time.Now().Add(2 * time.Second); svc.echoed.Load() < want && time.Now().Before(deadline); {
						time.Sleep(time.Millisecond)
					}
					time.Sleep(20 * time.Millisecond)
				}
				stopped := make(chan error, 1)
				go func() { stopped <- env.TM.StopTask(id) }()
				if c.HoldB {
					time.Sleep(50 * time.Millisecond)
					openB()
				}
				select {
				case <-stopped:
					// the error StopTask returns for a UDF node ("node aborted") is not this unit's subject
				case <-time.After(hangBound):
					cc.Fail("hang/node-stop", "StopTask did not return within %v\n%s\n%s", hangBound, script, goroutineDump(20000))
					return false
				}
			} else {
				env.TM.Drain()
			}
		}
		et.StopStats()
		done := make(chan error, 1)
		go func() { done <- et.Wait() }()
		select {
		case err := <-done:
			if err != nil && strings.Contains(err.Error(), "keepalive timedout") {
				// real-time dependent (the machine is shared): no verdict for this case
				cc.Label("keepalive-timeout(inconclusive)")
				return false
			}
			if err != nil && !stop {
				cc.Fail("node/task-error", "the task ended with an error: %v\n%s", err, script)
				return false
			}
		case <-time.After(hangBound):
			cc.Fail("hang/node", "the task did not end within %v\n%s\n%s", hangBound, script, goroutineDump(8000))
			return false
		}
		return true
	}

	first := c.Points
	for i := 1; i < c.Repeat; i++ {
		first = append(first, c.Points...)
	}
	if !life(first, c.Batches, c.StopFirst) {
		return
	}
	above, below := env.Sink.By("A"), env.Sink.By("B")
	aboveCut, belowCut := len(above), len(below)
	savedFirst := 0
	if c.Restart {
		store.mu.Lock()
		savedFirst = len(store.saved)
		if savedFirst > 0 {
			store.load = store.saved[savedFirst-1]
		}
		store.mu.Unlock()
		if savedFirst > 0 {
			cc.Label("restart-from-snapshot")
		} else {
			cc.Label("restart-without-snapshot")
		}
		if c.StopFirst {
			cc.Label("stop-then-start")
			if !life(c.More, nil, false) {
				return
			}
			above, below = env.Sink.By("A"), env.Sink.By("B")
		} else {
			// the daemon restarts: a new task master with the same task store and UDF service
			env.Close()
			if env = newEnv(); env == nil {
				return
			}
			if !life(c.More, nil, false) {
				return
			}
			above, below = append(above, env.Sink.By("A")...), append(below, env.Sink.By("B")...)
		}
	}

	// ---- what crossed the UDF node
	groups := map[string]bool{}
	bigBatch := false
	item := func(o kit.Obs) obsItem {
		switch {
		case o.P != nil:
			groups[o.P.Group] = true
			return obsItem{P: o.P}
		case o.B != nil:
			groups[o.B.Group] = true
			if len(o.B.Points) >= 2 {
				bigBatch = true
			}
			return obsItem{B: &obsBatch{Bt: *o.B, Size: len(o.B.Points), HasEnd: true}}
		}
		return obsItem{Other: "?"}
	}
	if c.StopFirst {
		// StopTask aborts the UDF: what left the node before is a prefix of what entered it; the
		// second life is compared in full
		if belowCut > aboveCut {
			cc.Fail("node/count", "%d messages entered the UDF node before the stop, %d left it\n%s", aboveCut, belowCut, script)
			return
		}
		above = append(append([]kit.Obs{}, above[:belowCut]...), above[aboveCut:]...)
	}
	n := len(above)
	if len(below) != n {
		cc.Fail("node/count", "%d messages entered the UDF node, %d left it\n%s", len(above), len(below), script)
		return
	}
	for i := 0; i < n; i++ {
		a, b := item(above[i]), item(below[i])
		switch {
		case a.P != nil && b.P != nil:
			if attr, d := diffPoint(*a.P, *b.P); attr != "" {
				cc.Fail("node/point-"+attr, "message %d: the point left the UDF node changed: %s\nentered %s\nleft    %s\n%s", i, d, fmtItem(a), fmtItem(b), script)
				return
			}
		case a.B != nil && b.B != nil:
			if attr, d := diffBatch(*a.B, *b.B); attr != "" {
				cc.Fail("node/batch-"+attr, "message %d: the batch left the UDF node changed: %s\nentered %s\nleft    %s\n%s", i, d, fmtItem(a), fmtItem(b), script)
				return
			}
		default:
			cc.Fail("node/kind", "message %d entered the UDF node as %s and left it as %s\n%s", i, fmtItem(a), fmtItem(b), script)
			return
		}
	}

	// ---- snapshots
	svc.mu.Lock()
	supplied, restored := svc.supplied, svc.restored
	svc.mu.Unlock()
	store.mu.Lock()
	saved := store.saved
	store.mu.Unlock()
	next := 0
	for k, s := range saved {
		b := udfSnap(s)
		found := -1
		for j := next; j < len(supplied); j++ {
			if bytes.Equal(supplied[j], b) {
				found = j
				break
			}
		}
		if found < 0 {
			cc.Fail("node/snapshot-bytes", "saved snapshot %d of %d carries %x for the UDF node; the UDF supplied (in order) %x; nothing at or after answer %d equals it\n%s", k, len(saved), b, supplied, next, script)
			return
		}
		next = found
	}
	if c.Restart && savedFirst > 0 {
		want := udfSnap(saved[savedFirst-1])
		if len(restored) != 1 || !bytes.Equal(restored[0], want) {
			cc.Fail("node/restore-bytes", "the task was restarted from a snapshot carrying %x for the UDF node; the UDF's Restore received %x\n%s", want, restored, script)
			return
		}
	} else if len(restored) != 0 {
		cc.Fail("node/restore-unasked", "the UDF's Restore was called (%x) without a saved snapshot\n%s", restored, script)
		return
	}
	if len(saved) > 0 {
		cc.Label("snapshot-saved")
	}
	if n >= 4 && len(groups) >= 2 && (len(saved) > 0 || bigBatch) {
		cc.NonTrivial()
	}
}

var assumptionsNode = []string{
	"the UDF service of the task master is replaced by one that returns kapacitor.NewUDFSocket(...) on an in-process Socket (two pipes to udf/agent's Agent with a mirroring handler): everything from UDFNode down to the agent's framing is the production code, the transport is not",
	"log() passes messages through unchanged (C10 checks that): what the log() above the UDF node shows is what the node was sent",
	"the task's TaskStore keeps the snapshots in memory; a snapshot is saved only if some node has snapshot bytes (task.go runSnapshotter), and the restarted task restores the last one saved; the UDF answers its k-th snapshot request with base || uvarint(k)",
	"the stop-then-start form (StopTask, then StartTask in the same task master) uses the unbounded in-memory pipes, and what left the UDF node before the stop only has to be a prefix of what entered it: StopTask aborts the UDF (udf.go stopUDF); that in-flight data is dropped and that the abort can hang are C07's subject (unit StopUDF there)",
	"strings are valid UTF-8 (the known finding echo/server-error/invalid-utf8 is unit Echo's subject); group-by tags come from a pool of four plain names",
}

func TestNode(t *testing.T) {
	r := kit.NewRec("C19", "Node", ruleNode, assumptionsNode...)
	kit.Check(t, r, genNode, runNode)
}

func TestReplayNode(t *testing.T) {
	r := kit.NewRec("C19", "Node", ruleNode, assumptionsNode...)
	kit.Replay(t, r, runNode)
}
