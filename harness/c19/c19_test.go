// C19 — data crosses the UDF boundary unchanged and the protocol is framed safely.
//
// Unit Echo (this file): a real udf.Server is wired by two pipes to an in-process echo
// agent built on udf/agent (agent.New + a Handler with the logic of the `mirror` example,
// extended to batches the way udf/server_test.go echoes them). Both directions of the
// byte stream go through a fragmenting reader (generated read sizes) behind a bufio.Reader,
// exactly where udf.go puts its bufio.Reader. Generated point / batch sequences are pushed
// into Server.In(), interleaved with Snapshot()/Restore() calls and keepalive pings.
// Oracle: what comes out of Server.Out() is, item by item and in order, identical to what
// went in (compared attribute by attribute on deep copies taken from the edge messages);
// Snapshot() returns the agent's bytes; the agent receives Restore's bytes.
//
// Unit Frame (frame_test.go): WriteMessage/ReadMessage round trip over all fragmentations.
// Unit Race (race_test.go): the sessions of unit Echo under forced schedules - a keepalive /
// snapshot / restore message is under way while a side's write of a data frame is stopped
// inside the frame. Same run function and oracle (runEchoUnit).
package c19

import (
	"bufio"
	"bytes"
	"encoding/hex"
	"errors"
	"fmt"
	"io"
	"reflect"
	"strings"
	"sync"
	"sync/atomic"
	"testing"
	"time"

	"github.com/influxdata/kapacitor/edge"
	"github.com/influxdata/kapacitor/keyvalue"
	"github.com/influxdata/kapacitor/udf"
	"github.com/influxdata/kapacitor/udf/agent"
	"google.golang.org/protobuf/proto"
	"verifharness/kit"

	"pgregory.net/rapid"
)

// Op is one step of a session, executed in order by the feeding goroutine.
type Op struct {
	Kind string  `json:"kind"`        // point | batch | snapshot | restore | waitping
	P    *kit.Pt `json:"p,omitempty"` // point
	B    *kit.Bt `json:"b,omitempty"` // batch (group = its tags)
	// batch: sent as separate begin / point... / end messages (an unbuffered batch edge)
	// instead of one BufferedBatchMessage
	Unbuffered bool `json:"unbuffered,omitempty"`
	// batch: the size hint of its BeginBatch: "" = number of points, "zero" = 0 (unknown, what
	// join and unbuffered producers announce), "over" = points+3, "under" = 1
	Hint string `json:"hint,omitempty"`
	// snapshot: the bytes the agent answers with; restore: the bytes handed to Restore()
	Data []byte `json:"data,omitempty"`
	// snapshot/restore: the feeder waits for the call to return before it goes on; otherwise
	// the call (made from the control goroutine) overlaps with the following data
	Wait bool `json:"wait,omitempty"`
	// point/batch: a forced schedule around this op (unit Race, race_test.go)
	Race *RaceSpec `json:"race,omitempty"`
}

type EchoCase struct {
	Batch       bool               `json:"batch"`        // the UDF wants/provides batch edges (else stream)
	KeepaliveMs int                `json:"keepalive_ms"` // 0 = keepalive off
	Buffered    bool               `json:"buffered"`     // unbounded in-memory pipes (writes coalesce) instead of io.Pipe
	TaskID      string             `json:"task"`
	NodeID      string             `json:"node"`
	InfoOpts    map[string][]int32 `json:"infoopts,omitempty"` // what the agent's Info() declares
	InitOpts    []OptSpec          `json:"initopts,omitempty"` // what Init() is called with
	Ops         []Op               `json:"ops"`
	RespChunks  []int              `json:"resp_chunks"` // read sizes on the agent->server stream (the one udf.Server reads)
	ReqChunks   []int              `json:"req_chunks"`  // read sizes on the server->agent stream
	// Raw overrides string values with arbitrary bytes (JSON cannot carry invalid UTF-8). Only
	// saved witnesses use it: the generator avoids the class (counted as excluded).
	Raw []RawInj `json:"raw,omitempty"`
}

// RawInj sets, on the point of op Op (stream) or on point Pt of its batch, tag Key or string
// field Key to the bytes Hex.
type RawInj struct {
	Op    int    `json:"op"`
	Pt    int    `json:"pt"`
	Where string `json:"where"` // tag | field
	Key   string `json:"key"`
	Hex   string `json:"hex"`
}

func (c *EchoCase) applyRaw() error {
	for _, in := range c.Raw {
		b, err := hex.DecodeString(in.Hex)
		if err != nil || in.Op < 0 || in.Op >= len(c.Ops) {
			return fmt.Errorf("bad raw injection %+v", in)
		}
		var p *kit.Pt
		switch op := c.Ops[in.Op]; {
		case op.P != nil:
			p = op.P
		case op.B != nil && in.Pt >= 0 && in.Pt < len(op.B.Points):
			p = &op.B.Points[in.Pt]
		default:
			return fmt.Errorf("bad raw injection %+v", in)
		}
		if in.Where == "tag" {
			if p.Tags == nil {
				p.Tags = map[string]string{}
			}
			p.Tags[in.Key] = string(b)
		} else {
			if p.Fields == nil {
				p.Fields = map[string]kit.FV{}
			}
			p.Fields[in.Key] = kit.S(string(b))
		}
	}
	return nil
}

const echoRule = "rapid: stream sessions (points over 1-4 group shapes: dimensions incl. absent tags, byName, empty tag sets) or batch sessions (buffered and unbuffered batches of 0-6 points) over int64/float64/string/bool fields and hostile strings, " +
	"interleaved with Snapshot()/Restore() (synchronous or overlapping the data) and keepalive pings, both byte streams fragmented by generated read sizes over io.Pipe or a coalescing buffer; " +
	"non-trivial = the session echoes >= 1 batch with >= 2 points and >= 2 field types and a read of the response stream ended strictly inside a multi-byte varint length prefix; distinct by case hash"

const hangBound = 60 * time.Second // a session takes milliseconds (plus <= 0.1 s per waitping op)
const pingBound = 20 * time.Second

// ---------------------------------------------------------------- generator

type groupShape struct {
	name   string
	dims   []string
	byName bool
	vals   map[string]string // value of each dimension tag; absent = the points do not carry the tag
}

func sortedUnique(in []string) []string {
	m := map[string]bool{}
	for _, s := range in {
		m[s] = true
	}
	return sortedSet(m)
}

func genShape(t *rapid.T) groupShape {
	g := groupShape{name: rapid.SampledFrom(namePool).Draw(t, "gname"), byName: rapid.Bool().Draw(t, "gbyname"), vals: map[string]string{}}
	// groupBy sorts its dimensions (group_by.go determineTagNames / models.SortedKeys)
	g.dims = sortedUnique(rapid.SliceOfN(rapid.SampledFrom(keyPool), 0, 3).Draw(t, "gdims"))
	for _, d := range g.dims {
		if rapid.IntRange(0, 5).Draw(t, "gabsent") != 0 { // a dimension the point has no tag for groups under ""
			g.vals[d] = genStr(t, "gval")
		}
	}
	return g
}

func genPoint(t *rapid.T, shapes []groupShape) *kit.Pt {
	g := shapes[rapid.IntRange(0, len(shapes)-1).Draw(t, "shape")]
	p := &kit.Pt{Name: g.name, Time: genTime(t, "time"), ByName: g.byName}
	if len(g.dims) > 0 {
		p.Dims = append([]string(nil), g.dims...)
	}
	if rapid.IntRange(0, 3).Draw(t, "dbrp") != 0 {
		p.DB, p.RP = rapid.SampledFrom([]string{"db", "telegraf", "my db", "d\"b", "日本"}).Draw(t, "db"), rapid.SampledFrom([]string{"rp", "autogen", "", "r,p"}).Draw(t, "rp")
	}
	tags := genTags(t, "tags", 0, 3)
	for k, v := range g.vals {
		if tags == nil {
			tags = map[string]string{}
		}
		tags[k] = v
	}
	for _, d := range g.dims {
		if _, ok := g.vals[d]; !ok {
			delete(tags, d)
		}
	}
	if len(tags) == 0 {
		tags = nil
	}
	p.Tags = tags
	p.Fields = genFields(t, "fields", 0, 5)
	return p
}

func genBatch(t *rapid.T) *kit.Bt {
	b := &kit.Bt{Name: rapid.SampledFrom(namePool).Draw(t, "bname"), ByName: rapid.Bool().Draw(t, "bbyname"), TMax: genTime(t, "tmax"), Points: []kit.Pt{}}
	b.Tags = genTags(t, "btags", 0, 3) // the group of a batch is its tag set
	n := rapid.IntRange(0, 6).Draw(t, "bn")
	for i := 0; i < n; i++ {
		p := kit.Pt{Time: genTime(t, "ptime"), Fields: genFields(t, "pfields", 0, 4)}
		switch rapid.IntRange(0, 3).Draw(t, "ptags") {
		case 0: // no tags of its own
		case 1: // exactly the group tags
			p.Tags = copyTags(b.Tags)
		default: // group tags plus others (what a query result row carries)
			p.Tags = genTags(t, "pt", 0, 3)
			for k, v := range b.Tags {
				if p.Tags == nil {
					p.Tags = map[string]string{}
				}
				p.Tags[k] = v
			}
		}
		b.Points = append(b.Points, p)
	}
	return b
}

var opKinds = []string{"data", "data", "data", "data", "data", "data", "data", "snapshot", "restore", "data", "waitping", "data", "snapshot", "data"}

func genEcho(t *rapid.T) EchoCase {
	bigLeft, hugeLeft = 2, 1
	c := EchoCase{Batch: rapid.SampledFrom([]bool{true, false, true, false, true}).Draw(t, "edge")}
	c.KeepaliveMs = rapid.SampledFrom([]int{0, 0, 0, 60, 100, 200}).Draw(t, "keepalive")
	c.Buffered = rapid.Bool().Draw(t, "buffered")
	c.TaskID, c.NodeID = genStr(t, "task"), genStr(t, "node")
	c.InfoOpts = genInfoOpts(t, "infoopts")
	c.InitOpts = genOpts(t, "initopts")
	c.RespChunks = genChunks(t, "resp_chunks")
	c.ReqChunks = genChunks(t, "req_chunks")
	var shapes []groupShape
	if !c.Batch {
		for i, n := 0, rapid.IntRange(1, 4).Draw(t, "nshapes"); i < n; i++ {
			shapes = append(shapes, genShape(t))
		}
	}
	n := rapid.IntRange(0, 12).Draw(t, "nops")
	pings := 0
	for i := 0; i < n; i++ {
		k := rapid.SampledFrom(opKinds).Draw(t, "opkind")
		var op Op
		switch {
		case k == "snapshot":
			op = Op{Kind: "snapshot", Data: genBytes(t, "snap"), Wait: rapid.Bool().Draw(t, "wait")}
		case k == "restore":
			op = Op{Kind: "restore", Data: genBytes(t, "snap"), Wait: rapid.Bool().Draw(t, "wait")}
		case k == "waitping" && c.KeepaliveMs > 0 && pings < 2:
			op = Op{Kind: "waitping"}
			pings++
		case c.Batch:
			op = Op{Kind: "batch", B: genBatch(t), Unbuffered: rapid.Bool().Draw(t, "unbuffered"),
				Hint: rapid.SampledFrom([]string{"", "", "", "zero", "zero", "over", "under"}).Draw(t, "hint")}
		default:
			op = Op{Kind: "point", P: genPoint(t, shapes)}
		}
		c.Ops = append(c.Ops, op)
	}
	// a message of several KB read a few bytes at a time takes longer than a short keepalive
	// timeout (the timer is only reset by complete responses): such sessions run without keepalive
	if c.KeepaliveMs > 0 && bigLeft < 2 {
		c.KeepaliveMs = 0
		for i := range c.Ops {
			if c.Ops[i].Kind == "waitping" {
				c.Ops[i] = Op{Kind: "snapshot", Wait: true}
			}
		}
	}
	return c
}

// ---------------------------------------------------------------- the echo agent

// echoHandler mirrors everything it receives (mirror.go's Point, plus BeginBatch/EndBatch
// echoed the way udf/server_test.go does), answers Snapshot with the generated bytes and
// stores what Restore/Init hand to it.
type echoHandler struct {
	a     *agent.Agent
	c     *EchoCase
	snaps [][]byte // answers of the 1st, 2nd, ... Snapshot request

	mu       sync.Mutex
	snapIdx  int
	restored [][]byte
	inits    []*agent.InitRequest
	extra    []string // protocol events the session never asked for
}

func (h *echoHandler) Info() (*agent.InfoResponse, error) {
	et := agent.EdgeType_STREAM
	if h.c.Batch {
		et = agent.EdgeType_BATCH
	}
	return &agent.InfoResponse{Wants: et, Provides: et, Options: infoOptsProto(h.c.InfoOpts)}, nil
}

func (h *echoHandler) Init(r *agent.InitRequest) (*agent.InitResponse, error) {
	h.mu.Lock()
	h.inits = append(h.inits, proto.Clone(r).(*agent.InitRequest))
	h.mu.Unlock()
	return &agent.InitResponse{Success: true}, nil
}

func (h *echoHandler) Snapshot() (*agent.SnapshotResponse, error) {
	h.mu.Lock()
	defer h.mu.Unlock()
	if h.snapIdx >= len(h.snaps) {
		h.extra = append(h.extra, "snapshot request without a Snapshot() call")
		return &agent.SnapshotResponse{}, nil
	}
	b := h.snaps[h.snapIdx]
	h.snapIdx++
	return &agent.SnapshotResponse{Snapshot: append([]byte(nil), b...)}, nil
}

func (h *echoHandler) Restore(req *agent.RestoreRequest) (*agent.RestoreResponse, error) {
	h.mu.Lock()
	h.restored = append(h.restored, append([]byte{}, req.Snapshot...))
	h.mu.Unlock()
	return &agent.RestoreResponse{Success: true}, nil
}

func (h *echoHandler) BeginBatch(b *agent.BeginBatch) error {
	h.a.Responses <- &agent.Response{Message: &agent.Response_Begin{Begin: b}}
	return nil
}

func (h *echoHandler) Point(p *agent.Point) error {
	h.a.Responses <- &agent.Response{Message: &agent.Response_Point{Point: p}}
	return nil
}

func (h *echoHandler) EndBatch(e *agent.EndBatch) error {
	h.a.Responses <- &agent.Response{Message: &agent.Response_End{End: e}}
	return nil
}

func (h *echoHandler) Stop() { close(h.a.Responses) }

// recDiag records what the server reports through its diagnostic (context for messages only).
type recDiag struct {
	mu   sync.Mutex
	errs []string
}

func (d *recDiag) Error(msg string, err error, ctx ...keyvalue.T) {
	d.mu.Lock()
	d.errs = append(d.errs, fmt.Sprintf("%s: %v", msg, err))
	d.mu.Unlock()
}
func (d *recDiag) UDFLog(string) {}
func (d *recDiag) all() string {
	d.mu.Lock()
	defer d.mu.Unlock()
	return strings.Join(d.errs, "; ")
}

// ---------------------------------------------------------------- observation

type obsBatch struct {
	kit.Bt
	Size   int
	HasEnd bool
}

type obsItem struct {
	P     *kit.Pt
	B     *obsBatch
	Other string
}

func observe(m edge.Message) obsItem {
	switch x := m.(type) {
	case edge.PointMessage:
		p := kit.PtOf(x)
		return obsItem{P: &p}
	case edge.BufferedBatchMessage:
		return obsItem{B: &obsBatch{Bt: kit.BtOf(x), Size: x.Begin().SizeHint(), HasEnd: x.End() != nil}}
	default:
		return obsItem{Other: fmt.Sprintf("%T", m)}
	}
}

func tagsEqual(a, b map[string]string) bool {
	if len(a) != len(b) {
		return false
	}
	for k, v := range a {
		if w, ok := b[k]; !ok || w != v {
			return false
		}
	}
	return true
}

func dimsEqual(a, b []string) bool {
	if len(a) != len(b) {
		return false
	}
	for i := range a {
		if a[i] != b[i] {
			return false
		}
	}
	return true
}

// diffFields names the first difference between two field sets: names, dynamic types, values.
func diffFields(exp, got map[string]kit.FV) (string, string) {
	ek, gk := kit.SortedKeys(exp), kit.SortedKeys(got)
	if !reflect.DeepEqual(ek, gk) {
		return "field-names", fmt.Sprintf("field names %q, sent %q", gk, ek)
	}
	for _, k := range ek {
		if exp[k].T != got[k].T {
			return "field-type", fmt.Sprintf("field %q came back as %s, sent %s", k, got[k], exp[k])
		}
	}
	for _, k := range ek {
		if exp[k].V != got[k].V {
			return "field-value", fmt.Sprintf("field %q came back as %s, sent %s", k, clip(got[k].String()), clip(exp[k].String()))
		}
	}
	return "", ""
}

func diffPoint(exp, got kit.Pt) (string, string) {
	switch {
	case exp.Name != got.Name:
		return "name", fmt.Sprintf("name %q, sent %q", got.Name, exp.Name)
	case exp.DB != got.DB:
		return "database", fmt.Sprintf("database %q, sent %q", got.DB, exp.DB)
	case exp.RP != got.RP:
		return "retention-policy", fmt.Sprintf("retention policy %q, sent %q", got.RP, exp.RP)
	case exp.ByName != got.ByName:
		return "byname", fmt.Sprintf("dimensions.ByName %v, sent %v", got.ByName, exp.ByName)
	case !dimsEqual(exp.Dims, got.Dims):
		return "dimensions", fmt.Sprintf("dimensions %q, sent %q", got.Dims, exp.Dims)
	case exp.Group != got.Group:
		return "group", fmt.Sprintf("group id %q, sent %q", got.Group, exp.Group)
	case !tagsEqual(exp.Tags, got.Tags):
		return "tags", fmt.Sprintf("tags %q, sent %q", got.Tags, exp.Tags)
	case exp.Time != got.Time:
		return "time", fmt.Sprintf("time %d, sent %d", got.Time, exp.Time)
	}
	return diffFields(exp.Fields, got.Fields)
}

func diffBatch(exp, got obsBatch) (string, string) {
	switch {
	case exp.Name != got.Name:
		return "name", fmt.Sprintf("name %q, sent %q", got.Name, exp.Name)
	case exp.ByName != got.ByName:
		return "byname", fmt.Sprintf("dimensions.ByName %v, sent %v", got.ByName, exp.ByName)
	case !tagsEqual(exp.Tags, got.Tags):
		return "tags", fmt.Sprintf("group tags %q, sent %q", got.Tags, exp.Tags)
	case !dimsEqual(exp.Dims, got.Dims):
		return "dimensions", fmt.Sprintf("dimensions %q, sent %q", got.Dims, exp.Dims)
	case exp.Group != got.Group:
		return "group", fmt.Sprintf("group id %q, sent %q", got.Group, exp.Group)
	case exp.TMax != got.TMax:
		return "tmax", fmt.Sprintf("tmax %d, sent %d", got.TMax, exp.TMax)
	case len(exp.Points) != len(got.Points):
		return "boundary", fmt.Sprintf("%d points, sent %d", len(got.Points), len(exp.Points))
	case exp.Size != got.Size:
		return "size", fmt.Sprintf("size %d, sent %d (with %d points)", got.Size, exp.Size, len(exp.Points))
	case !got.HasEnd:
		return "boundary", "no end message"
	}
	for i := range exp.Points {
		if a, d := diffPoint(exp.Points[i], got.Points[i]); a != "" {
			return "point-" + a, fmt.Sprintf("point %d: %s", i, d)
		}
	}
	return "", ""
}

func fmtItem(o obsItem) string {
	switch {
	case o.P != nil:
		return fmt.Sprintf("point{%s t=%d group=%q tags=%d fields=%d}", clip(o.P.Name), o.P.Time, o.P.Group, len(o.P.Tags), len(o.P.Fields))
	case o.B != nil:
		return fmt.Sprintf("batch{%s tmax=%d group=%q points=%d}", clip(o.B.Name), o.B.TMax, o.B.Group, len(o.B.Points))
	}
	return o.Other
}

// ---------------------------------------------------------------- the session

type ctrlResult struct {
	op   int
	kind string
	data []byte
	err  error
	done chan struct{}
}

type session struct {
	phase    atomic.Value // string: where the session is (for the hang report)
	infoErr  error
	info     udf.Info
	initErr  error
	ctrl     []*ctrlResult
	stopErr  error
	agentErr error
	obs      []obsItem
	expected []obsItem
	fedAll   bool
	pingSeen int
	pingLost int
	raceLost int
}

func runEcho(c EchoCase, cc *kit.Case) { runEchoUnit(c, cc, "Echo") }

// runEchoUnit runs one session and judges it. unit only selects the non-trivial rule.
func runEchoUnit(c EchoCase, cc *kit.Case, unit string) {
	if err := c.applyRaw(); err != nil {
		cc.Fail("harness/raw", "%v", err)
		return
	}
	reqR, reqW := newPipe(c.Buffered)   // server -> agent
	respR, respW := newPipe(c.Buffered) // agent -> server
	var closeOnce sync.Once
	quit := make(chan struct{})
	closeAll := func() {
		closeOnce.Do(func() {
			close(quit)
			reqW.Close()
			reqR.Close()
			respW.Close()
			respR.Close()
		})
	}
	defer closeAll()
	// "kill" for an in-process agent: nobody reads the agent's output any more, so swallow it
	// until the agent closes it (closing the pipe instead would leave udf/agent's goroutines
	// blocked for ever behind its dead write loop; a real agent process is simply killed)
	var releaseOnce sync.Once
	release := func() {
		releaseOnce.Do(func() { go io.Copy(io.Discard, respR) })
	}

	// the server -> agent stream: fragmented, and watched for keepalive requests
	var pings atomic.Int64
	pingC := make(chan struct{}, 1)
	reqScan := &scanner{collect: true}
	reqScan.onFrame = func(payload []byte) {
		var rq agent.Request
		if proto.Unmarshal(payload, &rq) == nil {
			if _, ok := rq.Message.(*agent.Request_Keepalive); ok {
				pings.Add(1)
				select {
				case pingC <- struct{}{}:
				default:
				}
			}
		}
	}
	reqFrag := &fragReader{src: reqR, sizes: c.ReqChunks, scan: reqScan}
	respFrag := &fragReader{src: respR, sizes: c.RespChunks, scan: &scanner{}}

	aborted := make(chan struct{})
	// forced schedules (unit Race): gates on the two writers; sessions without them are wired as before
	agentTargets, serverTargets, targets := raceTargets(c)
	var agentOut io.WriteCloser = respW
	var serverOut io.WriteCloser = reqW
	var agentGate, serverGate *gate
	if len(agentTargets) > 0 {
		agentGate = newGate(respW, "agent", isDataResponse, time.Duration(c.KeepaliveMs)*time.Millisecond, quit, aborted)
		agentGate.targets = agentTargets
		agentOut = agentGate
	}
	if len(serverTargets) > 0 {
		serverGate = newGate(reqW, "server", isDataRequest, time.Duration(c.KeepaliveMs)*time.Millisecond, quit, aborted)
		serverGate.targets = serverTargets
		serverOut = serverGate
	}
	if agentGate != nil {
		watch := reqScan.onFrame
		reqScan.onFrame = func(payload []byte) {
			watch(payload)
			if !isDataRequest(payload) {
				agentGate.sawControl() // a control request has been read by the agent
			}
		}
	}

	a := agent.New(readCloser{reqFrag, reqR}, agentOut)
	h := &echoHandler{a: a, c: &c}
	for _, op := range c.Ops {
		if ctlKind(op) == "snapshot" {
			h.snaps = append(h.snaps, ctlData(op))
		}
	}
	a.Handler = h

	var feedWG sync.WaitGroup
	// what UDFNode.abortedCallback does: tell the writer to stop and wait until it has
	abortCB := func() {
		close(aborted)
		feedWG.Wait()
	}
	diag := &recDiag{}
	srv := udf.NewServer(c.TaskID, c.NodeID, bufio.NewReader(respFrag), serverOut, diag,
		time.Duration(c.KeepaliveMs)*time.Millisecond, abortCB, release)

	s := &session{}
	s.phase.Store("start")
	done := make(chan struct{})
	go func() {
		defer close(done)
		s.run(c, srv, a, h, aborted, &feedWG, &pings, pingC, release, targets)
	}()
	select {
	case <-done:
	case <-time.After(hangBound):
		dump := goroutineDump(12000)
		cc.Fail("hang/session", "session did not finish within %v (phase %q; diagnostics: %s)\n%s", hangBound, s.phase.Load(), diag.all(), dump)
		// forced teardown: kill the pipes, abort the server
		closeAll()
		go srv.Abort(errors.New("harness: hang"))
		select {
		case <-done:
		case <-time.After(20 * time.Second):
		}
		return
	}

	// ---- labels
	if c.Batch {
		cc.Label("edge:batch")
	} else {
		cc.Label("edge:stream")
	}
	if c.Buffered {
		cc.Label("pipe:coalescing")
	} else {
		cc.Label("pipe:io.Pipe")
	}
	if c.KeepaliveMs > 0 {
		cc.Label("keepalive-on")
	}
	if s.pingSeen > 0 {
		cc.Label("ping-interleaved")
	}
	if s.pingLost > 0 {
		cc.Label("ping-wait-gave-up")
	}
	if respFrag.splitPrefix > 0 {
		cc.Label("resp-prefix-split")
	}
	if reqFrag.splitPrefix > 0 {
		cc.Label("req-prefix-split")
	}
	if respFrag.splitPayload > 0 {
		cc.Label("resp-payload-split")
	}
	if respFrag.scan.multi > 0 {
		cc.Label("resp-frame>=128B")
	}
	if respFrag.scan.big > 0 {
		cc.Label("resp-frame>4096B")
	}
	richBatch := false
	raceHeld := false
	for i, op := range c.Ops {
		if tg := targets[i]; tg != nil {
			cc.Label("race:" + tg.spec.Side + "/" + tg.spec.Trigger)
			cc.Label("race-pos:" + tg.spec.Pos)
			select {
			case <-tg.ended:
				o := tg.outcome
				if o == "" {
					o = "not-reached"
				}
				cc.Label("race:" + o)
				if o == "gave-up" {
					cc.Label("race:gave-up:" + tg.spec.Side + "/" + tg.spec.Trigger)
				}
				if o == "window" {
					raceHeld = true
				}
			default:
				cc.Label("race:not-reached")
			}
		}
		switch op.Kind {
		case "point":
			cc.Label("op:point")
			if op.P.ByName {
				cc.Label("point-byName")
			}
			if len(op.P.Dims) > 0 {
				cc.Label("point-dims>0")
				for _, d := range op.P.Dims {
					if _, ok := op.P.Tags[d]; !ok {
						cc.Label("point-dim-without-tag")
						break
					}
				}
			}
			if len(op.P.Tags) == 0 {
				cc.Label("point-no-tags")
			}
			if len(op.P.Fields) == 0 {
				cc.Label("point-no-fields")
			}
			for _, ty := range func() []string { m := map[string]bool{}; fieldTypes(op.P.Fields, m); return sortedSet(m) }() {
				cc.Label("field:" + ty)
			}
		case "batch":
			if op.Unbuffered {
				cc.Label("op:batch-unbuffered")
			} else {
				cc.Label("op:batch-buffered")
			}
			if len(op.B.Points) == 0 {
				cc.Label("batch-empty")
			}
			if op.Hint != "" {
				cc.Label("batch-hint:" + op.Hint)
			}
			if op.B.ByName {
				cc.Label("batch-byName")
			}
			if len(op.B.Tags) == 0 {
				cc.Label("batch-no-group-tags")
			}
			ty := map[string]bool{}
			for _, p := range op.B.Points {
				fieldTypes(p.Fields, ty)
			}
			for _, x := range sortedSet(ty) {
				cc.Label("field:" + x)
			}
			if len(op.B.Points) >= 2 && len(ty) >= 2 {
				richBatch = true
			}
		case "snapshot", "restore":
			if op.Wait {
				cc.Label("op:" + op.Kind + "-sync")
			} else {
				cc.Label("op:" + op.Kind + "-overlapping")
			}
			if len(op.Data) > 1<<20 {
				cc.Label("payload>1MiB")
			}
		}
	}
	if len(c.Ops) == 0 {
		cc.Label("no-ops")
	}
	for _, g := range []*gate{agentGate, serverGate} {
		if g != nil && g.seconds > 0 {
			cc.Label("race:" + g.side + "-has-two-writers")
		}
	}
	if s.raceLost > 0 {
		cc.Label("race:feeder-gave-up")
	}

	// ---- verdict
	if s.stopErr != nil && strings.Contains(s.stopErr.Error(), "keepalive timedout") {
		// the machine was too slow for the short keepalive of this case: the server aborted as
		// designed. No timing assertion: only demand that what did come out is a correct prefix.
		cc.Label("keepalive-timeout(inconclusive)")
		comparePrefix(cc, s, true)
		return
	}
	if s.infoErr != nil {
		cc.Fail("echo/info-error", "Info() failed: %v (diagnostics: %s)", s.infoErr, diag.all())
		return
	}
	wantEdge := agent.EdgeType_STREAM
	if c.Batch {
		wantEdge = agent.EdgeType_BATCH
	}
	if s.info.Wants != wantEdge || s.info.Provides != wantEdge {
		cc.Fail("echo/info", "Info() = wants %v provides %v, the agent declared %v/%v", s.info.Wants, s.info.Provides, wantEdge, wantEdge)
		return
	}
	wantOpts := infoOptsProto(c.InfoOpts)
	if len(s.info.Options) != len(wantOpts) {
		cc.Fail("echo/info", "Info() returned %d options, the agent declared %d", len(s.info.Options), len(wantOpts))
		return
	}
	for k, w := range wantOpts {
		if g, ok := s.info.Options[k]; !ok || !proto.Equal(w, g) {
			cc.Fail("echo/info", "Info() option %s = %v, the agent declared %v", clip(k), g, w)
			return
		}
	}
	if s.initErr != nil {
		cc.Fail("echo/init-error", "Init() failed: %v (diagnostics: %s)", s.initErr, diag.all())
		return
	}
	wantInit := &agent.InitRequest{Options: optsProto(c.InitOpts), TaskID: c.TaskID, NodeID: c.NodeID}
	if len(h.inits) != 1 || !proto.Equal(h.inits[0], wantInit) {
		cc.Fail("echo/init", "the agent received init requests %v, Init() was called once with %v", h.inits, wantInit)
		return
	}
	if s.stopErr != nil {
		cc.Fail("echo/server-error/"+errClass(s.stopErr), "the server ended with error %q (diagnostics: %s); %d of %d items had come back", s.stopErr, diag.all(), len(s.obs), len(s.expected))
		return
	}
	if s.agentErr != nil {
		cc.Fail("echo/agent-error", "the agent ended with error %q (diagnostics: %s)", s.agentErr, diag.all())
		return
	}
	if !s.fedAll {
		cc.Fail("echo/aborted", "the server aborted without reporting an error (diagnostics: %s)", diag.all())
		return
	}
	if !comparePrefix(cc, s, false) {
		return
	}
	// snapshot / restore
	var sentRestores [][]byte
	for _, r := range s.ctrl {
		op := Op{Data: ctlData(c.Ops[r.op])}
		if r.err != nil {
			cc.Fail("echo/"+r.kind+"-error", "op %d: %s failed: %v (diagnostics: %s)", r.op, r.kind, r.err, diag.all())
			return
		}
		if r.kind == "snapshot" {
			if !bytes.Equal(r.data, op.Data) {
				cc.Fail("echo/snapshot-bytes", "op %d: Snapshot() returned %d bytes %x, the agent supplied %d bytes %x", r.op, len(r.data), head(r.data), len(op.Data), head(op.Data))
				return
			}
		} else {
			sentRestores = append(sentRestores, op.Data)
		}
	}
	if len(h.restored) != len(sentRestores) {
		cc.Fail("echo/restore-count", "the agent received %d restore requests, Restore() was called %d times", len(h.restored), len(sentRestores))
		return
	}
	for i := range sentRestores {
		if !bytes.Equal(h.restored[i], sentRestores[i]) {
			cc.Fail("echo/restore-bytes", "restore %d: the agent received %d bytes %x, Restore() was given %d bytes %x", i, len(h.restored[i]), head(h.restored[i]), len(sentRestores[i]), head(sentRestores[i]))
			return
		}
	}
	if len(h.extra) > 0 {
		cc.Fail("echo/unrequested", "the agent saw %v", h.extra)
		return
	}
	switch unit {
	case "Race":
		if raceHeld {
			cc.NonTrivial()
		}
	default:
		if richBatch && respFrag.splitPrefix > 0 {
			cc.NonTrivial()
		}
	}
}

// errClass names the class of a server error for the failure signature.
func errClass(err error) string {
	m := err.Error()
	switch {
	case strings.Contains(m, "invalid UTF-8"):
		return "invalid-utf8"
	case strings.HasPrefix(m, "write error"):
		return "write"
	case strings.HasPrefix(m, "read error"):
		return "read"
	}
	return "other"
}

func head(b []byte) []byte {
	if len(b) > 24 {
		return b[:24]
	}
	return b
}

// comparePrefix compares what came out with what went in, in order. With prefixOnly the
// output may stop early (aborted session).
func comparePrefix(cc *kit.Case, s *session, prefixOnly bool) bool {
	n := len(s.obs)
	if n > len(s.expected) {
		cc.Fail("echo/extra-output", "%d items came out, %d went in; first extra: %s", n, len(s.expected), fmtItem(s.obs[len(s.expected)]))
		return false
	}
	for i := 0; i < n; i++ {
		e, g := s.expected[i], s.obs[i]
		switch {
		case e.P != nil && g.P != nil:
			if a, d := diffPoint(*e.P, *g.P); a != "" {
				cc.Fail("echo/point/"+a, "item %d (point): came back with %s\nsent: %s\ngot:  %s", i, d, fmtItem(e), fmtItem(g))
				return false
			}
		case e.B != nil && g.B != nil:
			if a, d := diffBatch(*e.B, *g.B); a != "" {
				cc.Fail("echo/batch/"+a, "item %d (batch): came back with %s\nsent: %s\ngot:  %s", i, d, fmtItem(e), fmtItem(g))
				return false
			}
		default:
			cc.Fail("echo/kind", "item %d: sent %s, got %s", i, fmtItem(e), fmtItem(g))
			return false
		}
	}
	if !prefixOnly && n < len(s.expected) {
		cc.Fail("echo/lost", "%d items went in, only %d came out before the server stopped cleanly; first missing: %s", len(s.expected), n, fmtItem(s.expected[n]))
		return false
	}
	return true
}

func (s *session) run(c EchoCase, srv *udf.Server, a *agent.Agent, h *echoHandler, aborted chan struct{}, feedWG *sync.WaitGroup,
	pings *atomic.Int64, pingC chan struct{}, release func(), targets map[int]*holdTarget) {
	s.phase.Store("agent start")
	if err := a.Start(); err != nil {
		s.agentErr = err
		return
	}
	agentDone := make(chan error, 1)
	go func() { agentDone <- a.Wait() }() // Wait is what lets the agent's write loop end (see mirror.go)
	// registered before the server can abort: the abort callback must always wait for the
	// feeder, because Server.stop closes the In channel right after the callback returns
	feedWG.Add(1)
	_ = srv.Start()

	collDone := make(chan struct{})
	go func() {
		defer close(collDone)
		for m := range srv.Out() {
			s.obs = append(s.obs, observe(m)) // deep copy at the moment of arrival
		}
	}()

	s.phase.Store("info")
	s.info, s.infoErr = srv.Info()
	s.phase.Store("init")
	if s.infoErr == nil {
		s.initErr = srv.Init(optsProto(c.InitOpts))
	}

	// the control goroutine makes the Snapshot()/Restore() calls, one at a time (as the
	// task's snapshot loop does), possibly while the feeder keeps writing data
	ctrlC := make(chan *ctrlResult)
	ctrlDone := make(chan struct{})
	go func() {
		defer close(ctrlDone)
		for r := range ctrlC {
			if r.kind == "snapshot" {
				r.data, r.err = srv.Snapshot()
			} else {
				r.err = srv.Restore(ctlData(c.Ops[r.op]))
			}
			close(r.done)
		}
	}()

	s.phase.Store("feeding")
	go func() {
		defer feedWG.Done()
		defer close(ctrlC)
		if s.infoErr != nil || s.initErr != nil {
			return
		}
		in := srv.In()
		send := func(m edge.Message) bool {
			select {
			case <-aborted:
				return false
			default:
			}
			select {
			case in <- m:
				return true
			case <-aborted:
				return false
			}
		}
		// race: the op's data has been handed to the server and one of its frames is (about to
		// be) stopped in a gate: provoke the control traffic of the op, then wait for the gate
		race := func(i int, op Op) bool {
			tg := targets[i]
			if tg == nil {
				return true
			}
			bound := time.NewTimer(raceBound)
			defer bound.Stop()
			select {
			case <-tg.started:
			case <-aborted:
				return false
			case <-bound.C:
				s.raceLost++
			}
			if kind := ctlKind(op); kind != "" {
				// the call is made whether the gate was reached or not (the agent's snapshot answers are numbered)
				r := &ctrlResult{op: i, kind: kind, done: make(chan struct{})}
				for _, e := range s.ctrl { // an earlier call that is still under way is as good
					select {
					case <-e.done:
					default:
						tg.fire()
					}
				}
				s.ctrl = append(s.ctrl, r)
				select {
				case ctrlC <- r:
					tg.fire()
				case <-aborted:
					r.err = errors.New("harness: server aborted before the call")
					return false
				}
			}
			select {
			case <-tg.ended:
			case <-aborted:
				return false
			case <-bound.C:
				s.raceLost++
			}
			return true
		}
		for i, op := range c.Ops {
			switch op.Kind {
			case "point":
				m := op.P.Msg()
				s.expected = append(s.expected, observe(m))
				if !send(m) {
					return
				}
				if !race(i, op) {
					return
				}
			case "batch":
				bm := op.B.Msg()
				// the batch comes back with the number of its points as size hint, whatever was announced
				s.expected = append(s.expected, observe(bm))
				switch op.Hint {
				case "zero":
					bm.Begin().SetSizeHint(0)
				case "over":
					bm.Begin().SetSizeHint(len(op.B.Points) + 3)
				case "under":
					bm.Begin().SetSizeHint(1)
				}
				if !op.Unbuffered {
					if !send(bm) {
						return
					}
					if !race(i, op) {
						return
					}
					continue
				}
				if !send(bm.Begin()) {
					return
				}
				for _, bp := range bm.Points() {
					if !send(bp) {
						return
					}
				}
				if !send(bm.End()) {
					return
				}
				if !race(i, op) {
					return
				}
			case "snapshot", "restore":
				r := &ctrlResult{op: i, kind: op.Kind, done: make(chan struct{})}
				s.ctrl = append(s.ctrl, r)
				select {
				case ctrlC <- r:
				case <-aborted:
					r.err = errors.New("harness: server aborted before the call")
					return
				}
				if op.Wait {
					select {
					case <-r.done:
					case <-aborted:
						return
					}
				}
			case "waitping":
				// block until the server has written a keepalive request after this point, so that
				// the ping and its answer interleave with the data that follows. Not an assertion.
				base := pings.Load()
				t := time.NewTimer(pingBound)
			wait:
				for pings.Load() == base {
					select {
					case <-pingC:
					case <-aborted:
						t.Stop()
						return
					case <-t.C:
						s.pingLost++
						break wait
					}
				}
				t.Stop()
				if pings.Load() > base {
					s.pingSeen++
				}
			}
		}
		s.fedAll = true
	}()
	feedWG.Wait()
	s.phase.Store("control calls")
	<-ctrlDone
	for _, r := range s.ctrl { // calls still overlapping the end of the data
		select {
		case <-r.done:
		default:
			if r.err == nil {
				r.err = errors.New("harness: call never made")
			}
		}
	}
	s.phase.Store("stop")
	s.stopErr = srv.Stop()
	if s.stopErr != nil {
		release() // an aborted server no longer reads: release the agent (what killCallback is for)
	}
	s.phase.Store("agent wait")
	s.agentErr = <-agentDone
	s.phase.Store("collector wait")
	<-collDone
	s.phase.Store("done")
}

var echoAssumptions = []string{
	"Echo: the agent is udf/agent's Agent with a Handler that sends every BeginBatch/Point/EndBatch back unchanged (mirror.go's Point; batches as udf/server_test.go echoes them); Info declares STREAM/STREAM or BATCH/BATCH",
	"Echo: inputs are built with edge.NewPointMessage / edge.NewBeginBatchMessage as the pipeline does: stream dimensions are a sorted duplicate-free tag-name list (group_by.go sorts them) that may name tags the point lacks; a batch's dimensions are the sorted keys of its group tags; its size hint is its number of points, 0 (unknown: what join announces), too large or too small - a hint only - and the batch comes back with its number of points as hint",
	"Echo: measurement, tag and field names are non-empty; strings are valid UTF-8 (hostile otherwise: quotes, backslashes, newlines, NUL, separators, multi-byte runes, empty values, 128 B - 20 KB long); times are any int64 nanosecond instant",
	"Echo: identical = equal name, database, retention policy, group id, dimensions (TagNames and ByName), tags and fields as maps (nil = empty), dynamic field types, time as UTC instant; floats bit-exact via shortest round-trip formatting, all NaNs alike; for batches additionally tmax, size hint, number, order and content (tags, fields, time) of the points and presence of the end message; the group string is checked although the wire value is recomputed on the way back",
	"Echo: Snapshot()/Restore() are called one at a time from a single control goroutine (as ExecutingTask does), concurrently with the data; nil and empty byte slices are the same bytes",
	"Echo: keepalive 60-200 ms is only there to interleave pings with data (a waitping op blocks the feeder until the next ping was written); a session whose server aborts with 'keepalive timedout' is not judged beyond 'the output is a correct prefix'",
	"Echo: a session that does not finish within 60 s is reported as hang/session with a goroutine dump (normal duration: milliseconds)",
}

func TestEcho(t *testing.T) {
	r := kit.NewRec("C19", "Echo", echoRule, echoAssumptions...)
	excludeHook = func(class string) { r.Exclude(class) }
	defer func() { excludeHook = nil }()
	kit.Check(t, r, genEcho, runEcho)
}

func TestReplayEcho(t *testing.T) {
	r := kit.NewRec("C19", "Echo", echoRule, echoAssumptions...)
	kit.Replay(t, r, runEcho)
}

var _ = io.EOF
var _ = rapid.Bool
