// C19, unit Race — the interleavings of data with keepalive / snapshot / restore traffic in
// which a control message turns up while a data frame is only partly on the wire.
//
// Unit Echo samples interleavings by letting the goroutines run: a session lasts
// milliseconds, a keepalive request is written every 30-100 ms, so a control request
// practically never reaches a side while that side is in the middle of writing a data frame.
// This unit forces exactly those schedules with a gate (DESIGN 4.5), not with luck:
//
//   - the writer of one side (the agent's output = what udf.Server reads, or the server's
//     output = what the agent reads) is wrapped in a gate that parses the frames passing
//     through it and stops the write at a generated place of a generated data frame: between
//     the length prefix and the payload, or in the middle of the payload
//     (a transport may accept any part of a write and make the writer wait for the rest: a
//     full pipe or socket buffer does exactly that);
//   - while the write is stopped the feeder provokes the control traffic of the op (waits for
//     the server's next keepalive request, calls Snapshot() or Restore());
//   - agent side: the gate lets go once a control request has been read by the agent whose
//     response has not passed the gate yet, plus a short window for the agent to act on it;
//     server side: once the feeder has made its call (snapshot/restore) or one keepalive
//     interval has passed (ping), plus the same window. A second Write call arriving at the
//     gate while the first is stopped ends the window at once (that second write is passed on
//     untouched: the gate adds no serialisation of its own).
//
// The gate only delays writes; it never reorders, drops or alters a byte of a writer that
// writes its frames one after the other. The oracle is the one of unit Echo, unchanged:
// every item comes back identical and in order, the session ends without error, snapshot
// and restore bytes are the ones supplied. Timers only bound how long a window stays open
// (sensitivity), they decide nothing.
package c19

import (
	"io"
	"sync"
	"sync/atomic"
	"testing"
	"time"

	"github.com/influxdata/kapacitor/udf/agent"
	"google.golang.org/protobuf/proto"
	"verifharness/kit"

	"pgregory.net/rapid"
)

// RaceSpec asks for a forced schedule around the data op that carries it.
type RaceSpec struct {
	Side    string `json:"side"`     // agent | server: whose write is stopped
	FromEnd int    `json:"from_end"` // which frame of the op: 0 = its last one, 1 = the one before, ... (clamped to the op's frames)
	Pos     string `json:"pos"`      // after-prefix | mid-payload
	Trigger string `json:"trigger"`  // ping | snapshot | restore: the control traffic provoked while the write is stopped
	// snapshot: the bytes the agent answers with; restore: the bytes handed to Restore()
	Data []byte `json:"data,omitempty"`
}

const (
	raceGrace = 10 * time.Millisecond // the window left open after the control message is known to be under way
	raceBound = 5 * time.Second       // feeder: longest wait for a gate (normal: <= one keepalive interval); not a verdict
)

// opFrames is the number of data frames an op puts on either stream (a point: 1; a batch:
// begin + points + end), on the way out and - echoed - on the way back.
func opFrames(op Op) int {
	switch op.Kind {
	case "point":
		return 1
	case "batch":
		return len(op.B.Points) + 2
	}
	return 0
}

// ctlData returns the snapshot/restore bytes of an op that makes a control call.
func ctlData(op Op) []byte {
	if op.Race != nil {
		return op.Race.Data
	}
	return op.Data
}

// ctlKind returns "snapshot"/"restore" if the op makes that control call, else "".
func ctlKind(op Op) string {
	switch {
	case op.Kind == "snapshot" || op.Kind == "restore":
		return op.Kind
	case op.Race != nil && (op.Race.Trigger == "snapshot" || op.Race.Trigger == "restore"):
		return op.Race.Trigger
	}
	return ""
}

// holdTarget is one place at which a gate stops its writer.
type holdTarget struct {
	op      int
	spec    RaceSpec
	n       int // the write is stopped inside data frame number n (from 0) that passes the gate
	started chan struct{}
	ended   chan struct{}
	fired   chan struct{} // server side, snapshot/restore: the feeder has handed its call to the control goroutine
	once    [3]sync.Once
	outcome string // "" (never reached) | window | second-writer | gave-up | torn-down ; written before ended is closed
}

func (t *holdTarget) closeStarted() { t.once[0].Do(func() { close(t.started) }) }
func (t *holdTarget) closeEnded()   { t.once[1].Do(func() { close(t.ended) }) }
func (t *holdTarget) fire()         { t.once[2].Do(func() { close(t.fired) }) }

// gate wraps the writer of one side. isData classifies a complete frame written through it.
type gate struct {
	w         io.WriteCloser
	side      string
	isData    func(payload []byte) bool
	keepalive time.Duration
	quit      chan struct{} // session torn down
	aborted   chan struct{} // server aborted

	// owned by the (single) regular writer
	scan     scanner
	dataDone int
	ctlDone  int64
	targets  []*holdTarget
	next     int
	// the frame whose payload is being written: kind looked at / known to be a control frame
	classified, control bool

	ctlSeen atomic.Int64  // agent side: control requests the agent has read (fed by the request stream's scanner)
	notify  chan struct{} // ctlSeen changed
	second  chan struct{} // a second Write call has gone through while another one was in progress

	mu      sync.Mutex
	active  int
	seconds int  // Write calls that arrived while another one was in progress
	broken  bool // frames of two writers may be mixed: the gate's own parse is void, it only passes bytes on
}

func newGate(w io.WriteCloser, side string, isData func([]byte) bool, keepalive time.Duration, quit, aborted chan struct{}) *gate {
	g := &gate{w: w, side: side, isData: isData, keepalive: keepalive, quit: quit, aborted: aborted,
		notify: make(chan struct{}, 1), second: make(chan struct{}, 1)}
	g.scan.collect = true
	g.scan.onFrame = func(payload []byte) {
		g.classified, g.control = false, false
		if g.isData(payload) {
			g.dataDone++
		} else {
			g.ctlDone++
		}
	}
	return g
}

func (g *gate) sawControl() {
	g.ctlSeen.Add(1)
	select {
	case g.notify <- struct{}{}:
	default:
	}
}

func (g *gate) Close() error { return g.w.Close() }

func (g *gate) giveUp() {
	for _, t := range g.targets {
		t.closeStarted()
		t.closeEnded()
	}
}

func (g *gate) Write(b []byte) (int, error) {
	g.mu.Lock()
	if g.active > 0 {
		// a second writer: not this gate's business to serialise it. Pass it on as it comes.
		g.seconds++
		g.broken = true
		g.mu.Unlock()
		n, err := g.w.Write(b)
		select {
		case g.second <- struct{}{}:
		default:
		}
		return n, err
	}
	g.active++
	broken := g.broken
	g.mu.Unlock()
	defer func() {
		g.mu.Lock()
		g.active--
		g.mu.Unlock()
	}()
	if broken {
		g.giveUp()
		return g.w.Write(b)
	}
	if g.next >= len(g.targets) {
		g.scan.feed(b)
		return g.w.Write(b)
	}
	start := 0
	for i := range b {
		if sc := &g.scan; sc.inPay && sc.remain == sc.size && !g.classified {
			// the first payload byte of a frame: which kind of frame is it? Known if the rest of
			// this Write call holds the whole payload (both sides write a payload in one call)
			g.classified, g.control = true, false
			if uint64(len(b)-i) >= sc.size {
				g.control = !g.isData(b[i : i+int(sc.size)])
			}
		}
		if g.next < len(g.targets) && !g.control && g.atTarget(g.targets[g.next]) {
			if i > start {
				if n, err := g.w.Write(b[start:i]); err != nil {
					return start + n, err
				}
				start = i
			}
			t := g.targets[g.next]
			g.next++
			g.hold(t)
		}
		g.scan.feed(b[i : i+1])
	}
	if start < len(b) || len(b) == 0 {
		n, err := g.w.Write(b[start:])
		return start + n, err
	}
	return len(b), nil
}

// atTarget: is the byte about to be written the one in front of which t stops the writer?
// (data frame number t.n, counted from 0; a frame known to be a control frame is never stopped)
func (g *gate) atTarget(t *holdTarget) bool {
	s := &g.scan
	if g.dataDone < t.n || !s.inPay {
		return false
	}
	if t.spec.Pos == "mid-payload" && s.size >= 2 {
		return s.remain == s.size-s.size/2
	}
	return s.remain == s.size // after-prefix
}

func (g *gate) hold(t *holdTarget) {
	t.closeStarted()
	defer t.closeEnded()
	maxHold := 5 * time.Second
	if g.keepalive > 0 {
		// never starve the server of responses for a whole keepalive timeout on purpose
		maxHold = g.keepalive * 8 / 10
	}
	maxT := time.NewTimer(maxHold)
	defer maxT.Stop()
	select { // drop a stale wake-up
	case <-g.notify:
	default:
	}
	// 1. until the control message is under way
	var under <-chan struct{}
	var tick <-chan time.Time
	switch {
	case g.side == "agent":
	case t.spec.Trigger == "ping":
		// the server's keepalive ticker cannot be observed while its write loop is stopped:
		// one full interval (timeout/2) certainly contains a tick
		tm := time.NewTimer(g.keepalive/2 + time.Millisecond)
		defer tm.Stop()
		tick = tm.C
	default:
		under = t.fired
	}
wait:
	for {
		if g.side == "agent" && g.ctlSeen.Load() > g.ctlDone {
			break
		}
		select {
		case <-g.notify:
		case <-under:
			break wait
		case <-tick:
			break wait
		case <-g.second:
			t.outcome = "second-writer"
			return
		case <-maxT.C:
			t.outcome = "gave-up"
			return
		case <-g.quit:
			t.outcome = "torn-down"
			return
		case <-g.aborted:
			t.outcome = "torn-down"
			return
		}
	}
	// 2. the window in which the other goroutines of the side act on it
	w := time.NewTimer(raceGrace)
	defer w.Stop()
	select {
	case <-g.second:
		t.outcome = "second-writer"
	case <-w.C:
		t.outcome = "window"
	case <-g.quit:
		t.outcome = "torn-down"
	case <-g.aborted:
		t.outcome = "torn-down"
	}
}

func isDataResponse(payload []byte) bool {
	var r agent.Response
	if proto.Unmarshal(payload, &r) != nil {
		return false
	}
	switch r.Message.(type) {
	case *agent.Response_Begin, *agent.Response_Point, *agent.Response_End:
		return true
	}
	return false
}

func isDataRequest(payload []byte) bool {
	var r agent.Request
	if proto.Unmarshal(payload, &r) != nil {
		return false
	}
	switch r.Message.(type) {
	case *agent.Request_Begin, *agent.Request_Point, *agent.Request_End:
		return true
	}
	return false
}

// raceTargets computes, from the op list alone, where the gates stop their writers.
func raceTargets(c EchoCase) (agentSide, serverSide []*holdTarget, byOp map[int]*holdTarget) {
	byOp = map[int]*holdTarget{}
	before := 0
	for i, op := range c.Ops {
		f := opFrames(op)
		if op.Race != nil && f > 0 && !(op.Race.Trigger == "ping" && c.KeepaliveMs <= 0) {
			back := op.Race.FromEnd
			if back < 0 {
				back = 0
			}
			if back > f-1 {
				back = f - 1
			}
			t := &holdTarget{op: i, spec: *op.Race, n: before + f - 1 - back,
				started: make(chan struct{}), ended: make(chan struct{}), fired: make(chan struct{})}
			byOp[i] = t
			if op.Race.Side == "server" {
				serverSide = append(serverSide, t)
			} else {
				agentSide = append(agentSide, t)
			}
		}
		before += f
	}
	return
}

// ---------------------------------------------------------------- generator

func genRaceSpec(t *rapid.T, c *EchoCase, op Op, pingOK bool) *RaceSpec {
	r := &RaceSpec{Side: rapid.SampledFrom([]string{"agent", "agent", "server"}).Draw(t, "race/side")}
	r.Pos = rapid.SampledFrom([]string{"after-prefix", "mid-payload"}).Draw(t, "race/pos")
	trig := []string{"snapshot", "restore"}
	if pingOK {
		trig = []string{"ping", "ping", "ping", "snapshot", "restore"}
	}
	r.Trigger = rapid.SampledFrom(trig).Draw(t, "race/trigger")
	if r.Trigger != "ping" {
		r.Data = genBytes(t, "race/snap")
	}
	f := opFrames(op)
	switch {
	case r.Side == "agent":
		// the agent's read loop runs at most two data messages ahead of its write loop (one is
		// with the forwarding goroutine, one with the handler): only behind the last two frames
		// of the op can it get to the control request while the write is stopped
		r.FromEnd = rapid.SampledFrom([]int{0, 0, 1}).Draw(t, "race/fromend")
	case op.Kind == "batch" && !op.Unbuffered:
		// the server writes a buffered batch in one go: any of its frames
		r.FromEnd = rapid.IntRange(0, f-1).Draw(t, "race/fromend")
	default:
		// messages fed one by one: the feeder is only free once the last one has been taken
		r.FromEnd = 0
	}
	return r
}

func genRace(t *rapid.T) EchoCase {
	c := EchoCase{Batch: rapid.Bool().Draw(t, "edge")}
	c.KeepaliveMs = rapid.SampledFrom([]int{0, 100, 100, 150, 200}).Draw(t, "keepalive")
	// with keepalive on no message of several KB (read a few bytes at a time it outlasts the timeout)
	bigLeft, hugeLeft = 0, 0
	if c.KeepaliveMs == 0 {
		bigLeft = 1
	}
	c.Buffered = rapid.Bool().Draw(t, "buffered")
	c.TaskID, c.NodeID = rapid.SampledFrom(hostileStrings).Draw(t, "task"), rapid.SampledFrom(hostileStrings).Draw(t, "node")
	c.RespChunks = genChunks(t, "resp_chunks")
	c.ReqChunks = genChunks(t, "req_chunks")
	var shapes []groupShape
	if !c.Batch {
		for i, n := 0, rapid.IntRange(1, 3).Draw(t, "nshapes"); i < n; i++ {
			shapes = append(shapes, genShape(t))
		}
	}
	n := rapid.IntRange(1, 6).Draw(t, "nops")
	forced := rapid.IntRange(0, n-1).Draw(t, "raceat")
	races, pingRaces, pings := 0, 0, 0
	for i := 0; i < n; i++ {
		k := rapid.SampledFrom(opKinds).Draw(t, "opkind")
		if i == forced {
			k = "data"
		}
		var op Op
		switch {
		case k == "snapshot" || k == "restore":
			op = Op{Kind: k, Data: genBytes(t, "snap"), Wait: rapid.Bool().Draw(t, "wait")}
		case k == "waitping" && c.KeepaliveMs > 0 && pings < 1:
			op = Op{Kind: "waitping"}
			pings++
		case c.Batch:
			op = Op{Kind: "batch", B: genBatch(t), Unbuffered: rapid.Bool().Draw(t, "unbuffered"),
				Hint: rapid.SampledFrom([]string{"", "", "", "zero", "over", "under"}).Draw(t, "hint")}
		default:
			op = Op{Kind: "point", P: genPoint(t, shapes)}
		}
		if opFrames(op) > 0 && races < 3 && (i == forced || rapid.IntRange(0, 3).Draw(t, "race") == 0) {
			op.Race = genRaceSpec(t, &c, op, c.KeepaliveMs > 0 && pingRaces < 2)
			races++
			if op.Race.Trigger == "ping" {
				pingRaces++
			}
		}
		c.Ops = append(c.Ops, op)
	}
	return c
}

const raceRule = "rapid: echo sessions of 1-6 ops (as unit Echo, messages < 4 KB when keepalive is on) in which 1-3 data ops carry a forced schedule: the write of one of the op's frames - on the agent's output or on the server's output - is stopped " +
	"between length prefix and payload or in the middle of the payload until a keepalive request / Snapshot() / Restore() provoked meanwhile is under way on that side; keepalive 0/100/150/200 ms, both streams fragmented, io.Pipe or coalescing buffer; " +
	"non-trivial = a write was stopped inside a data frame and the window was held open with the control message under way (not given up, not torn down); distinct by case hash"

var raceAssumptions = append(append([]string{}, echoAssumptions...),
	"Race: a writer (io.WriteCloser handed to agent.New / udf.NewServer) may block for any time inside a Write call and may pass on any part of the bytes before it blocks: that is how a full pipe or socket buffer behaves; the gate delays, it never reorders, drops or changes bytes of a writer that writes one frame after the other, and it does not serialise Write calls of different goroutines (neither does an os.File or net.Conn beyond single calls)",
	"Race: the property quantifies over all interleavings of data with keepalive and snapshot requests; the forced ones are: a keepalive request / snapshot request / restore request is read by the agent while the agent's write of an echoed data frame is stopped (agent side), and the server's keepalive ticker fires / Snapshot() / Restore() is called while the server's write of a data frame is stopped (server side). The oracle is unit Echo's (identical items in order, no error, snapshot/restore bytes)",
	"Race: agent side, the stopped frame is one of the last two frames of the op because udf/agent's read loop runs at most two handler responses ahead of its write loop (agent.go: unbuffered Responses channel + forwarding goroutine); read from code, only used to place the stop where the control request can be read at all - a wrong guess costs a wasted wait (label race:gave-up), never a verdict",
	"Race: timers (10 ms window; agent side at most 0.8 x keepalive timeout, server side keepalive/2 for a ping) only bound how long a write stays stopped; a session whose server aborts with 'keepalive timedout' is judged as in unit Echo (correct prefix only)",
)

func runRace(c EchoCase, cc *kit.Case) { runEchoUnit(c, cc, "Race") }

func TestRace(t *testing.T) {
	r := kit.NewRec("C19", "Race", raceRule, raceAssumptions...)
	excludeHook = func(class string) { r.Exclude(class) }
	defer func() { excludeHook = nil }()
	kit.Check(t, r, genRace, runRace)
}

func TestReplayRace(t *testing.T) {
	r := kit.NewRec("C19", "Race", raceRule, raceAssumptions...)
	kit.Replay(t, r, runRace)
}
