package c10

import (
	"fmt"
	"reflect"
	"sort"
	"strings"
	"testing"
	"time"

	"verifharness/kit"

	"pgregory.net/rapid"
)

// FP is one input point of the flatten/combine units.
type FP struct {
	G   int    `json:"g"`
	DC  string `json:"dc"` // "" = tag absent
	X   string `json:"x"`
	Gap int64  `json:"gap"` // ns
	I   int64  `json:"i"`
	S   string `json:"s"`
	Cut bool   `json:"cut,omitempty"`
	// tag presence (flatten unit): a point need not carry every tag, in particular not the
	// tags the data is grouped by
	NoHost bool   `json:"nohost,omitempty"` // the host tag is absent
	NoX    bool   `json:"nox,omitempty"`    // the x tag is absent (X == "" alone is an empty-valued tag)
	Rack   string `json:"rack,omitempty"`   // "" = tag absent
}

type FlatCase struct {
	Batch   bool     `json:"batch"`
	On      []string `json:"on"`
	Delim   string   `json:"delim"` // "" = default "."
	TolSec  int64    `json:"tolsec"`
	Drop    bool     `json:"drop"`
	GroupBy bool     `json:"groupby"`
	Dims    []string `json:"dims,omitempty"` // group-by tags as written in the script; empty with GroupBy = ['host']
	Pts     []FP     `json:"pts"`
}

const ruleFlat = "rapid: flatten().on(1-2 tags)[.delimiter][.tolerance][.dropOriginalFieldName] over 1-4 groups (grouped by 'host' or by 'host' and 'rack', in either order), points with 0-4 tags of which any - " +
	"also a group-by tag - may be absent, runs of equal (tolerance-rounded) timestamps, stream and batch; " +
	"oracle: reference written from pipeline/flatten.go's doc comment (fields, time, name) and the group the points belong to (tags = exactly the group's tags, dimensions, group id); " +
	"non-trivial = a run of >=2 points with different flatten-tag values was flattened; distinct by case hash"

// dims returns the group-by tags in the order kapacitor reports them (sorted).
func (c FlatCase) dims() []string {
	if !c.GroupBy {
		return nil
	}
	d := append([]string(nil), c.Dims...)
	if len(d) == 0 {
		d = []string{"host"}
	}
	sort.Strings(d)
	return d
}

func genFlat(t *rapid.T) FlatCase {
	var c FlatCase
	c.Batch = rapid.IntRange(0, 2).Draw(t, "batch") == 0
	c.On = rapid.SampledFrom([][]string{{"dc"}, {"dc", "x"}, {"x", "dc"}, {"x"}}).Draw(t, "on")
	c.Delim = rapid.SampledFrom([]string{"", "", "_", "::"}).Draw(t, "delim")
	c.TolSec = int64(rapid.SampledFrom([]int{0, 0, 1, 2}).Draw(t, "tol"))
	c.Drop = rapid.IntRange(0, 3).Draw(t, "drop") == 0
	c.GroupBy = rapid.Bool().Draw(t, "groupby")
	groups := 1
	if c.GroupBy {
		groups = rapid.IntRange(1, 2).Draw(t, "groups")
		c.Dims = rapid.SampledFrom([][]string{nil, nil, {"host", "rack"}, {"rack", "host"}}).Draw(t, "dims")
	}
	// sparse: some points lack tags, also the tags the data is grouped by (every second case)
	sparse := rapid.Bool().Draw(t, "sparse")
	n := rapid.IntRange(0, 24).Draw(t, "n")
	for i := 0; i < n; i++ {
		p := FP{G: rapid.IntRange(0, groups-1).Draw(t, "g"), DC: rapid.SampledFrom([]string{"d0", "d1", "d2", "d0", "d1", ""}).Draw(t, "dc"), X: rapid.SampledFrom([]string{"a", "b", "a", ""}).Draw(t, "x"),
			Gap: rapid.SampledFrom([]int64{0, 0, 0, 4e8, 6e8, 1e9, 1e9, 3e9}).Draw(t, "gap"), I: int64(rapid.IntRange(0, 9).Draw(t, "i")), S: rapid.SampledFrom([]string{"p", "q"}).Draw(t, "s")}
		if c.Batch {
			p.Cut = i == 0 || rapid.IntRange(0, 4).Draw(t, "cut") == 0
		}
		if sparse {
			p.NoHost = rapid.IntRange(0, 2).Draw(t, "nohost") == 0
			p.NoX = rapid.IntRange(0, 2).Draw(t, "nox") == 0
			p.Rack = rapid.SampledFrom([]string{"", "", "r0"}).Draw(t, "rack")
		}
		c.Pts = append(c.Pts, p)
	}
	return c
}

func (c FlatCase) script() string {
	var s strings.Builder
	if c.Batch {
		s.WriteString(`batch|query('SELECT * FROM "db"."rp"."m"').period(10s).every(10s)`)
	} else {
		s.WriteString("stream|from().measurement('m')")
	}
	if c.GroupBy {
		d := c.Dims
		if len(d) == 0 {
			d = []string{"host"}
		}
		fmt.Fprintf(&s, ".groupBy(%s)", q(d))
	}
	fmt.Fprintf(&s, "|flatten().on(%s)", q(c.On))
	if c.Delim != "" {
		fmt.Fprintf(&s, ".delimiter('%s')", c.Delim)
	}
	if c.TolSec != 0 {
		fmt.Fprintf(&s, ".tolerance(%ds)", c.TolSec)
	}
	if c.Drop {
		s.WriteString(".dropOriginalFieldName()")
	}
	s.WriteString("|log().prefix('S')")
	return s.String()
}

func roundT(t, tolSec int64) int64 {
	if tolSec == 0 {
		return t
	}
	return time.Unix(0, t).UTC().Round(time.Duration(tolSec) * time.Second).UnixNano()
}

// groupTagsOf returns the tags of the group a point with these tags belongs to: the value of
// every group-by tag, the empty string for a tag the point does not have.
func (c FlatCase) groupTagsOf(tags map[string]string) map[string]string {
	if !c.GroupBy {
		return nil
	}
	g := map[string]string{}
	for _, d := range c.dims() {
		g[d] = tags[d]
	}
	return g
}

func (c FlatCase) inputs() (pts []kit.Pt, bts []kit.Bt) {
	t := t0
	open := map[string]int{}
	for i, p := range c.Pts {
		t += p.Gap
		tags := map[string]string{}
		if !p.NoHost {
			tags["host"] = fmt.Sprintf("h%d", p.G)
		}
		if !p.NoX {
			tags["x"] = p.X
		}
		if p.DC != "" {
			tags["dc"] = p.DC
		}
		if p.Rack != "" {
			tags["rack"] = p.Rack
		}
		fields := map[string]kit.FV{"i": kit.I(p.I), "s": kit.S(p.S), "n": kit.I(int64(i))}
		if c.Drop {
			// without the field name every field of a point gets the same name: single-field points
			fields = map[string]kit.FV{"i": kit.I(p.I)}
		}
		if !c.Batch {
			pts = append(pts, kit.Pt{Name: "m", Tags: tags, Fields: fields, Time: t})
			continue
		}
		// a batch belongs to one group and carries the group's tags (what a grouped query or
		// window() delivers: a group-by tag the group's points lack has the empty value)
		gk := groupKey(kit.Pt{Tags: tags, Dims: c.dims()})
		bi, ok := open[gk]
		if p.Cut || !ok {
			b := kit.Bt{Name: "m", Points: []kit.Pt{}}
			if c.GroupBy {
				b.Tags = c.groupTagsOf(tags)
			}
			bts = append(bts, b)
			bi = len(bts) - 1
			open[gk] = bi
		}
		bts[bi].Points = append(bts[bi].Points, kit.Pt{Tags: tags, Fields: fields, Time: t})
		bts[bi].TMax = t
	}
	return
}

// flattenRun merges the points of one run (same group, same rounded time) into one field set.
func (c FlatCase) flattenRun(run []kit.Pt) map[string]kit.FV {
	delim := c.Delim
	if delim == "" {
		delim = "."
	}
	fields := map[string]kit.FV{}
	for _, p := range run {
		var vals []string
		ok := true
		for _, tag := range c.On {
			v, has := p.Tags[tag]
			if !has {
				ok = false
			}
			vals = append(vals, v)
		}
		if !ok {
			continue // a point that lacks a flatten tag is reported and skipped
		}
		prefix := strings.Join(vals, delim)
		for f, v := range p.Fields {
			key := prefix
			if !c.Drop {
				if prefix != "" {
					key = prefix + delim + f
				} else {
					key = f
				}
			}
			fields[key] = v
		}
	}
	return fields
}

// groupTagsOK: a point emitted for a group carries exactly the group's tags - every group-by
// tag with the group's value and no other tag. A group-by tag the group's points do not have
// (empty value) may be carried with the empty value or left out: the documentation does not
// say which.
func groupTagsOK(got, want map[string]string) bool {
	for k, v := range got {
		if wv, ok := want[k]; !ok || wv != v {
			return false
		}
	}
	for k, v := range want {
		if gv, ok := got[k]; v != "" && (!ok || gv != v) {
			return false
		}
	}
	return true
}

type flatOut struct {
	t      int64
	fields map[string]kit.FV
	last   bool // stream: the group's last run (may be absent)
}

// runs splits a group's points (in arrival order) into runs of equal rounded time.
func (c FlatCase) runs(pts []kit.Pt) []flatOut {
	var out []flatOut
	var cur []kit.Pt
	curT := int64(0)
	for _, p := range pts {
		rt := roundT(p.Time, c.TolSec)
		if len(cur) > 0 && rt != curT {
			out = append(out, flatOut{t: curT, fields: c.flattenRun(cur)})
			cur = nil
		}
		curT = rt
		cur = append(cur, p)
	}
	if len(cur) > 0 {
		out = append(out, flatOut{t: curT, fields: c.flattenRun(cur), last: true})
	}
	return out
}

func runFlat(c FlatCase, cc *kit.Case) {
	pts, bts := c.inputs()
	script := c.script()
	if c.Batch {
		cc.Label("batch")
	} else {
		cc.Label("stream")
	}
	env, err := kit.NewEnv(kit.EnvOpts{})
	if err != nil {
		cc.Fail("harness/env", "env: %v", err)
		return
	}
	defer env.Close()
	var defErr, runErr error
	if c.Batch {
		defErr, runErr = env.RunBatch(script, [][]kit.Bt{bts})
	} else {
		defErr, runErr = env.RunStream(script, pts)
	}
	if defErr != nil {
		cc.Fail("harness/script-rejected", "script rejected: %v\n%s", defErr, script)
		return
	}
	if runErr != nil {
		cc.Fail("task-error", "task ended with error: %v\n%s", runErr, script)
		return
	}
	obs := env.Sink.By("S")
	dims := c.dims()
	sparse, lacks := false, false
	for _, p := range c.Pts {
		sparse = sparse || p.NoHost || p.NoX || p.Rack != ""
		lacks = lacks || c.GroupBy && (p.NoHost || len(dims) == 2 && p.Rack == "")
	}
	if sparse {
		cc.Label("sparse-tags")
	}
	if lacks {
		cc.Label("point-lacks-group-by-tag")
	}
	if len(dims) == 2 {
		cc.Label("two-group-by-tags")
	}
	nontrivial := false
	note := func(o flatOut) {
		if len(o.fields) >= 2 {
			nontrivial = true
		}
	}
	if c.Batch {
		if len(obs) != len(bts) {
			cc.Fail("flatten/batch-count", "%d batches out, %d in\n%s", len(obs), len(bts), script)
			return
		}
		for i, b := range bts {
			o := obs[i].B
			if o == nil || o.Name != "m" || o.TMax != b.TMax || !(reflect.DeepEqual(o.Tags, b.Tags) || len(o.Tags) == 0 && len(b.Tags) == 0) {
				cc.Fail("flatten/batch-meta", "batch %d: %+v, input %+v\n%s", i, o, b, script)
				return
			}
			var exp []flatOut
			for _, r := range c.runs(b.Points) {
				if len(r.fields) > 0 {
					exp = append(exp, r)
					note(r)
				}
			}
			if len(o.Points) != len(exp) {
				cc.Fail("flatten/point-count", "batch %d holds %d flattened points, reference %d\n%s\nobserved %+v\nexpected %+v", i, len(o.Points), len(exp), script, o.Points, exp)
				return
			}
			for j, e := range exp {
				p := o.Points[j]
				if p.Time != e.t || !reflect.DeepEqual(p.Fields, e.fields) || !groupTagsOK(p.Tags, b.Tags) {
					cc.Fail("flatten/point-content", "batch %d point %d: time %d tags %v fields %v, reference time %d tags %v fields %v\n%s", i, j, p.Time, p.Tags, p.Fields, e.t, b.Tags, e.fields, script)
					return
				}
			}
		}
	} else {
		// the group of a point: its values of the group-by tags (a missing tag counts as the empty value)
		byG := map[string][]kit.Pt{}
		tagsG := map[string]map[string]string{}
		var order []string
		for _, p := range pts {
			g := groupKey(kit.Pt{Tags: p.Tags, Dims: dims})
			if _, ok := byG[g]; !ok {
				order = append(order, g)
				tagsG[g] = c.groupTagsOf(p.Tags)
			}
			byG[g] = append(byG[g], p)
		}
		obsG := map[string][]kit.Pt{}
		for _, o := range obs {
			if o.P == nil {
				cc.Fail("flatten/not-a-point", "output is not a point")
				return
			}
			if _, ok := byG[o.P.Group]; !ok {
				cc.Fail("flatten/point-group", "flattened point %+v belongs to group %q, the input has the groups %q\n%s", *o.P, o.P.Group, order, script)
				return
			}
			obsG[o.P.Group] = append(obsG[o.P.Group], *o.P)
		}
		for _, g := range order {
			var exp []flatOut
			for _, r := range c.runs(byG[g]) {
				if len(r.fields) > 0 || r.last {
					exp = append(exp, r)
				}
			}
			got := obsG[g]
			// nothing marks the end of the last run: it may be absent
			if len(exp) > 0 && exp[len(exp)-1].last && (len(got) == len(exp)-1 || len(exp[len(exp)-1].fields) == 0) {
				exp = exp[:len(exp)-1]
			}
			if len(got) != len(exp) {
				cc.Fail("flatten/point-count", "group %q: %d flattened points, reference %d\n%s\nobserved %+v\nexpected %+v", g, len(got), len(exp), script, got, exp)
				return
			}
			for j, e := range exp {
				note(e)
				p := got[j]
				wantTags := tagsG[g]
				if p.Name != "m" || p.Time != e.t || !reflect.DeepEqual(p.Fields, e.fields) || !groupTagsOK(p.Tags, wantTags) {
					cc.Fail("flatten/point-content", "group %q point %d: name %s time %d tags %v fields %v, reference time %d tags %v fields %v\n%s", g, j, p.Name, p.Time, p.Tags, p.Fields, e.t, wantTags, e.fields, script)
					return
				}
				if !reflect.DeepEqual(p.Dims, dims) && (len(p.Dims) != 0 || len(dims) != 0) {
					cc.Fail("flatten/point-group", "group %q point %d: dimensions %v, the data is grouped by %v\n%s", g, j, p.Dims, dims, script)
					return
				}
			}
		}
	}
	if nontrivial {
		cc.NonTrivial()
	}
}

var assumptionsFlat = []string{
	"points of one group with the same tolerance-rounded timestamp are flattened into one point named after the measurement, carrying the group's tags; field names are <tag values joined by the delimiter><delimiter><field> (without the field name with dropOriginalFieldName); later points overwrite equal names",
	"a point that lacks one of the flatten tags is reported and skipped; stream edges: the last run of a group may be absent (nothing marks its end)",
	"points that lack a group-by tag form the group in which that tag has the empty value (models.ToGroupID: a missing tag and an empty tag give the same group id; InfluxDB's GROUP BY does the same); the flattened point of such a group may carry the tag with the empty value or not at all, and never a tag that is not a group-by tag (pipeline/group_by.go: 'Only tags that are dimensions in the grouping will be preserved; all other tags are dropped'; pipeline/flatten.go's example drops the flatten tag)",
	"the group-by tags of a point are reported sorted by name (stream.go/group_by.go: determineTagNames sorts); the group id of a point is the one models.ToGroupID computes (as in unit Nodes); batches of a group that lacks a group-by tag carry that tag with the empty value, their points do not carry it (what window() emits for such a group)",
}

func TestFlatten(t *testing.T) {
	r := kit.NewRec("C10", "Flatten", ruleFlat, assumptionsFlat...)
	kit.Check(t, r, genFlat, runFlat)
}

func TestReplayFlatten(t *testing.T) {
	r := kit.NewRec("C10", "Flatten", ruleFlat, assumptionsFlat...)
	kit.Replay(t, r, runFlat)
}
