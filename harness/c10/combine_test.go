package c10

import (
	"encoding/json"
	"fmt"
	"reflect"
	"sort"
	"strings"
	"testing"

	"verifharness/kit"

	"pgregory.net/rapid"
)

type CombCase struct {
	Batch   bool   `json:"batch"`
	Kind    int    `json:"kind"` // 0: ("s"=='p', TRUE)  1: (TRUE, TRUE)  2: (TRUE, TRUE, TRUE)  3: ("s"=='p', "s"=='q')
	Delim   string `json:"delim"`
	TolSec  int64  `json:"tolsec"`
	GroupBy bool   `json:"groupby"`
	Pts     []FP   `json:"pts"`
}

const ruleComb = "rapid: combine() with 2-3 lambdas (selective and TRUE), as(), delimiter, tolerance over 1-3 groups (one of them the points that lack the group-by tag) and runs of 1-5 points with equal (rounded) timestamps, stream and batch input; " +
	"oracle: reference from pipeline/combine.go's doc comment (all combinations of distinct points of one time, each expression matched to a distinct point, fields and non-group tags prefixed); outputs of a run compared as multisets; non-trivial = a run of >=3 points produced >=2 combinations; distinct by case hash"

var combExprs = [][]string{{`"s" == 'p'`, `TRUE`}, {`TRUE`, `TRUE`}, {`TRUE`, `TRUE`, `TRUE`}, {`"s" == 'p'`, `"s" == 'q'`}}
var combNames = []string{"l", "r", "c"}

func genComb(t *rapid.T) CombCase {
	var c CombCase
	c.Batch = rapid.IntRange(0, 2).Draw(t, "batch") == 0
	c.Kind = rapid.IntRange(0, 3).Draw(t, "kind")
	c.Delim = rapid.SampledFrom([]string{"", "", "_"}).Draw(t, "delim")
	c.TolSec = int64(rapid.SampledFrom([]int{0, 0, 1, 2}).Draw(t, "tol"))
	c.GroupBy = rapid.Bool().Draw(t, "groupby")
	groups := 1
	if c.GroupBy {
		groups = rapid.IntRange(1, 2).Draw(t, "groups")
	}
	// every third grouped case: some points lack the host tag the data is grouped by
	sparse := c.GroupBy && rapid.IntRange(0, 2).Draw(t, "sparse") == 0
	n := rapid.IntRange(0, 16).Draw(t, "n")
	for i := 0; i < n; i++ {
		p := FP{G: rapid.IntRange(0, groups-1).Draw(t, "g"), DC: rapid.SampledFrom([]string{"d0", "d1"}).Draw(t, "dc"), X: "a",
			Gap: rapid.SampledFrom([]int64{0, 0, 0, 0, 4e8, 1e9, 3e9}).Draw(t, "gap"), I: int64(rapid.IntRange(0, 9).Draw(t, "i")), S: rapid.SampledFrom([]string{"p", "q", "q"}).Draw(t, "s")}
		if sparse {
			p.NoHost = rapid.IntRange(0, 2).Draw(t, "nohost") == 0
		}
		if c.Batch {
			p.Cut = i == 0 || rapid.IntRange(0, 5).Draw(t, "cut") == 0
		}
		c.Pts = append(c.Pts, p)
	}
	return c
}

func (c CombCase) script() string {
	var s strings.Builder
	if c.Batch {
		s.WriteString(`batch|query('SELECT * FROM "db"."rp"."m"').period(10s).every(10s)`)
	} else {
		s.WriteString("stream|from().measurement('m')")
	}
	if c.GroupBy {
		s.WriteString(".groupBy('host')")
	}
	var ls, as []string
	for i, e := range combExprs[c.Kind] {
		ls = append(ls, "lambda: "+e)
		as = append(as, "'"+combNames[i]+"'")
	}
	fmt.Fprintf(&s, "|combine(%s).as(%s)", strings.Join(ls, ", "), strings.Join(as, ", "))
	if c.Delim != "" {
		fmt.Fprintf(&s, ".delimiter('%s')", c.Delim)
	}
	if c.TolSec != 0 {
		fmt.Fprintf(&s, ".tolerance(%ds)", c.TolSec)
	}
	s.WriteString("|log().prefix('S')")
	return s.String()
}

func (c CombCase) match(expr int, p kit.Pt) bool {
	switch combExprs[c.Kind][expr] {
	case `TRUE`:
		return true
	case `"s" == 'p'`:
		return p.Fields["s"].V == "p"
	default:
		return p.Fields["s"].V == "q"
	}
}

// combinations of one run, as canonical strings.
func (c CombCase) combine(run []kit.Pt, t int64) []string {
	k := len(combExprs[c.Kind])
	n := len(run)
	delim := c.Delim
	if delim == "" {
		delim = "."
	}
	var out []string
	idx := make([]int, k)
	var rec func(start, depth int)
	rec = func(start, depth int) {
		if depth == k {
			remaining := append([]int(nil), idx...)
			set := make([]int, k)
			for s := 0; s < k; s++ {
				found := -1
				for ri, pi := range remaining {
					if c.match(s, run[pi]) {
						found = ri
						break
					}
				}
				if found < 0 {
					return
				}
				set[s] = remaining[found]
				remaining = append(remaining[:found], remaining[found+1:]...)
			}
			o := kit.Pt{Name: "m", Time: t, Fields: map[string]kit.FV{}, Tags: map[string]string{}}
			for s, pi := range set {
				for f, v := range run[pi].Fields {
					o.Fields[combNames[s]+delim+f] = v
				}
				for tg, v := range run[pi].Tags {
					if c.GroupBy && tg == "host" {
						o.Tags[tg] = v
					} else {
						o.Tags[combNames[s]+delim+tg] = v
					}
				}
			}
			b, _ := json.Marshal(o)
			out = append(out, string(b))
			return
		}
		for i := start; i < n; i++ {
			idx[depth] = i
			rec(i+1, depth+1)
		}
	}
	if n >= k {
		rec(0, 0)
	}
	return out
}

func runComb(c CombCase, cc *kit.Case) {
	fc := FlatCase{Batch: c.Batch, GroupBy: c.GroupBy, Pts: c.Pts}
	pts, bts := fc.inputs()
	script := c.script()
	env, err := kit.NewEnv(kit.EnvOpts{})
	if err != nil {
		cc.Fail("harness/env", "env: %v", err)
		return
	}
	defer env.Close()
	var defErr, runErr error
	if c.Batch {
		defErr, runErr = env.RunBatch(script, [][]kit.Bt{bts})
	} else {
		defErr, runErr = env.RunStream(script, pts)
	}
	if defErr != nil {
		cc.Fail("harness/script-rejected", "script rejected: %v\n%s", defErr, script)
		return
	}
	if runErr != nil {
		cc.Fail("task-error", "task ended with error: %v\n%s", runErr, script)
		return
	}
	// expected: per group, per run
	type runKey struct {
		g string
		t int64
	}
	want := map[runKey][]string{}
	optional := map[runKey]bool{}
	nontrivial := false
	addRuns := func(g string, ps []kit.Pt, lastOptional bool) {
		var cur []kit.Pt
		curT := int64(0)
		flush := func(last bool) {
			if len(cur) == 0 {
				return
			}
			k := runKey{g, curT}
			want[k] = append(want[k], c.combine(cur, curT)...)
			if len(cur) >= 3 && len(want[k]) >= 2 {
				nontrivial = true
			}
			if last && lastOptional {
				optional[k] = true
			}
			cur = nil
		}
		for _, p := range ps {
			rt := roundT(p.Time, c.TolSec)
			if len(cur) > 0 && rt != curT {
				flush(false)
			}
			curT = rt
			cur = append(cur, p)
		}
		flush(true)
	}
	gOf := func(tags map[string]string) string {
		if c.GroupBy {
			return tags["host"]
		}
		return ""
	}
	if c.Batch {
		for _, b := range bts {
			var ps []kit.Pt
			for _, p := range b.Points {
				q := p
				q.Name = "m"
				ps = append(ps, q)
			}
			addRuns(gOf(b.Tags), ps, false)
		}
	} else {
		byG := map[string][]kit.Pt{}
		for _, p := range pts {
			byG[gOf(p.Tags)] = append(byG[gOf(p.Tags)], p)
		}
		for g, ps := range byG {
			addRuns(g, ps, true)
		}
	}
	got := map[runKey][]string{}
	for _, o := range env.Sink.By("S") {
		if o.P == nil {
			cc.Fail("combine/not-a-point", "output is not a point")
			return
		}
		p := *o.P
		k := runKey{gOf(p.Tags), p.Time}
		p.DB, p.RP, p.Group, p.Dims, p.ByName = "", "", "", nil, false
		if v, ok := p.Tags["host"]; ok && v == "" && c.GroupBy {
			// the group whose points lack the host tag: the tag may be carried with the empty value or left out
			delete(p.Tags, "host")
			if len(p.Tags) == 0 {
				p.Tags = nil
			}
		}
		b, _ := json.Marshal(p)
		got[k] = append(got[k], string(b))
	}
	for k, w := range want {
		g := got[k]
		sort.Strings(w)
		sort.Strings(g)
		if optional[k] && len(g) == 0 {
			continue
		}
		if !reflect.DeepEqual(g, w) && !(len(g) == 0 && len(w) == 0) {
			cc.Fail("combine/run-output", "group %q time %d: %d combinations, reference %d\nscript: %s\nobserved: %v\nexpected: %v", k.g, k.t, len(g), len(w), script, g, w)
			return
		}
	}
	for k, g := range got {
		if _, ok := want[k]; !ok && len(g) > 0 {
			cc.Fail("combine/run-output", "group %q time %d: %d combinations for a time no input point has\n%s", k.g, k.t, len(g), script)
			return
		}
	}
	if nontrivial {
		cc.NonTrivial()
	}
	cc.Label(fmt.Sprintf("kind:%d", c.Kind))
	for _, p := range c.Pts {
		if p.NoHost && c.GroupBy {
			cc.Label("point-lacks-group-by-tag")
			break
		}
	}
}

var assumptionsComb = []string{
	"points of one group with the same tolerance-rounded timestamp are combined: every combination of k distinct points for which each of the k expressions, in order, finds a not yet used matching point (first match in arrival order) yields one point whose fields and non-group tags are prefixed with the as() names; the outputs of one timestamp are compared as a multiset",
	"stream input: the combinations of the last timestamp of a group may be absent (nothing marks its end)",
	"points that lack the group-by tag form the group in which that tag has the empty value (models.ToGroupID); a combination of such points may carry the tag with the empty value or not at all",
}

func TestCombine(t *testing.T) {
	r := kit.NewRec("C10", "Combine", ruleComb, assumptionsComb...)
	kit.Check(t, r, genComb, runComb)
}

func TestReplayCombine(t *testing.T) {
	r := kit.NewRec("C10", "Combine", ruleComb, assumptionsComb...)
	kit.Replay(t, r, runComb)
}
