package c10

import (
	"fmt"
	"strconv"
	"strings"
)

// E is a small typed lambda expression: it renders to TICKscript and is evaluated by the
// reference with TICKscript's documented typed semantics (no implicit int/float coercion in
// arithmetic, int/float comparison allowed, AND/OR short-circuit, errors on missing values).
type E struct {
	K string  `json:"k"` // ref int flt str bool bin not call
	N string  `json:"n,omitempty"`
	I int64   `json:"i,omitempty"`
	F float64 `json:"f,omitempty"`
	S string  `json:"s,omitempty"`
	B bool    `json:"b,omitempty"`
	A []*E    `json:"a,omitempty"`
}

func (e *E) String() string {
	switch e.K {
	case "ref":
		return `"` + e.N + `"`
	case "int":
		return strconv.FormatInt(e.I, 10)
	case "flt":
		s := strconv.FormatFloat(e.F, 'f', -1, 64)
		if !strings.Contains(s, ".") {
			s += ".0"
		}
		return s
	case "str":
		return "'" + strings.ReplaceAll(e.S, "'", `\'`) + "'"
	case "bool":
		if e.B {
			return "TRUE"
		}
		return "FALSE"
	case "bin":
		return "(" + e.A[0].String() + " " + e.N + " " + e.A[1].String() + ")"
	case "not":
		return "!" + e.A[0].String()
	case "call":
		var a []string
		for _, x := range e.A {
			a = append(a, x.String())
		}
		return e.N + "(" + strings.Join(a, ", ") + ")"
	}
	panic("bad expr kind " + e.K)
}

// V is a typed value: T in i f s b.
type V struct {
	T byte
	I int64
	F float64
	S string
	B bool
}

func (v V) num() float64 {
	if v.T == 'i' {
		return float64(v.I)
	}
	return v.F
}

// exprState is the per-group state of the stateful functions of one expression.
type exprState struct {
	counts map[*E]int64
}

func newExprState() *exprState { return &exprState{counts: map[*E]int64{}} }

var errEval = fmt.Errorf("evaluation error")

// eval evaluates e in scope (name -> value; absent = missing). A reference to a missing
// value anywhere in the expression is an error for the point ("any ... missing field ... is
// reported as an error for that point"): the expression's type is determined from all of its
// operands before it is evaluated, so short-circuiting does not hide a missing operand.
func (e *E) eval(scope map[string]V, st *exprState) (V, error) {
	if !e.refsPresent(scope) {
		if e.hasLogical() {
			// whether a missing operand behind a short-circuit is an error depends on details of
			// the type pre-check that are C04's subject: this case is not compared
			ambiguous = true
		}
		return V{}, errEval
	}
	return e.ev(scope, st)
}

// ambiguous is set by the reference when it meets a situation the documentation leaves open.
var ambiguous bool

func (e *E) hasLogical() bool {
	if e.K == "bin" && (e.N == "AND" || e.N == "OR") {
		return true
	}
	for _, a := range e.A {
		if a.hasLogical() {
			return true
		}
	}
	return false
}

func (e *E) refsPresent(scope map[string]V) bool {
	if e.K == "ref" {
		_, ok := scope[e.N]
		return ok
	}
	for _, a := range e.A {
		if !a.refsPresent(scope) {
			return false
		}
	}
	return true
}

func (e *E) ev(scope map[string]V, st *exprState) (V, error) {
	switch e.K {
	case "ref":
		v, ok := scope[e.N]
		if !ok {
			return V{}, errEval
		}
		return v, nil
	case "int":
		return V{T: 'i', I: e.I}, nil
	case "flt":
		return V{T: 'f', F: e.F}, nil
	case "str":
		return V{T: 's', S: e.S}, nil
	case "bool":
		return V{T: 'b', B: e.B}, nil
	case "not":
		v, err := e.A[0].ev(scope, st)
		if err != nil || v.T != 'b' {
			return V{}, errEval
		}
		return V{T: 'b', B: !v.B}, nil
	case "call":
		switch e.N {
		case "count":
			st.counts[e]++
			return V{T: 'i', I: st.counts[e]}, nil
		case "float":
			v, err := e.A[0].ev(scope, st)
			if err != nil || (v.T != 'i' && v.T != 'f') {
				return V{}, errEval
			}
			return V{T: 'f', F: v.num()}, nil
		case "string":
			v, err := e.A[0].ev(scope, st)
			if err != nil {
				return V{}, errEval
			}
			switch v.T {
			case 'i':
				return V{T: 's', S: strconv.FormatInt(v.I, 10)}, nil
			case 's':
				return v, nil
			case 'b':
				return V{T: 's', S: strconv.FormatBool(v.B)}, nil
			case 'f':
				return V{T: 's', S: strconv.FormatFloat(v.F, 'f', -1, 64)}, nil
			}
			return V{}, errEval
		}
		panic("bad call " + e.N)
	case "bin":
		l, err := e.A[0].ev(scope, st)
		if err != nil {
			return V{}, errEval
		}
		if e.N == "AND" || e.N == "OR" {
			if l.T != 'b' {
				return V{}, errEval
			}
			if (e.N == "AND" && !l.B) || (e.N == "OR" && l.B) {
				return l, nil
			}
			r, err := e.A[1].ev(scope, st)
			if err != nil || r.T != 'b' {
				return V{}, errEval
			}
			return r, nil
		}
		r, err := e.A[1].ev(scope, st)
		if err != nil {
			return V{}, errEval
		}
		switch e.N {
		case "+", "-", "*", "/", "%":
			if l.T != r.T {
				return V{}, errEval
			}
			switch l.T {
			case 'i':
				switch e.N {
				case "+":
					return V{T: 'i', I: l.I + r.I}, nil
				case "-":
					return V{T: 'i', I: l.I - r.I}, nil
				case "*":
					return V{T: 'i', I: l.I * r.I}, nil
				case "/":
					if r.I == 0 {
						return V{}, errEval
					}
					return V{T: 'i', I: l.I / r.I}, nil
				case "%":
					if r.I == 0 {
						return V{}, errEval
					}
					return V{T: 'i', I: l.I % r.I}, nil
				}
			case 'f':
				switch e.N {
				case "+":
					return V{T: 'f', F: l.F + r.F}, nil
				case "-":
					return V{T: 'f', F: l.F - r.F}, nil
				case "*":
					return V{T: 'f', F: l.F * r.F}, nil
				case "/":
					return V{T: 'f', F: l.F / r.F}, nil
				}
			case 's':
				if e.N == "+" {
					return V{T: 's', S: l.S + r.S}, nil
				}
			}
			return V{}, errEval
		case "==", "!=", "<", "<=", ">", ">=":
			var c int
			switch {
			case (l.T == 'i' || l.T == 'f') && (r.T == 'i' || r.T == 'f'):
				if l.T == 'i' && r.T == 'i' {
					c = cmpInt(l.I, r.I)
				} else {
					a, b := l.num(), r.num()
					switch {
					case a < b:
						c = -1
					case a > b:
						c = 1
					}
				}
			case l.T == 's' && r.T == 's':
				c = strings.Compare(l.S, r.S)
			case l.T == 'b' && r.T == 'b' && (e.N == "==" || e.N == "!="):
				if l.B != r.B {
					c = 1
				}
			default:
				return V{}, errEval
			}
			var b bool
			switch e.N {
			case "==":
				b = c == 0
			case "!=":
				b = c != 0
			case "<":
				b = c < 0
			case "<=":
				b = c <= 0
			case ">":
				b = c > 0
			case ">=":
				b = c >= 0
			}
			return V{T: 'b', B: b}, nil
		}
	}
	panic("bad expr")
}

func cmpInt(a, b int64) int {
	switch {
	case a < b:
		return -1
	case a > b:
		return 1
	}
	return 0
}
