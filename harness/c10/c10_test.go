// C10 — per-point and per-group nodes compute their documented transformation; a node never
// alters data another branch can observe.
//
// Generator: a trunk chain and 0-3 sibling branch chains of where / eval / default / delete /
// shift / sample / derivative / changeDetect / stateCount / stateDuration / groupBy with
// generated parameters and lambdas, over stream and batch edges, fed generated points (on stream
// edges, in every third case, some points lack the host tag from() groups by: they form the group
// in which host has the empty value; in every second stream case all points carry a third tag, az).
// groupBy: a fixed or generated list of 1-3 tags in user order, or groupBy(*) with (two of three)
// an exclude list of 1-3 distinct names in ANY order (user order, not only alphabetical; tags the
// points carry and tags they do not carry), written as one .exclude() call or one call per name.
// Oracle: reference interpreter over plain point structs written from the doc comments of
// pipeline/*.go; every sink (trunk and each sibling) must equal the reference.
package c10

import (
	"fmt"
	"math"
	"reflect"
	"sort"
	"strings"
	"testing"

	"verifharness/kit"

	"pgregory.net/rapid"
)

type Node struct {
	Kind   string   `json:"kind"`
	Exprs  []*E     `json:"exprs,omitempty"`
	As     []string `json:"as,omitempty"`
	Tags   []string `json:"tags,omitempty"`   // eval: results converted to tags; delete/default: tag names
	Keep   int      `json:"keep,omitempty"`   // eval: 0 none, 1 keep(), 2 keep(list)
	List   []string `json:"list,omitempty"`   // eval keep list / delete+default fields / changeDetect fields / groupBy dims
	Quiet  bool     `json:"quiet,omitempty"`
	Vals   []kit.FV `json:"vals,omitempty"`   // default: field values
	TVals  []string `json:"tvals,omitempty"`  // default: tag values
	Dur    int64    `json:"dur,omitempty"`    // shift / sample duration / unit
	N      int64    `json:"n,omitempty"`      // sample count
	Field  string   `json:"field,omitempty"`  // derivative
	NonNeg bool     `json:"nonneg,omitempty"` // derivative
	Star   bool     `json:"star,omitempty"`   // groupBy(*)
	ByMeas bool     `json:"bymeas,omitempty"` // groupBy().byMeasurement()
	Excl   []string `json:"excl,omitempty"`   // groupBy().exclude(): the names in the order the user wrote them
	// groupBy(): one .exclude() call per name instead of one call with all names
	ExclCalls bool `json:"exclcalls,omitempty"`
}

type P struct {
	G   int               `json:"g"`
	Gap int64             `json:"gap"`
	F   map[string]kit.FV `json:"f"`
	DC  int               `json:"dc"`
	Cut bool              `json:"cut,omitempty"`
	// stream edges: the point does not carry the host tag (the tag from() groups by): it belongs
	// to the group in which host has the empty value
	NoHost bool `json:"nohost,omitempty"`
	// stream edges: value of a third tag "az" (1, 2: "z1", "z2"); 0 = the point has no such tag
	AZ int `json:"az,omitempty"`
}

type Case struct {
	Batch   bool     `json:"batch"`
	GroupBy bool     `json:"groupby"`
	Trunk   []Node   `json:"trunk"`
	Forks   [][]Node `json:"forks"`
	Pts     []P      `json:"pts"`
}

const rule = "rapid: trunk chain + 0-3 sibling chains of where/eval/default/delete/shift/sample/derivative/changeDetect/stateCount/stateDuration/groupBy x generated points (stream and batch; on stream edges some points lack the tag from() groups by, and in every second case all points carry a third tag; groupBy(*) with exclude lists of 1-3 names in any order, groupBy lists of 1-3 tags in any order); " +
	"non-trivial = a stateful node saw >=2 points of one group, or a fork in which a sibling writes a field/tag; distinct by case hash"

const sec = int64(1e9)

// ---------------------------------------------------------------- generator

func genBoolExpr(t *rapid.T, depth int) *E {
	if rapid.IntRange(0, 11).Draw(t, "stateful") == 0 {
		// a stateful function: its state belongs to the group (count() counts the evaluations of
		// this call site for this group)
		m := int64(rapid.IntRange(2, 3).Draw(t, "cm"))
		return &E{K: "bin", N: "==", A: []*E{{K: "bin", N: "%", A: []*E{{K: "call", N: "count"}, {K: "int", I: m}}}, {K: "int", I: int64(rapid.IntRange(0, 1).Draw(t, "cr"))}}}
	}
	k := rapid.IntRange(0, 9).Draw(t, "bk")
	if depth <= 0 && k >= 8 {
		k = 0
	}
	cmp := rapid.SampledFrom([]string{"==", "!=", "<", "<=", ">", ">="}).Draw(t, "cmp")
	switch k {
	case 0, 1:
		return &E{K: "bin", N: cmp, A: []*E{{K: "ref", N: "i"}, {K: "int", I: int64(rapid.IntRange(0, 6).Draw(t, "ik"))}}}
	case 2:
		return &E{K: "bin", N: cmp, A: []*E{{K: "ref", N: "f"}, {K: "flt", F: float64(rapid.IntRange(0, 12).Draw(t, "fk")) / 2}}}
	case 3: // int/float mixing in comparisons is allowed
		return &E{K: "bin", N: cmp, A: []*E{{K: "ref", N: "x"}, {K: "int", I: int64(rapid.IntRange(0, 6).Draw(t, "xk"))}}}
	case 4:
		return &E{K: "bin", N: rapid.SampledFrom([]string{"==", "!="}).Draw(t, "seq"), A: []*E{{K: "ref", N: "s"}, {K: "str", S: rapid.SampledFrom([]string{"a", "b", "it's"}).Draw(t, "sv")}}}
	case 5:
		return &E{K: "ref", N: "b"}
	case 6: // a field that some points lack: evaluation error for that point
		return &E{K: "bin", N: cmp, A: []*E{{K: "ref", N: "mi"}, {K: "int", I: int64(rapid.IntRange(0, 6).Draw(t, "mk"))}}}
	case 7: // a tag
		return &E{K: "bin", N: "==", A: []*E{{K: "ref", N: "dc"}, {K: "str", S: rapid.SampledFrom([]string{"d0", "d1"}).Draw(t, "dcv")}}}
	case 8:
		return &E{K: "not", A: []*E{genBoolExpr(t, depth-1)}}
	default:
		// operands of AND/OR never reference a possibly-missing field (the interplay of the
		// type pre-check with short-circuit evaluation is C04's subject)
		l, r := genBoolExprNoMissing(t, depth-1), genBoolExprNoMissing(t, depth-1)
		// at most one count() per expression: whether two call sites of one function share
		// their state is not documented (they do) and is not this property's subject
		for hasCall(l) && hasCall(r) {
			r = genBoolExprNoMissing(t, depth-1)
		}
		return &E{K: "bin", N: rapid.SampledFrom([]string{"AND", "OR"}).Draw(t, "lop"), A: []*E{l, r}}
	}
}

func hasCall(e *E) bool {
	if e.K == "call" && e.N == "count" {
		return true
	}
	for _, a := range e.A {
		if hasCall(a) {
			return true
		}
	}
	return false
}

func hasRef(e *E, name string) bool {
	if e.K == "ref" && e.N == name {
		return true
	}
	for _, a := range e.A {
		if hasRef(a, name) {
			return true
		}
	}
	return false
}

func genBoolExprNoMissing(t *rapid.T, depth int) *E {
	for {
		e := genBoolExpr(t, depth)
		if !hasRef(e, "mi") {
			return e
		}
	}
}

func genValExpr(t *rapid.T, prev []string) *E {
	switch rapid.IntRange(0, 9).Draw(t, "vk") {
	case 0:
		return &E{K: "bin", N: rapid.SampledFrom([]string{"+", "-", "*"}).Draw(t, "aop"), A: []*E{{K: "ref", N: "i"}, {K: "int", I: int64(rapid.IntRange(1, 5).Draw(t, "k"))}}}
	case 1:
		return &E{K: "bin", N: rapid.SampledFrom([]string{"/", "%"}).Draw(t, "dop"), A: []*E{{K: "ref", N: "i"}, {K: "int", I: int64(rapid.IntRange(1, 4).Draw(t, "k"))}}}
	case 2:
		return &E{K: "bin", N: rapid.SampledFrom([]string{"+", "-", "*", "/"}).Draw(t, "fop"), A: []*E{{K: "ref", N: "f"}, {K: "flt", F: float64(rapid.IntRange(1, 9).Draw(t, "k")) / 2}}}
	case 3:
		return &E{K: "bin", N: "+", A: []*E{{K: "ref", N: "s"}, {K: "str", S: "-x"}}}
	case 4:
		return &E{K: "call", N: "count"}
	case 5:
		return &E{K: "call", N: "float", A: []*E{{K: "ref", N: "i"}}}
	case 6:
		return &E{K: "call", N: "string", A: []*E{{K: "ref", N: "i"}}}
	case 7: // arithmetic on the int-or-float field: an error for points where it is a float
		return &E{K: "bin", N: "+", A: []*E{{K: "ref", N: "x"}, {K: "int", I: 1}}}
	case 8: // possibly-missing field
		return &E{K: "bin", N: "+", A: []*E{{K: "ref", N: "mi"}, {K: "int", I: 1}}}
	default:
		if len(prev) > 0 { // result of an earlier expression of the same node
			p := rapid.SampledFrom(prev).Draw(t, "prev")
			return &E{K: "bin", N: "==", A: []*E{{K: "ref", N: p}, {K: "ref", N: p}}}
		}
		return genBoolExpr(t, 1)
	}
}

var fieldNames = []string{"i", "f", "s", "b", "x", "mi"}

func genNode(t *rapid.T, batch bool, idx string) Node {
	kinds := []string{"where", "eval", "eval", "default", "delete", "shift", "derivative", "changeDetect", "stateCount", "stateDuration"}
	if !batch {
		kinds = append(kinds, "sample", "groupBy")
	}
	n := Node{Kind: rapid.SampledFrom(kinds).Draw(t, "kind")}
	switch n.Kind {
	case "where":
		n.Exprs = []*E{genBoolExpr(t, 2)}
	case "eval":
		k := rapid.IntRange(1, 3).Draw(t, "nexpr")
		shadowed := map[string]bool{}
		for i := 0; i < k; i++ {
			e := genValExpr(t, n.As)
			n.Exprs = append(n.Exprs, e)
			as := fmt.Sprintf("e%s_%d", idx, i)
			// a result may take the name of the input field it is computed from (same type): the
			// new value replaces the field - for later expressions of the list ("the results of
			// expressions are available to later expressions"), in keep() and in a keep list
			if e.K == "bin" && len(e.A) == 2 && e.A[0].K == "ref" && (e.A[0].N == "i" || e.A[0].N == "f") && strings.Contains("+-*/%", e.N) &&
				!shadowed[e.A[0].N] && rapid.IntRange(0, 2).Draw(t, "shadow") == 0 {
				as = e.A[0].N
				shadowed[as] = true
			}
			n.As = append(n.As, as)
		}
		n.Quiet = rapid.Bool().Draw(t, "quiet")
		n.Keep = rapid.IntRange(0, 2).Draw(t, "keep")
		// string-valued results may be converted to tags
		for i, e := range n.Exprs {
			if (e.K == "call" && e.N == "string") || (e.K == "bin" && e.N == "+" && e.A[0].N == "s") {
				if rapid.Bool().Draw(t, "astag") {
					n.Tags = append(n.Tags, n.As[i])
				}
			}
		}
		if len(n.Tags) > 0 && n.Keep == 1 {
			// keep() together with tags(): the docs say the result is converted from a field to a
			// tag, the code keeps it as a field too - left open, not generated
			n.Keep = 2
		}
		if n.Keep == 2 {
			cands := append(append([]string{}, n.As...), "i", "f", "s", "nosuch")
			m := rapid.IntRange(1, 3).Draw(t, "nkeep")
			seen := map[string]bool{}
			for i := 0; i < m; i++ {
				f := rapid.SampledFrom(cands).Draw(t, "keepf")
				isTag := false
				for _, tg := range n.Tags {
					isTag = isTag || tg == f
				}
				if !seen[f] && !isTag {
					seen[f] = true
					n.List = append(n.List, f)
				}
			}
			if len(n.List) == 0 {
				n.List = []string{"i"}
			}
		}
	case "default":
		for _, f := range []string{"mi", "i", "newf"} {
			if rapid.Bool().Draw(t, "deff") {
				n.List = append(n.List, f)
				dv := rapid.IntRange(0, 3).Draw(t, "defv")
				if f != "newf" {
					dv = 0 // fields the lambdas reference keep their declared type
				}
				switch dv {
				case 0:
					n.Vals = append(n.Vals, kit.I(int64(rapid.IntRange(0, 9).Draw(t, "v"))))
				case 1:
					n.Vals = append(n.Vals, kit.F(float64(rapid.IntRange(0, 9).Draw(t, "v"))+0.5))
				case 2:
					n.Vals = append(n.Vals, kit.S("dflt"))
				case 3:
					n.Vals = append(n.Vals, kit.B(true))
				}
			}
		}
		if !batch && rapid.Bool().Draw(t, "deft") {
			n.Tags = []string{"newtag"}
			n.TVals = []string{"tv"}
		}
		if len(n.List) == 0 && len(n.Tags) == 0 {
			n.List, n.Vals = []string{"newf"}, []kit.FV{kit.I(7)}
		}
	case "delete":
		for _, f := range []string{"s", "b", "nosuch", "mi"} {
			if rapid.Bool().Draw(t, "delf") {
				n.List = append(n.List, f)
			}
		}
		if !batch {
			for _, tg := range []string{"dc", "nosuchtag"} {
				if rapid.IntRange(0, 2).Draw(t, "delt") == 0 {
					n.Tags = append(n.Tags, tg)
				}
			}
		}
		if len(n.List) == 0 && len(n.Tags) == 0 {
			n.List = []string{"b"}
		}
	case "shift":
		n.Dur = rapid.SampledFrom([]int64{sec, -sec, 90 * sec, 1500000000}).Draw(t, "shift")
	case "sample":
		if rapid.Bool().Draw(t, "bycount") {
			n.N = int64(rapid.IntRange(1, 4).Draw(t, "n"))
		} else {
			n.Dur = rapid.SampledFrom([]int64{sec, 2 * sec, 5 * sec}).Draw(t, "sdur")
		}
	case "derivative":
		n.Field = rapid.SampledFrom([]string{"i", "f", "x", "mi", "s"}).Draw(t, "dfield")
		n.Dur = rapid.SampledFrom([]int64{0, sec, 60 * sec, 1e6}).Draw(t, "unit")
		n.NonNeg = rapid.Bool().Draw(t, "nonneg")
		if rapid.Bool().Draw(t, "das") {
			n.As = []string{"d" + idx}
		}
	case "changeDetect":
		n.List = []string{rapid.SampledFrom([]string{"i", "s", "b", "x"}).Draw(t, "cf")}
		if rapid.Bool().Draw(t, "two") {
			n.List = append(n.List, rapid.SampledFrom([]string{"f", "s"}).Draw(t, "cf2"))
		}
	case "stateCount":
		n.Exprs = []*E{genBoolExpr(t, 1)}
		if rapid.Bool().Draw(t, "as") {
			n.As = []string{"sc" + idx}
		}
	case "stateDuration":
		n.Exprs = []*E{genBoolExpr(t, 1)}
		n.Dur = rapid.SampledFrom([]int64{0, sec, 60 * sec}).Draw(t, "unit")
		if rapid.Bool().Draw(t, "as") {
			n.As = []string{"sd" + idx}
		}
	case "groupBy":
		switch rapid.IntRange(0, 5).Draw(t, "gb") {
		case 0:
			n.List = []string{"dc"}
		case 1:
			n.List = []string{"host", "dc"}
		case 2, 5:
			n.Star = true
		case 3:
			n.List = []string{"host"}
		case 4:
			// 1-3 of the tags in the order the user wrote them (az is a tag the points of every
			// second stream case carry)
			n.List = rapid.Permutation([]string{"az", "dc", "host"}).Draw(t, "gbdims")[:rapid.IntRange(1, 3).Draw(t, "ngbdims")]
		}
		// .exclude(): 1-3 distinct tag names IN THE ORDER THE USER WROTE THEM (any order, not only
		// the alphabetical one), in one call or one call per name; names of tags the points carry
		// (host, dc, az, the tag a default node upstream may add) and one no point carries.
		// Only groupBy(*) takes an exclude list (pipeline validation: "exclude requires '*'"); two
		// of three groupBy(*) have one.
		if n.Star && rapid.IntRange(0, 2).Draw(t, "excl") != 0 {
			n.Excl = rapid.Permutation([]string{"az", "dc", "host", "newtag", "nosuchtag"}).Draw(t, "exclnames")[:rapid.SampledFrom([]int{1, 2, 2, 3}).Draw(t, "nexcl")]
			n.ExclCalls = len(n.Excl) > 1 && rapid.IntRange(0, 2).Draw(t, "exclcalls") == 0
		}
		n.ByMeas = rapid.Bool().Draw(t, "bymeas")
	}
	return n
}

func gen(t *rapid.T) Case {
	var c Case
	c.Batch = rapid.IntRange(0, 2).Draw(t, "batch") == 0
	c.GroupBy = rapid.IntRange(0, 3).Draw(t, "groupby") != 0
	nt := rapid.IntRange(0, 3).Draw(t, "ntrunk")
	for i := 0; i < nt; i++ {
		c.Trunk = append(c.Trunk, genNode(t, c.Batch, fmt.Sprintf("t%d", i)))
	}
	nf := rapid.IntRange(0, 3).Draw(t, "nforks")
	for f := 0; f < nf; f++ {
		var ch []Node
		k := rapid.IntRange(1, 2).Draw(t, "nfork")
		for i := 0; i < k; i++ {
			ch = append(ch, genNode(t, c.Batch, fmt.Sprintf("f%d%d", f, i)))
		}
		c.Forks = append(c.Forks, ch)
	}
	if nt == 0 && nf == 0 {
		c.Trunk = append(c.Trunk, genNode(t, c.Batch, "t0"))
	}
	// `|shift()` directly below a shift node is rejected by the TICKscript evaluator (the chain
	// method is shadowed by the node's Shift field): not generated
	fix := func(prev string, ch []Node) {
		for i := range ch {
			if ch[i].Kind == "shift" && prev == "shift" {
				ch[i] = Node{Kind: "delete", List: []string{"b"}}
			}
			prev = ch[i].Kind
		}
	}
	fix("", c.Trunk)
	last := ""
	if len(c.Trunk) > 0 {
		last = c.Trunk[len(c.Trunk)-1].Kind
	}
	for _, f := range c.Forks {
		fix(last, f)
	}
	groups := 1
	if c.GroupBy {
		groups = rapid.IntRange(1, 3).Draw(t, "groups")
	}
	// stream edges, every third case: some points lack the host tag
	sparse := !c.Batch && rapid.IntRange(0, 2).Draw(t, "sparse") == 0
	// stream edges, every second case: all points carry a third tag (az), so that groupBy(*) has
	// up to three dimensions to keep or exclude
	withAZ := !c.Batch && rapid.Bool().Draw(t, "withaz")
	n := rapid.IntRange(0, 40).Draw(t, "n")
	gaps := []int64{0, 1, sec / 2, sec, sec, sec, 2 * sec, 3 * sec}
	for i := 0; i < n; i++ {
		p := P{G: rapid.IntRange(0, groups-1).Draw(t, "g"), Gap: rapid.SampledFrom(gaps).Draw(t, "gap"), DC: rapid.IntRange(0, 1).Draw(t, "dc"), F: map[string]kit.FV{}}
		if sparse {
			p.NoHost = rapid.IntRange(0, 2).Draw(t, "nohost") == 0
		}
		if withAZ {
			p.AZ = rapid.IntRange(1, 2).Draw(t, "az")
		}
		p.F["i"] = kit.I(int64(rapid.IntRange(0, 6).Draw(t, "i")))
		p.F["f"] = kit.F(float64(rapid.IntRange(0, 12).Draw(t, "f")) / 2)
		p.F["s"] = kit.S(rapid.SampledFrom([]string{"a", "b", "it's"}).Draw(t, "s"))
		p.F["b"] = kit.B(rapid.Bool().Draw(t, "b"))
		if rapid.Bool().Draw(t, "xint") {
			p.F["x"] = kit.I(int64(rapid.IntRange(0, 6).Draw(t, "x")))
		} else {
			p.F["x"] = kit.F(float64(rapid.IntRange(0, 12).Draw(t, "x")) / 2)
		}
		if rapid.IntRange(0, 3).Draw(t, "hasmi") != 0 {
			p.F["mi"] = kit.I(int64(rapid.IntRange(0, 6).Draw(t, "mi")))
		}
		if c.Batch {
			p.Cut = i == 0 || rapid.IntRange(0, 3).Draw(t, "cut") == 0
		}
		c.Pts = append(c.Pts, p)
	}
	return c
}

// ---------------------------------------------------------------- script

func durLit(ns int64) string {
	switch {
	case ns%sec == 0:
		return fmt.Sprintf("%ds", ns/sec)
	case ns%1e6 == 0:
		return fmt.Sprintf("%dms", ns/1e6)
	default:
		return fmt.Sprintf("%du", ns/1e3)
	}
}

func q(ss []string) string {
	var o []string
	for _, s := range ss {
		o = append(o, "'"+s+"'")
	}
	return strings.Join(o, ", ")
}

func (n Node) script() string {
	var s strings.Builder
	switch n.Kind {
	case "where":
		fmt.Fprintf(&s, "|where(lambda: %s)", n.Exprs[0])
	case "eval":
		var ls []string
		for _, e := range n.Exprs {
			ls = append(ls, "lambda: "+e.String())
		}
		fmt.Fprintf(&s, "|eval(%s).as(%s)", strings.Join(ls, ", "), q(n.As))
		if len(n.Tags) > 0 {
			fmt.Fprintf(&s, ".tags(%s)", q(n.Tags))
		}
		switch n.Keep {
		case 1:
			s.WriteString(".keep()")
		case 2:
			fmt.Fprintf(&s, ".keep(%s)", q(n.List))
		}
		if n.Quiet {
			s.WriteString(".quiet()")
		}
	case "default":
		s.WriteString("|default()")
		for i, f := range n.List {
			var lit string
			switch v := n.Vals[i].Go().(type) {
			case int64:
				lit = fmt.Sprint(v)
			case float64:
				lit = (&E{K: "flt", F: v}).String()
			case string:
				lit = "'" + v + "'"
			case bool:
				lit = strings.ToUpper(fmt.Sprint(v))
			}
			fmt.Fprintf(&s, ".field('%s', %s)", f, lit)
		}
		for i, tg := range n.Tags {
			fmt.Fprintf(&s, ".tag('%s', '%s')", tg, n.TVals[i])
		}
	case "delete":
		s.WriteString("|delete()")
		for _, f := range n.List {
			fmt.Fprintf(&s, ".field('%s')", f)
		}
		for _, tg := range n.Tags {
			fmt.Fprintf(&s, ".tag('%s')", tg)
		}
	case "shift":
		if n.Dur < 0 {
			fmt.Fprintf(&s, "|shift(-%s)", durLit(-n.Dur))
		} else {
			fmt.Fprintf(&s, "|shift(%s)", durLit(n.Dur))
		}
	case "sample":
		if n.N != 0 {
			fmt.Fprintf(&s, "|sample(%d)", n.N)
		} else {
			fmt.Fprintf(&s, "|sample(%s)", durLit(n.Dur))
		}
	case "derivative":
		fmt.Fprintf(&s, "|derivative('%s')", n.Field)
		if n.Dur != 0 {
			fmt.Fprintf(&s, ".unit(%s)", durLit(n.Dur))
		}
		if n.NonNeg {
			s.WriteString(".nonNegative()")
		}
		if len(n.As) > 0 {
			fmt.Fprintf(&s, ".as('%s')", n.As[0])
		}
	case "changeDetect":
		fmt.Fprintf(&s, "|changeDetect(%s)", q(n.List))
	case "stateCount":
		fmt.Fprintf(&s, "|stateCount(lambda: %s)", n.Exprs[0])
		if len(n.As) > 0 {
			fmt.Fprintf(&s, ".as('%s')", n.As[0])
		}
	case "stateDuration":
		fmt.Fprintf(&s, "|stateDuration(lambda: %s)", n.Exprs[0])
		if n.Dur != 0 {
			fmt.Fprintf(&s, ".unit(%s)", durLit(n.Dur))
		}
		if len(n.As) > 0 {
			fmt.Fprintf(&s, ".as('%s')", n.As[0])
		}
	case "groupBy":
		if n.Star {
			s.WriteString("|groupBy(*)")
		} else {
			fmt.Fprintf(&s, "|groupBy(%s)", q(n.List))
		}
		if n.ByMeas {
			s.WriteString(".byMeasurement()")
		}
		if n.ExclCalls {
			for _, x := range n.Excl {
				fmt.Fprintf(&s, ".exclude('%s')", x)
			}
		} else if len(n.Excl) > 0 {
			fmt.Fprintf(&s, ".exclude(%s)", q(n.Excl))
		}
	}
	return s.String()
}

func (c Case) script() string {
	var s strings.Builder
	if c.Batch {
		s.WriteString(`var p = batch|query('SELECT * FROM "db"."rp"."m"').period(10s).every(10s)`)
	} else {
		s.WriteString("var p = stream|from().measurement('m')")
	}
	if c.GroupBy {
		s.WriteString(".groupBy('host')")
	}
	for _, n := range c.Trunk {
		s.WriteString(n.script())
	}
	s.WriteString("\np|log().prefix('P')\n")
	for i, f := range c.Forks {
		s.WriteString("p")
		for _, n := range f {
			s.WriteString(n.script())
		}
		fmt.Fprintf(&s, "|log().prefix('F%d')\n", i)
	}
	return s.String()
}

const t0 = int64(1_500_000_000) * sec

func (c Case) hasKind(k string) bool {
	for _, n := range c.Trunk {
		if n.Kind == k {
			return true
		}
	}
	for _, f := range c.Forks {
		for _, n := range f {
			if n.Kind == k {
				return true
			}
		}
	}
	return false
}

func (c Case) inputs() (pts []kit.Pt, batches []kit.Bt) {
	t := t0
	open := map[int]int{}
	for i, p := range c.Pts {
		t += p.Gap
		fields := map[string]kit.FV{"n": kit.I(int64(i))}
		for k, v := range p.F {
			fields[k] = v
		}
		tags := map[string]string{"host": fmt.Sprintf("h%d", p.G), "dc": fmt.Sprintf("d%d", p.DC)}
		if p.NoHost && !c.Batch {
			delete(tags, "host")
		}
		if p.AZ != 0 && !c.Batch {
			tags["az"] = fmt.Sprintf("z%d", p.AZ)
		}
		if !c.Batch {
			pt := kit.Pt{Name: "m", Tags: tags, Fields: fields, Time: t}
			pts = append(pts, pt)
			continue
		}
		bi, ok := open[p.G]
		if p.Cut || !ok {
			b := kit.Bt{Name: "m", Points: []kit.Pt{}}
			if c.GroupBy {
				b.Tags = map[string]string{"host": tags["host"]}
			}
			batches = append(batches, b)
			bi = len(batches) - 1
			open[p.G] = bi
		}
		batches[bi].Points = append(batches[bi].Points, kit.Pt{Tags: tags, Fields: fields, Time: t})
		batches[bi].TMax = t
	}
	return
}

// ---------------------------------------------------------------- reference interpreter

func clonePt(p kit.Pt) kit.Pt {
	q := p
	q.Tags = map[string]string{}
	for k, v := range p.Tags {
		q.Tags[k] = v
	}
	q.Fields = map[string]kit.FV{}
	for k, v := range p.Fields {
		q.Fields[k] = v
	}
	q.Dims = append([]string(nil), p.Dims...)
	return q
}

func toV(f kit.FV) (V, bool) {
	switch f.T {
	case "i":
		return V{T: 'i', I: f.Go().(int64)}, true
	case "f":
		return V{T: 'f', F: f.Go().(float64)}, true
	case "s":
		return V{T: 's', S: f.V}, true
	case "b":
		return V{T: 'b', B: f.V == "true"}, true
	}
	return V{}, false
}

func fromV(v V) kit.FV {
	switch v.T {
	case 'i':
		return kit.I(v.I)
	case 'f':
		return kit.F(v.F)
	case 's':
		return kit.S(v.S)
	}
	return kit.B(v.B)
}

// scopeOf binds fields and tags (a name that is both is an error, per expr.go's message).
func scopeOf(p kit.Pt, refs map[string]bool) (map[string]V, bool) {
	sc := map[string]V{}
	for k, f := range p.Fields {
		if v, ok := toV(f); ok {
			sc[k] = v
		}
	}
	for k, tv := range p.Tags {
		if _, dup := p.Fields[k]; dup {
			if refs[k] {
				return nil, false
			}
			continue
		}
		sc[k] = V{T: 's', S: tv}
	}
	return sc, true
}

func refsOf(es ...*E) map[string]bool {
	m := map[string]bool{}
	var walk func(e *E)
	walk = func(e *E) {
		if e.K == "ref" {
			m[e.N] = true
		}
		for _, a := range e.A {
			walk(a)
		}
	}
	for _, e := range es {
		walk(e)
	}
	return m
}

func groupKey(p kit.Pt) string {
	var b strings.Builder
	if len(p.Dims) == 0 {
		if p.ByName {
			return p.Name
		}
		return ""
	}
	if p.ByName {
		b.WriteString(p.Name)
		b.WriteString("\n")
	}
	for i, d := range p.Dims {
		if i > 0 {
			b.WriteString(",")
		}
		b.WriteString(d + "=" + p.Tags[d])
	}
	return b.String()
}

// nodeState is the per-group state of one node instance.
type nodeState struct {
	exprs    []*exprState
	count    int64
	prev     *kit.Pt
	start    int64
	inState  bool
	scCount  int64
	lastEmit map[string]kit.FV
	hasEmit  bool
}

type refNode struct {
	n      Node
	groups map[string]*nodeState
	stateful bool
}

func (r *refNode) state(key string) *nodeState {
	st := r.groups[key]
	if st == nil {
		st = &nodeState{}
		for range r.n.Exprs {
			st.exprs = append(st.exprs, newExprState())
		}
		r.groups[key] = st
	}
	return st
}

// resetBatch: derivative, changeDetect and the state trackers start afresh with every batch
// (each batch is an independent unit of data); lambda state (count()) persists per group.
func (st *nodeState) resetBatch() {
	st.prev, st.inState, st.scCount, st.hasEmit, st.lastEmit, st.count = nil, false, 0, false, nil, 0
}

// apply transforms one point; ok=false means the point is dropped.
func (r *refNode) apply(p kit.Pt, st *nodeState) (kit.Pt, bool) {
	n := r.n
	switch n.Kind {
	case "where":
		sc, ok := scopeOf(p, refsOf(n.Exprs[0]))
		if !ok {
			return p, false
		}
		v, err := n.Exprs[0].eval(sc, st.exprs[0])
		if err != nil || v.T != 'b' || !v.B {
			return p, false
		}
		return p, true
	case "eval":
		sc, ok := scopeOf(p, refsOf(n.Exprs...))
		if !ok {
			return p, false
		}
		res := map[string]V{}
		for i, e := range n.Exprs {
			v, err := e.eval(sc, st.exprs[i])
			if err != nil {
				return p, false
			}
			sc[n.As[i]] = v
			res[n.As[i]] = v
		}
		o := clonePt(p)
		isTag := map[string]bool{}
		for _, tg := range n.Tags {
			isTag[tg] = true
			if res[tg].T != 's' {
				return p, false
			}
			o.Tags[tg] = res[tg].S
		}
		nf := map[string]kit.FV{}
		switch n.Keep {
		case 0: // only the new fields
			for _, a := range n.As {
				if !isTag[a] {
					nf[a] = fromV(res[a])
				}
			}
		case 1: // existing fields and the new ones
			for k, v := range p.Fields {
				nf[k] = v
			}
			for _, a := range n.As {
				nf[a] = fromV(res[a])
			}
		case 2: // only the listed ones
			for _, f := range n.List {
				if v, ok := res[f]; ok {
					nf[f] = fromV(v)
				} else if v, ok := p.Fields[f]; ok {
					nf[f] = v
				} else {
					return p, false
				}
			}
		}
		o.Fields = nf
		return o, true
	case "default":
		o := clonePt(p)
		for i, f := range n.List {
			if _, ok := o.Fields[f]; !ok {
				o.Fields[f] = n.Vals[i]
			}
		}
		for i, tg := range n.Tags {
			if o.Tags[tg] == "" {
				o.Tags[tg] = n.TVals[i]
			}
		}
		return o, true
	case "delete":
		o := clonePt(p)
		for _, f := range n.List {
			delete(o.Fields, f)
		}
		for _, tg := range n.Tags {
			delete(o.Tags, tg)
			var nd []string
			for _, d := range o.Dims {
				if d != tg {
					nd = append(nd, d)
				}
			}
			o.Dims = nd
		}
		return o, true
	case "shift":
		o := clonePt(p)
		o.Time += n.Dur
		return o, true
	case "sample":
		if n.N != 0 {
			keep := st.count%n.N == 0
			st.count++
			return p, keep
		}
		return p, mod(p.Time, n.Dur) == 0
	case "derivative":
		cur, ok := numField(p, n.Field)
		if !ok {
			return p, false
		}
		prev := st.prev
		cp := clonePt(p)
		st.prev = &cp
		if prev == nil {
			return p, false
		}
		pv, _ := numField(*prev, n.Field)
		unit := n.Dur
		if unit == 0 {
			unit = sec
		}
		diff := cur - pv
		if n.NonNeg && diff < 0 {
			return p, false
		}
		elapsed := float64(p.Time - prev.Time)
		if elapsed == 0 {
			return p, false
		}
		o := clonePt(p)
		as := n.Field
		if len(n.As) > 0 {
			as = n.As[0]
		}
		o.Fields[as] = kit.F(diff / (elapsed / float64(unit)))
		return o, true
	case "changeDetect":
		changed := false
		for _, f := range n.List {
			v, ok := p.Fields[f]
			if !ok {
				continue
			}
			if !st.hasEmit || st.lastEmit[f] != v {
				changed = true
			}
		}
		if changed {
			st.hasEmit, st.lastEmit = true, p.Fields
		}
		return p, changed
	case "stateCount", "stateDuration":
		sc, ok := scopeOf(p, refsOf(n.Exprs[0]))
		if !ok {
			return p, false
		}
		v, err := n.Exprs[0].eval(sc, st.exprs[0])
		if err != nil || v.T != 'b' {
			return p, false
		}
		o := clonePt(p)
		if n.Kind == "stateCount" {
			as := "state_count"
			if len(n.As) > 0 {
				as = n.As[0]
			}
			if v.B {
				st.scCount++
				o.Fields[as] = kit.I(st.scCount)
			} else {
				st.scCount = 0
				o.Fields[as] = kit.I(-1)
			}
			return o, true
		}
		as := "state_duration"
		if len(n.As) > 0 {
			as = n.As[0]
		}
		unit := n.Dur
		if unit == 0 {
			unit = sec
		}
		if v.B {
			if !st.inState {
				st.inState, st.start = true, p.Time
			}
			o.Fields[as] = kit.F(float64(p.Time-st.start) / float64(unit))
		} else {
			st.inState = false
			o.Fields[as] = kit.F(-1)
		}
		return o, true
	case "groupBy":
		o := clonePt(p)
		excl := map[string]bool{}
		for _, x := range n.Excl {
			excl[x] = true
		}
		var dims []string
		if n.Star {
			for k := range o.Tags {
				dims = append(dims, k)
			}
		} else {
			dims = append(dims, n.List...)
		}
		sort.Strings(dims)
		var nd []string
		for _, d := range dims {
			if !excl[d] {
				nd = append(nd, d)
			}
		}
		o.Dims = nd
		o.ByName = o.ByName || n.ByMeas
		return o, true
	}
	panic("kind " + n.Kind)
}

func mod(a, b int64) int64 {
	// multiples of b counted from Go's zero time, as time.Truncate does; for the units used
	// here (whole seconds) that coincides with multiples counted from the Unix epoch
	return ((a % b) + b) % b
}

func numField(p kit.Pt, f string) (float64, bool) {
	v, ok := p.Fields[f]
	if !ok {
		return 0, false
	}
	switch v.T {
	case "i":
		return float64(v.Go().(int64)), true
	case "f":
		return v.Go().(float64), true
	}
	return 0, false
}

func newChain(nodes []Node) []*refNode {
	var out []*refNode
	for _, n := range nodes {
		out = append(out, &refNode{n: n, groups: map[string]*nodeState{}})
	}
	return out
}

// runStream pushes the points through the chain (per-group state keyed by the point's group
// at the node's input).
func runStream(chain []*refNode, pts []kit.Pt) []kit.Pt {
	cur := pts
	for _, r := range chain {
		var next []kit.Pt
		for _, p := range cur {
			st := r.state(groupKey(p))
			if o, ok := r.apply(p, st); ok {
				next = append(next, o)
			}
		}
		cur = next
	}
	return cur
}

func runBatches(chain []*refNode, bs []kit.Bt) []kit.Bt {
	cur := bs
	for _, r := range chain {
		var next []kit.Bt
		for _, b := range cur {
			key := groupKeyB(b)
			st := r.state(key)
			st.resetBatch()
			o := b
			o.Points = []kit.Pt{}
			if r.n.Kind == "shift" {
				o.TMax += r.n.Dur
			}
			for _, p := range b.Points {
				if q, ok := r.apply(p, st); ok {
					o.Points = append(o.Points, q)
				}
			}
			next = append(next, o)
		}
		cur = next
	}
	return cur
}

func groupKeyB(b kit.Bt) string {
	var s []string
	for _, k := range kit.SortedKeys(b.Tags) {
		s = append(s, k+"="+b.Tags[k])
	}
	return strings.Join(s, ",")
}

// ---------------------------------------------------------------- comparison

func floatClose(a, b kit.FV) bool {
	if a.T != "f" || b.T != "f" {
		return a == b
	}
	x, y := a.Go().(float64), b.Go().(float64)
	if x == y {
		return true
	}
	d := math.Abs(x - y)
	return d <= 1e-12*math.Max(math.Abs(x), math.Abs(y))
}

func samePoint(o, e kit.Pt, withMeta bool) string {
	if o.Time != e.Time {
		return fmt.Sprintf("time %d, reference %d", o.Time, e.Time)
	}
	if len(o.Tags) != len(e.Tags) {
		return fmt.Sprintf("tags %v, reference %v", o.Tags, e.Tags)
	}
	for k, v := range e.Tags {
		if ov, ok := o.Tags[k]; !ok || ov != v {
			return fmt.Sprintf("tags %v, reference %v", o.Tags, e.Tags)
		}
	}
	if len(o.Fields) != len(e.Fields) {
		return fmt.Sprintf("fields %v, reference %v", o.Fields, e.Fields)
	}
	for k, v := range e.Fields {
		if ov, ok := o.Fields[k]; !ok || !floatClose(ov, v) {
			return fmt.Sprintf("field %q = %v, reference %v (fields %v, reference %v)", k, o.Fields[k], v, o.Fields, e.Fields)
		}
	}
	if withMeta {
		if o.Name != e.Name {
			return fmt.Sprintf("name %q, reference %q", o.Name, e.Name)
		}
		if !reflect.DeepEqual(o.Dims, e.Dims) && (len(o.Dims) != 0 || len(e.Dims) != 0) {
			return fmt.Sprintf("dimensions %v, reference %v", o.Dims, e.Dims)
		}
		if o.ByName != e.ByName {
			return fmt.Sprintf("byName %v, reference %v", o.ByName, e.ByName)
		}
		if o.Group != groupKey(e) {
			return fmt.Sprintf("group id %q, reference %q", o.Group, groupKey(e))
		}
	}
	return ""
}

func fmtPts(ps []kit.Pt) string {
	var s []string
	for _, p := range ps {
		s = append(s, "n="+p.Fields["n"].V)
	}
	return "[" + strings.Join(s, " ") + "]"
}

func run(c Case, cc *kit.Case) {
	pts, batches := c.inputs()
	script := c.script()

	// labels
	if c.Batch {
		cc.Label("batch")
	} else {
		cc.Label("stream")
	}
	if len(c.Forks) > 0 {
		cc.Label("fork")
	}
	statefulKinds := map[string]bool{"sample": true, "derivative": true, "changeDetect": true, "stateCount": true, "stateDuration": true}
	writers := map[string]bool{"eval": true, "default": true, "delete": true, "shift": true, "derivative": true, "stateCount": true, "stateDuration": true, "groupBy": true}
	hasStateful, forkWriter := false, false
	labelGroupBy := func(n Node) {
		if n.Kind != "groupBy" || len(n.Excl) == 0 {
			return
		}
		form := "groupBy(*)"
		switch {
		case len(n.Excl) == 1:
			cc.Label(form + ".exclude:1-name")
		case sort.StringsAreSorted(n.Excl):
			cc.Label(form + ".exclude:>=2-names-alphabetical")
		default:
			cc.Label(form + ".exclude:>=2-names-not-alphabetical")
		}
	}
	for _, n := range c.Trunk {
		labelGroupBy(n)
		cc.Label("node:" + n.Kind)
		hasStateful = hasStateful || statefulKinds[n.Kind]
	}
	for _, f := range c.Forks {
		for _, n := range f {
			labelGroupBy(n)
			cc.Label("node:" + n.Kind)
			hasStateful = hasStateful || statefulKinds[n.Kind]
			forkWriter = forkWriter || writers[n.Kind]
		}
	}
	perGroup := map[int]int{}
	for _, p := range c.Pts {
		if p.NoHost && !c.Batch {
			perGroup[-1]++
			continue
		}
		perGroup[p.G]++
	}
	if perGroup[-1] > 0 {
		cc.Label("point-lacks-host-tag")
	}
	if len(c.Pts) > 0 && c.Pts[0].AZ != 0 && !c.Batch {
		cc.Label("points-with-third-tag-az")
	}
	two := false
	for _, k := range perGroup {
		two = two || k >= 2
	}
	if (hasStateful && two) || (len(c.Forks) >= 1 && forkWriter && len(c.Pts) > 0) {
		cc.NonTrivial()
	}

	env, err := kit.NewEnv(kit.EnvOpts{})
	if err != nil {
		cc.Fail("harness/env", "env: %v", err)
		return
	}
	defer env.Close()
	var defErr, runErr error
	if c.Batch {
		defErr, runErr = env.RunBatch(script, [][]kit.Bt{batches})
	} else {
		defErr, runErr = env.RunStream(script, pts)
	}
	if defErr != nil {
		cc.Fail("harness/script-rejected", "script rejected: %v\n%s", defErr, script)
		return
	}
	if runErr != nil {
		cc.Fail("task-error", "task ended with error: %v\n%s", runErr, script)
		return
	}

	ambiguous = false
	check := func(prefix string, chain []Node, inP []kit.Pt, inB []kit.Bt) ([]kit.Pt, []kit.Bt) {
		obs := env.Sink.By(prefix)
		if c.Batch {
			exp := runBatches(newChain(chain), inB)
			if ambiguous {
				return nil, exp
			}
			if len(obs) != len(exp) {
				cc.Fail("node/batch-count", "sink %s: %d batches, reference %d\n%s", prefix, len(obs), len(exp), script)
				return nil, exp
			}
			for i, e := range exp {
				o := obs[i].B
				if o == nil {
					cc.Fail("node/not-a-batch", "sink %s message %d is not a batch", prefix, i)
					return nil, exp
				}
				if o.Name != e.Name || o.TMax != e.TMax || !reflect.DeepEqual(o.Tags, e.Tags) && (len(o.Tags) != 0 || len(e.Tags) != 0) {
					cc.Fail("node/batch-meta", "sink %s batch %d: name %q tmax %d tags %v, reference %q %d %v\n%s", prefix, i, o.Name, o.TMax, o.Tags, e.Name, e.TMax, e.Tags, script)
					return nil, exp
				}
				if len(o.Points) != len(e.Points) {
					cc.Fail("node/batch-points", "sink %s batch %d holds %s, reference %s\n%s", prefix, i, fmtPts(o.Points), fmtPts(e.Points), script)
					return nil, exp
				}
				for j := range e.Points {
					if d := samePoint(o.Points[j], e.Points[j], false); d != "" {
						cc.Fail("node/point-content", "sink %s batch %d point %d (n=%s): %s\n%s", prefix, i, j, e.Points[j].Fields["n"].V, d, script)
						return nil, exp
					}
				}
			}
			return nil, exp
		}
		exp := runStream(newChain(chain), inP)
		if ambiguous {
			return exp, nil
		}
		if len(obs) != len(exp) {
			var op []kit.Pt
			for _, o := range obs {
				if o.P != nil {
					op = append(op, *o.P)
				}
			}
			cc.Fail("node/point-count", "sink %s received %s, reference %s\n%s", prefix, fmtPts(op), fmtPts(exp), script)
			return exp, nil
		}
		for i, e := range exp {
			o := obs[i].P
			if o == nil {
				cc.Fail("node/not-a-point", "sink %s message %d is not a point", prefix, i)
				return exp, nil
			}
			if d := samePoint(*o, e, true); d != "" {
				cc.Fail("node/point-content", "sink %s point %d (n=%s): %s\n%s", prefix, i, e.Fields["n"].V, d, script)
				return exp, nil
			}
		}
		return exp, nil
	}

	// the trunk's input: what from()/query() deliver
	inP := make([]kit.Pt, len(pts))
	for i, p := range pts {
		q := clonePt(p)
		q.DB, q.RP = "db", "rp"
		if c.GroupBy {
			q.Dims = []string{"host"}
		}
		inP[i] = q
	}
	tp, tb := check("P", c.Trunk, inP, batches)
	if cc.Failed() {
		return
	}
	if ambiguous {
		cc.Label("not-compared:missing-operand-behind-short-circuit")
		return
	}
	for i, f := range c.Forks {
		// every sibling must see the trunk's ORIGINAL output, whatever the other siblings do
		check(fmt.Sprintf("F%d", i), f, tp, tb)
		if cc.Failed() {
			return
		}
		if ambiguous {
			cc.Label("not-compared:missing-operand-behind-short-circuit")
			ambiguous = false
		}
	}
}

var assumptions = []string{
	"lambdas come from a small typed family over fields i:int f:float s:string b:bool x:int|float mi:int-or-missing and the tag dc; AND/OR operands never reference a possibly-missing field (C04 covers that interplay)",
	"an evaluation error (missing field, int/float mismatch in arithmetic, non-string tag result, kept field that does not exist) drops that point and nothing else",
	"eval: result names never collide with existing fields; keep() is not combined with tags() (docs and code disagree on whether the tag-converted result also stays a field)",
	"derivative: a point with zero elapsed time since its predecessor yields no value (division by zero) but is the predecessor of the next point; float results compared with relative tolerance 1e-12",
	"batch edges: sample, groupBy and tag defaults/deletes are not generated (their per-batch meaning is not documented); derivative, changeDetect, stateCount and stateDuration start afresh with every batch",
	"sample(N) keeps the 1st, N+1st, ... point of a group (the phase the implementation uses; 'keep every N-th point')",
	"default() treats an empty tag value like a missing tag",
	"stream points that lack a group-by tag belong to the group in which that tag has the empty value (models.ToGroupID; InfluxDB's GROUP BY does the same); the per-point nodes pass their tags on as they are (no empty tag is added); groupBy(*) groups such a point by the tags it has",
	"groupBy(*).exclude(names...) groups each point by all the tags it carries except the named ones ('Exclude removes any tags from the group', pipeline/group_by.go), whatever the order in which the names are written and whether they are given in one .exclude() call or several (Exclude appends to the list); a name no point carries has no effect; exclude lists are generated only with groupBy(*) (pipeline validation rejects them otherwise: \"exclude requires '*'\"); the dimensions of a point are reported in ascending tag-name order whatever the order the user listed them in (models.Dimensions / the group id are built from the sorted names)",
}

func TestNodes(t *testing.T) {
	r := kit.NewRec("C10", "Nodes", rule, assumptions...)
	kit.Check(t, r, gen, run)
}

func TestReplayNodes(t *testing.T) {
	r := kit.NewRec("C10", "Nodes", rule, assumptions...)
	kit.Replay(t, r, run)
}
