package c20

import (
	"bufio"
	"encoding/base64"
	"errors"
	"expvar"
	"fmt"
	"io"
	"log"
	"net/http"
	"net/http/httptest"
	"net/url"
	"strings"
	"testing"
	"time"

	"verifharness/kit"

	"github.com/golang-jwt/jwt/v4"
	"github.com/influxdata/influxdb/models"
	"github.com/influxdata/kapacitor/auth"
	"github.com/influxdata/kapacitor/services/httpd"
	"pgregory.net/rapid"
)

// ---------------------------------------------------------------- case

type DBGrant struct {
	DB    string   `json:"db"`
	Privs []string `json:"privs"`
}

type HUser struct {
	Name  string    `json:"name"`
	Pass  string    `json:"pass"`
	Admin bool      `json:"admin,omitempty"`
	API   []Grant   `json:"api,omitempty"` // raw resources: "/", "/api/...", "/database"
	DB    []DBGrant `json:"db,omitempty"`  // per database, stored under auth.DatabaseResource(db) as services/auth does
}

// HSub is a subscription token as created by GrantSubscriptionAccess(token, db, rp).
type HSub struct {
	Token string `json:"token"`
	DB    string `json:"db"`
}

type Cred struct {
	Kind string `json:"kind"`           // basic | query | bearer | rawheader
	User string `json:"user,omitempty"` // basic/query: user name ("~subscriber" = subscription token in Pass); bearer: username claim
	Pass string `json:"pass,omitempty"`
	// bearer
	Alg   string `json:"alg,omitempty"`   // HS256 | HS384 | HS512 | none
	Key   string `json:"key,omitempty"`   // signing key
	Exp   string `json:"exp,omitempty"`   // future | past | zero | missing
	Claim string `json:"claim,omitempty"` // ok | missing | empty | number
	Raw   string `json:"raw,omitempty"`   // rawheader: the Authorization header value (never a valid credential)
	// basic: spelling of the scheme ("" = "Basic"); auth schemes are case-insensitive (RFC 7617, net/http BasicAuth)
	Scheme string `json:"scheme,omitempty"`
}

type KV struct {
	K string `json:"k"`
	V string `json:"v"`
}

type HTTPCase struct {
	Secret   string  `json:"secret"` // httpd shared-secret
	Users    []HUser `json:"users"`
	Subs     []HSub  `json:"subs,omitempty"`
	Method   string  `json:"method"`
	Path     string  `json:"path"` // raw, as sent on the request line (never cleaned by a client)
	Query    []KV    `json:"query,omitempty"`
	RawSlash bool    `json:"raw_slash,omitempty"` // send '/' in query values unescaped
	Creds    []Cred  `json:"creds,omitempty"`
	Body     string  `json:"body,omitempty"`
}

// KNOWN DEFECT CLASS candidate (found by this unit, see the report): with authentication enabled
// and no shared secret configured, a bearer token signed with the EMPTY key is accepted.
// While this is true the generator never signs a token with an empty key when the configured
// secret is empty (counted); the witness is replays/C20/HTTP-bearer-empty-shared-secret.json.
const excludeEmptySecretBearer = false // repaired in /repo (fix: commit 0022b29): generated again
const exclEmptySecret = "http/bearer-token-signed-with-empty-key-while-shared-secret-is-empty"

const ruleHTTP = "rapid: 1-3 users (admin or privilege table over {/,/api,/api/a,/api/a/b,/api/b,/api/write,/api/ping,/api/who,/api/preview...,/database} + per-database grants) and 0-2 subscription tokens " +
	"x all HTTP methods x raw request targets under /kapacitor/v1, /kapacitor/v1preview, / (clean, or with '.', '..', '//', trailing '/', %2e, %2F; one request in six is grant-directed: a single user whose grant on a deep resource disagrees with an ancestor's, and a target that reaches the resource only after percent-decoding and cleaning) incl. /write with generated db " +
	"x basic / query / bearer(JWT) / subscription-token credentials, valid, invalid or missing, sent through http.ReadRequest into the real httpd.Handler (auth enabled, fake auth.Interface); " +
	"safety direction only; non-trivial = a non-redirect answer to a request with valid non-admin credentials whose reference decision is taken by an actual grant (allow or deny), or a write that reached the database check"

var assumptionsHTTP = []string{
	"resource of a request: '/api' + (URL path with a leading '/kapacitor/v1' removed), normalised; so /kapacitor/v1preview/x is '/api/preview/x' and a path outside the base path is '/api/<path>' (authorizeRequest)",
	"method privilege: GET read; POST, PATCH, PUT write; DELETE delete; HEAD, OPTIONS none (requiredPrivilegeForHTTPMethod and its unit test)",
	"OPTIONS is answered by the CORS filter before authentication (empty 200, no route handler runs) and methods outside GET/POST/PATCH/PUT/DELETE/HEAD/OPTIONS get a bare 404 without a route handler: neither counts as 'served'; the check asserts that no route handler and no write ran",
	"redirects (the router's 301 to the cleaned path) are not 'served'; 401 and 403 are refusals (the write handler refuses a database with 401)",
	"valid credentials: user+password known to the auth service (basic header or u/p query), a known subscription token (basic user '~subscriber'), or an HMAC JWT signed with the configured NON-EMPTY shared secret, unexpired with an 'exp' claim, naming an existing user; with two credentials in one request either may be the one honoured",
	"pprof-enabled is false (it documents an authentication bypass for /debug); 'debug' paths are not requested (the CPU profile endpoint blocks for 30 s)",
	"percent-decoding and request-line parsing are net/http's (http.ReadRequest, the server's own parser): the reference starts from the decoded URL path",
	"database grants are stored under auth.DatabaseResource(db) as services/auth does; the reference treats a database as an opaque child of /database keyed by its NAME",
	"KNOWN DEFECT CLASS excluded by construction: database names colliding under DatabaseResource (see DBRes)",
}

// ---------------------------------------------------------------- fakes

type nopDiag struct{}

func (nopDiag) NewHTTPServerErrorLogger() *log.Logger { return log.New(io.Discard, "", 0) }
func (nopDiag) StartingService()                      {}
func (nopDiag) StoppedService()                       {}
func (nopDiag) ShutdownTimeout()                      {}
func (nopDiag) AuthenticationEnabled(bool)            {}
func (nopDiag) ListeningOn(string, string)            {}
func (nopDiag) WriteBodyReceived(string)              {}
func (nopDiag) HTTP(string, string, time.Time, string, string, string, int, string, string, string, time.Duration) {
}
func (nopDiag) Error(string, error) {}
func (nopDiag) RecoveryError(string, string, string, string, time.Time, string, string, string, int, string, string, string, time.Duration) {
}

type fakeUser struct {
	pass string
	u    auth.User
}

type fakeAuth struct {
	users map[string]fakeUser
	subs  map[string]auth.User
}

func (f *fakeAuth) Authenticate(username, password string) (auth.User, error) {
	u, ok := f.users[username]
	if !ok || u.pass != password {
		return auth.User{}, errors.New("authentication failed")
	}
	return u.u, nil
}
func (f *fakeAuth) User(username string) (auth.User, error) {
	u, ok := f.users[username]
	if !ok {
		return auth.User{}, errors.New("unknown user")
	}
	return u.u, nil
}
func (f *fakeAuth) SubscriptionUser(token string) (auth.User, error) {
	u, ok := f.subs[token]
	if !ok {
		return auth.User{}, errors.New("unknown subscription token")
	}
	return u, nil
}
func (f *fakeAuth) GrantSubscriptionAccess(token, db, rp string) error { return nil }
func (f *fakeAuth) ListSubscriptionTokens() ([]string, error)          { return nil, nil }
func (f *fakeAuth) RevokeSubscriptionAccess(token string) error        { return nil }

type writeCall struct{ db, rp string }
type fakeWriter struct{ calls []writeCall }

func (w *fakeWriter) WritePoints(database, retentionPolicy string, _ models.ConsistencyLevel, _ []models.Point) error {
	w.calls = append(w.calls, writeCall{database, retentionPolicy})
	return nil
}

type fakeLevel struct{}

func (fakeLevel) SetLogLevelFromName(string) error { return nil }

// identity as the reference sees it
type ident struct {
	name  string
	admin bool
	api   refTable
	db    map[string][]string // by database NAME
}

func (id *ident) allowAPI(res []string, priv string) (bool, string) {
	return id.api.decide(res, priv, id.admin)
}

func (id *ident) allowDB(db, priv string) (bool, string) {
	if id.admin {
		return true, ""
	}
	if g, ok := id.db[db]; ok {
		return grantAllows(g, priv), "db:" + db
	}
	// not granted by name: the database root, then the root
	return id.api.decideKeys([]string{"/database", "/"}, priv)
}

func userPrivileges(api []Grant, dbs []DBGrant) map[string][]auth.Privilege {
	m := map[string][]auth.Privilege{}
	conv := func(ps []string) []auth.Privilege {
		var out []auth.Privilege
		for _, p := range ps {
			out = append(out, privByName[p])
		}
		return out
	}
	for _, g := range api {
		m[g.Path] = conv(g.Privs)
	}
	for _, g := range dbs {
		m[auth.DatabaseResource(g.DB)] = conv(g.Privs)
	}
	return m
}

// ---------------------------------------------------------------- reference helpers

var handledMethodList = []string{"GET", "POST", "PATCH", "PUT", "DELETE", "HEAD", "OPTIONS"}
var handledMethods = map[string]bool{"GET": true, "POST": true, "PATCH": true, "PUT": true, "DELETE": true, "HEAD": true, "OPTIONS": true}

func methodPrivilege(m string) string {
	switch m {
	case "GET":
		return "read"
	case "POST", "PATCH", "PUT":
		return "write"
	case "DELETE":
		return "delete"
	case "HEAD", "OPTIONS":
		return "none"
	}
	return "all"
}

const basePath = "/kapacitor/v1"

// apiResource: the normalised resource of a (decoded) URL path.
func apiResource(p string) []string {
	rest := p
	if strings.HasPrefix(p, basePath) {
		rest = p[len(basePath):]
	}
	return normalise("/api/" + rest)
}

func isAncestorOrSelf(a, b []string) bool {
	if len(a) > len(b) {
		return false
	}
	for i := range a {
		if a[i] != b[i] {
			return false
		}
	}
	return true
}

type hit struct {
	pattern string
	path    string // r.URL.Path when the route handler ran
	user    string // forward-style routes: the user handed to the handler
	forward bool
}

var dummyPatterns = []string{"/a", "/a/", "/a/b", "/b/"}

func bearerToken(c Cred) (string, error) {
	claims := jwt.MapClaims{}
	switch c.Claim {
	case "ok":
		claims["username"] = c.User
	case "empty":
		claims["username"] = ""
	case "number":
		claims["username"] = 42
	}
	switch c.Exp {
	case "future":
		claims["exp"] = int64(4102444800) // 2100-01-01
	case "past":
		claims["exp"] = int64(1000000000) // 2001-09-09
	case "zero":
		claims["exp"] = 0
	}
	var m jwt.SigningMethod
	var key interface{} = []byte(c.Key)
	switch c.Alg {
	case "HS256":
		m = jwt.SigningMethodHS256
	case "HS384":
		m = jwt.SigningMethodHS384
	case "HS512":
		m = jwt.SigningMethodHS512
	case "none":
		m = jwt.SigningMethodNone
		key = jwt.UnsafeAllowNoneSignatureType
	default:
		return "", fmt.Errorf("alg %q", c.Alg)
	}
	return jwt.NewWithClaims(m, claims).SignedString(key)
}

// ---------------------------------------------------------------- run

// sink is what serve reports to: a *kit.Case, or a recorder of its own (Session unit).
type sink interface {
	Label(string)
	NonTrivial()
	Fail(sig, format string, args ...any)
	Failed() bool
}

// httpEnv is ONE httpd.Handler (authentication enabled) with its fake collaborators. The auth
// service's state (users, subscription tokens) is data that install replaces; the handler and
// the auth service object stay the same, as in a running daemon whose users are edited.
type httpEnv struct {
	secret    string
	h         *httpd.Handler
	fa        *fakeAuth
	pw        *fakeWriter
	hits      []hit
	users     []HUser
	subs      []HSub
	idents    map[string]*ident
	subIdents map[string]*ident
	context   string // appended to every failure message (Session: the steps served before)
}

func newHTTPEnv(secret string, cc sink) *httpEnv {
	e := &httpEnv{secret: secret}
	statMap := &expvar.Map{}
	statMap.Init()
	h := httpd.NewHandler(true, false, false, false, false, statMap, nopDiag{}, secret)
	e.h = h
	e.fa = &fakeAuth{users: map[string]fakeUser{}, subs: map[string]auth.User{}}
	h.AuthService = e.fa
	e.pw = &fakeWriter{}
	h.PointsWriter = e.pw
	h.DiagService = fakeLevel{}
	var routes, previewRoutes []httpd.Route
	for _, m := range handledMethodList {
		for _, p := range dummyPatterns {
			pat := p
			routes = append(routes, httpd.Route{Method: m, Pattern: pat, HandlerFunc: func(w http.ResponseWriter, r *http.Request) {
				e.hits = append(e.hits, hit{pattern: basePath + pat, path: r.URL.Path})
				fmt.Fprintf(w, `{"served":%q}`, pat)
			}})
		}
		routes = append(routes, httpd.Route{Method: m, Pattern: "/who", HandlerFunc: func(w http.ResponseWriter, r *http.Request, u auth.User) {
			e.hits = append(e.hits, hit{pattern: basePath + "/who", path: r.URL.Path, user: u.Name(), forward: true})
			fmt.Fprintf(w, `{"user":%q}`, u.Name())
		}})
		previewRoutes = append(previewRoutes, httpd.Route{Method: m, Pattern: "/p", HandlerFunc: func(w http.ResponseWriter, r *http.Request) {
			e.hits = append(e.hits, hit{pattern: httpd.BasePreviewPath + "/p", path: r.URL.Path})
			fmt.Fprintf(w, `{"served":"preview/p"}`)
		}})
	}
	if err := h.AddRoutes(routes); err != nil {
		cc.Fail("harness/routes", "AddRoutes: %v", err)
		return nil
	}
	if err := h.AddPreviewRoutes(previewRoutes); err != nil {
		cc.Fail("harness/routes", "AddPreviewRoutes: %v", err)
		return nil
	}
	return e
}

// install makes users and subs the complete state of the auth service (and of the reference)
// from now on: what the real service does on create / update / delete of a user and on
// grant / revoke of a subscription token, seen from the handler's side of auth.Interface.
func (e *httpEnv) install(users []HUser, subs []HSub) {
	e.users, e.subs = users, subs
	e.fa.users = map[string]fakeUser{}
	e.fa.subs = map[string]auth.User{}
	e.idents = map[string]*ident{}
	e.subIdents = map[string]*ident{}
	for _, u := range users {
		e.fa.users[u.Name] = fakeUser{pass: u.Pass, u: auth.NewUser(u.Name, nil, u.Admin, userPrivileges(u.API, u.DB))}
		id := &ident{name: u.Name, admin: u.Admin, api: newRefTable(u.API), db: map[string][]string{}}
		for _, g := range u.DB {
			id.db[g.DB] = g.Privs
		}
		e.idents[u.Name] = id
	}
	for _, s := range subs {
		// services/auth GrantSubscriptionAccess: write on /api/write, all on /api/ping, write on the database
		api := []Grant{{Path: "/api/write", Privs: []string{"write"}}, {Path: "/api/ping", Privs: []string{"all"}}}
		dbg := []DBGrant{{DB: s.DB, Privs: []string{"write"}}}
		e.fa.subs[s.Token] = auth.NewUser("_sub:"+s.Token, nil, false, userPrivileges(api, dbg))
		e.subIdents[s.Token] = &ident{name: "_sub:" + s.Token, api: newRefTable(api), db: map[string][]string{s.DB: {"write"}}}
	}
}

func runHTTP(c HTTPCase, cc *kit.Case) {
	e := newHTTPEnv(c.Secret, cc)
	if e == nil {
		return
	}
	e.install(c.Users, c.Subs)
	e.serve(c, cc)
}

// served is what serve observed (for the Session unit's history).
type servedInfo struct {
	target string
	code   int
	writes int
	hits   int
	ref    string // reference outcome (labels and the Session unit's non-trivial rule only)
}

// serve sends the request of c (its Users/Subs/Secret are NOT read: the environment's are in
// force) through the handler and judges the answer against the reference.
func (e *httpEnv) serve(c HTTPCase, cc sink) (info servedInfo) {
	h, pw := e.h, e.pw
	e.hits, pw.calls = nil, nil
	idents, subIdents := e.idents, e.subIdents
	c.Secret, c.Users, c.Subs = e.secret, e.users, e.subs

	// ---- the request, byte for byte as a client that does not clean paths would send it
	q := []string{}
	enc := func(v string) string {
		e := url.QueryEscape(v)
		if c.RawSlash {
			e = strings.ReplaceAll(e, "%2F", "/")
		}
		return e
	}
	for _, kv := range c.Query {
		q = append(q, kv.K+"="+enc(kv.V))
	}
	var headers []string
	for _, cr := range c.Creds {
		switch cr.Kind {
		case "basic":
			scheme := cr.Scheme
			if scheme == "" {
				scheme = "Basic"
			}
			headers = append(headers, "Authorization: "+scheme+" "+base64.StdEncoding.EncodeToString([]byte(cr.User+":"+cr.Pass)))
		case "query":
			q = append(q, "u="+enc(cr.User), "p="+enc(cr.Pass))
		case "bearer":
			tok, err := bearerToken(cr)
			if err != nil {
				cc.Fail("harness/token", "cannot build token %+v: %v", cr, err)
				return
			}
			headers = append(headers, "Authorization: Bearer "+tok)
		case "rawheader":
			headers = append(headers, "Authorization: "+cr.Raw)
		}
	}
	target := c.Path
	if len(q) > 0 {
		target += "?" + strings.Join(q, "&")
	}
	raw := c.Method + " " + target + " HTTP/1.1\r\nHost: kap\r\n"
	for _, hd := range headers {
		raw += hd + "\r\n"
	}
	raw += fmt.Sprintf("Content-Length: %d\r\n\r\n%s", len(c.Body), c.Body)
	req, err := http.ReadRequest(bufio.NewReader(strings.NewReader(raw)))
	if err != nil {
		cc.Fail("harness/unparseable-request", "generated request does not parse: %v\n%q", err, raw)
		return
	}
	req.RemoteAddr = "192.0.2.1:4711"
	origPath := req.URL.Path
	reqDB := req.URL.Query().Get("db")
	w := httptest.NewRecorder()
	h.ServeHTTP(w, req)
	code := w.Code
	hits := e.hits
	info = servedInfo{target: target, code: code, writes: len(pw.calls), hits: len(hits)}

	// ---- reference: who is validly identified?
	var valid []*ident
	emptySecretBearer := false
	for _, cr := range c.Creds {
		switch cr.Kind {
		case "basic", "query":
			if cr.Kind == "basic" && cr.User == "~subscriber" {
				if id, ok := subIdents[cr.Pass]; ok {
					valid = append(valid, id)
					cc.Label("cred:subscription:valid")
				} else {
					cc.Label("cred:subscription:invalid")
				}
				continue
			}
			ok := false
			for _, u := range c.Users {
				if cr.User != "" && u.Name == cr.User && u.Pass == cr.Pass && (cr.Kind == "basic" || cr.Pass != "") {
					valid = append(valid, idents[u.Name])
					ok = true
				}
			}
			cc.Label(fmt.Sprintf("cred:%s:valid=%v", cr.Kind, ok))
		case "bearer":
			good := (cr.Alg == "HS256" || cr.Alg == "HS384" || cr.Alg == "HS512") && cr.Key == c.Secret && cr.Exp == "future" && cr.Claim == "ok" && cr.User != ""
			id, exists := idents[cr.User]
			if good && exists && c.Secret == "" {
				emptySecretBearer = true
				good = false
			}
			if good && exists {
				valid = append(valid, id)
			}
			cc.Label(fmt.Sprintf("cred:bearer:valid=%v", good && exists))
		default:
			cc.Label("cred:rawheader")
		}
	}
	if len(c.Creds) == 0 {
		cc.Label("cred:none")
	}
	if len(c.Creds) > 1 {
		cc.Label("cred:two-in-one-request")
	}
	if origPath != joinSegs(normalise(origPath)) && origPath != joinSegs(normalise(origPath))+"/" {
		cc.Label("path:unclean")
	} else {
		cc.Label("path:clean")
	}
	switch {
	case code >= 300 && code < 400:
		cc.Label("status:3xx-redirect")
	case code == 401 || code == 403 || code == 404:
		cc.Label(fmt.Sprintf("status:%d", code))
	default:
		cc.Label(fmt.Sprintf("status:%dxx", code/100))
	}
	describe := func() string {
		return fmt.Sprintf("%s %s -> %d %q; secret=%q users=%+v subs=%+v creds=%+v hits=%+v writes=%+v", c.Method, target, code, strings.TrimSpace(w.Body.String()), c.Secret, c.Users, c.Subs, c.Creds, hits, pw.calls) + e.context
	}

	// ---- requests that are answered before authentication and never served
	if !handledMethods[c.Method] || c.Method == "OPTIONS" {
		cc.Label("answered-before-authentication:" + map[bool]string{true: "OPTIONS", false: "unhandled-method"}[c.Method == "OPTIONS"])
		info.ref = "answered-before-authentication"
		if len(hits) > 0 || len(pw.calls) > 0 {
			cc.Fail("http/handler-ran-for-unauthenticated-method", "a route handler ran for method %s: %s", c.Method, describe())
		}
		return
	}

	priv := methodPrivilege(c.Method)
	res := apiResource(origPath)
	// allowed identities for the request's own resource
	var allowed []*ident
	decidedByGrant := false
	for _, id := range valid {
		ok, deciding := id.allowAPI(res, priv)
		if ok {
			allowed = append(allowed, id)
		}
		if !id.admin && deciding != "" {
			decidedByGrant = true
		}
	}
	switch {
	case len(valid) == 0:
		info.ref = "invalid-credentials"
	case len(allowed) == 0:
		info.ref = "api-deny"
	default:
		info.ref = "api-allow"
		if r := joinSegs(res); reqDB != "" && c.Method == "POST" && (r == "/api/write" || r == "/api/preview/write") {
			info.ref = "api-allow,db-deny"
			for _, id := range allowed {
				a, _ := id.allowAPI([]string{"api", "write"}, "write")
				b, _ := id.allowDB(reqDB, "write")
				if a && b {
					info.ref = "api-allow,db-allow"
				}
			}
		}
	}
	redirect := code >= 300 && code < 400
	refused := code == http.StatusUnauthorized || code == http.StatusForbidden
	if len(valid) > 0 && !redirect {
		if len(allowed) > 0 {
			cc.Label("reference:allow")
		} else {
			cc.Label("reference:deny")
		}
		if decidedByGrant {
			cc.NonTrivial()
		}
	}
	served := !redirect && !refused
	failNotAllowed := func(what string) {
		switch {
		case len(valid) == 0 && emptySecretBearer:
			cc.Fail("http/served-without-valid-credentials/bearer-signed-with-empty-shared-secret", "%s although the only credential is a bearer token signed with the EMPTY key (no shared secret is configured, so anybody can mint it): %s", what, describe())
		case len(valid) == 0:
			cc.Fail("http/served-without-valid-credentials", "%s without valid credentials: %s", what, describe())
		default:
			cc.Fail("http/served-without-privilege", "%s although the reference denies %q on %s to every validly identified user: %s", what, priv, joinSegs(res), describe())
		}
	}
	if served && len(allowed) == 0 {
		failNotAllowed(fmt.Sprintf("answered %d (not 401/403/redirect)", code))
		return
	}
	for _, ht := range hits {
		cc.Label("route-handler-ran:" + ht.pattern)
		if ht.path != origPath {
			cc.Label("preview-rewrite-served")
		}
		if len(allowed) == 0 {
			failNotAllowed("route handler " + ht.pattern + " ran")
			return
		}
		// router and authoriser must agree: the route that ran owns the resource that was authorised
		sres := apiResource(ht.path)
		pres := apiResource(strings.TrimSuffix(ht.pattern, "/"))
		if subtree := strings.HasSuffix(ht.pattern, "/"); (subtree && !isAncestorOrSelf(pres, sres)) || (!subtree && joinSegs(pres) != joinSegs(sres)) {
			cc.Fail("http/route-resource-mismatch", "route %s ran for a request whose normalised resource is %s: %s", ht.pattern, joinSegs(sres), describe())
			return
		}
		okServed := false
		for _, id := range allowed {
			if ok, _ := id.allowAPI(sres, priv); ok && (!ht.forward || ht.user == id.name) {
				okServed = true
			}
		}
		if !okServed {
			cc.Fail("http/served-without-privilege", "route %s ran on %s (user handed to the handler: %q) but no validly identified user is allowed %q on %s: %s", ht.pattern, ht.path, ht.user, priv, joinSegs(sres), describe())
			return
		}
	}
	for _, wc := range pw.calls {
		cc.Label("write:points-written")
		cc.NonTrivial()
		if len(allowed) == 0 {
			failNotAllowed("points were written")
			return
		}
		if wc.db != reqDB {
			cc.Fail("http/write-to-other-database", "points written to %q, request names %q: %s", wc.db, reqDB, describe())
			return
		}
		ok := false
		for _, id := range allowed {
			// the write route's own resource is /api/write however the request reached it (preview rewrite)
			if a, _ := id.allowAPI([]string{"api", "write"}, "write"); !a {
				continue
			}
			if a, _ := id.allowDB(wc.db, "write"); a {
				ok = true
			}
		}
		if !ok {
			cc.Fail("http/write-without-database-privilege", "points were written to database %q but the reference denies write on it (or on /api/write) to every validly identified user: %s", wc.db, describe())
			return
		}
	}
	if len(pw.calls) == 0 && reqDB != "" && len(allowed) > 0 && code == http.StatusUnauthorized && strings.Contains(w.Body.String(), "not authorized to write to database") {
		cc.Label("write:refused-by-database-check")
		cc.NonTrivial()
	}
	return info
}

// ---------------------------------------------------------------- generator

func genHTTP(r *kit.Rec) func(*rapid.T) HTTPCase {
	return func(t *rapid.T) HTTPCase {
		var c HTTPCase
		c.Secret = rapid.SampledFrom([]string{"s3cret", "s3cret", "s3cret", "k", "k", "another-secret", ""}).Draw(t, "secret")
		dbf := newKnownClassFilter(r)
		var dbPool []string
		drawDB := func(label string) string {
			var name string
			if len(dbPool) > 0 && rapid.IntRange(0, 2).Draw(t, label+"-reuse") == 0 {
				name = dbPool[rapid.IntRange(0, len(dbPool)-1).Draw(t, label+"-idx")]
			} else {
				name = genDBName(t, dbPool)
			}
			if ok, other := dbf.admit(name); !ok {
				name = other // known DatabaseResource collision class: use the admitted twin instead (counted)
			}
			dbPool = append(dbPool, name)
			return name
		}
		apiPool := []string{"/", "/api", "/api", "/api/a", "/api/a", "/api/a/b", "/api/b", "/api/write", "/api/write", "/api/ping", "/api/who", "/api/preview", "/api/preview/p", "/api/preview/a", "/database", "/api/loglevel"}
		apiKinds := [][]string{{"none"}, {"read"}, {"write"}, {"write"}, {"delete"}, {"read", "write"}, {"read", "write", "delete"}, {"read", "write", "delete"}, {"all"}, {"all"}, {"all"}}
		dbKinds := [][]string{{"write"}, {"write"}, {"read"}, {"read", "write"}, {"none"}, {"all"}}
		nu := rapid.IntRange(1, 3).Draw(t, "users")
		for i := 0; i < nu; i++ {
			u := HUser{Name: fmt.Sprintf("u%d", i+1), Pass: fmt.Sprintf("pw%d", i+1)}
			u.Admin = rapid.IntRange(0, 7).Draw(t, "admin") == 0
			seen := map[string]bool{}
			for k := rapid.SampledFrom([]int{0, 1, 2, 2, 3, 3, 4, 5}).Draw(t, "apigrants"); k > 0; k-- {
				p := rapid.SampledFrom(apiPool).Draw(t, "res")
				if seen[p] {
					continue
				}
				seen[p] = true
				u.API = append(u.API, Grant{Path: p, Privs: rapid.SampledFrom(apiKinds).Draw(t, "kind")})
			}
			seenDB := map[string]bool{}
			for k := rapid.IntRange(0, 3).Draw(t, "dbgrants"); k > 0; k-- {
				db := drawDB("grantdb")
				if seenDB[db] {
					continue
				}
				seenDB[db] = true
				u.DB = append(u.DB, DBGrant{DB: db, Privs: rapid.SampledFrom(dbKinds).Draw(t, "dbkind")})
			}
			c.Users = append(c.Users, u)
		}
		for i, n := 0, rapid.SampledFrom([]int{0, 1, 1, 2}).Draw(t, "subs"); i < n; i++ {
			c.Subs = append(c.Subs, HSub{Token: fmt.Sprintf("tok%d", i+1), DB: drawDB("subdb")})
		}

		// ---- request
		write := rapid.IntRange(0, 9).Draw(t, "class") < 3
		if write {
			c.Method = rapid.SampledFrom([]string{"POST", "POST", "POST", "POST", "POST", "POST", "GET", "PUT", "OPTIONS", "HEAD"}).Draw(t, "method")
			c.Path = rapid.SampledFrom([]string{"/kapacitor/v1/write", "/kapacitor/v1/write", "/kapacitor/v1/write", "/write", "/write", "/kapacitor/v1preview/write",
				"/kapacitor/v1/write/", "/kapacitor/v1//write", "/kapacitor/v1/a/../write", "/kapacitor/v1/ping/../write"}).Draw(t, "wpath")
			if rapid.IntRange(0, 19).Draw(t, "nodb") > 0 {
				c.Query = append(c.Query, KV{"db", drawDB("target")})
			}
			if rapid.Bool().Draw(t, "rp") {
				c.Query = append(c.Query, KV{"rp", "autogen"})
			}
			c.RawSlash = rapid.Bool().Draw(t, "rawslash")
			c.Body = rapid.SampledFrom([]string{"m v=1 1\n", "m v=1 1\n", "m v=1 1\n", "m,t=x v=1i\nn w=2 3\n", "", "not line protocol"}).Draw(t, "body")
		} else {
			c.Method = rapid.SampledFrom([]string{"GET", "GET", "GET", "GET", "POST", "POST", "DELETE", "DELETE", "PATCH", "PUT", "HEAD", "HEAD", "OPTIONS",
				"GET", "GET", "POST", "DELETE", "PATCH", "PUT", "HEAD", "GET", "POST", "DELETE", rapid.SampledFrom([]string{"TRACE", "CONNECT", "get", "PROPFIND"}).Draw(t, "oddmethod")}).Draw(t, "method")
			prefix := rapid.SampledFrom([]string{basePath, basePath, basePath, basePath, basePath, basePath, basePath, "/kapacitor/v1preview", "/kapacitor/v1preview", "", "/kapacitor", "/kapacitor/v1x", "http://kap" + basePath}).Draw(t, "prefix")
			firstSegs := []string{"a", "a", "a", "a", "a", "b", "b", "b", "who", "who", "p", "ping", "write", "c", "loglevel", "preview"}
			cleanSegs := []string{"a", "b", "b", "b", "c", "x", "who", "p"}
			trickSegs := []string{".", "..", "..", "", "%2e%2e", "%2E", "a%2Fb", "..%2Fa", "%2e%2e%2Fb", "a", "b", "who"}
			tricky := rapid.IntRange(0, 9).Draw(t, "tricky") < 3
			n := rapid.SampledFrom([]int{0, 1, 1, 1, 2, 2, 2, 3, 4}).Draw(t, "segs")
			p := prefix
			for i := 0; i < n; i++ {
				switch {
				case tricky && rapid.Bool().Draw(t, "trick"):
					p += "/" + rapid.SampledFrom(trickSegs).Draw(t, "tseg")
				case i == 0:
					p += "/" + rapid.SampledFrom(firstSegs).Draw(t, "seg0")
				default:
					p += "/" + rapid.SampledFrom(cleanSegs).Draw(t, "seg")
				}
			}
			if rapid.IntRange(0, 5).Draw(t, "trailing") == 0 || p == "" {
				p += "/"
			}
			c.Path = p
			if rapid.IntRange(0, 5).Draw(t, "directed") == 0 {
				// grant-directed: a single non-admin user whose grant on a resource of depth >= 2
				// disagrees with the grant on an ancestor, and a request target that reaches that
				// resource only after percent-decoding / cleaning - the decision must be made on
				// the decoded, cleaned path
				deep := rapid.SampledFrom([]string{"/api/a", "/api/a", "/api/a/b", "/api/b"}).Draw(t, "deep")
				anc := rapid.SampledFrom([]string{"/", "/api", "/api"}).Draw(t, "anc")
				pair := rapid.SampledFrom([][2][]string{{{"none"}, {"all"}}, {{"all"}, {"none"}}, {{"read"}, {"all"}}, {{"all"}, {"read"}}, {{"none"}, {"read", "write", "delete"}}, {{"write"}, {"read"}}}).Draw(t, "pair")
				c.Users = []HUser{{Name: "u1", Pass: "pw1", API: []Grant{{Path: deep, Privs: pair[0]}, {Path: anc, Privs: pair[1]}}}}
				rest := strings.TrimPrefix(deep, "/api") // "/a", "/a/b", "/b"
				segs := strings.Split(strings.TrimPrefix(rest, "/"), "/")
				enc := func(seg string) string {
					switch rapid.IntRange(0, 3).Draw(t, "enc") {
					case 0:
						return fmt.Sprintf("%%%02x", seg[0]) + seg[1:]
					case 1:
						return seg + "/%2e%2e/" + seg
					case 2:
						return "x%2F..%2F" + seg
					}
					return seg
				}
				var parts []string
				for _, sg := range segs {
					parts = append(parts, enc(sg))
				}
				joiner := rapid.SampledFrom([]string{"/", "/", "%2F"}).Draw(t, "joiner")
				c.Path = basePath + "/" + strings.Join(parts, joiner) + rapid.SampledFrom([]string{"", "", "/", "/c", "%2Fc"}).Draw(t, "tail")
			}
			if c.Method == "POST" || c.Method == "PATCH" || c.Method == "PUT" {
				c.Body = rapid.SampledFrom([]string{"", "{}", `{"level":"INFO"}`}).Draw(t, "jbody")
			}
		}

		// ---- credentials
		userName := func(label string) string {
			if rapid.IntRange(0, 14).Draw(t, label+"-ghost") == 0 {
				return rapid.SampledFrom([]string{"ghost", "", "ADMIN_USER", "~subscriber"}).Draw(t, label+"-ghostname")
			}
			return c.Users[rapid.IntRange(0, len(c.Users)-1).Draw(t, label)].Name
		}
		password := func(label, user string) string {
			if rapid.IntRange(0, 7).Draw(t, label+"-wrong") == 0 {
				return rapid.SampledFrom([]string{"wrong", "", "pw1", "pw2", "tok1"}).Draw(t, label+"-wrongpw")
			}
			for _, u := range c.Users {
				if u.Name == user {
					return u.Pass
				}
			}
			return "pw1"
		}
		header := func() (Cred, bool) {
			switch k := rapid.IntRange(0, 19).Draw(t, "credkind"); {
			case k < 2:
				return Cred{}, false
			case k < 9:
				u := userName("basicuser")
				return Cred{Kind: "basic", User: u, Pass: password("basicpw", u), Scheme: rapid.SampledFrom([]string{"", "", "", "", "basic", "BASIC"}).Draw(t, "scheme")}, true
			case k < 15:
				cr := Cred{Kind: "bearer", User: userName("claimuser")}
				cr.Alg = rapid.SampledFrom([]string{"HS256", "HS256", "HS256", "HS256", "HS256", "HS256", "HS384", "HS384", "HS512", "HS512", "HS512", "none"}).Draw(t, "alg")
				cr.Key = c.Secret
				if rapid.IntRange(0, 9).Draw(t, "wrongkey") == 0 {
					cr.Key = rapid.SampledFrom([]string{"wrong", "", "S3CRET", "k"}).Draw(t, "key")
				}
				cr.Exp = rapid.SampledFrom([]string{"future", "future", "future", "future", "future", "future", "future", "future", "future", "future", "future", "future", "past", "zero", "missing"}).Draw(t, "exp")
				cr.Claim = rapid.SampledFrom([]string{"ok", "ok", "ok", "ok", "ok", "ok", "ok", "ok", "ok", "ok", "ok", "ok", "missing", "empty", "number"}).Draw(t, "claim")
				if excludeEmptySecretBearer && c.Secret == "" && cr.Key == "" && cr.Alg != "none" {
					r.Exclude(exclEmptySecret)
					cr.Key = "wrong"
				}
				return cr, true
			case k < 18:
				tok := rapid.SampledFrom([]string{"tok1", "tok1", "tok1", "tok1", "tok2", "tok2", "nope", "", "pw1"}).Draw(t, "subtoken")
				return Cred{Kind: "basic", User: "~subscriber", Pass: tok}, true
			default:
				return Cred{Kind: "rawheader", Raw: rapid.SampledFrom([]string{"Basic", "Basic !!!", "Bearer", "Bearer ", "Bearer x.y.z", "Token abc", "Basic dTE6cHcx trailing", "Basic dTE6cHcx==", "Negotiate x"}).Draw(t, "rawheader")}, true
			}
		}
		if cr, ok := header(); ok {
			c.Creds = append(c.Creds, cr)
		}
		if k := rapid.IntRange(0, 9).Draw(t, "querycred"); k == 0 || (len(c.Creds) == 0 && k < 6) {
			u := userName("queryuser")
			c.Creds = append(c.Creds, Cred{Kind: "query", User: u, Pass: password("querypw", u)})
		}
		return c
	}
}

func TestHTTP(t *testing.T) {
	r := kit.NewRec("C20", "HTTP", ruleHTTP, assumptionsHTTP...)
	kit.Check(t, r, genHTTP(r), runHTTP)
}

func TestReplayHTTP(t *testing.T) {
	r := kit.NewRec("C20", "HTTP", ruleHTTP, assumptionsHTTP...)
	kit.Replay(t, r, runHTTP)
}
