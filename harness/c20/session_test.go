package c20

// Session unit: the property quantifies over privilege tables and requests; a running daemon
// serves MANY requests with ONE httpd.Handler while the auth service's users are edited
// (privileges granted, narrowed, revoked, moved to another database; passwords changed; users
// deleted and re-created; subscription tokens revoked and re-granted). Every request must be
// judged by the table the auth service holds AT THAT REQUEST: nothing the handler did for an
// earlier request may widen access later.
//
// One case = one handler + a sequence of steps; a step is the complete auth-service state at
// that moment plus one request (an HTTPCase). The oracle of every step is the HTTP unit's
// (safety direction only), evaluated with the step's own state. The generator builds a first
// step (the HTTP unit's whole input class, or a focused one whose decision is taken by an
// actual grant) and derives every further step from the previous one by small edits biased
// towards the grants that decide the request, mostly re-sending the same request.

import (
	"fmt"
	"net/url"
	"strings"
	"testing"

	"verifharness/kit"

	"pgregory.net/rapid"
)

type SessionCase struct {
	Secret string     `json:"secret"`
	Steps  []HTTPCase `json:"steps"` // Steps[i].Secret is not read: the handler is built once with Secret
}

const ruleSession = "rapid: ONE httpd.Handler (auth enabled, fake auth.Interface) serves 2-5 requests; before each request the auth service's complete state (users with password/admin flag/privilege table, subscription tokens) is replaced. " +
	"First step: an HTTP-unit case (1 in 4) or a focused one (a write with db, or a request on a dummy route, by a non-admin user or subscription token, decided by an actual grant on the resource, an ancestor, the database, /database or /). " +
	"Each further step: the previous step after 1-2 edits: privileges of a (mostly deciding) grant changed / grant dropped / nearer or other grant added / database grant moved to a twin name / admin flag toggled / password changed / user deleted / user re-created or given a new table / token revoked, re-granted to another database, added; " +
	"request re-sent unchanged (mostly), or with another db, another credential kind for the same user, the credentials of another existing user, or replaced by a fresh HTTP-unit request. Oracle per step = the HTTP unit's (safety only) with the state in force at that step; " +
	"non-trivial = two consecutive steps send the same request and the reference outcome differs (credentials valid/invalid, API allow/deny, database allow/deny)"

var assumptionsSession = append(append([]string{}, assumptionsHTTP...),
	"the privileges in force for a request are those of the auth.User that the auth service returns for THAT request's credentials: the handler asks h.AuthService on every request (authenticate), and services/auth refreshes or drops its cached user on every edit (updateUser: userCache.Set; handleDeleteUser / DeleteUser / RevokeSubscriptionAccess: userCache.Delete), so an edit is in force for the next request",
	"edits modelled are those the auth service's API offers: PATCH of a user's permissions, type (admin flag) and password, DELETE and re-creation of a user under the same name, GrantSubscriptionAccess / RevokeSubscriptionAccess of a token; a user that becomes admin has no privilege table (updateUser zeroes it) - the reference ignores an admin's table anyway",
	"all database names of ONE session (grants of every step and every target) are kept free of the known DatabaseResource collision class, not only those of one step",
)

// ---------------------------------------------------------------- run

// stepSink forwards labels to the case and keeps the failure of the step to itself.
type stepSink struct {
	cc       *kit.Case
	sig, msg string
}

func (s *stepSink) Label(l string) {
	if s.cc != nil {
		s.cc.Label(l)
	}
}
func (s *stepSink) NonTrivial() {}
func (s *stepSink) Failed() bool { return s.sig != "" }
func (s *stepSink) Fail(sig, format string, args ...any) {
	if s.sig == "" {
		s.sig, s.msg = sig, fmt.Sprintf(format, args...)
	}
}

func sameRequest(a, b HTTPCase) bool {
	if a.Method != b.Method || a.Path != b.Path || a.RawSlash != b.RawSlash || a.Body != b.Body || len(a.Query) != len(b.Query) || len(a.Creds) != len(b.Creds) {
		return false
	}
	for i := range a.Query {
		if a.Query[i] != b.Query[i] {
			return false
		}
	}
	for i := range a.Creds {
		if a.Creds[i] != b.Creds[i] {
			return false
		}
	}
	return true
}

func runSession(c SessionCase, cc *kit.Case) {
	e := newHTTPEnv(c.Secret, cc)
	if e == nil {
		return
	}
	cc.Label(fmt.Sprintf("steps=%d", len(c.Steps)))
	var history []string
	var prev servedInfo
	for i, st := range c.Steps {
		e.install(st.Users, st.Subs)
		e.context = ""
		if i > 0 {
			e.context = fmt.Sprintf(" || this is request %d of %d served by ONE handler; before it: %s", i+1, len(c.Steps), strings.Join(history, "; "))
		}
		ss := &stepSink{cc: cc}
		info := e.serve(st, ss)
		if ss.Failed() {
			sig, msg := ss.sig, ss.msg
			if i > 0 && !strings.HasPrefix(sig, "harness/") {
				// diagnosis only: is the step judged correctly by a handler that served nothing before?
				fs := &stepSink{}
				if f := newHTTPEnv(c.Secret, fs); f != nil {
					f.install(st.Users, st.Subs)
					f.serve(st, fs)
					if !fs.Failed() {
						sig += "/only-after-earlier-requests"
						msg = "a FRESH handler judges this very request (same auth-service state) correctly: the decision depends on what this handler served before. " + msg
					}
				}
			}
			cc.Fail(sig, "%s", msg)
			return
		}
		if i > 0 && sameRequest(c.Steps[i-1], st) {
			cc.Label("same-request:" + prev.ref + "->" + info.ref)
			if prev.ref != info.ref {
				cc.NonTrivial()
			}
		} else if i > 0 {
			cc.Label("other-request")
		}
		history = append(history, fmt.Sprintf("[%d] %s %s -> %d (route handlers run: %d, writes: %d; reference: %s) with users=%+v subs=%+v", i+1, st.Method, info.target, info.code, info.hits, info.writes, info.ref, st.Users, st.Subs))
		prev = info
	}
}

// ---------------------------------------------------------------- generator

var (
	sessAPIPool  = []string{"/", "/api", "/api", "/api/a", "/api/a/b", "/api/b", "/api/write", "/api/write", "/api/ping", "/api/who", "/api/preview", "/api/preview/p", "/database"}
	sessAPIKinds = [][]string{{"none"}, {"none"}, {"read"}, {"write"}, {"write"}, {"delete"}, {"read", "write"}, {"read", "write", "delete"}, {"all"}, {"all"}}
	sessDBKinds  = [][]string{{"write"}, {"write"}, {"read"}, {"read"}, {"read", "write"}, {"none"}, {"none"}, {"all"}}
)

func allowingKinds(priv string) [][]string {
	out := [][]string{{priv}, {"all"}, {"read", "write", "delete"}}
	if priv == "read" || priv == "write" {
		out = append(out, []string{"read", "write"})
	}
	return out
}

func cloneStep(c HTTPCase) HTTPCase {
	n := c
	n.Users = nil
	for _, u := range c.Users {
		v := u
		v.API = append([]Grant(nil), u.API...)
		v.DB = append([]DBGrant(nil), u.DB...)
		n.Users = append(n.Users, v)
	}
	n.Subs = append([]HSub(nil), c.Subs...)
	n.Query = append([]KV(nil), c.Query...)
	n.Creds = append([]Cred(nil), c.Creds...)
	return n
}

// decodedPath: the URL path a server would see for the raw request target (bias only).
func decodedPath(raw string) string {
	if u, err := url.ParseRequestURI(raw); err == nil {
		return u.Path
	}
	return raw
}

func genSession(r *kit.Rec) func(*rapid.T) SessionCase {
	base := genHTTP(r)
	return func(t *rapid.T) SessionCase {
		var c SessionCase
		// ONE collision filter for every database name of the session
		dbf := newKnownClassFilter(r)
		var dbPool []string
		admit := func(name string) string {
			if ok, other := dbf.admit(name); !ok {
				name = other
			}
			dbPool = append(dbPool, name)
			return name
		}
		drawDB := func(label string) string {
			if len(dbPool) > 0 && rapid.IntRange(0, 2).Draw(t, label+"-reuse") == 0 {
				return dbPool[rapid.IntRange(0, len(dbPool)-1).Draw(t, label+"-idx")]
			}
			return admit(genDBName(t, dbPool))
		}
		admitRequest := func(s *HTTPCase) {
			for i := range s.Query {
				if s.Query[i].K == "db" && s.Query[i].V != "" {
					s.Query[i].V = admit(s.Query[i].V)
				}
			}
		}
		randomTable := func(u *HUser) {
			u.API, u.DB = nil, nil
			seen := map[string]bool{}
			for k := rapid.IntRange(0, 3).Draw(t, "apigrants"); k > 0; k-- {
				p := rapid.SampledFrom(sessAPIPool).Draw(t, "res")
				if !seen[p] {
					seen[p] = true
					u.API = append(u.API, Grant{Path: p, Privs: rapid.SampledFrom(sessAPIKinds).Draw(t, "kind")})
				}
			}
			seenDB := map[string]bool{}
			for k := rapid.IntRange(0, 2).Draw(t, "dbgrants"); k > 0; k-- {
				db := drawDB("grantdb")
				if !seenDB[db] {
					seenDB[db] = true
					u.DB = append(u.DB, DBGrant{DB: db, Privs: rapid.SampledFrom(sessDBKinds).Draw(t, "dbkind")})
				}
			}
		}

		// ---- first step
		var first HTTPCase
		if rapid.IntRange(0, 3).Draw(t, "firststep") == 0 {
			first = base(t)
			for ui := range first.Users {
				for gi := range first.Users[ui].DB {
					first.Users[ui].DB[gi].DB = admit(first.Users[ui].DB[gi].DB)
				}
			}
			for si := range first.Subs {
				first.Subs[si].DB = admit(first.Subs[si].DB)
			}
			admitRequest(&first)
			c.Secret = first.Secret
		} else {
			c.Secret = rapid.SampledFrom([]string{"s3cret", "s3cret", "s3cret", "k", ""}).Draw(t, "secret")
			first.Secret = c.Secret
			u := HUser{Name: "u1", Pass: "pw1"}
			addAPI := func(p string, k []string) {
				for _, g := range u.API {
					if g.Path == p {
						return
					}
				}
				u.API = append(u.API, Grant{Path: p, Privs: k})
			}
			sub := false
			if rapid.IntRange(0, 4).Draw(t, "focus") < 3 {
				// a write whose two decisions (the /api/write resource, the database) are taken by grants
				db := drawDB("target")
				first.Method = "POST"
				first.Path = rapid.SampledFrom([]string{"/kapacitor/v1/write", "/kapacitor/v1/write", "/kapacitor/v1/write", "/write", "/kapacitor/v1preview/write"}).Draw(t, "wpath")
				first.Query = []KV{{"db", db}}
				if rapid.Bool().Draw(t, "rp") {
					first.Query = append(first.Query, KV{"rp", "autogen"})
				}
				first.RawSlash = rapid.Bool().Draw(t, "rawslash")
				first.Body = "m v=1 1\n"
				wk := [][]string{{"write"}, {"write"}, {"all"}, {"read", "write"}}
				if rapid.IntRange(0, 3).Draw(t, "bytoken") == 0 {
					sub = true
					first.Subs = []HSub{{Token: "tok1", DB: db}}
					randomTable(&u)
				} else {
					addAPI(rapid.SampledFrom([]string{"/api/write", "/api/write", "/api", "/"}).Draw(t, "wres"), rapid.SampledFrom(wk).Draw(t, "wkind"))
					switch rapid.SampledFrom([]string{"db", "db", "db", "dbroot", "root"}).Draw(t, "dbvia") {
					case "db":
						u.DB = []DBGrant{{DB: db, Privs: rapid.SampledFrom(wk).Draw(t, "dbkind")}}
					case "dbroot":
						addAPI("/database", rapid.SampledFrom(wk).Draw(t, "dbkind"))
					default:
						addAPI("/", rapid.SampledFrom(wk).Draw(t, "dbkind"))
					}
					for k := rapid.IntRange(0, 2).Draw(t, "otherdbs"); k > 0; k-- {
						d := drawDB("otherdb")
						dup := false
						for _, g := range u.DB {
							dup = dup || g.DB == d
						}
						if !dup {
							u.DB = append(u.DB, DBGrant{DB: d, Privs: rapid.SampledFrom(sessDBKinds).Draw(t, "otherkind")})
						}
					}
				}
			} else {
				// a request that reaches a dummy route, decided by a grant on the resource or an ancestor
				first.Path = rapid.SampledFrom([]string{"/kapacitor/v1/a", "/kapacitor/v1/a", "/kapacitor/v1/a/b", "/kapacitor/v1/a/c", "/kapacitor/v1/b/x", "/kapacitor/v1/who", "/kapacitor/v1/who", "/kapacitor/v1preview/p", "/kapacitor/v1/a/"}).Draw(t, "rpath")
				first.Method = rapid.SampledFrom([]string{"GET", "GET", "POST", "DELETE", "PATCH", "PUT"}).Draw(t, "method")
				if first.Method != "GET" && first.Method != "DELETE" {
					first.Body = "{}"
				}
				keys := ancestorKeys(apiResource(first.Path))
				kind := rapid.SampledFrom(allowingKinds(methodPrivilege(first.Method))).Draw(t, "allowkind")
				if rapid.IntRange(0, 3).Draw(t, "denied") == 0 {
					kind = rapid.SampledFrom(sessAPIKinds).Draw(t, "kind")
				}
				addAPI(keys[rapid.IntRange(0, len(keys)-1).Draw(t, "granted")], kind)
				if rapid.Bool().Draw(t, "second") {
					addAPI(keys[rapid.IntRange(0, len(keys)-1).Draw(t, "granted2")], rapid.SampledFrom(sessAPIKinds).Draw(t, "kind2"))
				}
			}
			first.Users = []HUser{u}
			if rapid.IntRange(0, 2).Draw(t, "bystander") == 0 {
				v := HUser{Name: "u2", Pass: "pw2"}
				randomTable(&v)
				first.Users = append(first.Users, v)
			}
			switch kind := rapid.SampledFrom([]string{"basic", "basic", "query", "bearer"}).Draw(t, "credkind"); {
			case sub:
				first.Creds = []Cred{{Kind: "basic", User: "~subscriber", Pass: "tok1"}}
			case kind == "bearer" && c.Secret != "":
				first.Creds = []Cred{{Kind: "bearer", User: "u1", Alg: rapid.SampledFrom([]string{"HS256", "HS512"}).Draw(t, "alg"), Key: c.Secret, Exp: "future", Claim: "ok"}}
			case kind == "query":
				first.Creds = []Cred{{Kind: "query", User: "u1", Pass: "pw1"}}
			default:
				first.Creds = []Cred{{Kind: "basic", User: "u1", Pass: "pw1"}}
			}
		}
		c.Steps = []HTTPCase{first}

		// ---- further steps: the previous one after 1-2 edits
		origPass := map[string]string{"u1": "pw1", "u2": "pw2", "u3": "pw3"}
		more := rapid.SampledFrom([]int{1, 1, 2, 2, 2, 3, 4}).Draw(t, "more")
		for i := 0; i < more; i++ {
			s := cloneStep(c.Steps[len(c.Steps)-1])
			s.Secret = c.Secret
			for k := rapid.SampledFrom([]int{1, 1, 1, 2}).Draw(t, "edits"); k > 0; k-- {
				// the user the request speaks for (first user credential), else any
				subject, token := "", ""
				for _, cr := range s.Creds {
					if cr.Kind == "basic" && cr.User == "~subscriber" {
						if token == "" {
							token = cr.Pass
						}
					} else if cr.Kind != "rawheader" && subject == "" {
						subject = cr.User
					}
				}
				ui := -1
				for j := range s.Users {
					if s.Users[j].Name == subject {
						ui = j
					}
				}
				if (ui < 0 || rapid.IntRange(0, 5).Draw(t, "otheruser") == 0) && len(s.Users) > 0 {
					if ui < 0 && subject != "" && origPass[subject] != "" && rapid.Bool().Draw(t, "revive") {
						// the subject was deleted earlier: re-created under the same name with another table
						v := HUser{Name: subject, Pass: origPass[subject]}
						randomTable(&v)
						s.Users = append(s.Users, v)
						continue
					}
					ui = rapid.IntRange(0, len(s.Users)-1).Draw(t, "user")
				}
				targetDB := ""
				for _, kv := range s.Query {
					if kv.K == "db" {
						targetDB = kv.V
					}
				}
				// the grant paths that can decide this request
				relevant := map[string]bool{"/database": true, "/": true}
				for _, key := range ancestorKeys(apiResource(decodedPath(s.Path))) {
					relevant[key] = true
				}
				if targetDB != "" {
					relevant["/api/write"], relevant["/api"] = true, true
				}
				var ops []string
				if ui >= 0 {
					ops = append(ops, "privs", "privs", "privs", "privs", "drop", "drop", "add", "add", "movedb", "admin", "passwd", "deluser", "newtable")
				} else {
					ops = append(ops, "newuser")
				}
				if token != "" || len(s.Subs) > 0 {
					ops = append(ops, "sub-revoke", "sub-regrant", "sub-regrant")
					if token != "" {
						ops = append(ops, "sub-revoke", "sub-regrant", "sub-regrant", "sub-revoke", "sub-regrant")
					}
				}
				ops = append(ops, "sub-add", "req-db", "req-cred", "req-new")
				if len(s.Users) > 1 {
					ops = append(ops, "req-user", "req-user")
				}
				op := rapid.SampledFrom(ops).Draw(t, "op")
				var u *HUser
				if ui >= 0 {
					u = &s.Users[ui]
				}
				// pick a grant of u: index into API (>=0) or DB (encoded as -1-index); biased to the relevant ones
				pick := func() (int, bool) {
					var rel, all []int
					for j, g := range u.API {
						all = append(all, j)
						if relevant[joinSegs(normalise(g.Path))] {
							rel = append(rel, j)
						}
					}
					for j, g := range u.DB {
						all = append(all, -1-j)
						if g.DB == targetDB {
							rel = append(rel, -1-j)
						}
					}
					if len(all) == 0 {
						return 0, false
					}
					if len(rel) > 0 && rapid.IntRange(0, 3).Draw(t, "relevant") > 0 {
						return rel[rapid.IntRange(0, len(rel)-1).Draw(t, "relgrant")], true
					}
					return all[rapid.IntRange(0, len(all)-1).Draw(t, "grant")], true
				}
				addGrant := func() {
					if targetDB != "" && rapid.Bool().Draw(t, "adddb") {
						db := targetDB
						if rapid.IntRange(0, 2).Draw(t, "addotherdb") == 0 {
							db = drawDB("adddb")
						}
						for _, g := range u.DB {
							if g.DB == db {
								return
							}
						}
						u.DB = append(u.DB, DBGrant{DB: db, Privs: rapid.SampledFrom(sessDBKinds).Draw(t, "dbkind")})
						return
					}
					var keys []string
					for key := range relevant {
						keys = append(keys, key)
					}
					sortStrings(keys)
					p := rapid.SampledFrom(append(keys, sessAPIPool...)).Draw(t, "addres")
					for _, g := range u.API {
						if joinSegs(normalise(g.Path)) == joinSegs(normalise(p)) {
							return
						}
					}
					u.API = append(u.API, Grant{Path: p, Privs: rapid.SampledFrom(sessAPIKinds).Draw(t, "kind")})
				}
				switch op {
				case "privs", "drop", "movedb":
					gi, ok := pick()
					if !ok {
						addGrant()
						break
					}
					switch {
					case op == "privs" && gi >= 0:
						u.API[gi].Privs = rapid.SampledFrom(sessAPIKinds).Draw(t, "kind")
					case op == "privs":
						u.DB[-1-gi].Privs = rapid.SampledFrom(sessDBKinds).Draw(t, "dbkind")
					case op == "drop" && gi >= 0:
						u.API = append(u.API[:gi:gi], u.API[gi+1:]...)
					case op == "drop":
						u.DB = append(u.DB[:-1-gi:-1-gi], u.DB[-gi:]...)
					case gi < 0: // movedb: the grant now names another database (often a twin of the old name)
						db := admit(genDBName(t, []string{u.DB[-1-gi].DB}))
						dup := false
						for _, g := range u.DB {
							dup = dup || g.DB == db
						}
						if !dup {
							u.DB[-1-gi].DB = db
						}
					default:
						addGrant()
					}
				case "add":
					addGrant()
				case "admin":
					u.Admin = !u.Admin
					if u.Admin {
						u.API, u.DB = nil, nil // updateUser zeroes the table of a user that becomes admin
					}
				case "passwd":
					u.Pass += "x"
				case "deluser":
					s.Users = append(s.Users[:ui:ui], s.Users[ui+1:]...)
				case "newtable":
					randomTable(u)
				case "newuser":
					name := rapid.SampledFrom([]string{"u1", "u2"}).Draw(t, "newname")
					v := HUser{Name: name, Pass: origPass[name]}
					randomTable(&v)
					s.Users = append(s.Users, v)
				case "sub-revoke", "sub-regrant":
					si := -1
					for j := range s.Subs {
						if s.Subs[j].Token == token || si < 0 {
							si = j
						}
					}
					if si < 0 {
						break
					}
					if op == "sub-revoke" {
						s.Subs = append(s.Subs[:si:si], s.Subs[si+1:]...)
					} else {
						s.Subs[si].DB = admit(genDBName(t, []string{s.Subs[si].DB}))
					}
				case "sub-add":
					tok := rapid.SampledFrom([]string{"tok1", "tok1", "tok2"}).Draw(t, "newtoken")
					dup := false
					for _, sb := range s.Subs {
						dup = dup || sb.Token == tok
					}
					if !dup {
						db := targetDB
						if db == "" || rapid.IntRange(0, 2).Draw(t, "subotherdb") == 0 {
							db = drawDB("subdb")
						}
						s.Subs = append(s.Subs, HSub{Token: tok, DB: db})
					}
				case "req-db":
					for j := range s.Query {
						if s.Query[j].K == "db" {
							s.Query[j].V = drawDB("newtarget")
						}
					}
				case "req-cred":
					// the same user by another kind of credential (or the subscription token <-> a user)
					name := subject
					if name == "" || origPass[name] == "" {
						name = "u1"
					}
					pass := origPass[name]
					for _, v := range s.Users {
						if v.Name == name {
							pass = v.Pass
						}
					}
					switch kind := rapid.SampledFrom([]string{"basic", "query", "bearer", "token"}).Draw(t, "newcredkind"); {
					case kind == "bearer" && c.Secret != "":
						s.Creds = []Cred{{Kind: "bearer", User: name, Alg: "HS256", Key: c.Secret, Exp: "future", Claim: "ok"}}
					case kind == "token":
						s.Creds = []Cred{{Kind: "basic", User: "~subscriber", Pass: rapid.SampledFrom([]string{"tok1", "tok1", "tok2"}).Draw(t, "credtoken")}}
					case kind == "query":
						s.Creds = []Cred{{Kind: "query", User: name, Pass: pass}}
					default:
						s.Creds = []Cred{{Kind: "basic", User: name, Pass: pass}}
					}
				case "req-user":
					// the same request in the name of ANOTHER existing user
					v := s.Users[rapid.IntRange(0, len(s.Users)-1).Draw(t, "asuser")]
					switch kind := rapid.SampledFrom([]string{"basic", "basic", "query", "bearer"}).Draw(t, "ascredkind"); {
					case kind == "bearer" && c.Secret != "":
						s.Creds = []Cred{{Kind: "bearer", User: v.Name, Alg: "HS256", Key: c.Secret, Exp: "future", Claim: "ok"}}
					case kind == "query":
						s.Creds = []Cred{{Kind: "query", User: v.Name, Pass: v.Pass}}
					default:
						s.Creds = []Cred{{Kind: "basic", User: v.Name, Pass: v.Pass}}
					}
				case "req-new":
					f := base(t)
					admitRequest(&f)
					s.Method, s.Path, s.Query, s.RawSlash, s.Creds, s.Body = f.Method, f.Path, f.Query, f.RawSlash, f.Creds, f.Body
					for j := range s.Creds {
						if s.Creds[j].Kind == "bearer" && s.Creds[j].Key == f.Secret {
							s.Creds[j].Key = c.Secret // signed with THIS handler's secret
						}
					}
				}
			}
			c.Steps = append(c.Steps, s)
		}
		return c
	}
}

func sortStrings(s []string) {
	for i := 1; i < len(s); i++ {
		for j := i; j > 0 && s[j] < s[j-1]; j-- {
			s[j], s[j-1] = s[j-1], s[j]
		}
	}
}

func TestSession(t *testing.T) {
	r := kit.NewRec("C20", "Session", ruleSession, assumptionsSession...)
	kit.Check(t, r, genSession(r), runSession)
}

func TestReplaySession(t *testing.T) {
	r := kit.NewRec("C20", "Session", ruleSession, assumptionsSession...)
	kit.Replay(t, r, runSession)
}
