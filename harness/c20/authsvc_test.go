// C20, unit AuthSvc — "a request is served only with valid credentials": the credentials are judged
// by the daemon's own auth service (services/auth.Service, what httpd.Handler.AuthService is in the
// daemon; units HTTP and Session use a fake one). Users are created, changed (password, type,
// permissions) and deleted through the service's own HTTP routes while Authenticate is asked with
// the current password, with former passwords and with passwords of other users.
//
// Oracle (model: the user catalogue): Authenticate(name, password) succeeds exactly when the user
// exists and password is its current password, and the user it returns is admin exactly when the
// catalogue says so. Nothing else is asserted (how permissions map to privileges is the service's
// business; the privileges -> decision step is unit Decide's subject).
package c20

import (
	"bytes"
	"encoding/json"
	"fmt"
	"net/http"
	"net/http/httptest"
	"os"
	"path/filepath"
	"testing"
	"time"

	"verifharness/kit"

	"github.com/influxdata/influxdb/toml"
	client "github.com/influxdata/kapacitor/client/v1"
	"github.com/influxdata/kapacitor/keyvalue"
	authsvc "github.com/influxdata/kapacitor/services/auth"
	"github.com/influxdata/kapacitor/services/httpd"
	"pgregory.net/rapid"
)

type AOp struct {
	Kind  string `json:"kind"` // create patch delete auth
	User  int    `json:"user"`
	PW    int    `json:"pw,omitempty"`    // create/patch: new password (patch: 0 = unchanged); auth: see Which
	Type  int    `json:"type,omitempty"`  // create/patch: 0 unchanged (create: normal), 1 normal, 2 admin
	Perms int    `json:"perms,omitempty"` // create/patch: 0 unchanged / none, 1 api, 2 api+write, 3 all, 4 empty list
	// auth: which password is offered: "current", "former" (a password the user had before),
	// "other" (the current password of another user), "never" (one nobody ever had)
	Which string `json:"which,omitempty"`
}

type AuthSvcCase struct {
	CacheMS int   `json:"cache_ms"` // user cache expiration of the service
	Ops     []AOp `json:"ops"`
}

const ruleAuthSvc = "rapid: 3-14 steps over 2 users of the real services/auth.Service (Bolt store): create / PATCH (password, type, permissions, any subset) / DELETE through the service's own routes, interleaved with Authenticate offered the current password, a former password of that user, another user's password, or one nobody had; " +
	"oracle: Authenticate succeeds exactly for an existing user with its current password, and the returned user is admin exactly when the catalogue says so; non-trivial = a former password is offered after a password change following a successful authentication; distinct by case hash"

var aUsers = []string{"alice", "bob"}
var aPWs = []string{"", "pw-one", "pw-two", "pw-three", "x"}

func genAuthSvc(t *rapid.T) AuthSvcCase {
	c := AuthSvcCase{CacheMS: rapid.SampledFrom([]int{0, 1, 600000}).Draw(t, "cache")}
	n := rapid.IntRange(3, 14).Draw(t, "n")
	for i := 0; i < n; i++ {
		op := AOp{User: rapid.IntRange(0, len(aUsers)-1).Draw(t, "user")}
		switch rapid.IntRange(0, 9).Draw(t, "kind") {
		case 0, 1:
			op.Kind = "create"
			op.PW = rapid.IntRange(1, len(aPWs)-1).Draw(t, "pw")
			op.Type = rapid.IntRange(1, 2).Draw(t, "type")
			op.Perms = rapid.IntRange(0, 3).Draw(t, "perms")
		case 2, 3, 4:
			op.Kind = "patch"
			op.PW = rapid.SampledFrom([]int{0, 1, 2, 3, 4, 1, 2}).Draw(t, "pw")
			op.Type = rapid.SampledFrom([]int{0, 0, 1, 2}).Draw(t, "type")
			op.Perms = rapid.SampledFrom([]int{0, 0, 1, 2, 3, 4}).Draw(t, "perms")
		case 5:
			op.Kind = "delete"
		default:
			op.Kind = "auth"
			op.Which = rapid.SampledFrom([]string{"current", "current", "former", "former", "other", "never"}).Draw(t, "which")
		}
		c.Ops = append(c.Ops, op)
	}
	return c
}

type routeCatcher struct{ routes []httpd.Route }

func (r *routeCatcher) AddRoutes(rs []httpd.Route) error { r.routes = append(r.routes, rs...); return nil }
func (r *routeCatcher) DelRoutes([]httpd.Route)          {}

func (r *routeCatcher) call(method, pattern, path string, body interface{}) (int, string) {
	for _, rt := range r.routes {
		if rt.Method == method && rt.Pattern == pattern {
			var b bytes.Buffer
			if body != nil {
				json.NewEncoder(&b).Encode(body)
			}
			req := httptest.NewRequest(method, httpd.BasePath+path, &b)
			rec := httptest.NewRecorder()
			h, ok := rt.HandlerFunc.(func(http.ResponseWriter, *http.Request))
			if !ok {
				return 0, fmt.Sprintf("route handler is a %T", rt.HandlerFunc)
			}
			h(rec, req)
			return rec.Code, rec.Body.String()
		}
	}
	return 0, "no such route"
}

type aDiag struct{}

func (aDiag) Debug(string, ...keyvalue.T) {}

func aPerms(k int) []client.Permission {
	switch k {
	case 1:
		return []client.Permission{client.APIPermission}
	case 2:
		return []client.Permission{client.APIPermission, client.WritePointsPermission}
	case 3:
		return []client.Permission{client.AllPermissions}
	case 4:
		return []client.Permission{}
	}
	return nil
}

type aUser struct {
	pw     string
	admin  bool
	former map[string]bool
}

func runAuthSvc(c AuthSvcCase, cc *kit.Case) {
	dir, err := os.MkdirTemp("", "c20a")
	if err != nil {
		cc.Fail("harness/tmp", "%v", err)
		return
	}
	defer os.RemoveAll(dir)
	st, err := kit.OpenStore(filepath.Join(dir, "kapacitor.db"))
	if err != nil {
		cc.Fail("harness/store", "%v", err)
		return
	}
	defer st.Close()
	svc, err := authsvc.NewService(authsvc.Config{Enabled: true, CacheExpiration: toml.Duration(time.Duration(c.CacheMS) * time.Millisecond), BcryptCost: 4}, aDiag{})
	if err != nil {
		cc.Fail("harness/service", "%v", err)
		return
	}
	rc := &routeCatcher{}
	svc.StorageService = st
	svc.HTTPDService = rc
	if err := svc.Open(); err != nil {
		cc.Fail("harness/open", "%v", err)
		return
	}
	defer svc.Close()

	model := map[string]*aUser{}
	everAuthed := map[string]bool{} // users that authenticated successfully with their current password
	var history []string
	for i, op := range c.Ops {
		name := aUsers[op.User]
		u := model[name]
		switch op.Kind {
		case "create":
			typ := client.NormalUser
			if op.Type == 2 {
				typ = client.AdminUser
			}
			code, body := rc.call("POST", "/users", "/users", client.CreateUserOptions{Name: name, Password: aPWs[op.PW], Type: typ, Permissions: aPerms(op.Perms)})
			history = append(history, fmt.Sprintf("create %s pw=%q type=%v -> %d", name, aPWs[op.PW], typ, code))
			switch {
			case u == nil && code == http.StatusOK:
				model[name] = &aUser{pw: aPWs[op.PW], admin: op.Type == 2, former: map[string]bool{}}
			case u != nil:
				// the user exists: nothing is created (the service answers 200 with an empty user -
				// errors.Wrap(nil) in CreateUser; what it answers is not this property's subject)
			default:
				cc.Fail("authsvc/create", "step %d: creating %s (exists: %v) was answered %d %s\nhistory: %v", i, name, u != nil, code, body, history)
				return
			}
		case "patch":
			opt := client.UpdateUserOptions{Password: aPWs[op.PW], Permissions: aPerms(op.Perms)}
			if op.Type == 1 {
				opt.Type = client.NormalUser
			} else if op.Type == 2 {
				opt.Type = client.AdminUser
			}
			code, body := rc.call("PATCH", "/users/", "/users/"+name, opt)
			history = append(history, fmt.Sprintf("patch %s pw=%q type=%d perms=%d -> %d", name, aPWs[op.PW], op.Type, op.Perms, code))
			switch {
			case u == nil && code != http.StatusOK:
			case u != nil && code == http.StatusOK:
				if op.PW != 0 && aPWs[op.PW] != u.pw {
					u.former[u.pw] = true
					u.pw = aPWs[op.PW]
					delete(u.former, u.pw)
					if everAuthed[name] {
						cc.Label("password-changed-after-a-successful-authentication")
					}
				}
				if op.Type != 0 {
					u.admin = op.Type == 2
				}
			default:
				cc.Fail("authsvc/patch", "step %d: updating %s (exists: %v) was answered %d %s\nhistory: %v", i, name, u != nil, code, body, history)
				return
			}
		case "delete":
			code, _ := rc.call("DELETE", "/users/", "/users/"+name, nil)
			history = append(history, fmt.Sprintf("delete %s -> %d", name, code))
			delete(model, name)
			delete(everAuthed, name)
		case "auth":
			var pw string
			valid := false
			switch op.Which {
			case "current":
				if u != nil {
					pw, valid = u.pw, true
				} else {
					pw = aPWs[1]
				}
			case "former":
				pw = "never-a-password"
				if u != nil {
					for f := range u.former {
						if pw == "never-a-password" || f < pw {
							pw = f // the smallest: no map order
						}
					}
					if pw != "never-a-password" && everAuthed[name] {
						cc.NonTrivial()
						cc.Label("former-password-offered-after-change")
					}
				}
			case "other":
				pw = "never-a-password"
				if o := model[aUsers[1-op.User]]; o != nil {
					pw = o.pw
				}
				valid = u != nil && pw == u.pw
			default:
				pw = "never-a-password"
			}
			got, err := svc.Authenticate(name, pw)
			history = append(history, fmt.Sprintf("auth %s pw=%q (%s) -> %v", name, pw, op.Which, err == nil))
			if valid && err != nil {
				cc.Fail("authsvc/valid-credentials-refused", "step %d: %s with its current password %q was refused: %v\nhistory: %v", i, name, pw, err, history)
				return
			}
			if !valid && err == nil {
				what := "a password that is not the user's"
				switch {
				case u == nil:
					what = "a user that does not exist"
				case u.former[pw]:
					what = "a former password of the user (changed since)"
				}
				cc.Fail("authsvc/invalid-credentials-accepted", "step %d: Authenticate(%s, %q) succeeded with %s; current password %q\nhistory: %v", i, name, pw, what, func() string {
					if u != nil {
						return u.pw
					}
					return ""
				}(), history)
				return
			}
			if valid {
				everAuthed[name] = true
				if got.IsAdmin() != u.admin {
					cc.Fail("authsvc/admin-flag", "step %d: Authenticate(%s) returned admin=%v, the catalogue says %v\nhistory: %v", i, name, got.IsAdmin(), u.admin, history)
					return
				}
			}
		}
	}
}

var assumptionsAuthSvc = []string{
	"valid credentials = the name of an existing user with the password it was created with or last given by PATCH; a PATCH without a password (empty) leaves it unchanged (client.UpdateUserOptions: omitempty); creating an existing user changes nothing (whatever the answer)",
	"the service is driven through its own routes (POST /users, PATCH and DELETE /users/<name>) and Authenticate, with a Bolt store; bcrypt cost 4; user cache expiration 0 / 1 ms / 10 min; no meta (enterprise) service",
	"services/auth is not among the property's anchors but is what decides 'valid credentials' in the daemon (httpd.Handler.AuthService); units HTTP and Session replace it by a fake",
}

func TestAuthSvc(t *testing.T) {
	r := kit.NewRec("C20", "AuthSvc", ruleAuthSvc, assumptionsAuthSvc...)
	kit.Check(t, r, genAuthSvc, runAuthSvc)
}

func TestReplayAuthSvc(t *testing.T) {
	r := kit.NewRec("C20", "AuthSvc", ruleAuthSvc, assumptionsAuthSvc...)
	kit.Replay(t, r, runAuthSvc)
}
