package c20

import (
	"sort"
	"strings"
	"testing"

	"verifharness/kit"

	"github.com/influxdata/kapacitor/auth"
	"pgregory.net/rapid"
)

// DBCase is a set of database names: the explicit Names plus, if Alphabet is set, every
// string of 1..MaxLen letters of Alphabet, each also with every one of Suffixes appended.
type DBCase struct {
	Names    []string `json:"names,omitempty"`
	Alphabet string   `json:"alphabet,omitempty"`
	MaxLen   int      `json:"maxlen,omitempty"`
	Suffixes []string `json:"suffixes,omitempty"`
	// DropKnown: drop from the ENUMERATED names (never from Names) every name of the known
	// collision class below, keeping one representative per class (counted as excluded).
	DropKnown bool `json:"drop_known,omitempty"`
}

// Known defect class "slash-underscore-escape" (DESIGN section 7): DatabaseResource replaces
// '/' by '_' without escaping '_', so two DIFFERENT names that both contain '/' and are equal
// after that replacement map to the same resource ("a/_b", "a_/b", "a//b" -> "a__b_dirty").
// The generators keep at most one "dirty" name per replacement image; a second one is dropped
// and counted. Every other collision (clean/clean, clean/dirty, shape) is still searched for.
const exclSlashUnderscore = "dbres/dirty-names-equal-after-slash-to-underscore"

func isDirty(name string) bool { return strings.Contains(name, "/") }

func slashImage(name string) string {
	b := []byte(name)
	for i := range b {
		if b[i] == '/' {
			b[i] = '_'
		}
	}
	return string(b)
}

// knownClassFilter keeps track of the dirty names admitted so far.
type knownClassFilter struct {
	byImage map[string]string
	rec     *kit.Rec
}

func newKnownClassFilter(r *kit.Rec) *knownClassFilter {
	return &knownClassFilter{byImage: map[string]string{}, rec: r}
}

// admit reports whether name may join the set; if not, other is the admitted name it would collide with.
func (f *knownClassFilter) admit(name string) (ok bool, other string) {
	if !isDirty(name) {
		return true, ""
	}
	img := slashImage(name)
	if prev, taken := f.byImage[img]; taken && prev != name {
		if f.rec != nil {
			f.rec.Exclude(exclSlashUnderscore)
		}
		return false, prev
	}
	f.byImage[img] = name
	return true, ""
}

const ruleDBRes = "shard 0: ONE exhaustive case = every database name of 1..4 letters over {a,b,_,/} (thorough: 1..6), each also with '_clean' and '_dirty' appended; " +
	"then rapid: sets of 2-8 names of up to 14 letters over {a,b,c,_,/,.,-} with '_clean'/'_dirty' suffixes, built as near-twins of each other ('/'<->'_' swaps, suffix added/removed); " +
	"for every set: DatabaseResource is pairwise injective and every resource is exactly one path element under /database; " +
	"non-trivial = the set holds a name with '/' together with a distinct name that differs from it only by '/'<->'_' swaps or by a '_clean'/'_dirty' suffix"

var assumptionsDBRes = []string{
	"the empty database name maps to the database root itself (stated in DatabaseResource; the write handler rejects an empty db); it is not part of the injectivity domain",
	"database names are arbitrary non-empty strings without NUL; the generated alphabet is {a,b,c,_,/,.,-} plus the literal suffixes '_clean' and '_dirty'",
	"KNOWN DEFECT CLASS excluded by construction: two distinct names that both contain '/' and are equal after replacing '/' by '_' (witness replays/C20/DBRes-slash-underscore-collision.json)",
}

func runDBRes(r *kit.Rec) func(DBCase, *kit.Case) {
	return func(c DBCase, cc *kit.Case) { dbEval(r, c, cc) }
}

// dbEval evaluates the case; on a collision it returns the two colliding names.
func dbEval(r *kit.Rec, c DBCase, cc *kit.Case) (fa, fb string) {
	{
		names := append([]string{}, c.Names...)
		if c.Alphabet != "" {
			flt := newKnownClassFilter(r)
			if !c.DropKnown {
				flt = nil
			}
			var rec func(prefix string)
			rec = func(prefix string) {
				if prefix != "" {
					for _, suf := range append([]string{""}, c.Suffixes...) {
						n := prefix + suf
						if flt != nil {
							if ok, _ := flt.admit(n); !ok {
								continue
							}
						}
						names = append(names, n)
					}
				}
				if len(prefix) == c.MaxLen {
					return
				}
				for i := 0; i < len(c.Alphabet); i++ {
					rec(prefix + c.Alphabet[i:i+1])
				}
			}
			rec("")
			cc.Label("exhaustive-enumeration")
		}
		byRes := map[string]string{}
		dirty, clean := 0, 0
		imgs := map[string]string{} // image under '/'->'_' and suffix stripping -> a name
		twin := false
		for _, n := range names {
			if n == "" {
				continue
			}
			if isDirty(n) {
				dirty++
			} else {
				clean++
			}
			stem := strings.TrimSuffix(strings.TrimSuffix(slashImage(n), "_clean"), "_dirty")
			if o, ok := imgs[stem]; ok && o != n && (isDirty(o) || isDirty(n)) {
				twin = true
			}
			imgs[stem] = n
		}
		if dirty > 0 {
			cc.Label("has-dirty-name")
		}
		if clean > 0 {
			cc.Label("has-clean-name")
		}
		if twin {
			cc.Label("near-twin-names")
			cc.NonTrivial()
		}
		for _, n := range names {
			if n == "" {
				continue
			}
			res := auth.DatabaseResource(n)
			// shape: exactly one path element under the database root
			elem := strings.TrimPrefix(res, "/database/")
			segs := normalise(res)
			if !strings.HasPrefix(res, "/database/") || elem == "" || strings.Contains(elem, "/") || elem == "." || elem == ".." ||
				len(segs) != 2 || segs[0] != "database" || segs[1] != elem {
				cc.Fail("dbres/shape", "DatabaseResource(%q) = %q is not a single path element under /database", n, res)
				return n, ""
			}
			if o, ok := byRes[res]; ok && o != n {
				sig := "dbres/collision/other"
				if isDirty(o) && isDirty(n) && slashImage(o) == slashImage(n) {
					sig = "dbres/collision/slash-underscore-escape"
				}
				a, b := o, n
				if b < a {
					a, b = b, a
				}
				u := auth.NewUser("u", nil, false, map[string][]auth.Privilege{auth.DatabaseResource(a): {auth.WritePrivilege}})
				leak := u.AuthorizeAction(auth.Action{Resource: auth.DatabaseResource(b), Privilege: auth.WritePrivilege}) == nil
				cc.Fail(sig, "distinct database names %q and %q map to the same resource %q; a user granted write on database %q only is authorised to write to database %q: %v", a, b, res, a, b, leak)
				return a, b
			}
			byRes[res] = n
		}
	}
	return "", ""
}

// twins of a database name: the neighbours most likely to share its resource
func genDBName(t *rapid.T, pool []string) string {
	letter := rapid.SampledFrom([]string{"a", "b", "c", "_", "/", "/", "_", ".", "-"})
	suffix := rapid.SampledFrom([]string{"", "", "", "_clean", "_dirty"})
	if len(pool) > 0 && rapid.IntRange(0, 3).Draw(t, "twin") > 0 {
		base := pool[rapid.IntRange(0, len(pool)-1).Draw(t, "base")]
		switch rapid.IntRange(0, 6).Draw(t, "mutation") {
		case 0: // all '/' -> '_'
			return nonEmpty(slashImage(base))
		case 1: // one '_' <-> '/' swap
			b := []byte(base)
			var idx []int
			for i := range b {
				if b[i] == '/' || b[i] == '_' {
					idx = append(idx, i)
				}
			}
			if len(idx) > 0 {
				i := idx[rapid.IntRange(0, len(idx)-1).Draw(t, "pos")]
				if b[i] == '/' {
					b[i] = '_'
				} else {
					b[i] = '/'
				}
			}
			return string(b)
		case 2:
			return base + "_clean"
		case 3:
			return base + "_dirty"
		case 4:
			return nonEmpty(strings.TrimSuffix(strings.TrimSuffix(base, "_clean"), "_dirty"))
		case 5: // the resource element of the base as a name of its own
			return strings.TrimPrefix(auth.DatabaseResource(base), "/database/")
		default:
			return base + letter.Draw(t, "extra")
		}
	}
	n := rapid.IntRange(1, 8).Draw(t, "len")
	s := ""
	for i := 0; i < n; i++ {
		s += letter.Draw(t, "letter")
	}
	return s + suffix.Draw(t, "suffix")
}

func nonEmpty(s string) string {
	if s == "" {
		return "a"
	}
	return s
}

func genDBRes(r *kit.Rec) func(*rapid.T) DBCase {
	return func(t *rapid.T) DBCase {
		var c DBCase
		flt := newKnownClassFilter(r)
		n := rapid.IntRange(2, 8).Draw(t, "names")
		for i := 0; i < n; i++ {
			name := genDBName(t, c.Names)
			if ok, _ := flt.admit(name); !ok {
				continue // known defect class, excluded by construction (counted)
			}
			c.Names = append(c.Names, name)
		}
		sort.Strings(c.Names)
		return c
	}
}

func TestDBRes(t *testing.T) {
	r := kit.NewRec("C20", "DBRes", ruleDBRes, assumptionsDBRes...)
	run := runDBRes(r)
	if shard, _ := shardEnv(); shard == 0 {
		c := DBCase{Alphabet: "ab_/", MaxLen: 4, Suffixes: []string{"_clean", "_dirty"}, DropKnown: true}
		if kit.Tier() == "thorough" {
			c.MaxLen = 6
		}
		cc := r.Begin(c)
		a, b := dbEval(r, c, cc)
		cc.End()
		if cc.Failed() {
			// minimal witness: the offending names only
			m := DBCase{Names: []string{a}}
			if b != "" {
				m.Names = append(m.Names, b)
			}
			mc := r.Begin(m)
			dbEval(r, m, mc)
			mc.End()
			r.Flush()
			t.Fatalf("exhaustive names: %s", cc.Message())
		}
	}
	kit.Check(t, r, genDBRes(r), run)
}

func TestReplayDBRes(t *testing.T) {
	r := kit.NewRec("C20", "DBRes", ruleDBRes, assumptionsDBRes...)
	kit.Replay(t, r, runDBRes(r))
}
