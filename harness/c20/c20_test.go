// C20 — API requests are authorised by the nearest granted resource only.
//
// Units:
//
//	Decide   exhaustive: every privilege table over a small path universe x every request path
//	         built from the universe's segments plus ".", "..", "" x every privilege x
//	         admin/non-admin; auth.User.AuthorizeAction against the reference decision (both
//	         directions) plus the monotonicity corollary.
//	DecideR  rapid: larger tables / deeper and longer request paths, same oracle.
//	DBRes    auth.DatabaseResource: injective, one path element under the database root.
//	HTTP     the real httpd.Handler with authentication enabled and a fake auth.Interface;
//	         safety direction only.
//	Session  ONE httpd.Handler serving a sequence of requests while the auth service's state
//	         (privilege tables, admin flag, passwords, users, subscription tokens) is edited
//	         between them; the HTTP unit's oracle per request with the state in force at that
//	         request (session_test.go).
//
// This file: the reference decision (shared by all units) and the Decide/DecideR units.
// The reference is written from the property text: normalise the resource with a segment
// stack (never path.Clean), walk from the resource up to "/", the first path that carries a
// grant decides, none => deny.
package c20

import (
	"fmt"
	"os"
	"sort"
	"strconv"
	"strings"
	"testing"

	"verifharness/kit"

	"github.com/influxdata/kapacitor/auth"
	"pgregory.net/rapid"
)

// ---------------------------------------------------------------- reference

// normalise is the hand-written normaliser of an absolute slash-separated path: empty and "."
// segments vanish, ".." removes the segment before it (and is void at the root).
func normalise(p string) []string {
	st := []string{}
	seg := []byte{}
	for i := 0; i <= len(p); i++ {
		if i < len(p) && p[i] != '/' {
			seg = append(seg, p[i])
			continue
		}
		switch s := string(seg); s {
		case "", ".":
		case "..":
			if len(st) > 0 {
				st = st[:len(st)-1]
			}
		default:
			st = append(st, s)
		}
		seg = seg[:0]
	}
	return st
}

func joinSegs(s []string) string { return "/" + strings.Join(s, "/") }

var privByName = map[string]auth.Privilege{
	"none": auth.NoPrivileges, "read": auth.ReadPrivilege, "write": auth.WritePrivilege,
	"delete": auth.DeletePrivilege, "all": auth.AllPrivileges,
}
var privNames = []string{"none", "read", "write", "delete", "all"}

// Grant is one row of a privilege table: a resource path and the privileges granted on it.
type Grant struct {
	Path  string   `json:"path"`
	Privs []string `json:"privs"`
}

func grantAllows(privs []string, priv string) bool {
	if len(privs) == 1 && privs[0] == "all" {
		return true
	}
	for _, p := range privs {
		if p == priv {
			return true
		}
	}
	return false
}

// refTable maps the normal form of every granted path to its privilege list.
type refTable map[string][]string

func newRefTable(gs []Grant) refTable {
	t := refTable{}
	for _, g := range gs {
		t[joinSegs(normalise(g.Path))] = g.Privs
	}
	return t
}

// decide is the reference decision for a non-admin/admin user, a normalised resource and a privilege.
// deciding is the path of the grant that decided ("" if none did).
func (t refTable) decide(res []string, priv string, admin bool) (allow bool, deciding string) {
	if admin {
		return true, ""
	}
	if priv == "none" {
		// an action that requires no privilege needs no grant (the HTTP layer maps HEAD and
		// OPTIONS to it; listed in the assumptions)
		return true, ""
	}
	return t.decideKeys(ancestorKeys(res), priv)
}

// ancestorKeys lists the resource itself and its ancestors up to "/", nearest first.
func ancestorKeys(res []string) []string {
	keys := make([]string, 0, len(res)+1)
	for k := len(res); k >= 0; k-- {
		keys = append(keys, joinSegs(res[:k]))
	}
	return keys
}

// decideKeys: the first (nearest) path that carries a grant decides; none => deny.
func (t refTable) decideKeys(nearestFirst []string, priv string) (allow bool, deciding string) {
	for _, key := range nearestFirst {
		if g, ok := t[key]; ok {
			return grantAllows(g, priv), key
		}
	}
	return false, ""
}

// insideGrantedSubtree: some granted path is an ancestor-or-self of res (monotonicity corollary,
// computed independently of decide).
func insideGrantedSubtree(granted [][]string, res []string) bool {
	for _, gp := range granted {
		if len(gp) > len(res) {
			continue
		}
		ok := true
		for i := range gp {
			if gp[i] != res[i] {
				ok = false
				break
			}
		}
		if ok {
			return true
		}
	}
	return false
}

func buildUser(name string, admin bool, gs []Grant) auth.User {
	m := make(map[string][]auth.Privilege, len(gs))
	for _, g := range gs {
		var ps []auth.Privilege
		for _, p := range g.Privs {
			ps = append(ps, privByName[p])
		}
		m[g.Path] = ps
	}
	return auth.NewUser(name, nil, admin, m)
}

// ---------------------------------------------------------------- Decide

// DecideCase is one privilege table evaluated against a whole request-path universe
// (Segs/Depth) and/or an explicit list of request paths (Only).
type DecideCase struct {
	Table []Grant  `json:"table"`
	Segs  []string `json:"segs,omitempty"`  // request paths are "/" + up to Depth of these segments joined by "/"
	Depth int      `json:"depth,omitempty"` // ("" as a segment gives "//" and trailing "/")
	Only  []string `json:"only,omitempty"`  // explicit request paths (evaluated in addition)
}

const ruleDecide = "exhaustive: one case = one privilege table (<=3 grants from {none,read,write,delete,read+write,read+write+delete,all,...} over all paths of the segment universe) " +
	"evaluated against EVERY request path of <=Depth segments over universe+{'.','..',''} x 5 privileges x {admin, non-admin}, both directions; " +
	"non-trivial = the table nests two grants (one granted path is a proper ancestor of another, with a different privilege list), so some request is decided by a nearer grant against a farther one"

var assumptionsDecide = []string{
	"a row of the table with an empty privilege list is a grant of nothing: it is the closest row for everything below it and denies, exactly as a row [none] does (auth.go: the walk stops at the first path present in the table; services/auth writes such rows as [none])",
	"an action whose required privilege is NoPrivileges is authorised without any grant (auth.go AuthorizeAction; httpd maps HEAD/OPTIONS to it)",
	"granted paths of a table are distinct after normalisation (two keys cleaning to the same path would make NewUser depend on map order); privilege lists never mix 'all' or 'none' with other privileges (no caller produces that: services/auth convertPermissions/convertPMPermissions/GrantSubscriptionAccess)",
	"'..' at the root stays at the root (absolute paths)",
	"request resources are absolute paths (APIResource/DatabaseResource always produce absolute paths)",
}

type reqInfo struct {
	path string
	norm []string
	keys []string // ancestorKeys(norm)
}

func newReqInfo(p string) reqInfo {
	n := normalise(p)
	return reqInfo{path: p, norm: n, keys: ancestorKeys(n)}
}

var reqCache = map[string][]reqInfo{}

// requestUniverse enumerates "/" + s1/s2/.../sk for k = 0..depth (memoised, pure).
func requestUniverse(segs []string, depth int) []reqInfo {
	key := strings.Join(segs, "\x00") + "\x01" + strconv.Itoa(depth)
	if r, ok := reqCache[key]; ok {
		return r
	}
	var out []reqInfo
	var rec func(prefix string, d int)
	rec = func(prefix string, d int) {
		p := prefix
		if p == "" {
			p = "/"
		}
		out = append(out, newReqInfo(p))
		if d == depth {
			return
		}
		for _, s := range segs {
			rec(prefix+"/"+s, d+1)
		}
	}
	rec("", 0)
	// "/"+"" at depth 1 is "/" again etc.; duplicates are harmless but wasteful
	seen := map[string]bool{}
	uniq := out[:0]
	for _, r := range out {
		if !seen[r.path] {
			seen[r.path] = true
			uniq = append(uniq, r)
		}
	}
	reqCache[key] = uniq
	return uniq
}

func isProperAncestor(a, b []string) bool {
	if len(a) >= len(b) {
		return false
	}
	for i := range a {
		if a[i] != b[i] {
			return false
		}
	}
	return true
}

// decideEval evaluates the case; on failure it returns the failing request path.
func decideEval(c DecideCase, cc *kit.Case) (failReq string, decisions int) {
	ref := newRefTable(c.Table)
	user := buildUser("u", false, c.Table)
	admin := buildUser("adm", true, c.Table)

	// labels / non-trivial rule
	nested := false
	for i, g := range c.Table {
		for j, h := range c.Table {
			if i != j && isProperAncestor(normalise(g.Path), normalise(h.Path)) && strings.Join(g.Privs, ",") != strings.Join(h.Privs, ",") {
				nested = true
			}
		}
		switch {
		case len(g.Privs) == 0:
			cc.Label("grant:empty-list")
		case len(g.Privs) == 1 && g.Privs[0] == "none":
			cc.Label("grant:none")
		case len(g.Privs) == 1 && g.Privs[0] == "all":
			cc.Label("grant:all")
		case len(g.Privs) > 1:
			cc.Label("grant:multi-privilege")
		}
		if len(normalise(g.Path)) == 0 {
			cc.Label("grant-on-root")
		}
	}
	cc.Label(fmt.Sprintf("grants=%d", len(c.Table)))
	if nested {
		cc.Label("nested-grants")
		cc.NonTrivial()
	}

	granted := make([][]string, len(c.Table))
	for i, g := range c.Table {
		granted[i] = normalise(g.Path)
	}
	var reqs []reqInfo
	if c.Depth > 0 || len(c.Segs) > 0 {
		reqs = append(reqs, requestUniverse(c.Segs, c.Depth)...)
	}
	for _, p := range c.Only {
		reqs = append(reqs, newReqInfo(p))
	}
	for _, rq := range reqs {
		inside := insideGrantedSubtree(granted, rq.norm)
		normPath := joinSegs(rq.norm)
		for _, pn := range privNames {
			priv := privByName[pn]
			decisions += 2
			if err := admin.AuthorizeAction(auth.Action{Resource: rq.path, Privilege: priv}); err != nil {
				cc.Fail("decide/admin-denied", "admin user denied %q on %q: %v (table %v)", pn, rq.path, err, c.Table)
				return rq.path, decisions
			}
			got := user.AuthorizeAction(auth.Action{Resource: rq.path, Privilege: priv}) == nil
			want, deciding := pn == "none", ""
			if !want {
				want, deciding = ref.decideKeys(rq.keys, pn)
			}
			if got && pn != "none" && !inside {
				cc.Fail("decide/allowed-outside-every-granted-subtree", "table %v: %q on %q (normal form %q) is ALLOWED although no granted path is an ancestor-or-self of it", c.Table, pn, rq.path, normPath)
				return rq.path, decisions
			}
			if got && !want {
				cc.Fail("decide/allowed-but-reference-denies", "table %v: %q on %q (normal form %q) is ALLOWED; reference denies (deciding grant: %q)", c.Table, pn, rq.path, normPath, deciding)
				return rq.path, decisions
			}
			if !got && want {
				cc.Fail("decide/denied-but-reference-allows", "table %v: %q on %q (normal form %q) is DENIED; reference allows (deciding grant: %q)", c.Table, pn, rq.path, normPath, deciding)
				return rq.path, decisions
			}
			// path tricks never change the decision: same answer on the normal form itself
			if rq.path != normPath {
				decisions++
				gotN := user.AuthorizeAction(auth.Action{Resource: normPath, Privilege: priv}) == nil
				if gotN != got {
					cc.Fail("decide/path-trick-changes-decision", "table %v: %q on %q => %v but on its normal form %q => %v", c.Table, pn, rq.path, got, normPath, gotN)
					return rq.path, decisions
				}
			}
		}
	}
	return "", decisions
}

func runDecide(c DecideCase, cc *kit.Case) { decideEval(c, cc) }

// universe of the exhaustive unit
type universe struct {
	name      string
	tsegs     []string // segments of the granted paths
	tdepth    int
	maxGrants int
	kinds     [][]string
	rsegs     []string // segments of the request paths
	rdepth    int
}

var (
	kinds7 = [][]string{{}, {"none"}, {"read"}, {"write"}, {"delete"}, {"read", "write"}, {"read", "write", "delete"}, {"all"}}
	kinds9 = [][]string{{}, {"none"}, {"read"}, {"write"}, {"delete"}, {"read", "write"}, {"read", "delete"}, {"write", "delete"}, {"read", "write", "delete"}, {"all"}}
)

func universes() []universe {
	ab := []string{"a", "b"}
	abc := []string{"a", "b", "c"}
	tricks := func(s []string) []string { return append(append([]string{}, s...), ".", "..", "") }
	if kit.Tier() == "thorough" {
		return []universe{
			{"abc-d3-g2-r5", abc, 3, 2, kinds9, tricks(abc), 5},
			{"ab-d3-g3-r5", ab, 3, 3, kinds7, tricks(ab), 5},
			{"abc-d2-g3-r4", abc, 2, 3, kinds7, tricks(abc), 4},
			{"abc-d3-g3-r3", abc, 3, 3, kinds7, tricks(abc), 3},
		}
	}
	return []universe{
		{"ab-d2-g3-r4", ab, 2, 3, kinds7, tricks(ab), 4},
		{"ab-d3-g2-r4", ab, 3, 2, kinds7, tricks(ab), 4},
		{"ab-d2-g2-r5", ab, 2, 2, kinds7, tricks(ab), 5},
		{"abc-d2-g2-r3", abc, 2, 2, kinds7, tricks(abc), 3},
	}
}

func cleanPaths(segs []string, depth int) []string {
	out := []string{"/"}
	var rec func(prefix string, d int)
	rec = func(prefix string, d int) {
		if d == depth {
			return
		}
		for _, s := range segs {
			p := prefix + "/" + s
			out = append(out, p)
			rec(p, d+1)
		}
	}
	rec("", 0)
	sort.SliceStable(out, func(i, j int) bool {
		di, dj := strings.Count(out[i], "/"), strings.Count(out[j], "/")
		if out[i] == "/" {
			di = 0
		}
		if out[j] == "/" {
			dj = 0
		}
		if di != dj {
			return di < dj
		}
		return out[i] < out[j]
	})
	return out
}

// enumTables calls f for every table of <= maxGrants grants over paths (index order) x kinds.
func enumTables(paths []string, kinds [][]string, maxGrants int, f func(idx int, table []Grant) bool) {
	idx := 0
	var rec func(start int, cur []Grant) bool
	rec = func(start int, cur []Grant) bool {
		if !f(idx, cur) {
			return false
		}
		idx++
		if len(cur) == maxGrants {
			return true
		}
		for i := start; i < len(paths); i++ {
			for _, k := range kinds {
				if !rec(i+1, append(cur[:len(cur):len(cur)], Grant{Path: paths[i], Privs: k})) {
					return false
				}
			}
		}
		return true
	}
	rec(0, nil)
}

func shardEnv() (shard, n int) {
	n, _ = strconv.Atoi(os.Getenv("VERIF_NSHARDS"))
	shard, _ = strconv.Atoi(os.Getenv("VERIF_SHARD"))
	if n <= 0 {
		n, shard = 1, 0
	}
	return
}

func TestDecide(t *testing.T) {
	r := kit.NewRec("C20", "Decide", ruleDecide, assumptionsDecide...)
	r.SetExhaustive(true)
	defer r.Flush()
	shard, nshards := shardEnv()
	total := 0
	for _, u := range universes() {
		paths := cleanPaths(u.tsegs, u.tdepth)
		tables, decisions := 0, 0
		stop := false
		enumTables(paths, u.kinds, u.maxGrants, func(idx int, table []Grant) bool {
			if idx%nshards != shard {
				return true
			}
			c := DecideCase{Table: append([]Grant{}, table...), Segs: u.rsegs, Depth: u.rdepth}
			cc := r.Begin(c)
			cc.Label("universe:" + u.name)
			failReq, n := decideEval(c, cc)
			cc.End()
			tables++
			decisions += n
			if cc.Failed() {
				// minimal witness: the same table with only the failing request path
				m := DecideCase{Table: c.Table, Only: []string{failReq}}
				mc := r.Begin(m)
				decideEval(m, mc)
				mc.End()
				t.Errorf("universe %s: %s", u.name, cc.Message())
				stop = true
				return false
			}
			return true
		})
		total += decisions
		t.Logf("universe %s shard %d/%d: %d tables x %d request paths, %d decisions", u.name, shard, nshards, tables, len(requestUniverse(u.rsegs, u.rdepth)), decisions)
		if stop {
			return
		}
	}
	t.Logf("total decisions in this shard: %d", total)
}

func TestReplayDecide(t *testing.T) {
	r := kit.NewRec("C20", "Decide", ruleDecide, assumptionsDecide...)
	kit.Replay(t, r, runDecide)
}

// ---------------------------------------------------------------- DecideR (rapid, larger universes)

const ruleDecideR = "rapid: tables of 0-7 grants over segments {a,b,c,d} to depth 5 (granted paths also written with trailing '/' or './' as callers may) x 24 generated request paths " +
	"of up to 9 segments over the same segments plus '.', '..', '' (biased towards the granted paths and their neighbours) x 5 privileges; " +
	"non-trivial = nested grants with different privilege lists"

func genDecideR(t *rapid.T) DecideCase {
	segs := []string{"a", "b", "c", "d"}
	seg := rapid.SampledFrom(segs)
	kind := rapid.SampledFrom(kinds9)
	var c DecideCase
	seen := map[string]bool{}
	n := rapid.IntRange(0, 7).Draw(t, "grants")
	var granted [][]string
	for i := 0; i < n; i++ {
		var p []string
		if len(granted) > 0 && rapid.IntRange(0, 2).Draw(t, "extend") > 0 {
			// extend or cut an already granted path: nested grants are the interesting tables
			base := granted[rapid.IntRange(0, len(granted)-1).Draw(t, "base")]
			cut := rapid.IntRange(0, len(base)).Draw(t, "cut")
			p = append(p, base[:cut]...)
			for k := rapid.IntRange(0, 2).Draw(t, "ext"); k > 0 && len(p) < 5; k-- {
				p = append(p, seg.Draw(t, "seg"))
			}
		} else {
			for k := rapid.IntRange(0, 5).Draw(t, "depth"); k > 0; k-- {
				p = append(p, seg.Draw(t, "seg"))
			}
		}
		key := joinSegs(p)
		if seen[key] {
			continue
		}
		seen[key] = true
		granted = append(granted, p)
		path := key
		switch rapid.IntRange(0, 5).Draw(t, "spelling") {
		case 0:
			if path != "/" {
				path += "/"
			}
		case 1:
			path = "/." + path
		}
		c.Table = append(c.Table, Grant{Path: path, Privs: kind.Draw(t, "kind")})
	}
	rseg := rapid.SampledFrom([]string{"a", "b", "c", "d", "a", "b", ".", "..", "..", ""})
	for i := 0; i < 24; i++ {
		var p []string
		if len(granted) > 0 && rapid.IntRange(0, 3).Draw(t, "near") > 0 {
			p = append(p, granted[rapid.IntRange(0, len(granted)-1).Draw(t, "g")]...)
		}
		lo := 0
		if len(p) == 0 {
			lo = 1
		}
		for k := rapid.IntRange(lo, 4).Draw(t, "more"); k > 0 && len(p) < 9; k-- {
			p = append(p, rseg.Draw(t, "rseg"))
		}
		c.Only = append(c.Only, "/"+strings.Join(p, "/"))
	}
	return c
}

func TestDecideR(t *testing.T) {
	r := kit.NewRec("C20", "DecideR", ruleDecideR, assumptionsDecide...)
	kit.Check(t, r, genDecideR, runDecide)
}

func TestReplayDecideR(t *testing.T) {
	r := kit.NewRec("C20", "DecideR", ruleDecideR, assumptionsDecide...)
	kit.Replay(t, r, runDecide)
}
