// C01 — alert events follow the documented level/recovery state machine.
//
// Generator: alert configuration (levels, resets, stateChangesOnly[/interval], noRecoveries,
// all(), history, flapping, level/id/duration fields and tags) x per-ID point histories,
// stream and batch. Oracle: reference state machine written from pipeline/alert.go's docs
// and the property statement; flapping only through metamorphic relations.
package c01

import (
	"fmt"
	"reflect"
	"sort"
	"strings"
	"sync"
	"testing"

	"verifharness/kit"

	"github.com/influxdata/kapacitor/alert"
	"pgregory.net/rapid"
)

// Cond is `"F" Op K` over an integer field.
type Cond struct {
	F  string `json:"f"`
	Op string `json:"op"`
	K  int64  `json:"k"`
}

func (c *Cond) lambda() string { return fmt.Sprintf("lambda: \"%s\" %s %d", c.F, c.Op, c.K) }
func (c *Cond) eval(f map[string]int64) bool {
	v, ok := f[c.F]
	if !ok {
		return false // the condition cannot be evaluated for this point: it does not hold
	}
	switch c.Op {
	case ">":
		return v > c.K
	case "<":
		return v < c.K
	case ">=":
		return v >= c.K
	case "<=":
		return v <= c.K
	case "==":
		return v == c.K
	case "!=":
		return v != c.K
	}
	panic("op")
}

type P struct {
	G   int              `json:"g"`   // group
	Gap int64            `json:"gap"` // ns after the previous point of the whole sequence (non-decreasing global time)
	F   map[string]int64 `json:"f"`
	Cut bool             `json:"cut"` // batch form: this point starts a new batch
}

type Case struct {
	Batch      bool     `json:"batch"`
	Levels     [4]*Cond `json:"levels"` // index by alert level 1..3 (0 unused)
	Resets     [4]*Cond `json:"resets"`
	SCO        bool     `json:"sco"`
	Interval   int64    `json:"interval"` // ns, 0 = none
	NoRec      bool     `json:"norec"`
	All        bool     `json:"all"`
	History    int      `json:"history"` // 0 = default
	Flap       bool     `json:"flap"`
	FlapLo     float64  `json:"flaplo"`
	FlapHi     float64  `json:"flaphi"`
	LevelField bool     `json:"levelfield"`
	LevelTag   bool     `json:"leveltag"`
	IdField    bool     `json:"idfield"`
	IdTag      bool     `json:"idtag"`
	DurField   bool     `json:"durfield"`
	GroupBy    bool     `json:"groupby"`
	Groups     int      `json:"groups"`
	Pts        []P      `json:"pts"`
	EmptyAt    []int    `json:"emptyat"` // batch form: indexes (in batch order) after which an empty batch is fed
}

const rule = "rapid: alert config (info/warn/crit + resets, stateChangesOnly[/interval], noRecoveries, all(), history, flapping, level/id/duration fields+tags) x per-ID point histories, stream and batch; " +
	"non-trivial = some alert ID goes through >=2 distinct levels with at least one descent (reset/recovery decision exercised); distinct by case hash"

const sec = int64(1e9)

var names = [4]string{"", "info", "warn", "crit"}

func gen(t *rapid.T) Case {
	var c Case
	c.Batch = rapid.Bool().Draw(t, "batch")
	style := rapid.IntRange(0, 2).Draw(t, "style") // 0 nested thresholds on v, 1 arbitrary conditions on v, 2 independent fields
	// thresholds
	base := int64(rapid.IntRange(0, 5).Draw(t, "base"))
	mask := rapid.IntRange(1, 7).Draw(t, "levelmask")
	for l := 1; l <= 3; l++ {
		if mask&(1<<(l-1)) == 0 {
			continue
		}
		switch style {
		case 0:
			c.Levels[l] = &Cond{"v", ">", base + int64(l)*3}
			if rapid.IntRange(0, 2).Draw(t, "hasreset") > 0 {
				c.Resets[l] = &Cond{"v", "<", base + int64(l)*3 - int64(rapid.IntRange(0, 4).Draw(t, "hyst"))}
			}
		case 1:
			c.Levels[l] = &Cond{"v", rapid.SampledFrom([]string{">", "<", ">=", "<=", "==", "!="}).Draw(t, "op"), base + int64(rapid.IntRange(0, 12).Draw(t, "k"))}
			if rapid.IntRange(0, 2).Draw(t, "hasreset") > 0 {
				c.Resets[l] = &Cond{"v", rapid.SampledFrom([]string{">", "<", ">=", "<=", "==", "!="}).Draw(t, "rop"), base + int64(rapid.IntRange(0, 12).Draw(t, "rk"))}
			}
		case 2:
			c.Levels[l] = &Cond{names[l][:1], ">", 0}
			if rapid.IntRange(0, 2).Draw(t, "hasreset") > 0 {
				c.Resets[l] = &Cond{names[l][:1] + "r", ">", 0}
			}
		}
	}
	c.SCO = rapid.Bool().Draw(t, "sco")
	c.Flap = rapid.IntRange(0, 5).Draw(t, "flap") == 0
	if c.SCO && !c.Flap && rapid.Bool().Draw(t, "hasinterval") {
		c.Interval = int64(rapid.IntRange(1, 6).Draw(t, "interval")) * sec
	}
	c.NoRec = rapid.IntRange(0, 3).Draw(t, "norec") == 0
	if c.Batch {
		c.All = rapid.IntRange(0, 2).Draw(t, "all") == 0
	}
	if rapid.Bool().Draw(t, "hashistory") {
		c.History = rapid.IntRange(2, 8).Draw(t, "history")
	}
	if c.Flap {
		c.FlapLo = float64(rapid.IntRange(0, 5).Draw(t, "flo")) / 10
		c.FlapHi = c.FlapLo + float64(rapid.IntRange(0, 5).Draw(t, "fhi"))/10
		if rapid.IntRange(0, 3).Draw(t, "fnever") == 0 {
			c.FlapHi = 1 // the largest accepted threshold; a percentage of state changes cannot go above 100 %: the alert never flaps
		}
	}
	c.LevelField = rapid.Bool().Draw(t, "lf")
	c.LevelTag = rapid.Bool().Draw(t, "lt")
	c.IdField = rapid.Bool().Draw(t, "if")
	c.IdTag = rapid.Bool().Draw(t, "it")
	c.DurField = rapid.Bool().Draw(t, "df")
	c.GroupBy = rapid.Bool().Draw(t, "groupby")
	c.Groups = 1
	if c.GroupBy {
		c.Groups = rapid.IntRange(1, 3).Draw(t, "groups")
	}
	n := rapid.IntRange(1, 40).Draw(t, "n")
	gaps := []int64{0, 1, sec / 2, sec, sec, 2 * sec, 3*sec - 1, 3 * sec, 5 * sec, 7*sec + 1}
	for i := 0; i < n; i++ {
		p := P{G: rapid.IntRange(0, c.Groups-1).Draw(t, "g"), Gap: rapid.SampledFrom(gaps).Draw(t, "gap"), F: map[string]int64{}}
		if style == 2 {
			for _, f := range []string{"i", "w", "c", "ir", "wr", "cr"} {
				p.F[f] = int64(rapid.IntRange(0, 1).Draw(t, f))
			}
			// a point may lack the field of one level condition: that condition cannot be evaluated
			// (an error is reported) and does not hold; lower levels are still looked at
			if m := rapid.IntRange(0, 9).Draw(t, "missing"); m < 3 {
				delete(p.F, []string{"i", "w", "c"}[m])
			}
		} else {
			p.F["v"] = base + int64(rapid.IntRange(-2, 14).Draw(t, "v"))
		}
		if c.Batch {
			p.Cut = i == 0 || rapid.IntRange(0, 2).Draw(t, "cut") == 0
		}
		c.Pts = append(c.Pts, p)
	}
	if c.Batch && rapid.IntRange(0, 3).Draw(t, "empties") == 0 {
		c.EmptyAt = append(c.EmptyAt, rapid.IntRange(0, n).Draw(t, "emptyat"))
	}
	return c
}

func (c Case) alertProps() string {
	var s strings.Builder
	s.WriteString("|alert().topic('T')")
	for l := 1; l <= 3; l++ {
		if c.Levels[l] != nil {
			fmt.Fprintf(&s, ".%s(%s)", names[l], c.Levels[l].lambda())
		}
		if c.Resets[l] != nil {
			fmt.Fprintf(&s, ".%sReset(%s)", names[l], c.Resets[l].lambda())
		}
	}
	if c.SCO {
		if c.Interval != 0 {
			fmt.Fprintf(&s, ".stateChangesOnly(%ds)", c.Interval/sec)
		} else {
			s.WriteString(".stateChangesOnly()")
		}
	}
	if c.NoRec {
		s.WriteString(".noRecoveries()")
	}
	if c.All {
		s.WriteString(".all()")
	}
	if c.History != 0 {
		fmt.Fprintf(&s, ".history(%d)", c.History)
	}
	if c.Flap {
		fmt.Fprintf(&s, ".flapping(%.2f, %.2f)", c.FlapLo, c.FlapHi)
	}
	if c.LevelField {
		s.WriteString(".levelField('lvl')")
	}
	if c.LevelTag {
		s.WriteString(".levelTag('lvlt')")
	}
	if c.IdField {
		s.WriteString(".idField('aid')")
	}
	if c.IdTag {
		s.WriteString(".idTag('aidt')")
	}
	if c.DurField {
		s.WriteString(".durationField('dur')")
	}
	s.WriteString("|log().prefix('A')")
	return s.String()
}

// script: the alert branch (sink A below it) and a sibling branch B that reads the same messages -
// the alert node must not alter data its sibling can observe.
func (c Case) script() string {
	s := "var p = stream|from().measurement('m')"
	if c.Batch {
		s = `var p = batch|query('SELECT * FROM "db"."rp"."m"').period(10s).every(10s)`
	}
	if c.GroupBy {
		s += ".groupBy('host')"
	}
	return s + "\np" + c.alertProps() + "\np|log().prefix('B')"
}

const t0 = int64(1_500_000_000) * sec

// inputs builds the stream points, or the batches (one group per batch, in feed order).
func (c Case) inputs() (pts []kit.Pt, batches []kit.Bt) {
	t := t0
	open := map[int]int{} // group -> index in batches of the batch being filled
	for i, p := range c.Pts {
		t += p.Gap
		fields := map[string]kit.FV{"n": kit.I(int64(i))}
		for k, v := range p.F {
			fields[k] = kit.I(v)
		}
		host := fmt.Sprintf("h%d", p.G)
		if !c.Batch {
			pts = append(pts, kit.Pt{Name: "m", Tags: map[string]string{"host": host, "o": "x"}, Fields: fields, Time: t})
			continue
		}
		bi, ok := open[p.G]
		if p.Cut || !ok {
			b := kit.Bt{Name: "m", Points: []kit.Pt{}}
			if c.GroupBy {
				b.Tags = map[string]string{"host": host}
			}
			batches = append(batches, b)
			bi = len(batches) - 1
			open[p.G] = bi
		}
		ptags := map[string]string{"host": host, "o": "x"}
		batches[bi].Points = append(batches[bi].Points, kit.Pt{Tags: ptags, Fields: fields, Time: t})
		batches[bi].TMax = t + 1
	}
	if c.Batch {
		// batches of different groups are fed in the order they were opened; empty batches are inserted
		for _, at := range c.EmptyAt {
			if at > len(batches) {
				at = len(batches)
			}
			e := kit.Bt{Name: "m", Points: []kit.Pt{}, TMax: t0}
			if c.GroupBy {
				e.Tags = map[string]string{"host": "h0"}
			}
			batches = append(batches[:at], append([]kit.Bt{e}, batches[at:]...)...)
		}
	}
	return
}

// ---------------------------------------------------------------- reference model

type expEvent struct {
	id       string
	level    int
	times    []int64 // accepted event times (batch: the property does not pin the tie-break)
	canon    int64   // the time the model itself continues with
	durFrom  int64   // duration = event time - durFrom
	prev     int
	srcIdx   int // index of the input (point or batch) that produced it
	fwdLevel int
}

type idState struct {
	cur       int
	lastTrig  int64
	hasTrig   bool
	firstTrig int64
	prevEmit  int
	levels    []int // level history (for the non-trivial rule and flapping relations)
}

func (c Case) highest(f map[string]int64, from, downTo int) (int, bool) {
	for l := from; l > downTo && l >= 1; l-- {
		if c.Levels[l] != nil && c.Levels[l].eval(f) {
			return l, true
		}
	}
	return 0, false
}

// level: highest severity whose condition holds, held back by the reset condition of the
// current level (pipeline/alert.go: "when an alert enters a state, it can only be lowered in
// severity if its reset expression evaluates to true").
func (c Case) level(f map[string]int64, cur int) int {
	h, _ := c.highest(f, 3, 0)
	if h >= cur {
		return h
	}
	if r := c.Resets[cur]; r != nil && !r.eval(f) {
		return cur
	}
	return h
}

func fieldsOf(p kit.Pt) map[string]int64 {
	m := map[string]int64{}
	for k, v := range p.Fields {
		m[k] = v.Go().(int64)
	}
	return m
}

func (c Case) idOf(tags map[string]string) string {
	if !c.GroupBy {
		return "m:nil"
	}
	return "m:host=" + tags["host"]
}

// step applies one level decision at candidate time(s) and returns the expected event, if any.
// flapping is not modelled: with c.Flap the result is the no-flapping expectation.
func (c Case) step(st *idState, id string, l int, times []int64, canon int64, src int) *expEvent {
	changed := l != st.cur
	prevLevel := st.cur
	expired := !changed && c.Interval != 0 && st.hasTrig && canon-st.lastTrig >= c.Interval
	st.cur = l
	st.levels = append(st.levels, l)
	if c.SCO && !changed && !expired {
		return nil
	}
	if l == 0 && !changed {
		return nil
	}
	st.lastTrig, st.hasTrig = canon, true
	if prevLevel == 0 {
		st.firstTrig = canon
	}
	if c.NoRec && l == 0 {
		return nil
	}
	ev := &expEvent{id: id, level: l, times: times, canon: canon, durFrom: st.firstTrig, prev: st.prevEmit, srcIdx: src}
	st.prevEmit = l
	return ev
}

func (c Case) reference(pts []kit.Pt, batches []kit.Bt) (evs []*expEvent, states map[string]*idState) {
	states = map[string]*idState{}
	get := func(id string) *idState {
		if states[id] == nil {
			states[id] = &idState{}
		}
		return states[id]
	}
	if !c.Batch {
		for i, p := range pts {
			id := c.idOf(p.Tags)
			st := get(id)
			l := c.level(fieldsOf(p), st.cur)
			if ev := c.step(st, id, l, []int64{p.Time}, p.Time, i); ev != nil {
				evs = append(evs, ev)
			}
		}
		return
	}
	for i, b := range batches {
		if len(b.Points) == 0 {
			continue
		}
		id := c.idOf(b.Tags)
		st := get(id)
		lo, hi := 3, 0
		var lv []int
		for _, p := range b.Points {
			l := c.level(fieldsOf(p), st.cur)
			lv = append(lv, l)
			if l < lo {
				lo = l
			}
			if l > hi {
				hi = l
			}
		}
		l := hi
		if c.All {
			l = lo
		}
		var times []int64
		canon := b.TMax
		if c.All || l == 0 {
			// documented nowhere precisely; the code uses the batch time. Any time of the batch is accepted.
			times = append(times, b.TMax)
			for _, p := range b.Points {
				times = append(times, p.Time)
			}
		} else {
			first := true
			for j, p := range b.Points {
				if lv[j] == hi {
					times = append(times, p.Time)
					if first {
						canon, first = p.Time, false
					}
				}
			}
		}
		if ev := c.step(st, id, l, times, canon, i); ev != nil {
			evs = append(evs, ev)
		}
	}
	return
}

// ---------------------------------------------------------------- observation

type obsEvent struct {
	ID    string
	Level int
	Time  int64
	Dur   int64
	Prev  int
	Msg   string
}

type recHandler struct {
	mu  sync.Mutex
	evs []obsEvent
}

func (h *recHandler) Handle(e alert.Event) {
	h.mu.Lock()
	h.evs = append(h.evs, obsEvent{ID: e.State.ID, Level: int(e.State.Level), Time: e.State.Time.UnixNano(), Dur: int64(e.State.Duration),
		Prev: int(e.PreviousState().Level), Msg: e.State.Message})
	h.mu.Unlock()
}

var levelNames = [4]string{"OK", "INFO", "WARNING", "CRITICAL"}

func inSet(x int64, s []int64) bool {
	for _, y := range s {
		if x == y {
			return true
		}
	}
	return false
}

func run(c Case, cc *kit.Case) {
	pts, batches := c.inputs()
	exp, states := c.reference(pts, batches)

	// classification
	if c.Batch {
		cc.Label("batch")
		if c.All {
			cc.Label("batch-all")
		}
	} else {
		cc.Label("stream")
	}
	if c.SCO {
		if c.Interval != 0 {
			cc.Label("stateChangesOnly+interval")
		} else {
			cc.Label("stateChangesOnly")
		}
	}
	if c.NoRec {
		cc.Label("noRecoveries")
	}
	if c.Flap {
		cc.Label("flapping")
	}
	hasReset := false
	for l := 1; l <= 3; l++ {
		if c.Resets[l] != nil {
			hasReset = true
		}
	}
	if hasReset {
		cc.Label("has-reset")
	}
	nt := false
	for _, st := range states {
		distinct := map[int]bool{}
		descent := false
		for i, l := range st.levels {
			distinct[l] = true
			if i > 0 && l < st.levels[i-1] {
				descent = true
			}
		}
		if len(distinct) >= 2 && descent {
			nt = true
		}
	}
	if nt {
		cc.NonTrivial()
		cc.Label("level-descent")
	}

	h := &recHandler{}
	env, err := kit.NewEnv(kit.EnvOpts{Alerts: true, Prepare: func(e *kit.Env) { e.Alert.RegisterAnonHandler("T", h) }})
	if err != nil {
		cc.Fail("harness/env", "env: %v", err)
		return
	}
	defer env.Close()
	var defErr, runErr error
	if c.Batch {
		defErr, runErr = env.RunBatch(c.script(), [][]kit.Bt{batches})
	} else {
		defErr, runErr = env.RunStream(c.script(), pts)
	}
	if defErr != nil {
		cc.Fail("harness/script-rejected", "script %q rejected: %v", c.script(), defErr)
		return
	}
	if runErr != nil {
		cc.Fail("task-error", "task ended with error: %v", runErr)
		return
	}
	env.Close() // closes the topics: every buffered event has been handed to the handler
	h.mu.Lock()
	obs := append([]obsEvent(nil), h.evs...)
	h.mu.Unlock()
	fwd := env.Sink.By("A")

	ctx := func() string {
		return fmt.Sprintf("script: %s\nexpected events: %s\nobserved events: %s", c.script(), fmtExp(exp), fmtObs(obs))
	}

	// the sibling branch sees the original data, whatever the alert node attaches to its own copies
	sib := env.Sink.By("B")
	if c.Batch {
		k := 0
		for _, b := range batches {
			if k >= len(sib) || sib[k].B == nil {
				cc.Fail("alert/sibling-data", "sibling branch received %d batches, %d were fed", len(sib), len(batches))
				return
			}
			o := sib[k].B
			k++
			if len(o.Points) != len(b.Points) || !reflect.DeepEqual(tagsOrNil(o.Tags), tagsOrNil(b.Tags)) {
				cc.Fail("alert/sibling-data", "the sibling branch of the alert node sees batch tags %v with %d points, the input has %v with %d points\n%s", o.Tags, len(o.Points), b.Tags, len(b.Points), ctx())
				return
			}
			for j, p := range b.Points {
				if !reflect.DeepEqual(o.Points[j].Fields, p.Fields) || !reflect.DeepEqual(o.Points[j].Tags, p.Tags) {
					cc.Fail("alert/sibling-data", "the sibling branch of the alert node sees point tags %v fields %v, the input point has tags %v fields %v (the alert node altered shared data)\n%s", o.Points[j].Tags, o.Points[j].Fields, p.Tags, p.Fields, ctx())
					return
				}
			}
		}
	} else {
		if len(sib) != len(pts) {
			cc.Fail("alert/sibling-data", "sibling branch received %d points, %d were fed\n%s", len(sib), len(pts), ctx())
			return
		}
		for i, p := range pts {
			o := sib[i].P
			if o == nil || !reflect.DeepEqual(o.Fields, p.Fields) || !reflect.DeepEqual(o.Tags, p.Tags) {
				cc.Fail("alert/sibling-data", "the sibling branch of the alert node sees %+v, the input point has tags %v fields %v (the alert node altered shared data)\n%s", o, p.Tags, p.Fields, ctx())
				return
			}
		}
	}

	if c.Flap && c.FlapHi >= 1 {
		cc.Label("flapping-threshold-unreachable")
	}
	if c.Flap && c.FlapHi < 1 {
		// Metamorphic only: the flapping arithmetic is documented qualitatively.
		// (1) observed events are a subsequence of the no-flapping events (id, level, time), per ID.
		perID := map[string][]*expEvent{}
		for _, e := range exp {
			perID[e.id] = append(perID[e.id], e)
		}
		pos := map[string]int{}
		for _, o := range obs {
			found := false
			for pos[o.ID] < len(perID[o.ID]) {
				e := perID[o.ID][pos[o.ID]]
				pos[o.ID]++
				if e.level == o.Level && inSet(o.Time, e.times) {
					found = true
					break
				}
			}
			if !found {
				cc.Fail("alert/flapping-invented-event", "with flapping on, event %+v is not among the events of the same configuration without flapping\n%s", o, ctx())
				return
			}
		}
		// (2) level attached to forwarded data equals the no-flapping level of the same input
		c.checkForwardLevels(cc, fwd, exp, pts, batches, true, ctx)
		return
	}

	if len(obs) != len(exp) {
		cc.Fail("alert/event-count", "%d events reached the handler, reference says %d\n%s", len(obs), len(exp), ctx())
		return
	}
	firstObs := map[string]int64{} // id -> observed time standing for durFrom (canonical -> observed)
	for i, e := range exp {
		o := obs[i]
		if o.ID != e.id {
			cc.Fail("alert/event-id", "event %d has id %q, reference %q\n%s", i, o.ID, e.id, ctx())
			return
		}
		if o.Level != e.level {
			cc.Fail("alert/event-level", "event %d (id %s) has level %s, reference %s\n%s", i, o.ID, levelNames[o.Level], levelNames[e.level], ctx())
			return
		}
		if !inSet(o.Time, e.times) {
			cc.Fail("alert/event-time", "event %d (id %s, %s) has time %d, accepted %v\n%s", i, o.ID, levelNames[o.Level], o.Time, e.times, ctx())
			return
		}
		if o.Time != e.canon {
			// a legitimate different tie-break: the model's own continuation (interval expiry, durations) no longer applies
			cc.Label("noncanonical-event-time")
			return
		}
		if e.durFrom == e.canon {
			firstObs[e.id] = o.Time
		}
		if o.Dur != o.Time-e.durFrom {
			cc.Fail("alert/event-duration", "event %d (id %s, %s at %d) has duration %d, reference %d (time since the ID left OK at %d)\n%s", i, o.ID, levelNames[o.Level], o.Time, o.Dur, o.Time-e.durFrom, e.durFrom, ctx())
			return
		}
		if o.Prev != e.prev {
			cc.Fail("alert/event-previous-level", "event %d (id %s, %s) reports previous level %s, reference %s\n%s", i, o.ID, levelNames[o.Level], levelNames[o.Prev], levelNames[e.prev], ctx())
			return
		}
		if want := fmt.Sprintf("%s is %s", e.id, levelNames[e.level]); o.Msg != want {
			cc.Fail("alert/event-message", "event %d message %q, want %q", i, o.Msg, want)
			return
		}
	}
	c.checkForwardLevels(cc, fwd, exp, pts, batches, false, ctx)
}

// checkForwardLevels compares what the alert node forwards downstream with the inputs that
// produced an event, augmented as configured.
func (c Case) checkForwardLevels(cc *kit.Case, fwd []kit.Obs, exp []*expEvent, pts []kit.Pt, batches []kit.Bt, flapping bool, ctx func() string) {
	if cc.Failed() {
		return
	}
	bySrc := map[int64]*expEvent{} // serial n of a point of the source -> event
	for _, e := range exp {
		if c.Batch {
			for _, p := range batches[e.srcIdx].Points {
				bySrc[p.Fields["n"].Go().(int64)] = e
			}
		} else {
			bySrc[pts[e.srcIdx].Fields["n"].Go().(int64)] = e
		}
	}
	if !flapping && len(fwd) != len(exp) {
		cc.Fail("alert/forward-count", "%d messages forwarded downstream, reference says %d (one per event)\n%s", len(fwd), len(exp), ctx())
		return
	}
	checkPoint := func(tags map[string]string, fields map[string]kit.FV, orig kit.Pt, e *expEvent, dur int64, checkDur bool) bool {
		wantF := map[string]kit.FV{}
		for k, v := range orig.Fields {
			wantF[k] = v
		}
		wantT := map[string]string{}
		for k, v := range orig.Tags {
			wantT[k] = v
		}
		if c.LevelField {
			wantF["lvl"] = kit.S(levelNames[e.level])
		}
		if c.IdField {
			wantF["aid"] = kit.S(e.id)
		}
		if c.DurField {
			if checkDur {
				wantF["dur"] = kit.I(dur)
			} else {
				wantF["dur"] = fields["dur"]
			}
		}
		if c.LevelTag {
			wantT["lvlt"] = levelNames[e.level]
		}
		if c.IdTag {
			wantT["aidt"] = e.id
		}
		if !reflect.DeepEqual(fields, wantF) || !reflect.DeepEqual(tags, wantT) {
			cc.Fail("alert/forwarded-data", "forwarded point has tags %v fields %v, want tags %v fields %v\n%s", tags, fields, wantT, wantF, ctx())
			return false
		}
		return true
	}
	for i, o := range fwd {
		if c.Batch {
			if o.B == nil || len(o.B.Points) == 0 {
				cc.Fail("alert/forwarded-data", "forwarded message %d is not a non-empty batch", i)
				return
			}
			e := bySrc[o.B.Points[0].Fields["n"].Go().(int64)]
			if e == nil {
				cc.Fail("alert/forward-without-event", "a batch was forwarded although the reference emits no event for it\n%s", ctx())
				return
			}
			src := batches[e.srcIdx]
			if len(src.Points) != len(o.B.Points) {
				cc.Fail("alert/forwarded-data", "forwarded batch has %d points, source %d", len(o.B.Points), len(src.Points))
				return
			}
			for j, p := range o.B.Points {
				if !checkPoint(p.Tags, p.Fields, src.Points[j], e, e.canon-e.durFrom, !flapping) {
					return
				}
			}
			wantT := map[string]string{}
			for k, v := range src.Tags {
				wantT[k] = v
			}
			if c.LevelTag {
				wantT["lvlt"] = levelNames[e.level]
			}
			if c.IdTag {
				wantT["aidt"] = e.id
			}
			if len(wantT) == 0 {
				wantT = nil
			}
			if !reflect.DeepEqual(o.B.Tags, wantT) {
				cc.Fail("alert/forwarded-data", "forwarded batch has tags %v, want %v", o.B.Tags, wantT)
				return
			}
		} else {
			if o.P == nil {
				cc.Fail("alert/forwarded-data", "forwarded message %d is not a point", i)
				return
			}
			e := bySrc[o.P.Fields["n"].Go().(int64)]
			if e == nil {
				cc.Fail("alert/forward-without-event", "point n=%s was forwarded although the reference emits no event for it\n%s", o.P.Fields["n"].V, ctx())
				return
			}
			if !checkPoint(o.P.Tags, o.P.Fields, pts[e.srcIdx], e, e.canon-e.durFrom, !flapping) {
				return
			}
			if o.P.Time != pts[e.srcIdx].Time {
				cc.Fail("alert/forwarded-data", "forwarded point time changed")
				return
			}
		}
	}
}

func tagsOrNil(m map[string]string) map[string]string {
	if len(m) == 0 {
		return nil
	}
	return m
}

func fmtExp(exp []*expEvent) string {
	var s []string
	for _, e := range exp {
		s = append(s, fmt.Sprintf("{%s %s t=%d dur=%d prev=%s}", e.id, levelNames[e.level], e.canon-t0, e.canon-e.durFrom, levelNames[e.prev]))
	}
	return strings.Join(s, " ")
}

func fmtObs(obs []obsEvent) string {
	var s []string
	for _, e := range obs {
		s = append(s, fmt.Sprintf("{%s %s t=%d dur=%d prev=%s}", e.ID, levelNames[e.Level], e.Time-t0, e.Dur, levelNames[e.Prev]))
	}
	return strings.Join(s, " ")
}

var assumptions = []string{
	"events are observed by an alert.Handler registered on the alert's named topic; forwarded data by a log() sink below the alert node",
	"level lambdas compare one integer field with a constant; in the independent-fields style a point may lack the field of one level condition: a condition that cannot be evaluated does not hold, the remaining levels are still considered (reset conditions always find their field)",
	"batch alerts: the event time may be the time of any point that attains the event's level (OK/all(): the batch time or any point time) - the property does not fix the tie-break; when the implementation picks another accepted time than the reference, the rest of that history is not compared",
	"flapping is checked by metamorphic relations only (events are a per-ID subsequence of the no-flapping events; forwarded levels equal the no-flapping levels) because its arithmetic is not part of the property statement; stateChangesOnly intervals are not combined with flapping; with the largest accepted high threshold 1.0 the alert cannot flap (the documentation defines the thresholds over the percentage of state changes, and flapping starts when it goes ABOVE the threshold; the implementation's weighted percentage stays below 1 - 0.2/(history-1)): such cases are compared exactly",
	"an empty batch produces no event and no state change (pipeline docs: alerts are evaluated on the points of a batch)",
}

// selfTest pins the reference model to the worked example in pipeline/alert.go.
func selfTest(t *testing.T) {
	c := Case{}
	c.Levels[1], c.Resets[1] = &Cond{"v", ">", 60}, &Cond{"v", "<", 50}
	c.Levels[2], c.Resets[2] = &Cond{"v", ">", 70}, &Cond{"v", "<", 60}
	c.Levels[3], c.Resets[3] = &Cond{"v", ">", 80}, &Cond{"v", "<", 70}
	cur := 0
	var got []string
	for _, v := range []int64{61, 73, 64, 85, 62, 56, 47} {
		cur = c.level(map[string]int64{"v": v}, cur)
		got = append(got, levelNames[cur])
	}
	want := "INFO WARNING WARNING CRITICAL INFO INFO OK"
	if strings.Join(got, " ") != want {
		t.Fatalf("reference model disagrees with the documented example: %v", got)
	}
	_ = sort.Strings
}

func TestAlert(t *testing.T) {
	selfTest(t)
	r := kit.NewRec("C01", "Alert", rule, assumptions...)
	kit.Check(t, r, gen, run)
}

func TestReplayAlert(t *testing.T) {
	r := kit.NewRec("C01", "Alert", rule, assumptions...)
	kit.Replay(t, r, run)
}
