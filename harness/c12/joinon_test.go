// C12, unit JoinOn — stream join with .on(<dimensions>): parents grouped by different dimension
// sets (a "general" parent grouped by exactly the on() dimensions, a "specific" parent grouped by
// the on() dimensions plus more), or by equal sets with on() naming all or some of them.
//
// The reference is written from the doc comments of pipeline.JoinNode and JoinNode.On: "a single
// point from one parent [joins] with multiple points from a different parent ... points that only
// have the building tag [are] joined with more specific points that [have] more tags ... Values here
// are grouped by 'building' and 'floor'". What those comments leave open was resolved by reading
// /repo/join.go and is listed in onAssumptions. It is a function of the per-parent sequences only
// (schedule independent); every arrival schedule must produce exactly its multiset of points.
package c12

import (
	"encoding/json"
	"fmt"
	"os"
	"reflect"
	"sort"
	"strings"
	"testing"

	"verifharness/kit"

	"github.com/influxdata/kapacitor"
	"pgregory.net/rapid"
)

// VERIF_C12_NO_EXCLUDE=1 generates the input classes of all known findings again; a comma
// separated list of short names (3p,gg,ss,tail,lowmark, JoinBatch: ...) only those.
var noExcludeEnv = os.Getenv("VERIF_C12_NO_EXCLUDE")

func excluding(short string) bool {
	if noExcludeEnv == "" {
		return true
	}
	if noExcludeEnv == "1" || noExcludeEnv == "all" {
		return false
	}
	for _, x := range strings.Split(noExcludeEnv, ",") {
		if strings.TrimSpace(x) == short {
			return false
		}
	}
	return true
}

// OM is one message of a parent of a join with on().
type OM struct {
	D   int   `json:"d"`   // index of the on-group: the value(s) of the on() dimension(s)
	H   int   `json:"h"`   // index of the value(s) of the extra dimension(s); used by specific parents only
	Gap int64 `json:"gap"` // seconds after the previous message of this parent
	V   int64 `json:"v"`
}

type OnCase struct {
	Parents   [][]OM  `json:"parents"`
	Specific  []bool  `json:"specific"`  // parent p is grouped by the on() and the extra dimensions (true) or by the on() dimensions only (false)
	OnDims    int     `json:"ondims"`    // 1: on('dc'); 2: on('dc','rack')
	ExtraDims int     `json:"extradims"` // 1: 'host'; 2: 'host','path'
	Tolerance int64   `json:"tolerance"` // seconds
	Fill      string  `json:"fill"`      // "" none, "null", "int", "float"
	Delim     string  `json:"delim"`     // "" = default "."
	Stream    string  `json:"streamname"`
	Schedules [][]int `json:"schedules"`
}

var onDimNames = []string{"dc", "rack"}
var extraDimNames = []string{"host", "path"}

func (c OnCase) onTags(d int) map[string]string {
	if c.OnDims == 2 {
		return map[string]string{"dc": fmt.Sprintf("d%d", d/2), "rack": fmt.Sprintf("r%d", d%2)}
	}
	return map[string]string{"dc": fmt.Sprintf("d%d", d)}
}

func (c OnCase) extraTags(h int) map[string]string {
	if c.ExtraDims == 2 {
		return map[string]string{"host": fmt.Sprintf("h%d", h/2), "path": fmt.Sprintf("p%d", h%2)}
	}
	return map[string]string{"host": fmt.Sprintf("h%d", h)}
}

// kind of the dimension configuration
func (c OnCase) kind() string {
	ns := 0
	for _, s := range c.Specific {
		if s {
			ns++
		}
	}
	switch ns {
	case 0:
		return "all-general"
	case len(c.Specific):
		return "all-specific"
	}
	return "general-specific"
}

func (c OnCase) dims(p int) []string {
	d := append([]string(nil), onDimNames[:c.OnDims]...)
	if c.Specific[p] {
		d = append(d, extraDimNames[:c.ExtraDims]...)
	}
	return d
}

func quoteList(xs []string) string {
	var q []string
	for _, x := range xs {
		q = append(q, "'"+x+"'")
	}
	return strings.Join(q, ", ")
}

func (c OnCase) script() string {
	var s strings.Builder
	for p := range c.Parents {
		fmt.Fprintf(&s, "var %s = stream|from().measurement('%s').groupBy(%s)\n", pnames[p], pnames[p], quoteList(c.dims(p)))
	}
	var others, as []string
	for p := range c.Parents {
		if p > 0 {
			others = append(others, pnames[p])
		}
		as = append(as, pnames[p])
	}
	fmt.Fprintf(&s, "pa|join(%s).as(%s).on(%s)", strings.Join(others, ", "), quoteList(as), quoteList(onDimNames[:c.OnDims]))
	if c.Tolerance != 0 {
		fmt.Fprintf(&s, ".tolerance(%ds)", c.Tolerance)
	}
	switch c.Fill {
	case "null":
		s.WriteString(".fill('null')")
	case "int":
		s.WriteString(".fill(7)")
	case "float":
		s.WriteString(".fill(0.5)")
	}
	if c.Delim != "" {
		fmt.Fprintf(&s, ".delimiter('%s')", c.Delim)
	}
	if c.Stream != "" {
		fmt.Fprintf(&s, ".streamName('%s')", c.Stream)
	}
	s.WriteString("|log().prefix('J')")
	return s.String()
}

// onMsg is a fed message with what the reference needs to know about it.
type onMsg struct {
	pt    kit.Pt
	on    string            // on-group key
	group string            // key of the group the parent puts the point in
	gtags map[string]string // tags of that group
	t     int64             // time rounded to the tolerance
}

func tagKey(m map[string]string) string {
	var b strings.Builder
	for _, k := range kit.SortedKeys(m) {
		fmt.Fprintf(&b, "%s=%s,", k, m[k])
	}
	return b.String()
}

func (c OnCase) messages() [][]onMsg {
	out := make([][]onMsg, len(c.Parents))
	serial := int64(0)
	for p, ms := range c.Parents {
		t := t0
		for _, m := range ms {
			t += m.Gap * sec
			on := c.onTags(m.D)
			gt := map[string]string{}
			tags := map[string]string{"x": pnames[p]}
			for k, v := range on {
				gt[k], tags[k] = v, v
			}
			if c.Specific[p] {
				for k, v := range c.extraTags(m.H) {
					gt[k], tags[k] = v, v
				}
			}
			out[p] = append(out[p], onMsg{
				pt: kit.Pt{Name: pnames[p], DB: "db", RP: "rp", Tags: tags,
					Fields: map[string]kit.FV{"v": kit.I(m.V), "n": kit.I(serial)}, Time: t},
				on: tagKey(on), group: tagKey(gt), gtags: gt, t: round(t, c.Tolerance*sec),
			})
			serial++
		}
	}
	return out
}

// canonOn: name, group tags, fields, time and the (sorted) dimensions of an output point.
func canonOn(p kit.Pt) string {
	p.DB, p.RP, p.Group, p.ByName = "", "", "", false
	p.Dims = append([]string(nil), p.Dims...)
	sort.Strings(p.Dims)
	b, _ := json.Marshal(p)
	return string(b)
}

type onRefInfo struct {
	fanout       bool // a general point is joined with >= 2 specific points
	unmatched    bool // a specific point without a general partner
	generalAlone bool // a general point without any specific partner
	generalDup   bool // a general parent has two points with one on-group and rounded time
	specificDup  bool // a specific parent has two points with one group and rounded time
}

// expected: the multiset of joined points, from the per-parent sequences alone.
func (c OnCase) expected(msgs [][]onMsg) ([]string, onRefInfo) {
	var info onRefInfo
	np := len(msgs)
	delim := c.Delim
	if delim == "" {
		delim = "."
	}
	type key struct {
		g string
		t int64
	}
	emit := func(set []*onMsg, gtags map[string]string, t int64, out *[]string) {
		first := -1
		complete := true
		for p := 0; p < np; p++ {
			if set[p] != nil {
				if first < 0 {
					first = p
				}
			} else {
				complete = false
			}
		}
		if first < 0 || (!complete && c.Fill == "") {
			return // inner join: skip rows where a point is missing
		}
		o := kit.Pt{Name: c.Stream, Time: t, Fields: map[string]kit.FV{}, Tags: map[string]string{}}
		if o.Name == "" {
			o.Name = pnames[first]
		}
		for k, v := range gtags {
			o.Tags[k] = v
			o.Dims = append(o.Dims, k)
		}
		for p := 0; p < np; p++ {
			if set[p] != nil {
				for f, v := range set[p].pt.Fields {
					o.Fields[pnames[p]+delim+f] = v
				}
				continue
			}
			for f := range set[first].pt.Fields {
				switch c.Fill {
				case "null":
					o.Fields[pnames[p]+delim+f] = kit.FV{T: "n"}
				case "int":
					o.Fields[pnames[p]+delim+f] = kit.I(7)
				case "float":
					o.Fields[pnames[p]+delim+f] = kit.F(0.5)
				}
			}
		}
		*out = append(*out, canonOn(o))
	}

	var out []string
	if c.kind() != "general-specific" {
		// equal dimension sets: nobody has "only the on() tags", nothing is joined several times;
		// an ordinary join per (common) group.
		slots := map[key][][]*onMsg{}
		gt := map[key]map[string]string{}
		for p := range msgs {
			for i := range msgs[p] {
				m := &msgs[p][i]
				k := key{m.group, m.t}
				if slots[k] == nil {
					slots[k] = make([][]*onMsg, np)
					gt[k] = m.gtags
				}
				if len(slots[k][p]) > 0 {
					info.specificDup = true
				}
				slots[k][p] = append(slots[k][p], m)
			}
		}
		for k, per := range slots {
			max := 0
			for _, l := range per {
				if len(l) > max {
					max = len(l)
				}
			}
			for i := 0; i < max; i++ {
				set := make([]*onMsg, np)
				for p := 0; p < np; p++ {
					if i < len(per[p]) {
						set[p] = per[p][i]
					}
				}
				emit(set, gt[k], k.t, &out)
			}
		}
		sort.Strings(out)
		return out, info
	}

	// general parents: the point of an on-group and rounded time (the first one when there are several)
	firstGen := make([]map[key]*onMsg, np)
	used := map[*onMsg]int{}
	var generals []*onMsg
	for p := range msgs {
		if c.Specific[p] {
			continue
		}
		firstGen[p] = map[key]*onMsg{}
		for i := range msgs[p] {
			m := &msgs[p][i]
			generals = append(generals, m)
			k := key{m.on, m.t}
			if firstGen[p][k] == nil {
				firstGen[p][k] = m
			} else {
				info.generalDup = true
			}
		}
	}
	// specific parents: k-th occurrences per group and rounded time
	type skey struct {
		group string
		t     int64
	}
	slots := map[skey][][]*onMsg{}
	for p := range msgs {
		if !c.Specific[p] {
			continue
		}
		for i := range msgs[p] {
			m := &msgs[p][i]
			k := skey{m.group, m.t}
			if slots[k] == nil {
				slots[k] = make([][]*onMsg, np)
			}
			if len(slots[k][p]) > 0 {
				info.specificDup = true
			}
			slots[k][p] = append(slots[k][p], m)
		}
	}
	for k, per := range slots {
		max := 0
		var any *onMsg
		for _, l := range per {
			if len(l) > max {
				max = len(l)
			}
			if len(l) > 0 {
				any = l[0]
			}
		}
		for i := 0; i < max; i++ {
			set := make([]*onMsg, np)
			for p := 0; p < np; p++ {
				if c.Specific[p] {
					if i < len(per[p]) {
						set[p] = per[p][i]
					}
					continue
				}
				if g := firstGen[p][key{any.on, k.t}]; g != nil {
					set[p] = g
					used[g]++
				} else {
					info.unmatched = true
				}
			}
			emit(set, any.gtags, k.t, &out)
		}
	}
	for _, g := range generals {
		switch {
		case used[g] >= 2:
			info.fanout = true
		case used[g] == 0:
			info.generalAlone = true
		}
	}
	sort.Strings(out)
	return out, info
}

// Input classes excluded by construction (known findings, see known_findings_C12.json); generated
// again with VERIF_C12_NO_EXCLUDE=1.
const (
	exThreeParents = "join.on() with 3 parents"
	exAllGeneral   = "join.on() naming all dimensions of all parents"
	exAllSpecific  = "join.on() naming some of the dimensions of equally grouped parents"
	exTail         = "outer join.on(): a specific point without general partner that is not older than the last points of both parents in its on-group"
	exLowMark      = "general|join(specific).on(): the general (first) parent can deliver its first point of an on-group after the specific parent delivered >=2 times of it, having delivered elsewhere before"
)

func genOn(t *rapid.T, r *kit.Rec) OnCase {
	var c OnCase
	np := rapid.SampledFrom([]int{2, 2, 2, 3}).Draw(t, "nparents")
	if np == 3 && excluding("3p") {
		r.Exclude(exThreeParents)
		np = 2
	}
	c.OnDims = rapid.SampledFrom([]int{1, 1, 2}).Draw(t, "ondims")
	c.ExtraDims = rapid.SampledFrom([]int{1, 1, 2}).Draw(t, "extradims")
	c.Specific = make([]bool, np)
	kind := rapid.SampledFrom([]string{"gs", "gs", "gs", "gs", "gs", "gs", "ss", "gg"}).Draw(t, "kind")
	if kind == "ss" && excluding("ss") {
		r.Exclude(exAllSpecific)
		kind = "gs"
	}
	if kind == "gg" && excluding("gg") {
		r.Exclude(exAllGeneral)
		kind = "gs"
	}
	switch kind {
	case "ss":
		for p := range c.Specific {
			c.Specific[p] = true
		}
	case "gg":
	default:
		// at least one general and one specific parent, in any position
		first := rapid.IntRange(0, np-1).Draw(t, "specific0")
		c.Specific[first] = true
		if np == 3 {
			other := (first + 1 + rapid.IntRange(0, 1).Draw(t, "other")) % 3
			c.Specific[other] = rapid.Bool().Draw(t, "specific1")
		}
	}
	nd := rapid.SampledFrom([]int{1, 1, 2, 2, 3}).Draw(t, "ongroups")
	nh := rapid.IntRange(1, 3).Draw(t, "extragroups")
	for p := 0; p < np; p++ {
		max, gaps := 11, []int{0, 0, 0, 0, 1, 1, 1, 2}
		if !c.Specific[p] {
			max, gaps = 7, []int{0, 1, 1, 1, 1, 1, 2, 2}
		}
		n := 1 + rapid.IntRange(0, max).Draw(t, "n")
		if rapid.IntRange(0, 9).Draw(t, "silent") == 9 {
			n = 0
		}
		var ms []OM
		for i := 0; i < n; i++ {
			ms = append(ms, OM{D: rapid.IntRange(0, nd-1).Draw(t, "d"), H: rapid.IntRange(0, nh-1).Draw(t, "h"),
				Gap: int64(rapid.SampledFrom(gaps).Draw(t, "gap")), V: int64(rapid.IntRange(0, 99).Draw(t, "v"))})
		}
		c.Parents = append(c.Parents, ms)
	}
	c.Tolerance = int64(rapid.SampledFrom([]int{0, 0, 1, 2, 3}).Draw(t, "tol"))
	c.Fill = rapid.SampledFrom([]string{"", "", "null", "int", "float"}).Draw(t, "fill")
	c.Delim = rapid.SampledFrom([]string{"", "", "", "_"}).Draw(t, "delim")
	if rapid.Bool().Draw(t, "sname") {
		c.Stream = "joined"
	}
	if excluding("tail") && c.tailTrigger(c.messages()) {
		r.Exclude(exTail)
		c.closeOnGroups()
	}
	lens := make([]int, np)
	for p := range c.Parents {
		lens[p] = len(c.Parents[p])
	}
	c.Schedules = genSchedules(t, lens)
	if gp, _, ok := c.twoParentGS(); ok && gp == 0 && excluding("lowmark") {
		n := repairLowMark(func() [][]onEv { return c.events(c.messages()) }, c.Schedules, c.appendClosingGeneral)
		for i := 0; i < n; i++ {
			r.Exclude(exLowMark)
		}
	}
	return c
}

// twoParentGS: the documented configuration, one general and one specific parent.
func (c OnCase) twoParentGS() (general, specific int, ok bool) {
	if len(c.Parents) != 2 || c.Specific[0] == c.Specific[1] {
		return 0, 0, false
	}
	if c.Specific[0] {
		return 1, 0, true
	}
	return 0, 1, true
}

// onEv is what the exclusion classes need to know about a message of a join with on(): its
// on-group and its time rounded to the tolerance (stream points and batches alike).
type onEv struct {
	on string
	t  int64
}

func (c OnCase) events(msgs [][]onMsg) [][]onEv {
	ev := make([][]onEv, len(msgs))
	for p := range msgs {
		for _, m := range msgs[p] {
			ev[p] = append(ev[p], onEv{m.on, m.t})
		}
	}
	return ev
}

// tailTrigger: outer join, and a specific point that has no general partner is not older than the
// last point of the general parent and the last point of the specific parent in its on-group
// (rounded times; true also when the general parent has no point of the on-group at all).
func (c OnCase) tailTrigger(msgs [][]onMsg) bool {
	gp, sp, ok := c.twoParentGS()
	if !ok || c.Fill == "" {
		return false
	}
	return tailTriggerEv(c.events(msgs), gp, sp)
}

func tailTriggerEv(ev [][]onEv, gp, sp int) bool {
	has := map[onEv]bool{}
	lastG, lastS := map[string]int64{}, map[string]int64{}
	for _, m := range ev[gp] {
		has[m] = true
		lastG[m.on] = m.t
	}
	for _, m := range ev[sp] {
		lastS[m.on] = m.t
	}
	for _, m := range ev[sp] {
		if has[m] {
			continue
		}
		lg, okg := lastG[m.on]
		if !okg || !(m.t < lg && m.t < lastS[m.on]) {
			return true
		}
	}
	return false
}

// closeOnGroups appends, for every on-group of the specific parent, a general and a specific
// point at one time later than everything else (they join with each other), so that at the end no
// unmatched specific point is as new as the last points of its on-group.
func (c *OnCase) closeOnGroups() {
	gp, sp, ok := c.twoParentGS()
	if !ok {
		return
	}
	last := make([]int64, 2)
	max := int64(0)
	for p := range c.Parents {
		for _, m := range c.Parents[p] {
			last[p] += m.Gap
		}
		if last[p] > max {
			max = last[p]
		}
	}
	T := max + c.Tolerance + 1
	seen := map[int]bool{}
	var ds []int
	for _, m := range c.Parents[sp] {
		if !seen[m.D] {
			seen[m.D] = true
			ds = append(ds, m.D)
		}
	}
	sort.Ints(ds)
	for _, d := range ds {
		c.Parents[gp] = append(c.Parents[gp], OM{D: d, Gap: T - last[gp], V: 1})
		c.Parents[sp] = append(c.Parents[sp], OM{D: d, Gap: T - last[sp], V: 2})
		last[gp], last[sp] = T, T
	}
}

// lowMarkTrigger returns the first position of the schedule at which the general parent, being the
// first parent of the join, has delivered something but nothing of the on-group of the specific
// message delivered at that position, the specific parent has already delivered an older (rounded)
// time of that on-group, and the general parent will still deliver a point of it; -1 if none.
func (c OnCase) lowMarkTrigger(msgs [][]onMsg, sched []int) int {
	gp, _, ok := c.twoParentGS()
	if !ok || gp != 0 {
		return -1
	}
	return lowMarkTriggerEv(c.events(msgs), sched)
}

// lowMarkTriggerEv: parent 0 is the general parent, parent 1 the specific one. It returns the first
// position of the schedule whose specific message can arrive while the general parent has delivered
// something but nothing of the message's on-group g, after an older (rounded) time of g from the
// specific parent, the general parent still having a point of g to deliver; -1 if there is none.
//
// "Can arrive": the gate of runGated waits until the join's reader goroutine of the fed parent has
// taken the message off the edge, not until the node has handled it, so the last message of a run of
// one parent may be handled after any number of messages of the following run of the other parent.
// The number L of general messages handled when the specific message at position i is handled
// therefore lies between a-1 and a+r (a: general messages scheduled before i, r: general messages
// scheduled directly after i); the class is present if some L >= 1 in that range leaves g unreported.
func lowMarkTriggerEv(ev [][]onEv, sched []int) int {
	const gp = 0
	firstIdx := map[string]int{} // position of the first message of an on-group in the general parent's sequence
	for j, m := range ev[gp] {
		if _, ok := firstIdx[m.on]; !ok {
			firstIdx[m.on] = j
		}
	}
	a, ns := 0, 0
	firstS := map[string]int64{}
	for i, p := range sched {
		if p == gp {
			a++
			continue
		}
		m := ev[1][ns]
		ns++
		ft, seen := firstS[m.on]
		if !seen {
			firstS[m.on] = m.t
			continue
		}
		f, has := firstIdx[m.on]
		if !has || !(ft < m.t) {
			continue
		}
		lmin := a - 1
		if lmin < 1 {
			lmin = 1
		}
		lmax := a
		for j := i + 1; j < len(sched) && sched[j] == gp; j++ {
			lmax++
		}
		if lmax >= lmin && f >= lmin {
			return i
		}
	}
	return -1
}

// repairLowMark makes every schedule free of the class of lowMarkTriggerEv: wherever it fires, the
// general parent's messages up to its first one of that on-group and one more (which guarantees that
// the former has been handled) are delivered first and skipped later; when the general parent has
// no further message, appendGeneral adds one to the case (a general point later than everything,
// without partner) and every schedule delivers it last. It returns the number of repaired schedules.
func repairLowMark(events func() [][]onEv, scheds [][]int, appendGeneral func()) int {
	const gp = 0
	repaired := 0
	ev := events()
	for si := range scheds {
		first := true
		for {
			sched := scheds[si]
			at := lowMarkTriggerEv(ev, sched)
			if at < 0 {
				break
			}
			if first {
				repaired++
				first = false
			}
			a, ns := 0, 0
			for _, p := range sched[:at] {
				if p == gp {
					a++
				} else {
					ns++
				}
			}
			on := ev[1][ns].on
			f := 0
			for j, m := range ev[gp] {
				if m.on == on {
					f = j
					break
				}
			}
			if len(ev[gp]) < f+2 {
				appendGeneral()
				ev = events()
				for k := range scheds {
					scheds[k] = append(scheds[k], gp)
				}
				sched = scheds[si]
			}
			k := f + 2 - a // general messages to deliver in advance
			out := append([]int(nil), sched[:at]...)
			for j := 0; j < k; j++ {
				out = append(out, gp)
			}
			owed := k
			for _, p := range sched[at:] {
				if p == gp && owed > 0 {
					owed--
					continue
				}
				out = append(out, p)
			}
			scheds[si] = out
		}
	}
	return repaired
}

// appendClosingGeneral appends to the general parent (parent 0) a point of its first on-group at a
// time later than everything else (it has no partner and produces no output).
func (c *OnCase) appendClosingGeneral() {
	last := make([]int64, len(c.Parents))
	max := int64(0)
	for p := range c.Parents {
		for _, m := range c.Parents[p] {
			last[p] += m.Gap
		}
		if last[p] > max {
			max = last[p]
		}
	}
	T := max + c.Tolerance + 1
	d := c.Parents[0][0].D
	c.Parents[0] = append(c.Parents[0], OM{D: d, Gap: T - last[0], V: 3})
}

func runOn(c OnCase, cc *kit.Case) {
	msgs := c.messages()
	script := c.script()
	kind := c.kind()
	jt := "inner"
	if c.Fill != "" {
		jt = "outer"
	}
	cc.Label(kind)
	cc.Label(fmt.Sprintf("%d-parents", len(c.Parents)))
	cc.Label(jt)
	if c.Fill != "" {
		cc.Label("outer:" + c.Fill)
	}
	if c.Tolerance != 0 {
		cc.Label("tolerance")
	}
	if kind == "general-specific" && len(c.Parents) == 2 {
		if c.Specific[0] {
			cc.Label("specific|join(general)")
		} else {
			cc.Label("general|join(specific)")
		}
	}
	if c.OnDims == 2 {
		cc.Label("on-2-dimensions")
	}
	for p := range msgs {
		if len(msgs[p]) == 0 {
			cc.Label("silent-parent")
		}
	}
	want, info := c.expected(msgs)
	if info.fanout {
		cc.Label("fan-out")
	}
	if info.unmatched {
		cc.Label("specific-without-general")
	}
	if info.generalAlone {
		cc.Label("general-without-specific")
	}
	if info.generalDup {
		cc.Label("general-duplicate")
	}
	if info.specificDup {
		cc.Label("duplicate-timestamp")
	}
	if len(want) > 0 {
		cc.Label("joined-output")
	}
	ahead := false
	for _, sch := range c.Schedules {
		cnt := make([]int, len(msgs))
		for _, p := range sch {
			cnt[p]++
			for q := range cnt {
				if len(msgs[q]) > 0 && cnt[p]-cnt[q] >= 3 && cnt[q] < len(msgs[q]) {
					ahead = true
				}
			}
		}
	}
	if ahead {
		cc.Label("parent-3-ahead")
	}
	if ahead && info.fanout {
		cc.NonTrivial()
	}

	pts := make([][]kit.Pt, len(msgs))
	for p := range msgs {
		for _, m := range msgs[p] {
			pts[p] = append(pts[p], m.pt)
		}
	}
	for si, sch := range c.Schedules {
		obs, gated, err := runGated(script, "join", kapacitor.StreamTask, len(pts), sch, func(env *kit.Env, et *kapacitor.ExecutingTask, p, i int) error {
			return env.TM.WriteKapacitorPoint(pts[p][i].Msg())
		})
		if err != nil {
			if strings.HasPrefix(err.Error(), "script rejected") {
				cc.Fail("harness/script-rejected", "%v\n%s", err, script)
			} else {
				cc.Fail("joinon/task-error", "schedule %v: %v\n%s", sch, err, script)
			}
			return
		}
		if !gated {
			cc.Label("gate-timeout")
			if gp, _, ok := c.twoParentGS(); ok && gp == 0 && excluding("lowmark") {
				// the arrival order was not controlled, so the excluded schedule class of the known
				// finding (general parent late in an on-group) cannot be ruled out for this run
				cc.Label("gate-timeout:run-not-compared")
				continue
			}
		}
		var got []string
		for _, o := range obs {
			if o.P == nil {
				cc.Fail("joinon/not-a-point", "schedule %d: output is not a point", si)
				return
			}
			got = append(got, canonOn(*o.P))
		}
		sort.Strings(got)
		if !reflect.DeepEqual(got, want) && !(len(got) == 0 && len(want) == 0) {
			only, missing := diff(got, want), diff(want, got)
			dir := "missing+spurious"
			if len(only) == 0 {
				dir = "missing"
			} else if len(missing) == 0 {
				dir = "spurious"
			}
			class := "plain"
			switch {
			case len(c.Parents) == 3:
				class = "3-parents"
			case kind == "all-general":
				class = "on-all-dimensions"
			case kind == "all-specific":
				class = "on-some-dimensions-of-equal-groupings"
			default:
				var cl []string
				if c.tailTrigger(msgs) {
					cl = append(cl, "unflushed-tail")
				}
				if c.lowMarkTrigger(msgs, sch) >= 0 {
					cl = append(cl, "first-parent-late-in-group")
				}
				if len(cl) > 0 {
					class = cl[0] // both classes are known findings; the first names the case
				}
			}
			sig := fmt.Sprintf("joinon/%s/multiset/%s/%s", class, jt, dir)
			cc.Fail(sig, "schedule %d %v: %d outputs, reference %d\nscript: %s\nonly observed: %v\nonly expected: %v", si, sch, len(got), len(want), script, only, missing)
			return
		}
	}
}

const onRule = "rapid: 2 parents of a stream join with on(): one grouped by the 1-2 on() dimensions, one by 1-2 more (either order; 3 parents and equal dimension sets are known findings, excluded), 1-3 on-groups x 1-3 specific groups, time-ordered sequences with duplicates, gaps, lagging/silent parents x tolerance, fill none/null/number, delimiter, streamName x >=4 gated arrival schedules; " +
	"oracle: schedule-independent reference from the JoinNode/On() documentation, outputs as multisets; non-trivial = a schedule in which one parent is >=3 messages ahead of another at some moment and >=1 general point joined with >=2 specific points; distinct by case hash"

var onAssumptions = []string{
	"JoinOn: every parent delivers its messages in non-decreasing time order (the property's premise); all parents end together (task drain)",
	"JoinOn: on() names a subset of every parent's groupBy dimensions (doc: 'Join on a subset of the group by dimensions'); a parent is grouped either by exactly the on() dimensions ('general') or by the on() dimensions plus 1-2 more ('specific'); parents grouped by two different supersets are not generated (the documentation says nothing about them)",
	"JoinOn (doc of On): a general point is joined with every specific point of its on-group and (tolerance-rounded) time, in every specific group; the joined point carries the specific point's group (tags and dimensions), the rounded time and the fields of both prefixed by the as() names",
	"JoinOn (from join.go, the doc's premise is 'you only have one point per building'): when the general parent has several points with one on-group and rounded time, the first of them is the partner of all specific points of that on-group and time and the others are not used; every specific point makes its own joined point (two specific points of one group and rounded time both join with that general point)",
	"JoinOn (from join.go, comment in matchPoints: 'Specific points may be sent to the joinset without a matching point, but not the other way around'): a general point without specific partner produces no output, also in an outer join; a specific point without general partner is dropped by an inner join and emitted with the fill value by an outer join",
	"JoinOn (as in unit Join, doc of Fill and StreamName): fill field names are copied from the present point, the name is streamName or the name of the first present parent, the output tags are the group's tags",
	"JoinOn (property statement applied where On's doc is silent): with equal dimension sets nobody has 'only the on() tags', so on() naming all or some of them is an ordinary join per common group; with 3 parents every general parent contributes its point to every joined point; these classes fail on the unchanged tree and are excluded by construction (known_findings_C12.json)",
	"rounding to the tolerance uses Go's time.Round, as the documentation's 'rounded to the nearest multiple of the tolerance' (trusted stdlib)",
	"schedule control is best effort: the harness feeds one message at a time and waits (bounded) for the node's collected counter; a missed gate only reduces schedule coverage because the oracle does not depend on the schedule",
}

func TestJoinOn(t *testing.T) {
	r := kit.NewRec("C12", "JoinOn", onRule, onAssumptions...)
	kit.Check(t, r, func(t *rapid.T) OnCase { return genOn(t, r) }, runOn)
}

func TestReplayJoinOn(t *testing.T) {
	r := kit.NewRec("C12", "JoinOn", onRule, onAssumptions...)
	kit.Replay(t, r, runOn)
}
