// C12, unit JoinBatch — join and union of batch parents (batch|query(...) branches of one batch task).
//
// The batches are fed directly into the collectors of the task's query nodes (what replay does),
// one batch at a time in a generated arrival schedule, gated on the join/union node's collected
// counter like the stream units. The reference is schedule independent: batches are paired like
// stream points (per group and tolerance-rounded batch time, k-th occurrence), and inside a pair
// the batch points are paired per tolerance-rounded point time (k-th occurrence); union passes
// every batch through once. The pipeline documentation describes join in terms of points only;
// what it leaves open for batches was taken from /repo/join.go and is listed in batchAssumptions.
//
// Generator classes: (1) independent parents: every parent draws its own query rounds, gaps and
// 0-4 points per batch with small steps; (2) lined-up parents (LinedUp): the rounds are generated
// for all parents together, so that the batches of a round and group nearly always meet in one
// join set, and every parent reports its own subset (with repeats) of the round's 2-6 row times:
// inside a set the parents' rows have gaps against each other in every relative position (a
// later parent older than an earlier one, a middle parent ahead of both neighbours, a parent
// whose rows are exhausted early). This is the class in which lining the rows of >= 3 batches up
// is not a walk in lock-step.
package c12

import (
	"encoding/json"
	"fmt"
	"reflect"
	"sort"
	"strings"
	"testing"

	"verifharness/kit"

	"github.com/influxdata/kapacitor"
	"pgregory.net/rapid"
)

// BP is one point of a batch.
type BP struct {
	Off int64 `json:"off"` // seconds after the previous point of the batch (the first: after tmax-10s)
	V   int64 `json:"v"`
}

// BB is one batch of a parent.
type BB struct {
	D   int   `json:"d,omitempty"` // on-group (dc); only in cases with on()
	G   int   `json:"g"`           // group (host)
	Gap int64 `json:"gap"`         // seconds after the previous batch of this parent (0: same query as the previous batch, another group)
	Pts []BP  `json:"pts"`
}

type BatchCase struct {
	Union     bool    `json:"union"`
	On        bool    `json:"on,omitempty"`       // join.on('dc'): one parent grouped by dc, the other by dc and host
	Specific  []bool  `json:"specific,omitempty"` // with on(): parent p is grouped by dc and host (true) or by dc (false)
	Parents   [][]BB  `json:"parents"`
	GroupBy   bool    `json:"groupby"`
	Tolerance int64   `json:"tolerance"` // seconds
	Fill      string  `json:"fill"`      // "" none, "null", "int", "float"
	Delim     string  `json:"delim"`
	Stream    string  `json:"streamname"`
	Rename    string  `json:"rename"`
	Schedules [][]int `json:"schedules"`
	// Piecewise[p]: a where node that passes everything sits between the p-th query and the
	// join/union, so that the parent's batches arrive as separate begin / point / end messages
	// (with size hint 0) and are put together again by the consumer's batch buffer
	Piecewise []bool `json:"piecewise,omitempty"`
	// LinedUp: the parents were generated round by round from common row times (genLinedUp);
	// informational (label), the data is in Parents
	LinedUp bool `json:"linedup,omitempty"`
	// Period of the queries in seconds (0: batchPeriod); the points of a batch lie in (tmax-period, tmax]
	Period int64 `json:"period,omitempty"`
}

func (c BatchCase) period() int64 {
	if c.Period > 0 {
		return c.Period
	}
	return batchPeriod
}

const batchPeriod = 10

func genBatch(t *rapid.T, r *kit.Rec) BatchCase {
	var c BatchCase
	switch rapid.IntRange(0, 9).Draw(t, "kind") {
	case 0, 1:
		c.Union = true
	case 2, 3:
		return genBatchOn(t, r)
	case 7, 8, 9:
		c.LinedUp = true
	}
	np := rapid.IntRange(2, 3).Draw(t, "nparents")
	if c.LinedUp {
		np = rapid.SampledFrom([]int{2, 3, 3, 3}).Draw(t, "nparents-linedup")
	}
	c.GroupBy = rapid.Bool().Draw(t, "groupby")
	groups := 1
	if c.GroupBy {
		groups = rapid.IntRange(1, 3).Draw(t, "groups")
	}
	// the parents' queries run with the same every() (aligned batch times, the common set-up);
	// a gap of several every() is a query execution that returned nothing or was skipped
	every := int64(rapid.SampledFrom([]int{1, 1, 2, 3}).Draw(t, "every"))
	if c.LinedUp {
		c.Tolerance = int64(rapid.SampledFrom([]int{0, 0, 1, 2, 3}).Draw(t, "tol"))
		c.Period = 30
		c.Parents = genLinedUp(t, np, groups, every, c.Tolerance, c.Period)
	}
	for p := 0; p < np && !c.LinedUp; p++ {
		// one round = one execution of the parent's query: one batch per group that has data
		rounds := 1 + rapid.IntRange(0, 4).Draw(t, "rounds")
		if rapid.IntRange(0, 11).Draw(t, "silent") == 11 {
			rounds = 0
		}
		var bs []BB
		for q := 0; q < rounds; q++ {
			gap := every * int64(rapid.SampledFrom([]int{1, 1, 1, 1, 1, 2, 3}).Draw(t, "gap"))
			if rapid.IntRange(0, 7).Draw(t, "unaligned") == 0 {
				gap++
			}
			first := true
			for g := 0; g < groups; g++ {
				if groups > 1 && rapid.IntRange(0, 4).Draw(t, "nodata") == 0 {
					continue
				}
				b := BB{G: g}
				if first {
					b.Gap = gap
					first = false
				}
				b.Pts = genBatchPoints(t)
				bs = append(bs, b)
			}
		}
		c.Parents = append(c.Parents, bs)
	}
	if c.Union {
		if rapid.Bool().Draw(t, "rename") {
			c.Rename = "u"
		}
	} else {
		if !c.LinedUp {
			c.Tolerance = int64(rapid.SampledFrom([]int{0, 0, 1, 2, 3}).Draw(t, "tol"))
		}
		c.Fill = rapid.SampledFrom([]string{"", "", "null", "int", "float"}).Draw(t, "fill")
		c.Delim = rapid.SampledFrom([]string{"", "", "", "_"}).Draw(t, "delim")
		if rapid.Bool().Draw(t, "sname") {
			c.Stream = "joined"
		}
	}
	lens := make([]int, np)
	for p := range c.Parents {
		lens[p] = len(c.Parents[p])
	}
	c.Schedules = genSchedules(t, lens)
	if rapid.IntRange(0, 2).Draw(t, "piecewise") == 0 {
		for p := 0; p < np; p++ {
			c.Piecewise = append(c.Piecewise, rapid.IntRange(0, 2).Draw(t, "pw") > 0)
		}
	}
	return c
}

// genLinedUp: the query rounds are generated for all parents together. In a round every parent's
// query runs at the same time (same tmax; a parent skips a round now and then, or has no data for
// a group), and every round and group has 2-9 row times a step apart (one second, or mostly the
// tolerance if that is longer, so that the rounded row times stay apart; the period is 30s); for each row time a non-empty subset of the parents is drawn that report it (mostly one
// parent, so that the parents' rows have gaps against each other in every order), a row now and
// then twice. The batches stay
// what a query produces: time-ordered points within (tmax-period, tmax], at most one batch per
// group and execution, non-decreasing tmax per parent.
func genLinedUp(t *rapid.T, np, groups int, every, tolerance, period int64) [][]BB {
	parents := make([][]BB, np)
	pending := make([]int64, np) // seconds since the parent's previous batch
	// subsets of the parents as bit masks: single parents twice as likely as pairs and all
	masks := []int{1, 2, 3, 1, 2, 3}
	if np == 3 {
		masks = []int{1, 2, 4, 1, 2, 4, 3, 5, 6, 7}
	}
	rounds := rapid.SampledFrom([]int{2, 3, 1, 4}).Draw(t, "rounds")
	for q := 0; q < rounds; q++ {
		gap := every * int64(rapid.SampledFrom([]int{1, 1, 1, 2}).Draw(t, "gap"))
		executed := make([]bool, np)
		for p := range pending {
			pending[p] += gap
			executed[p] = rapid.IntRange(0, 9).Draw(t, "skipped-round") != 5
		}
		for g := 0; g < groups; g++ {
			cur := make([]*BB, np)
			prev := make([]int, np)
			for p := 0; p < np; p++ {
				if !executed[p] || (groups > 1 && rapid.IntRange(0, 7).Draw(t, "nodata") == 5) {
					continue // the query was not executed or returned nothing for the group
				}
				cur[p] = &BB{G: g, Gap: pending[p]}
				pending[p] = 0
			}
			step := 1
			if tolerance > 1 && rapid.IntRange(0, 3).Draw(t, "step") > 0 {
				step = int(tolerance)
			}
			max := int(period-1) / step
			if max > 9 {
				max = 9
			}
			nslots := rapid.SampledFrom([]int{5, 4, 6, 3, 7, 2, 8, 9}).Draw(t, "rows")
			if nslots > max {
				nslots = max
			}
			for s := step; s <= nslots*step; s += step {
				mask := rapid.SampledFrom(masks).Draw(t, "row-of")
				for p := 0; p < np; p++ {
					if cur[p] == nil || mask&(1<<uint(p)) == 0 {
						continue
					}
					n := rapid.SampledFrom([]int{1, 1, 1, 1, 1, 1, 1, 2}).Draw(t, "times")
					for k := 0; k < n; k++ {
						cur[p].Pts = append(cur[p].Pts, BP{Off: int64(s - prev[p]), V: int64(rapid.IntRange(0, 99).Draw(t, "v"))})
						prev[p] = s
					}
				}
			}
			for p := 0; p < np; p++ {
				if cur[p] != nil {
					parents[p] = append(parents[p], *cur[p])
				}
			}
		}
	}
	return parents
}

// genBatchPoints: 0-4 points, time ordered, within the batch's period.
func genBatchPoints(t *rapid.T) []BP {
	var pts []BP
	n := rapid.SampledFrom([]int{0, 1, 1, 1, 2, 2, 2, 3, 3, 3, 4, 4}).Draw(t, "npts")
	for i := 0; i < n; i++ {
		pts = append(pts, BP{Off: int64(rapid.SampledFrom([]int{0, 0, 1, 1, 1, 2}).Draw(t, "off")), V: int64(rapid.IntRange(0, 99).Draw(t, "v"))})
	}
	return pts
}

// genBatchOn: the documented join.on() configuration over batch parents: one query grouped by the
// on() dimension (one batch per dc and execution), one grouped by dc and host. The two input
// classes of the known findings of unit JoinOn that concern this configuration are excluded by
// construction in the same way (closing pair of batches per on-group; schedule repair).
func genBatchOn(t *rapid.T, r *kit.Rec) BatchCase {
	c := BatchCase{On: true, GroupBy: true, Specific: make([]bool, 2)}
	c.Specific[rapid.IntRange(0, 1).Draw(t, "specific")] = true
	nd := rapid.SampledFrom([]int{1, 2, 2}).Draw(t, "ongroups")
	nh := rapid.IntRange(1, 3).Draw(t, "hosts")
	every := int64(rapid.SampledFrom([]int{1, 1, 2, 3}).Draw(t, "every"))
	for p := 0; p < 2; p++ {
		rounds := 1 + rapid.IntRange(0, 3).Draw(t, "rounds")
		if rapid.IntRange(0, 11).Draw(t, "silent") == 11 {
			rounds = 0
		}
		var bs []BB
		for q := 0; q < rounds; q++ {
			gap := every * int64(rapid.SampledFrom([]int{1, 1, 1, 1, 1, 2, 3}).Draw(t, "gap"))
			if rapid.IntRange(0, 7).Draw(t, "unaligned") == 0 {
				gap++
			}
			first := true
			add := func(b BB) {
				if first {
					b.Gap = gap
					first = false
				}
				b.Pts = genBatchPoints(t)
				bs = append(bs, b)
			}
			for d := 0; d < nd; d++ {
				if !c.Specific[p] {
					if nd > 1 && rapid.IntRange(0, 4).Draw(t, "nodata") == 0 {
						continue
					}
					add(BB{D: d})
					continue
				}
				for h := 0; h < nh; h++ {
					if rapid.IntRange(0, 3).Draw(t, "nodata") == 0 {
						continue
					}
					add(BB{D: d, G: h})
				}
			}
		}
		c.Parents = append(c.Parents, bs)
	}
	c.Tolerance = int64(rapid.SampledFrom([]int{0, 0, 1, 2, 3}).Draw(t, "tol"))
	c.Fill = rapid.SampledFrom([]string{"", "", "null", "int", "float"}).Draw(t, "fill")
	c.Delim = rapid.SampledFrom([]string{"", "", "", "_"}).Draw(t, "delim")
	if rapid.Bool().Draw(t, "sname") {
		c.Stream = "joined"
	}
	gp, sp := 0, 1
	if c.Specific[0] {
		gp, sp = 1, 0
	}
	if c.Fill != "" && excluding("tail") && tailTriggerEv(c.events(c.batches()), gp, sp) {
		r.Exclude(exTail)
		c.closeOnGroups(gp, sp)
	}
	lens := []int{len(c.Parents[0]), len(c.Parents[1])}
	c.Schedules = genSchedules(t, lens)
	if gp == 0 && excluding("lowmark") {
		n := repairLowMark(func() [][]onEv { return c.events(c.batches()) }, c.Schedules, c.appendClosingGeneral)
		for i := 0; i < n; i++ {
			r.Exclude(exLowMark)
		}
	}
	return c
}

// appendClosingGeneral appends to the general parent (parent 0) a batch of its first on-group with a
// batch time later than everything else (it has no partner and produces no output).
func (c *BatchCase) appendClosingGeneral() {
	last := make([]int64, len(c.Parents))
	max := int64(0)
	for p := range c.Parents {
		for _, b := range c.Parents[p] {
			last[p] += b.Gap
		}
		if last[p] > max {
			max = last[p]
		}
	}
	T := max + c.Tolerance + 1
	d := c.Parents[0][0].D
	c.Parents[0] = append(c.Parents[0], BB{D: d, Gap: T - last[0], Pts: []BP{{Off: 1, V: 3}}})
}

// events: on-group and rounded batch time of every batch (cases with on()).
func (c BatchCase) events(bts [][]kit.Bt) [][]onEv {
	ev := make([][]onEv, len(bts))
	for p := range bts {
		for _, b := range bts[p] {
			ev[p] = append(ev[p], onEv{b.Tags["dc"], round(b.TMax, c.Tolerance*sec)})
		}
	}
	return ev
}

// closeOnGroups appends, for every on-group of the specific parent, a general and a specific batch
// with one batch time later than everything else (they join with each other).
func (c *BatchCase) closeOnGroups(gp, sp int) {
	last := make([]int64, 2)
	max := int64(0)
	for p := range c.Parents {
		for _, b := range c.Parents[p] {
			last[p] += b.Gap
		}
		if last[p] > max {
			max = last[p]
		}
	}
	T := max + c.Tolerance + 1
	seen := map[int]bool{}
	var ds []int
	for _, b := range c.Parents[sp] {
		if !seen[b.D] {
			seen[b.D] = true
			ds = append(ds, b.D)
		}
	}
	sort.Ints(ds)
	for _, d := range ds {
		c.Parents[gp] = append(c.Parents[gp], BB{D: d, Gap: T - last[gp], Pts: []BP{{Off: 1, V: 1}}})
		c.Parents[sp] = append(c.Parents[sp], BB{D: d, Gap: T - last[sp], Pts: []BP{{Off: 1, V: 2}}})
		last[gp], last[sp] = T, T
	}
}

func (c BatchCase) script() string {
	var s strings.Builder
	for p := range c.Parents {
		fmt.Fprintf(&s, "var %s = batch|query('SELECT v, n FROM \"db\".\"rp\".%s').period(%ds).every(%ds)", pnames[p], pnames[p], c.period(), c.period())
		switch {
		case c.On && c.Specific[p]:
			s.WriteString(".groupBy('dc', 'host')")
		case c.On:
			s.WriteString(".groupBy('dc')")
		case c.GroupBy:
			s.WriteString(".groupBy('host')")
		}
		if p < len(c.Piecewise) && c.Piecewise[p] {
			s.WriteString("|where(lambda: \"v\" >= -1)")
		}
		s.WriteString("\n")
	}
	var others, as []string
	for p := range c.Parents {
		if p > 0 {
			others = append(others, pnames[p])
		}
		as = append(as, "'"+pnames[p]+"'")
	}
	if c.Union {
		fmt.Fprintf(&s, "pa|union(%s)", strings.Join(others, ", "))
		if c.Rename != "" {
			fmt.Fprintf(&s, ".rename('%s')", c.Rename)
		}
	} else {
		fmt.Fprintf(&s, "pa|join(%s).as(%s)", strings.Join(others, ", "), strings.Join(as, ", "))
		if c.On {
			s.WriteString(".on('dc')")
		}
		if c.Tolerance != 0 {
			fmt.Fprintf(&s, ".tolerance(%ds)", c.Tolerance)
		}
		switch c.Fill {
		case "null":
			s.WriteString(".fill('null')")
		case "int":
			s.WriteString(".fill(7)")
		case "float":
			s.WriteString(".fill(0.5)")
		}
		if c.Delim != "" {
			fmt.Fprintf(&s, ".delimiter('%s')", c.Delim)
		}
		if c.Stream != "" {
			fmt.Fprintf(&s, ".streamName('%s')", c.Stream)
		}
	}
	s.WriteString("|log().prefix('J')")
	return s.String()
}

// batches per parent as plain batches (field n: serial number of the point over the whole case)
func (c BatchCase) batches() [][]kit.Bt {
	out := make([][]kit.Bt, len(c.Parents))
	serial := int64(0)
	for p, bs := range c.Parents {
		tmax := t0 + c.period()*sec
		for _, b := range bs {
			tmax += b.Gap * sec
			var tags map[string]string
			switch {
			case c.On && c.Specific[p]:
				tags = map[string]string{"dc": fmt.Sprintf("d%d", b.D), "host": fmt.Sprintf("h%d", b.G)}
			case c.On:
				tags = map[string]string{"dc": fmt.Sprintf("d%d", b.D)}
			case c.GroupBy:
				tags = map[string]string{"host": fmt.Sprintf("h%d", b.G)}
			}
			bt := kit.Bt{Name: pnames[p], Tags: tags, TMax: tmax, Points: []kit.Pt{}}
			pt := tmax - c.period()*sec
			ptags := map[string]string{"x": pnames[p]} // point tags: the series tags and the parent's name
			for k, v := range tags {
				ptags[k] = v
			}
			for _, bp := range b.Pts {
				pt += bp.Off * sec
				bt.Points = append(bt.Points, kit.Pt{Tags: ptags, Fields: map[string]kit.FV{"v": kit.I(bp.V), "n": kit.I(serial)}, Time: pt})
				serial++
			}
			out[p] = append(out[p], bt)
		}
	}
	return out
}

// canonBt: name, group tags, batch time and points (tags, fields, time) of a batch; for join
// outputs the points are sorted (a multiset), for union outputs their order is kept.
func canonBt(b kit.Bt, sortPoints bool) string {
	b.Group, b.Dims, b.ByName = "", nil, false
	pts := append([]kit.Pt{}, b.Points...)
	if sortPoints {
		keys := map[*kit.Pt]string{}
		for i := range pts {
			j, _ := json.Marshal(pts[i])
			keys[&pts[i]] = fmt.Sprintf("%020d %s", pts[i].Time, j)
		}
		idx := make([]*kit.Pt, len(pts))
		for i := range pts {
			idx[i] = &pts[i]
		}
		sort.Slice(idx, func(i, j int) bool { return keys[idx[i]] < keys[idx[j]] })
		sorted := make([]kit.Pt, len(pts))
		for i, q := range idx {
			sorted[i] = *q
		}
		pts = sorted
	}
	b.Points = pts
	j, _ := json.Marshal(b)
	return string(j)
}

type batchRefInfo struct {
	dupBatch   bool // a rounded batch time occurs twice in one parent and group
	dupPoint   bool // a rounded point time occurs twice in one batch
	incomplete bool // a set of batches without one of the parents
	fanout     bool // with on(): a general batch joined with >= 2 specific batches
	outputs    int
	// row patterns inside one set of paired batches (rounded point times; next_p(t): the first row
	// of parent p at or after t)
	laterOlder bool // for some row time t and parents i < k: next_k(t) < next_i(t)
	staggered3 bool // for some row time t and parents i < j < k: next_k(t) < next_i(t) < next_j(t)
	partialRow bool // a row time that some but not all present batches of a set have
}

// rowPatterns classifies how the rows of the batches of one set lie against each other (labels
// only; derived from the data, not from the code under test).
func rowPatterns(set []*kit.Bt, tol int64, info *batchRefInfo) {
	var times [][]int64
	all := map[int64]int{}
	for _, b := range set {
		if b == nil {
			continue
		}
		var ts []int64
		seen := map[int64]bool{}
		for _, pt := range b.Points {
			rt := round(pt.Time, tol)
			ts = append(ts, rt)
			if !seen[rt] {
				seen[rt] = true
				all[rt]++
			}
		}
		times = append(times, ts)
	}
	const none = int64(-1)
	next := func(p int, t int64) int64 {
		for _, x := range times[p] {
			if x >= t {
				return x
			}
		}
		return none
	}
	for t, n := range all {
		if n < len(times) {
			info.partialRow = true
		}
		for i := range times {
			ni := next(i, t)
			if ni == none {
				continue
			}
			for k := i + 1; k < len(times); k++ {
				nk := next(k, t)
				if nk == none || nk >= ni {
					continue
				}
				info.laterOlder = true
				for j := i + 1; j < k; j++ {
					if nj := next(j, t); nj != none && nj > ni {
						info.staggered3 = true
					}
				}
			}
		}
	}
}

// joinSet joins one set of paired batches (nil: the parent has no batch in the set) into the
// canonical form of the joined batch; ok is false when the joined batch has no points.
func (c BatchCase) joinSet(set []*kit.Bt, tags map[string]string, t int64) (canon string, ok bool) {
	np := len(set)
	delim := c.Delim
	if delim == "" {
		delim = "."
	}
	tol := c.Tolerance * sec
	first := -1
	complete := true
	for p := 0; p < np; p++ {
		if set[p] != nil {
			if first < 0 {
				first = p
			}
		} else {
			complete = false
		}
	}
	if first < 0 || (!complete && c.Fill == "") {
		return "", false // inner join: no joined point is possible
	}
	fill := func(f map[string]kit.FV, p int) {
		for _, name := range []string{"v", "n"} {
			switch c.Fill {
			case "null":
				f[pnames[p]+delim+name] = kit.FV{T: "n"}
			case "int":
				f[pnames[p]+delim+name] = kit.I(7)
			case "float":
				f[pnames[p]+delim+name] = kit.F(0.5)
			}
		}
	}
	// pair the points of the present batches per rounded point time
	pslots := map[int64][][]kit.Pt{}
	for p := 0; p < np; p++ {
		if set[p] == nil {
			continue
		}
		for _, pt := range set[p].Points {
			rt := round(pt.Time, tol)
			if pslots[rt] == nil {
				pslots[rt] = make([][]kit.Pt, np)
			}
			pslots[rt][p] = append(pslots[rt][p], pt)
		}
	}
	o := kit.Bt{Name: c.Stream, TMax: t, Points: []kit.Pt{}}
	if o.Name == "" {
		o.Name = pnames[first]
	}
	if len(tags) > 0 {
		o.Tags = tags
	}
	for rt, pper := range pslots {
		pmax := 0
		for _, l := range pper {
			if len(l) > pmax {
				pmax = len(l)
			}
		}
		for j := 0; j < pmax; j++ {
			f := map[string]kit.FV{}
			all := true
			for p := 0; p < np; p++ {
				if j < len(pper[p]) {
					for name, v := range pper[p][j].Fields {
						f[pnames[p]+delim+name] = v
					}
				} else {
					all = false
					fill(f, p)
				}
			}
			if !all && c.Fill == "" {
				continue
			}
			o.Points = append(o.Points, kit.Pt{Tags: o.Tags, Fields: f, Time: rt})
		}
	}
	if len(o.Points) == 0 {
		return "", false // a batch without points carries no joined point
	}
	return canonBt(o, true), true
}

// expectedJoin: the multiset of non-empty joined batches, from the per-parent sequences alone.
func (c BatchCase) expectedJoin(bts [][]kit.Bt) ([]string, batchRefInfo) {
	var info batchRefInfo
	np := len(bts)
	tol := c.Tolerance * sec
	type key struct {
		g string
		t int64
	}
	// k-th occurrences per parent, group and rounded batch time; with on() only of the specific parent
	slots := map[key][][]*kit.Bt{}
	firstGen := map[key]*kit.Bt{} // with on(): the general parent's (first) batch of an on-group and rounded batch time
	used := map[*kit.Bt]int{}
	for p := range bts {
		for i := range bts[p] {
			b := &bts[p][i]
			seen := map[int64]bool{}
			for _, pt := range b.Points {
				rt := round(pt.Time, tol)
				if seen[rt] {
					info.dupPoint = true
				}
				seen[rt] = true
			}
			if c.On && !c.Specific[p] {
				k := key{b.Tags["dc"], round(b.TMax, tol)}
				if firstGen[k] == nil {
					firstGen[k] = b
				} else {
					info.dupBatch = true
				}
				continue
			}
			k := key{tagKey(b.Tags), round(b.TMax, tol)}
			if slots[k] == nil {
				slots[k] = make([][]*kit.Bt, np)
			}
			if len(slots[k][p]) > 0 {
				info.dupBatch = true
			}
			slots[k][p] = append(slots[k][p], b)
		}
	}
	var out []string
	for k, per := range slots {
		max := 0
		var any *kit.Bt
		for _, l := range per {
			if len(l) > max {
				max = len(l)
			}
			if len(l) > 0 {
				any = l[0]
			}
		}
		for i := 0; i < max; i++ {
			set := make([]*kit.Bt, np)
			for p := 0; p < np; p++ {
				switch {
				case c.On && !c.Specific[p]:
					if g := firstGen[key{any.Tags["dc"], k.t}]; g != nil {
						set[p] = g
						used[g]++
					}
				case i < len(per[p]):
					set[p] = per[p][i]
				}
				if set[p] == nil {
					info.incomplete = true
				}
			}
			rowPatterns(set, tol, &info)
			if j, ok := c.joinSet(set, any.Tags, k.t); ok {
				out = append(out, j)
			}
		}
	}
	for _, n := range used {
		if n >= 2 {
			info.fanout = true
		}
	}
	info.outputs = len(out)
	sort.Strings(out)
	return out, info
}

func runBatch(c BatchCase, cc *kit.Case) {
	bts := c.batches()
	script := c.script()
	jt := "inner"
	if c.Fill != "" {
		jt = "outer"
	}
	if c.Union {
		cc.Label("union")
		jt = "union"
	} else {
		cc.Label("join")
		cc.Label(jt)
		if c.Fill != "" {
			cc.Label("outer:" + c.Fill)
		}
		if c.Tolerance != 0 {
			cc.Label("tolerance")
		}
	}
	cc.Label(fmt.Sprintf("%d-parents", len(c.Parents)))
	for _, pw := range c.Piecewise {
		if pw {
			cc.Label("piecewise-parent")
			break
		}
	}
	if c.GroupBy {
		cc.Label("groupby")
	}
	if c.On {
		cc.Label("on()")
		if c.Specific[0] {
			cc.Label("on():specific|join(general)")
		} else {
			cc.Label("on():general|join(specific)")
		}
	}
	empty := false
	for p := range bts {
		if len(bts[p]) == 0 {
			cc.Label("silent-parent")
		}
		for _, b := range bts[p] {
			if len(b.Points) == 0 {
				empty = true
			}
		}
	}
	if empty {
		cc.Label("empty-batch")
	}

	var want []string
	var info batchRefInfo
	if c.Union {
		_, info = c.expectedJoin(bts)
		for p := range bts {
			for _, b := range bts[p] {
				if c.Rename != "" {
					b.Name = c.Rename
				}
				want = append(want, canonBt(b, false))
			}
		}
		sort.Strings(want)
	} else {
		want, info = c.expectedJoin(bts)
		if info.outputs > 0 {
			cc.Label("joined-output")
		}
		if info.incomplete {
			cc.Label("incomplete-set")
		}
		if info.fanout {
			cc.Label("on():fan-out")
		}
		if info.partialRow {
			cc.Label("rows:time-missing-in-a-paired-batch")
		}
		if info.laterOlder {
			cc.Label("rows:later-parent-has-older-row")
		}
		if info.staggered3 {
			cc.Label("rows:3-parents-first-at-T,middle-ahead,last-behind")
		}
	}
	if c.LinedUp {
		cc.Label("lined-up-parents")
	}
	if info.dupBatch {
		cc.Label("duplicate-batch-time")
	}
	if info.dupPoint {
		cc.Label("duplicate-point-time")
	}
	ahead := false
	for _, sch := range c.Schedules {
		cnt := make([]int, len(bts))
		for _, p := range sch {
			cnt[p]++
			for q := range cnt {
				if len(bts[q]) > 0 && cnt[p]-cnt[q] >= 2 && cnt[q] < len(bts[q]) {
					ahead = true
				}
			}
		}
	}
	if ahead {
		cc.Label("parent-2-ahead")
	}
	if ahead && (info.dupBatch || info.dupPoint) {
		cc.NonTrivial()
	}

	prefix := "join"
	if c.Union {
		prefix = "union"
	}
	for si, sch := range c.Schedules {
		obs, gated, err := runGated(script, prefix, kapacitor.BatchTask, len(bts), sch, func(env *kit.Env, et *kapacitor.ExecutingTask, p, i int) error {
			cols, err := env.BatchCollectorsInScriptOrder(et)
			if err != nil {
				return err
			}
			if len(cols) != len(bts) {
				return fmt.Errorf("task has %d batch collectors, case has %d parents", len(cols), len(bts))
			}
			return cols[p].CollectBatch(bts[p][i].Msg())
		})
		if err != nil {
			if strings.HasPrefix(err.Error(), "script rejected") {
				cc.Fail("harness/script-rejected", "%v\n%s", err, script)
			} else {
				cc.Fail("joinbatch/task-error", "schedule %v: %v\n%s", sch, err, script)
			}
			return
		}
		if !gated {
			cc.Label("gate-timeout")
			if c.On && !c.Specific[0] && excluding("lowmark") {
				// the arrival order was not controlled, so the excluded schedule class of the known
				// finding (general parent late in an on-group) cannot be ruled out for this run
				cc.Label("gate-timeout:run-not-compared")
				continue
			}
		}
		var got []string
		lastT := int64(0)
		lastN := map[string]int64{}
		for _, o := range obs {
			if o.B == nil {
				cc.Fail("joinbatch/not-a-batch", "schedule %d: output is not a batch", si)
				return
			}
			if !c.Union {
				if len(o.B.Points) == 0 {
					continue // a batch without points carries no joined point; emitting it or not is left open
				}
				got = append(got, canonBt(*o.B, true))
				continue
			}
			got = append(got, canonBt(*o.B, false))
			if o.B.TMax < lastT {
				cc.Fail("joinbatch/union/time-order", "schedule %v: output batch time goes back from %d to %d\n%s", sch, lastT, o.B.TMax, script)
				return
			}
			lastT = o.B.TMax
			if len(o.B.Points) > 0 {
				// the serial numbers of the points identify the parent (point tag x) and the position
				src := o.B.Points[0].Tags["x"]
				n := o.B.Points[0].Fields["n"].Go().(int64)
				if prev, ok := lastN[src]; ok && n < prev {
					cc.Fail("joinbatch/union/parent-order", "schedule %v: batches of parent %s reordered (n=%d after n=%d)\n%s", sch, src, n, prev, script)
					return
				}
				lastN[src] = n
			}
		}
		sort.Strings(got)
		if !reflect.DeepEqual(got, want) && !(len(got) == 0 && len(want) == 0) {
			only, missing := diff(got, want), diff(want, got)
			dir := "missing+spurious"
			if len(only) == 0 {
				dir = "missing"
			} else if len(missing) == 0 {
				dir = "spurious"
			}
			sig := fmt.Sprintf("joinbatch/multiset/%s/%s", jt, dir)
			if c.On {
				// the input classes of the known findings of join.on() (see unit JoinOn)
				class := "plain"
				var cl []string
				gp, sp := 0, 1
				if c.Specific[0] {
					gp, sp = 1, 0
				}
				ev := c.events(bts)
				if c.Fill != "" && tailTriggerEv(ev, gp, sp) {
					cl = append(cl, "unflushed-tail")
				}
				if gp == 0 && lowMarkTriggerEv(ev, sch) >= 0 {
					cl = append(cl, "first-parent-late-in-group")
				}
				if len(cl) > 0 {
					class = cl[0] // both classes are known findings; the first names the case
				}
				sig = fmt.Sprintf("joinbatch/on/%s/multiset/%s/%s", class, jt, dir)
			}
			cc.Fail(sig, "schedule %d %v: %d outputs, reference %d\nscript: %s\nonly observed: %v\nonly expected: %v", si, sch, len(got), len(want), script, only, missing)
			return
		}
	}
}

const batchRule = "rapid: 2-3 batch|query parents fed with time-ordered batch sequences (1-5 query rounds, 1-3 groups with missing series, 0-4 time-ordered points per batch, lagging/silent parents; or lined-up parents: 1-4 rounds executed by all parents together (a parent skips a round or has no data for a group now and then), per round and group 2-9 row times a step apart of which every parent reports its own subset, mostly one parent per row time, a row now and then twice, so that inside one set of paired batches of 2-3 parents the rows have gaps against each other in every order) x join(as, tolerance, fill none/null/number, delimiter, streamName) or union(rename) x >=4 gated arrival schedules; " +
	"oracle: schedule-independent pairing model (batches per group and rounded batch time, points per rounded point time), outputs as multisets (+ per-parent order and non-decreasing batch time for union); non-trivial = a schedule in which one parent is >=2 batches ahead of another at some moment and a rounded batch time occurs twice in one parent and group or a rounded point time twice in one batch; distinct by case hash"

var batchAssumptions = []string{
	"JoinBatch: every parent delivers its batches in non-decreasing batch time (tmax) order, at most one batch per group and query execution, the points of a batch in time order within (tmax-period, tmax] (period 10s; 30s in the lined-up class, where queries of one round run at the same time and so carry the same tmax); which row times a parent's query returns is the data's business: any subset, any repeats; all parents end together (collectors closed)",
	"JoinBatch: the batches are fed directly into the collectors of the task's query nodes (what replay does; kit.Env.BatchCollectorsInScriptOrder maps collectors to the script's query nodes); a batch's group is its tags",
	"JoinBatch (from join.go; the JoinNode documentation speaks of points only): batches of different parents are paired like stream points, per group and batch time (tmax) rounded to the tolerance, the k-th occurrence in one parent with the k-th in the others; the joined batch carries the rounded batch time, the group's tags and streamName or the name of the first present parent",
	"JoinBatch (from join.go, JoinIntoBatch): inside a set of paired batches the points are paired per point time rounded to the tolerance, k-th occurrence with k-th occurrence; a joined batch point carries the rounded time, the group's tags and the fields prefixed by the as() names; a point missing in a parent (or a whole batch missing in the set) drops the joined point in an inner join and is filled in an outer join (all parents have the same field names, so the names 'copied from another point' are unambiguous)",
	"JoinBatch: a batch without points carries no joined point: kapacitor emits one for an incomplete set of an inner join and for paired batches without common times; whether it is emitted is not specified, output batches without points are ignored; the order of the points inside a joined batch is not compared (multiset)",
	"JoinBatch (doc of UnionNode: 'passed onto children nodes without modification'): union emits every batch once, unchanged except for rename, in non-decreasing batch time, each parent's batches in order",
	"rounding to the tolerance uses Go's time.Round, as the documentation's 'rounded to the nearest multiple of the tolerance' (trusted stdlib)",
	"schedule control is best effort: the harness feeds one message at a time and waits (bounded) for the node's collected counter; a missed gate only reduces schedule coverage because the oracle does not depend on the schedule",
}

func TestJoinBatch(t *testing.T) {
	r := kit.NewRec("C12", "JoinBatch", batchRule, batchAssumptions...)
	kit.Check(t, r, func(t *rapid.T) BatchCase { return genBatch(t, r) }, runBatch)
}

func TestReplayJoinBatch(t *testing.T) {
	r := kit.NewRec("C12", "JoinBatch", batchRule, batchAssumptions...)
	kit.Replay(t, r, runBatch)
}
