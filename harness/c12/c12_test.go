// C12 — join and union results do not depend on how parent streams interleave.
//
// Generator: 2-3 parents (separate from() branches of one task) with time-ordered sequences per
// parent (duplicates, gaps, lagging or silent parents, several groups), join options (as,
// tolerance, fill, delimiter, streamName) or union (rename), and several arrival schedules per
// data case; the harness feeds one message at a time and waits until the join/union node has
// collected it (gated feeding). Oracle: a schedule-independent reference pairing model; outputs
// are compared as multisets (union: additionally per-parent order and non-decreasing time).
package c12

import (
	"encoding/json"
	"fmt"
	"reflect"
	"sort"
	"strings"
	"testing"
	"time"

	"verifharness/kit"

	"github.com/influxdata/kapacitor"
	"pgregory.net/rapid"
)

type M struct {
	G   int   `json:"g"`   // group (host)
	Gap int64 `json:"gap"` // seconds after the previous message of this parent
	V   int64 `json:"v"`
}

type Case struct {
	Union     bool    `json:"union"`
	Parents   [][]M   `json:"parents"`
	GroupBy   bool    `json:"groupby"`
	Tolerance int64   `json:"tolerance"` // seconds
	Fill      string  `json:"fill"`      // "" none, "null", "int", "float"
	Delim     string  `json:"delim"`     // "" = default "."
	Stream    string  `json:"streamname"`
	Rename    string  `json:"rename"`
	Schedules [][]int `json:"schedules"` // each: sequence of parent indexes
}

const rule = "rapid: 2-3 parents with time-ordered sequences (duplicates, gaps, lagging/silent parents, 1-3 groups) x join(as, tolerance, fill none/null/number, delimiter, streamName) or union(rename) x >=3 arrival schedules fed one message at a time (gated on the node's collected counter); " +
	"oracle: schedule-independent pairing model, outputs as multisets (+ per-parent order and non-decreasing time for union); non-trivial = a schedule in which one parent is >=3 messages ahead of another at some moment and >=1 rounded timestamp occurs twice in one parent and group; distinct by case hash"

const sec = int64(1e9)
const t0 = int64(1_500_000_000) * sec

var pnames = []string{"pa", "pb", "pc"}

func gen(t *rapid.T) Case {
	var c Case
	c.Union = rapid.IntRange(0, 3).Draw(t, "union") == 0
	np := rapid.IntRange(2, 3).Draw(t, "nparents")
	c.GroupBy = rapid.Bool().Draw(t, "groupby")
	groups := 1
	if c.GroupBy {
		groups = rapid.IntRange(1, 3).Draw(t, "groups")
	}
	for p := 0; p < np; p++ {
		n := 1 + rapid.IntRange(0, 11).Draw(t, "n")
		if rapid.IntRange(0, 9).Draw(t, "silent") == 9 {
			n = 0
		}
		var ms []M
		for i := 0; i < n; i++ {
			ms = append(ms, M{G: rapid.IntRange(0, groups-1).Draw(t, "g"), Gap: int64(rapid.SampledFrom([]int{0, 0, 1, 1, 1, 2, 3, 5}).Draw(t, "gap")), V: int64(rapid.IntRange(0, 99).Draw(t, "v"))})
		}
		c.Parents = append(c.Parents, ms)
	}
	if c.Union {
		if rapid.Bool().Draw(t, "rename") {
			c.Rename = "u"
		}
	} else {
		c.Tolerance = int64(rapid.SampledFrom([]int{0, 0, 1, 2, 3}).Draw(t, "tol"))
		c.Fill = rapid.SampledFrom([]string{"", "", "null", "int", "float"}).Draw(t, "fill")
		c.Delim = rapid.SampledFrom([]string{"", "", "_", "::"}).Draw(t, "delim")
		if rapid.Bool().Draw(t, "sname") {
			c.Stream = "joined"
		}
	}
	lens := make([]int, np)
	for p := range c.Parents {
		lens[p] = len(c.Parents[p])
	}
	c.Schedules = genSchedules(t, lens)
	return c
}

// genSchedules draws arrival schedules (sequences of parent indexes) for parents that deliver
// lens[p] messages: the extremes first (each parent completely before the next, in both orders,
// and strict alternation), then one or two random merges made of bursts. Shared by all units.
func genSchedules(t *rapid.T, lens []int) [][]int {
	np := len(lens)
	// schedules: extremes first, then random merges
	total := 0
	for _, n := range lens {
		total += n
	}
	var fwd, rev, alt []int
	for p := range lens {
		for i := 0; i < lens[p]; i++ {
			fwd = append(fwd, p)
		}
	}
	for p := np - 1; p >= 0; p-- {
		for i := 0; i < lens[p]; i++ {
			rev = append(rev, p)
		}
	}
	left := make([]int, np)
	copy(left, lens)
	for len(alt) < total {
		for p := 0; p < np; p++ {
			if left[p] > 0 {
				alt = append(alt, p)
				left[p]--
			}
		}
	}
	scheds := [][]int{fwd, rev, alt}
	extra := rapid.IntRange(1, 2).Draw(t, "nsched")
	for s := 0; s < extra; s++ {
		left := make([]int, np)
		copy(left, lens)
		var sch []int
		for len(sch) < total {
			p := rapid.IntRange(0, np-1).Draw(t, "sp")
			// bursts: keep taking from the same parent
			burst := rapid.IntRange(1, 4).Draw(t, "burst")
			for b := 0; b < burst && left[p] > 0; b++ {
				sch = append(sch, p)
				left[p]--
			}
		}
		scheds = append(scheds, sch)
	}
	return scheds
}

func (c Case) script() string {
	var s strings.Builder
	for p := range c.Parents {
		fmt.Fprintf(&s, "var %s = stream|from().measurement('%s')", pnames[p], pnames[p])
		if c.GroupBy {
			s.WriteString(".groupBy('host')")
		}
		s.WriteString("\n")
	}
	var others []string
	for p := 1; p < len(c.Parents); p++ {
		others = append(others, pnames[p])
	}
	if c.Union {
		fmt.Fprintf(&s, "pa|union(%s)", strings.Join(others, ", "))
		if c.Rename != "" {
			fmt.Fprintf(&s, ".rename('%s')", c.Rename)
		}
	} else {
		var as []string
		for p := range c.Parents {
			as = append(as, "'"+pnames[p]+"'")
		}
		fmt.Fprintf(&s, "pa|join(%s).as(%s)", strings.Join(others, ", "), strings.Join(as, ", "))
		if c.Tolerance != 0 {
			fmt.Fprintf(&s, ".tolerance(%ds)", c.Tolerance)
		}
		switch c.Fill {
		case "null":
			s.WriteString(".fill('null')")
		case "int":
			s.WriteString(".fill(7)")
		case "float":
			s.WriteString(".fill(0.5)")
		}
		if c.Delim != "" {
			fmt.Fprintf(&s, ".delimiter('%s')", c.Delim)
		}
		if c.Stream != "" {
			fmt.Fprintf(&s, ".streamName('%s')", c.Stream)
		}
	}
	s.WriteString("|log().prefix('J')")
	return s.String()
}

// messages per parent as plain points (serial number n identifies each message)
func (c Case) messages() [][]kit.Pt {
	out := make([][]kit.Pt, len(c.Parents))
	serial := int64(0)
	for p, ms := range c.Parents {
		t := t0
		for _, m := range ms {
			t += m.Gap * sec
			out[p] = append(out[p], kit.Pt{Name: pnames[p], DB: "db", RP: "rp", Tags: map[string]string{"host": fmt.Sprintf("h%d", m.G), "x": pnames[p]},
				Fields: map[string]kit.FV{"v": kit.I(m.V), "n": kit.I(serial)}, Time: t})
			serial++
		}
	}
	return out
}

func round(t, tol int64) int64 {
	if tol == 0 {
		return t
	}
	return time.Unix(0, t).UTC().Round(time.Duration(tol)).UnixNano()
}

func canon(p kit.Pt) string {
	p.DB, p.RP = "", ""
	p.Dims, p.Group, p.ByName = nil, "", false
	b, _ := json.Marshal(p)
	return string(b)
}

// expectedJoin: the multiset of joined points, from the per-parent sequences alone.
func (c Case) expectedJoin(msgs [][]kit.Pt) []string {
	type key struct {
		g string
		t int64
	}
	np := len(msgs)
	slots := map[key][][]kit.Pt{} // key -> per parent list
	for p := range msgs {
		for _, m := range msgs[p] {
			g := ""
			if c.GroupBy {
				g = m.Tags["host"]
			}
			k := key{g, round(m.Time, c.Tolerance*sec)}
			if slots[k] == nil {
				slots[k] = make([][]kit.Pt, np)
			}
			slots[k][p] = append(slots[k][p], m)
		}
	}
	delim := c.Delim
	if delim == "" {
		delim = "."
	}
	var out []string
	for k, per := range slots {
		max := 0
		for _, l := range per {
			if len(l) > max {
				max = len(l)
			}
		}
		for i := 0; i < max; i++ {
			first := -1
			complete := true
			for p := 0; p < np; p++ {
				if i < len(per[p]) {
					if first < 0 {
						first = p
					}
				} else {
					complete = false
				}
			}
			if !complete && c.Fill == "" {
				continue // inner join
			}
			o := kit.Pt{Name: c.Stream, Time: k.t, Fields: map[string]kit.FV{}}
			if o.Name == "" {
				o.Name = pnames[first]
			}
			if c.GroupBy {
				o.Tags = map[string]string{"host": k.g}
			}
			for p := 0; p < np; p++ {
				if i < len(per[p]) {
					for f, v := range per[p][i].Fields {
						o.Fields[pnames[p]+delim+f] = v
					}
					continue
				}
				for f := range per[first][i].Fields {
					switch c.Fill {
					case "null":
						o.Fields[pnames[p]+delim+f] = kit.FV{T: "n"}
					case "int":
						o.Fields[pnames[p]+delim+f] = kit.I(7)
					case "float":
						o.Fields[pnames[p]+delim+f] = kit.F(0.5)
					}
				}
			}
			out = append(out, canon(o))
		}
	}
	sort.Strings(out)
	return out
}

func runSchedule(c Case, msgs [][]kit.Pt, sched []int) (obs []kit.Obs, gated bool, err error) {
	prefix := "join"
	if c.Union {
		prefix = "union"
	}
	return runGated(c.script(), prefix, kapacitor.StreamTask, len(msgs), sched, func(env *kit.Env, et *kapacitor.ExecutingTask, p, i int) error {
		return env.TM.WriteKapacitorPoint(msgs[p][i].Msg())
	})
}

// runGated starts the task, feeds the parents' messages one at a time in the order of sched
// (feed(env, et, p, i) delivers the i-th message of parent p) and after each one waits until
// the node whose name starts with prefix (join/union) has collected everything fed so far; then
// the inputs are closed and the task is waited for. It returns what the sink 'J' observed. Shared
// by all units (stream: points through the TaskMaster; batch: batches through the task's batch
// collectors, closed by closeInputs).
func runGated(script, prefix string, tt kapacitor.TaskType, np int, sched []int, feed func(env *kit.Env, et *kapacitor.ExecutingTask, p, i int) error) (obs []kit.Obs, gated bool, err error) {
	env, err := kit.NewEnv(kit.EnvOpts{})
	if err != nil {
		return nil, false, err
	}
	defer env.Close()
	id := "t" + kit.Unique()
	et, err := env.StartTask(id, script, tt, nil)
	if err != nil {
		return nil, false, fmt.Errorf("script rejected: %w", err)
	}
	next := make([]int, np)
	fed := int64(0)
	gated = true
	for _, p := range sched {
		i := next[p]
		next[p]++
		if err := feed(env, et, p, i); err != nil {
			return nil, false, err
		}
		fed++
		// gate: wait until the join/union node has collected everything fed so far. A bound that
		// expires only weakens the schedule control (the oracle is schedule independent).
		deadline := time.Now().Add(2 * time.Second)
		for gated {
			st, serr := et.ExecutionStats()
			if serr != nil {
				gated = false
				break
			}
			var got int64 = -1
			for name, ns := range st.NodeStats {
				if strings.HasPrefix(name, prefix) {
					if v, ok := ns["collected"].(int64); ok {
						got = v
					}
				}
			}
			if got >= fed {
				break
			}
			if time.Now().After(deadline) {
				gated = false
			}
			time.Sleep(50 * time.Microsecond)
		}
	}
	if tt == kapacitor.BatchTask {
		for _, col := range env.TM.BatchCollectors(id) {
			col.Close()
		}
	} else {
		env.TM.Drain()
	}
	et.StopStats()
	if werr := et.Wait(); werr != nil {
		return nil, gated, fmt.Errorf("task ended with error: %w", werr)
	}
	return env.Sink.By("J"), gated, nil
}

func run(c Case, cc *kit.Case) {
	msgs := c.messages()
	script := c.script()
	if c.Union {
		cc.Label("union")
	} else {
		cc.Label("join")
		if c.Fill == "" {
			cc.Label("inner")
		} else {
			cc.Label("outer:" + c.Fill)
		}
		if c.Tolerance != 0 {
			cc.Label("tolerance")
		}
	}
	// duplicates of a rounded timestamp inside one parent and group
	dup := false
	for p := range msgs {
		seen := map[string]bool{}
		for _, m := range msgs[p] {
			k := fmt.Sprintf("%s/%d", m.Tags["host"], round(m.Time, c.Tolerance*sec))
			if !c.GroupBy {
				k = fmt.Sprintf("/%d", round(m.Time, c.Tolerance*sec))
			}
			if seen[k] {
				dup = true
			}
			seen[k] = true
		}
		if len(msgs[p]) == 0 {
			cc.Label("silent-parent")
		}
	}
	if dup {
		cc.Label("duplicate-timestamp")
	}
	ahead := false
	for _, sch := range c.Schedules {
		cnt := make([]int, len(msgs))
		for _, p := range sch {
			cnt[p]++
			for q := range cnt {
				if len(msgs[q]) > 0 && cnt[p]-cnt[q] >= 3 && cnt[q] < len(msgs[q]) {
					ahead = true
				}
			}
		}
	}
	if ahead {
		cc.Label("parent-3-ahead")
	}
	if ahead && dup {
		cc.NonTrivial()
	}

	var want []string
	if !c.Union {
		want = c.expectedJoin(msgs)
	} else {
		for p := range msgs {
			for _, m := range msgs[p] {
				o := m
				if c.Rename != "" {
					o.Name = c.Rename
				}
				want = append(want, canon(o))
			}
		}
		sort.Strings(want)
	}

	for si, sch := range c.Schedules {
		obs, gated, err := runSchedule(c, msgs, sch)
		if err != nil {
			if strings.HasPrefix(err.Error(), "script rejected") {
				cc.Fail("harness/script-rejected", "%v\n%s", err, script)
			} else {
				cc.Fail("task-error", "schedule %v: %v\n%s", sch, err, script)
			}
			return
		}
		if !gated {
			cc.Label("gate-timeout")
		}
		var got []string
		lastT := int64(0)
		lastN := map[string]int64{}
		for _, o := range obs {
			if o.P == nil {
				cc.Fail("join/not-a-point", "schedule %d: output is not a point", si)
				return
			}
			got = append(got, canon(*o.P))
			if c.Union {
				if o.P.Time < lastT {
					cc.Fail("union/time-order", "schedule %v: output time goes back from %d to %d\n%s", sch, lastT, o.P.Time, script)
					return
				}
				lastT = o.P.Time
				src := o.P.Tags["x"]
				n := o.P.Fields["n"].Go().(int64)
				if prev, ok := lastN[src]; ok && n < prev {
					cc.Fail("union/parent-order", "schedule %v: messages of parent %s reordered (n=%d after n=%d)\n%s", sch, src, n, prev, script)
					return
				}
				lastN[src] = n
			}
		}
		sort.Strings(got)
		if !reflect.DeepEqual(got, want) && !(len(got) == 0 && len(want) == 0) {
			sig := "join/multiset"
			if c.Union {
				sig = "union/multiset"
			}
			cc.Fail(sig, "schedule %d %v: %d outputs, reference %d\nscript: %s\nonly observed: %v\nonly expected: %v", si, sch, len(got), len(want), script, diff(got, want), diff(want, got))
			return
		}
	}
}

func diff(a, b []string) []string {
	cnt := map[string]int{}
	for _, x := range b {
		cnt[x]++
	}
	var out []string
	for _, x := range a {
		if cnt[x] > 0 {
			cnt[x]--
		} else {
			out = append(out, x)
		}
	}
	return out
}

var assumptions = []string{
	"every parent delivers its messages in non-decreasing time order (the property's premise); all parents end together (task drain)",
	"unit Join: stream edges, join without on() dimensions (join-on-dimension and batch parents are the units JoinOn and JoinBatch)",
	"the k-th message of a parent at a (tolerance-rounded) timestamp and group pairs with the k-th messages of the other parents; an incomplete set is dropped by an inner join and filled by an outer join, its fill field names copied from the first present parent, its name taken from streamName or the first present parent",
	"rounding to the tolerance uses Go's time.Round, as the documentation's 'rounded to the nearest multiple of the tolerance' (trusted stdlib)",
	"schedule control is best effort: the harness feeds one message at a time and waits (bounded) for the node's collected counter; a missed gate only reduces schedule coverage because the oracle does not depend on the schedule",
}

func TestJoin(t *testing.T) {
	r := kit.NewRec("C12", "Join", rule, assumptions...)
	kit.Check(t, r, gen, run)
}

func TestReplayJoin(t *testing.T) {
	r := kit.NewRec("C12", "Join", rule, assumptions...)
	kit.Replay(t, r, run)
}
