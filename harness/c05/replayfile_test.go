// C05 (e), end to end — a damaged recording FILE makes the replay end with an error at most.
//
// Unit Recording hands hostile bytes straight to ReplayStreamFromIO / ReplayBatchFromIO with null
// collectors. What the daemon does with a recording is more than that: services/replay opens the
// file of the recording (a zip archive with one entry per query node of a batch task, a gzip stream
// for a stream task), starts the task on an isolated TaskMaster, runs one reader and one replayer
// goroutine per source, reports the first error, and then tears the task down while - possibly -
// the other sources are still being delivered. This unit drives that path the way the HTTP API does:
//
//	POST /recordings/batch | /recordings/query   (InfluxDB = a fake that answers with generated rows)
//	GET  /recordings/<id> until finished          -> a VALID recording file under the service's save dir
//	... the file is damaged on disk at a generated position ...
//	POST /replays, GET /replays/<id> until it is no longer running  (bounded: 30 s)
//	... the file is restored ...
//	POST /replays of the intact recording on the same service: must finish and deliver everything
//
// The wiring of the service (Bolt store, task store stub, route-catching HTTPD stub, fake InfluxDB,
// kit.Env TaskMaster, TaskMasterLookup) is the one of unit File of check C18 (copied, not imported).
//
// Oracle: the process survives (a panic in any goroutine kills the worker; the driver attributes the
// death to the case in flight), no panic reaches the caller of a route handler, the damaged replay
// reaches a final state (finished or failed: both are fine) within the bound, and the following
// replay of the intact recording ends finished, without error, with every recorded batch and point
// delivered.
package c05

import (
	"archive/zip"
	"bytes"
	"compress/gzip"
	"context"
	"encoding/json"
	"fmt"
	"io"
	"net/http"
	"net/http/httptest"
	"os"
	"path/filepath"
	"regexp"
	"runtime"
	"sort"
	"strconv"
	"strings"
	"sync"
	"testing"
	"time"

	"verifharness/kit"

	"github.com/influxdata/flux"
	imodels "github.com/influxdata/influxdb/models"
	"github.com/influxdata/kapacitor"
	kclient "github.com/influxdata/kapacitor/client/v1"
	"github.com/influxdata/kapacitor/influxdb"
	"github.com/influxdata/kapacitor/pipeline"
	"github.com/influxdata/kapacitor/services/httpd"
	"github.com/influxdata/kapacitor/services/replay"
	"pgregory.net/rapid"
)

// ---------------------------------------------------------------- case data

// RFSource is one query node of the batch task (one entry of the archive) or the single series of a
// stream recording. The values of the rows are a pure function of Seed (splitmix64): numbers and
// 48-character strings that do not compress, so that a large entry stays a small case.
type RFSource struct {
	Batches int    `json:"batches"`        // batch: the first Batches queries of the node return data (one batch each); stream: unused
	Rows    int    `json:"rows"`           // rows per batch; stream: points of the recording
	Seed    uint64 `json:"seed,omitempty"` // 0 is fine
}

// RFDamage says how the valid recording file is damaged. The position is generated: Pos per mille of
// the entry content (content-level kinds) or of the file (raw kinds), plus Delta bytes, optionally
// moved forward to the next line start.
type RFDamage struct {
	Kind   string `json:"kind"`
	Source int    `json:"source,omitempty"` // the query node whose archive entry is damaged (modulo the number of sources)
	Pos    int    `json:"pos"`              // 0..1000
	Delta  int    `json:"delta,omitempty"`  // bytes added to the position
	AtLine bool   `json:"atline,omitempty"` // move the position to the start of the next line
	Skip   int    `json:"skip,omitempty"`   // ... and 0-2 lines further (a record of a stream recording is three lines: db, rp, point)
	Len    int    `json:"len,omitempty"`    // bytes of garbage / flipped / size of the huge line
	Seed   uint64 `json:"seed,omitempty"`   // garbage content
	Text   string `json:"text,omitempty"`   // insert: the text; hugeline: valid|garbage; swap, entries: the variant
}

type RFCase struct {
	Kind    string     `json:"kind"` // batch: record batch of a task with 1-4 query nodes | stream: record query -type stream
	RecTime bool       `json:"rectime"`
	Sources []RFSource `json:"sources"`
	Damage  RFDamage   `json:"damage"`
	// OtherTask: the follow-up replay of the intact recording runs a second task with the same query
	// nodes instead of the task of the damaged replay
	OtherTask bool `json:"othertask,omitempty"`
}

const ruleReplayFile = "rapid: a valid recording made by services/replay itself (record batch of a task with 1-4 query nodes of very different sizes: empty, 1-3 rows, 10-40 small batches, 1-3 batches of 500-1200 incompressible rows, 10-40 batches of 30-80 rows; record query -type stream of 0-2500 points), " +
	"damaged on disk under the service's save dir at a generated position (entry/content cut, invalid or wrong-shape JSON / line protocol inserted, binary garbage, empty entry, a line of 70 KiB-64 MiB; raw file cut, bytes flipped or overwritten; zero-length file; content of the other format, plain text or random bytes; entries dropped/added/reversed; file removed) " +
	"and replayed through POST /replays; oracle: the process survives, no handler panics, the replay is finished or failed within 30 s, a following replay of the restored intact recording on the same service finishes without error and delivers every recorded batch and point; " +
	"non-trivial = the damaged file differs from the recording and the recording holds data; distinct by case hash"

const (
	rfWindow  = int64(3600) // seconds: .period(1h).every(1h)
	rfStart   = int64(1_500_000_000)
	rfRowStep = int64(100e6) // rows follow every 100 ms: 1500 rows stay inside the window
	rfMaxRows = 3000
	rfMaxBat  = 40
	rfDB      = "db"
	rfRP      = "rp"
	rfSrc     = "src"
	rfBound   = 30 * time.Second
	// exclusion class (known finding): a reader of a batch archive fails while a batch is or will be collected
	rfExMidError = "batch-archive-reader-error-while-batches-are-collected"
)

// rfNoExclude: the input class of the finding crash/.../send on closed channel (repaired in /repo by
// 8e04ce9) is generated; VERIF_C05_REPLAYFILE_EXCLUDE=1 excludes it again for an older tree.
func rfNoExclude() bool { return os.Getenv("VERIF_C05_REPLAYFILE_EXCLUDE") != "1" }

var rfBatchInserts = []string{
	`{`, `}`, `]`, `nul`, `,`, `#`, "\x00", "\xff\xfe", `"`, `{"name":`,
	`null`, `[]`, `{}`, `"s"`, `1e999`, `true`,
	`{"points":[null]}`, `{"points":[{"fields":null,"time":"x"}]}`, `{"name":1}`, `{"tags":{"a":1}}`,
	`{"name":"m","points":[{"fields":{"v":1e400}}]}`,
	`{"name":"x","points":[{"fields":{},"time":"2020-01-01T00:00:00Z"}]}`,
	`{"name":"src0","tmax":"2020-01-01T00:00:00Z","points":[{"fields":{"v":1},"time":"2020-01-01T00:00:00Z"}]}`,
	`{"name":"src0","tmax":"0001-01-01T00:00:00Z","points":[]}`,
}

var rfStreamInserts = []string{
	"", "# comment", " ", "m", "m,t= f=1", `m f="a`, "m f=1 notatime", "\x00", "\xff\xfe", "m f=1i 99999999999999999999",
	"db", "db\nrp", "m f=1", "db\nrp\nm f=1 1", "db\nrp\nm,t=v f=\"x\" 1500000000000000000",
}

var rfContentKinds = map[string]bool{"cut": true, "insert": true, "overwrite": true, "garbage-tail": true, "empty": true, "hugeline": true}

// kinds that can make a reader goroutine report an error in the middle of a replay
var rfMidErrorKinds = map[string]bool{"cut": true, "insert": true, "overwrite": true, "garbage-tail": true, "hugeline": true, "raw-flip": true, "raw-overwrite": true}

func rfSplitmix(x *uint64) uint64 {
	*x += 0x9e3779b97f4a7c15
	z := *x
	z = (z ^ (z >> 30)) * 0xbf58476d1ce4e5b9
	z = (z ^ (z >> 27)) * 0x94d049bb133111eb
	return z ^ (z >> 31)
}

// ---------------------------------------------------------------- generator

func genRFSource(t *rapid.T, class int) RFSource {
	var s RFSource
	switch class {
	case 0: // empty entry
	case 1: // tiny
		s.Batches = rapid.IntRange(1, 2).Draw(t, "batches")
		s.Rows = rapid.IntRange(1, 3).Draw(t, "rows")
	case 2: // many small batches
		s.Batches = rapid.IntRange(10, rfMaxBat).Draw(t, "batches")
		s.Rows = rapid.IntRange(1, 5).Draw(t, "rows")
	case 3: // few large batches: every line of the entry is several read buffers long
		s.Batches = rapid.IntRange(1, 3).Draw(t, "batches")
		s.Rows = rapid.IntRange(500, 1200).Draw(t, "rows")
	default: // many medium batches
		s.Batches = rapid.IntRange(10, rfMaxBat).Draw(t, "batches")
		s.Rows = rapid.IntRange(30, 80).Draw(t, "rows")
	}
	if s.Batches > 0 {
		s.Seed = rapid.Uint64().Draw(t, "seed")
	}
	return s
}

func genReplayFile(r *kit.Rec) func(t *rapid.T) RFCase {
	return func(t *rapid.T) RFCase {
		var c RFCase
		c.Kind = rapid.SampledFrom([]string{"batch", "stream", "batch", "batch", "stream", "batch"}).Draw(t, "kind")
		c.RecTime = rapid.Bool().Draw(t, "rectime")
		c.OtherTask = rapid.IntRange(0, 3).Draw(t, "othertask") == 0
		stream := c.Kind == "stream"
		if stream {
			s := RFSource{Seed: rapid.Uint64().Draw(t, "seed")}
			switch rapid.SampledFrom([]int{0, 1, 1, 2, 2, 3, 3, 3}).Draw(t, "sizeclass") {
			case 0:
				s.Rows = rapid.IntRange(0, 3).Draw(t, "rows")
			case 1:
				s.Rows = rapid.IntRange(10, 80).Draw(t, "rows")
			case 2:
				s.Rows = rapid.IntRange(250, 700).Draw(t, "rows")
			default:
				s.Rows = rapid.IntRange(1200, 2500).Draw(t, "rows")
			}
			c.Sources = []RFSource{s}
		} else {
			n := rapid.SampledFrom([]int{1, 2, 2, 2, 2, 3, 3, 4}).Draw(t, "nsources")
			classes := []int{0, 1, 1, 1, 1, 2, 2, 3, 3, 4, 4}
			for i := 0; i < n; i++ {
				c.Sources = append(c.Sources, genRFSource(t, rapid.SampledFrom(classes).Draw(t, "sizeclass")))
			}
			if n > 1 && rapid.Bool().Draw(t, "contrast") {
				// the interesting moment: a source of several read buffers next to a tiny one
				big := rapid.IntRange(0, n-1).Draw(t, "big")
				small := (big + rapid.IntRange(1, n-1).Draw(t, "small")) % n
				c.Sources[big] = genRFSource(t, rapid.SampledFrom([]int{3, 3, 4}).Draw(t, "bigclass"))
				c.Sources[small] = genRFSource(t, 1)
			}
		}

		d := &c.Damage
		// (rapid prefers the front of a list)
		kinds := []string{"insert", "cut", "raw-flip", "overwrite", "hugeline", "garbage-tail", "raw-cut", "insert", "cut", "raw-overwrite", "empty", "swap", "zero",
			"raw-flip", "insert", "cut", "missing"}
		if !stream {
			kinds = append(kinds[:8], append([]string{"entries"}, kinds[8:]...)...)
		}
		d.Kind = rapid.SampledFrom(kinds).Draw(t, "damage")
		if !stream {
			d.Source = rapid.IntRange(0, len(c.Sources)-1).Draw(t, "source")
		}
		switch d.Kind {
		case "zero", "missing", "empty":
		default:
			d.Pos = rapid.SampledFrom([]int{0, 1000, -1, -1, -1, -1, -1, -1}).Draw(t, "posclass")
			if d.Pos < 0 {
				d.Pos = rapid.IntRange(0, 1000).Draw(t, "pos")
			}
			d.Delta = rapid.IntRange(-64, 64).Draw(t, "delta")
		}
		switch d.Kind {
		case "cut", "insert", "hugeline":
			d.Skip = rapid.IntRange(0, 2).Draw(t, "skip")
		}
		switch d.Kind {
		case "cut":
			d.AtLine = rapid.IntRange(0, 4).Draw(t, "atline") == 0
		case "insert":
			d.AtLine = rapid.Bool().Draw(t, "atline")
			if stream {
				// a line of its own more often than not: which of the three lines of a record (db, rp, point) it
				// displaces depends on the position
				d.AtLine = d.AtLine || rapid.Bool().Draw(t, "atline2")
				d.Text = rapid.SampledFrom(rfStreamInserts).Draw(t, "text")
			} else {
				d.Text = rapid.SampledFrom(rfBatchInserts).Draw(t, "text")
			}
		case "overwrite", "garbage-tail", "raw-overwrite":
			d.Len = rapid.SampledFrom([]int{1, 2, 16, 100, 512, 4096, 20000}).Draw(t, "len")
			d.Seed = rapid.Uint64().Draw(t, "dseed")
		case "raw-flip":
			d.Len = rapid.IntRange(1, 8).Draw(t, "len")
			d.Seed = rapid.Uint64().Draw(t, "dseed")
		case "hugeline":
			d.AtLine = true
			d.Text = rapid.SampledFrom([]string{"valid", "garbage"}).Draw(t, "text")
			sizes := []int{70 << 10, 70 << 10, 1 << 20, 1 << 20, 8 << 20}
			d.Len = rapid.SampledFrom(sizes).Draw(t, "len")
			if stream && rapid.IntRange(0, 9).Draw(t, "over-limit") == 0 {
				d.Len = 64<<20 + 4096 // beyond the 64 MiB bound on a line of a stream recording
			}
		case "swap":
			d.Text = rapid.SampledFrom([]string{"other-format", "plain", "random", "json"}).Draw(t, "text")
			d.Len = rapid.SampledFrom([]int{1, 4, 22, 100, 5000}).Draw(t, "len")
			d.Seed = rapid.Uint64().Draw(t, "dseed")
		case "entries":
			d.Text = rapid.SampledFrom([]string{"drop-last", "add-empty", "add-copy", "reverse"}).Draw(t, "text")
		}

		if !stream && rfMidErrorKinds[d.Kind] && !rfNoExclude() {
			// Known finding (crash/.../send on closed channel): when the reader of one archive entry reports an
			// error, doReplay closes the collectors of all sources while their replayer goroutines may still be
			// collecting. Excluded by construction: such a damage is only generated where no batch is ever
			// collected around the error - the damaged entry fails before its first batch (position 0) and
			// every other source is empty (raw damage: every source is empty). Counted.
			changed := false
			raw := !rfContentKinds[d.Kind]
			for i := range c.Sources {
				if (raw || i != d.Source) && c.Sources[i].Batches != 0 {
					c.Sources[i] = RFSource{}
					changed = true
				}
			}
			if !raw && (d.Pos != 0 || d.Delta > 0 || d.AtLine) {
				d.Pos, d.AtLine, d.Skip = 0, false, 0
				if d.Delta > 0 {
					d.Delta = 0
				}
				changed = true
			}
			// ... and what is put at position 0 must not read as a complete JSON value followed by an
			// error (that value would be collected while the error is on its way): the entry either fails
			// at its first byte or not at all.
			switch d.Kind {
			case "insert":
				if d.Text == `"` {
					d.Text, changed = "#", true
				}
			case "overwrite", "garbage-tail":
				for !rfFailsAtOnce(rfGarbage(1, d.Seed)[0]) {
					d.Seed++
					changed = true
				}
			}
			if changed {
				r.Exclude(rfExMidError)
			}
		}
		return c
	}
}

// ---------------------------------------------------------------- the InfluxDB responses

func (c RFCase) nQueries() int {
	n := 0
	for _, s := range c.Sources {
		if s.Batches > n {
			n = s.Batches
		}
	}
	if n > rfMaxBat {
		n = rfMaxBat
	}
	return n
}

// rows builds the response series of the k-th query of source i as influxdb.HTTPClient delivers them.
func (c RFCase) rows(i, k int) []imodels.Row {
	s := c.Sources[i]
	n := s.Rows
	if n > rfMaxRows {
		n = rfMaxRows
	}
	if c.Kind == "batch" && (k >= s.Batches || k >= rfMaxBat) || n <= 0 {
		return nil
	}
	base := (rfStart + int64(k)*rfWindow) * 1e9
	if c.Kind == "batch" && n > 1500 {
		n = 1500
	}
	seed := s.Seed + uint64(k)*0x1234567
	row := imodels.Row{Name: rfSrc + strconv.Itoa(i), Columns: []string{"time", "s", "v"}}
	const alphabet = "abcdefghijklmnopqrstuvwxyzABCDEFGHIJKLMNOPQRSTUVWXYZ0123456789-_"
	var sb [48]byte
	for j := 0; j < n; j++ {
		for q := 0; q < 48; q += 8 {
			x := rfSplitmix(&seed)
			for b := 0; b < 8; b++ {
				sb[q+b] = alphabet[(x>>(6*uint(b)))&63]
			}
		}
		x := rfSplitmix(&seed)
		row.Values = append(row.Values, []interface{}{
			time.Unix(0, base+int64(j)*rfRowStep).UTC().Format(time.RFC3339Nano),
			string(sb[:]),
			json.Number(strconv.FormatFloat(float64(x>>11)/float64(1<<53)*1000, 'g', -1, 64)),
		})
	}
	return []imodels.Row{row}
}

// expect returns the batches and points recorded for source i (stream: points only).
func (c RFCase) expect(i int) (batches, points int) {
	s := c.Sources[i]
	rows := s.Rows
	if rows > rfMaxRows {
		rows = rfMaxRows
	}
	if rows < 0 {
		rows = 0
	}
	if c.Kind == "stream" {
		return 0, rows
	}
	if rows > 1500 {
		rows = 1500
	}
	b := s.Batches
	if b > rfMaxBat {
		b = rfMaxBat
	}
	if b < 0 || rows == 0 {
		b = 0
	}
	return b, b * rows
}

var rfSrcRE = regexp.MustCompile(rfSrc + `(\d+)`)

// rfInflux answers the k-th query that names measurement src<i> with the k-th response of source i.
type rfInflux struct {
	c    RFCase
	mu   sync.Mutex
	next map[int]int
}

func (f *rfInflux) NewNamedClient(name string) (influxdb.Client, error) { return f, nil }

func (f *rfInflux) Ping(ctx context.Context) (time.Duration, string, error) { return 0, "", nil }
func (f *rfInflux) Write(bp influxdb.BatchPoints) error                     { return nil }
func (f *rfInflux) WriteV2(w influxdb.FluxWrite) error                      { return nil }
func (f *rfInflux) QueryFlux(q influxdb.FluxQuery) (flux.ResultIterator, error) {
	return nil, nil
}
func (f *rfInflux) QueryFluxResponse(q influxdb.FluxQuery) (*influxdb.Response, error) {
	return &influxdb.Response{}, nil
}
func (f *rfInflux) CreateBucketV2(bucket string, org string, orgID string) error { return nil }

func (f *rfInflux) Query(q influxdb.Query) (*influxdb.Response, error) {
	m := rfSrcRE.FindStringSubmatch(q.Command)
	if m == nil {
		return &influxdb.Response{}, nil
	}
	i, _ := strconv.Atoi(m[1])
	f.mu.Lock()
	k := f.next[i]
	f.next[i]++
	f.mu.Unlock()
	if i >= len(f.c.Sources) {
		return &influxdb.Response{}, nil
	}
	rows := f.c.rows(i, k)
	if len(rows) == 0 {
		return &influxdb.Response{}, nil
	}
	return &influxdb.Response{Results: []influxdb.Result{{Series: rows}}}, nil
}

type rfTaskStore struct{ tasks map[string]*kapacitor.Task }

func (s rfTaskStore) Load(id string) (*kapacitor.Task, error) {
	if t, ok := s.tasks[id]; ok {
		return t, nil
	}
	return nil, fmt.Errorf("unknown task %q", id)
}

// rfRoutes is the HTTPD service of the replay service: it keeps the routes so that the harness can
// call the handlers the way the HTTP server would.
type rfRoutes struct {
	routes   []httpd.Route
	extraMiB int // MiB of generated data the replay has to read (lengthens the hang bound)
}

func (h *rfRoutes) AddRoutes(r []httpd.Route) error {
	h.routes = append(h.routes, r...)
	return nil
}
func (h *rfRoutes) DelRoutes([]httpd.Route) {}

type rfHandlerPanic struct {
	v     any
	stack string
}

func (p *rfHandlerPanic) Error() string { return fmt.Sprintf("handler panicked: %v\n%s", p.v, p.stack) }

func (h *rfRoutes) do(method, pattern, path string, body any) (code int, out []byte, err error) {
	for _, rt := range h.routes {
		if rt.Method != method || rt.Pattern != pattern {
			continue
		}
		hf, ok := rt.HandlerFunc.(func(http.ResponseWriter, *http.Request))
		if !ok {
			return 0, nil, fmt.Errorf("route %s %s has a handler of type %T", method, pattern, rt.HandlerFunc)
		}
		rd := bytes.NewReader(nil)
		if body != nil {
			b, err := json.Marshal(body)
			if err != nil {
				return 0, nil, err
			}
			rd = bytes.NewReader(b)
		}
		req := httptest.NewRequest(method, httpd.BasePath+path, rd)
		w := httptest.NewRecorder()
		func() {
			defer func() {
				if v := recover(); v != nil {
					buf := make([]byte, 8192)
					err = &rfHandlerPanic{v: v, stack: string(buf[:runtime.Stack(buf, false)])}
				}
			}()
			hf(w, req)
		}()
		return w.Code, w.Body.Bytes(), err
	}
	return 0, nil, fmt.Errorf("the replay service registered no route %s %s", method, pattern)
}

// await polls GET <pattern>/<id> until the service no longer answers 202 Accepted (running).
func (h *rfRoutes) await(pattern, id string, into any) (bool, error) {
	// rfBound for work that takes milliseconds, plus 5 s per MiB the reader has to get through (a
	// generated 64 MiB line takes seconds on an idle machine and a multiple of that on a loaded one)
	deadline := time.Now().Add(rfBound + time.Duration(h.extraMiB)*5*time.Second)
	for n := 0; ; n++ {
		code, body, err := h.do("GET", pattern+"/", pattern+"/"+id, nil)
		if err != nil {
			return false, err
		}
		if code == http.StatusOK {
			return true, json.Unmarshal(body, into)
		}
		if code != http.StatusAccepted {
			return false, fmt.Errorf("GET %s/%s: status %d: %s", pattern, id, code, rfClip(string(body), 300))
		}
		if time.Now().After(deadline) {
			return false, nil
		}
		if n < 200 {
			time.Sleep(50 * time.Microsecond)
		} else {
			time.Sleep(time.Millisecond)
		}
	}
}

func rfClip(s string, n int) string {
	if len(s) <= n {
		return s
	}
	return s[:n] + fmt.Sprintf("...(%d bytes)", len(s))
}

// script renders the task whose query nodes are the sources of the case; sink is the prefix of the
// |log() node under every source.
func (c RFCase) script(sink string) (string, kapacitor.TaskType) {
	if c.Kind == "stream" {
		return "stream\n    |from()\n    |log().prefix('" + sink + "0')\n", kapacitor.StreamTask
	}
	var sb strings.Builder
	for i := range c.Sources {
		fmt.Fprintf(&sb, "var q%d = batch\n    |query('SELECT * FROM \"%s\".\"%s\".\"%s%d\"')\n        .period(1h)\n        .every(1h)\nq%d\n    |log().prefix('%s%d')\n", i, rfDB, rfRP, rfSrc, i, i, sink, i)
	}
	return sb.String(), kapacitor.BatchTask
}

// ---------------------------------------------------------------- damaging the file

// rfFailsAtOnce: a JSON decoder that finds this byte where a value should begin reports an error
// without having produced a value (not white space, not the beginning of a string, number, literal,
// object or array).
func rfFailsAtOnce(b byte) bool {
	switch b {
	case ' ', '\t', '\r', '\n', '"', '-', 't', 'f', 'n', '{', '[':
		return false
	}
	return b < '0' || b > '9'
}

func rfGarbage(n int, seed uint64) []byte {
	out := make([]byte, n)
	for i := 0; i < n; i += 8 {
		x := rfSplitmix(&seed)
		for b := 0; b < 8 && i+b < n; b++ {
			out[i+b] = byte(x >> (8 * uint(b)))
		}
	}
	return out
}

func (d RFDamage) at(content []byte) int {
	n := len(content)
	p := int(int64(n)*int64(d.Pos)/1000) + d.Delta
	if p < 0 {
		p = 0
	}
	if p > n {
		p = n
	}
	if d.AtLine && p > 0 {
		if j := bytes.IndexByte(content[p-1:], '\n'); j >= 0 {
			p = p - 1 + j + 1
		} else {
			p = n
		}
	}
	if d.AtLine {
		for k := 0; k < d.Skip && k < 2 && p < n; k++ {
			if j := bytes.IndexByte(content[p:], '\n'); j >= 0 {
				p += j + 1
			} else {
				p = n
			}
		}
	}
	return p
}

type rfEntry struct {
	name string
	data []byte
}

func rfUnzip(b []byte) ([]rfEntry, []uint64, error) {
	zr, err := zip.NewReader(bytes.NewReader(b), int64(len(b)))
	if err != nil {
		return nil, nil, err
	}
	var out []rfEntry
	var csize []uint64
	for _, f := range zr.File {
		rc, err := f.Open()
		if err != nil {
			return nil, nil, err
		}
		data, err := io.ReadAll(rc)
		rc.Close()
		if err != nil {
			return nil, nil, err
		}
		out = append(out, rfEntry{name: f.Name, data: data})
		csize = append(csize, f.CompressedSize64)
	}
	return out, csize, nil
}

// rfZip packs the entries as the service's batch archiver does (zip.Writer.Create: deflate).
func rfZip(es []rfEntry) ([]byte, error) {
	var buf bytes.Buffer
	zw := zip.NewWriter(&buf)
	for _, e := range es {
		w, err := zw.Create(e.name)
		if err != nil {
			return nil, err
		}
		if _, err := w.Write(e.data); err != nil {
			return nil, err
		}
	}
	if err := zw.Close(); err != nil {
		return nil, err
	}
	return buf.Bytes(), nil
}

func rfGunzip(b []byte) ([]byte, error) {
	zr, err := gzip.NewReader(bytes.NewReader(b))
	if err != nil {
		return nil, err
	}
	return io.ReadAll(zr)
}

func rfGzip(b []byte) ([]byte, error) {
	var buf bytes.Buffer
	zw := gzip.NewWriter(&buf)
	if _, err := zw.Write(b); err != nil {
		return nil, err
	}
	if err := zw.Close(); err != nil {
		return nil, err
	}
	return buf.Bytes(), nil
}

// content applies a content-level damage to the uncompressed content of an entry / of the stream.
func (d RFDamage) content(stream bool, content []byte) []byte {
	p := d.at(content)
	var out []byte
	switch d.Kind {
	case "empty":
		return nil
	case "cut":
		return append(out, content[:p]...)
	case "insert":
		out = append(out, content[:p]...)
		out = append(out, d.Text...)
		if d.AtLine {
			out = append(out, '\n')
		}
		return append(out, content[p:]...)
	case "overwrite":
		out = append(out, content[:p]...)
		out = append(out, rfGarbage(d.Len, d.Seed)...)
		if p+d.Len < len(content) {
			out = append(out, content[p+d.Len:]...)
		}
		return out
	case "garbage-tail":
		out = append(out, content[:p]...)
		return append(out, rfGarbage(d.Len, d.Seed)...)
	case "hugeline":
		if stream && d.Text == "valid" {
			// a record of a stream recording is three lines (db, rp, point): a valid record goes between two records
			for p < len(content) && bytes.Count(content[:p], []byte{'\n'})%3 != 0 {
				if j := bytes.IndexByte(content[p:], '\n'); j >= 0 {
					p += j + 1
				} else {
					p = len(content)
				}
			}
		}
		n := d.Len
		if n > 64<<20+4096 {
			n = 64<<20 + 4096
		}
		if n < 0 {
			n = 0
		}
		out = make([]byte, 0, len(content)+n+200)
		out = append(out, content[:p]...)
		if d.Text == "valid" {
			if stream {
				out = append(out, "db\nrp\nsrc0 s=\""...)
			} else {
				out = append(out, `{"name":"src0","tmax":"2020-01-01T00:00:00Z","points":[{"fields":{"s":"`...)
			}
		}
		out = append(out, bytes.Repeat([]byte{'a'}, n)...)
		if d.Text == "valid" {
			if stream {
				out = append(out, "\" 1500000000000000000"...)
			} else {
				out = append(out, `"},"time":"2020-01-01T00:00:00Z"}]}`...)
			}
		}
		out = append(out, '\n')
		return append(out, content[p:]...)
	}
	return content
}

// apply returns the damaged file; remove = the file is deleted instead.
// entry is the index of the archive entry that belongs to the damaged source.
func (d RFDamage) apply(stream bool, orig []byte, entry int) (out []byte, remove bool, err error) {
	switch d.Kind {
	case "zero":
		return []byte{}, false, nil
	case "missing":
		return nil, true, nil
	case "raw-cut":
		return append([]byte{}, orig[:d.at(orig)]...), false, nil
	case "raw-flip":
		out = append([]byte{}, orig...)
		p := d.at(orig)
		mask := rfGarbage(d.Len, d.Seed)
		for i := 0; i < d.Len && p+i < len(out); i++ {
			out[p+i] ^= mask[i] | 1
		}
		return out, false, nil
	case "raw-overwrite":
		out = append([]byte{}, orig...)
		p := d.at(orig)
		copy(out[p:], rfGarbage(d.Len, d.Seed))
		return out, false, nil
	}
	if stream {
		content, err := rfGunzip(orig)
		if err != nil {
			return nil, false, err
		}
		switch d.Kind {
		case "swap":
			switch d.Text {
			case "other-format":
				out, err = rfZip([]rfEntry{{name: "0", data: content}})
				return out, false, err
			case "plain":
				return content, false, nil
			case "json":
				return []byte("{}\n"), false, nil
			default:
				return rfGarbage(d.Len, d.Seed), false, nil
			}
		}
		out, err = rfGzip(d.content(true, content))
		return out, false, err
	}
	es, _, err := rfUnzip(orig)
	if err != nil {
		return nil, false, err
	}
	if len(es) == 0 {
		return nil, false, fmt.Errorf("the archive has no entries")
	}
	e := entry
	if e < 0 || e >= len(es) {
		return nil, false, fmt.Errorf("entry %d of %d", e, len(es))
	}
	switch d.Kind {
	case "swap":
		switch d.Text {
		case "other-format":
			out, err = rfGzip(es[e].data)
			return out, false, err
		case "plain":
			return es[e].data, false, nil
		case "json":
			return []byte("{}\n"), false, nil
		default:
			return rfGarbage(d.Len, d.Seed), false, nil
		}
	case "entries":
		switch d.Text {
		case "drop-last":
			es = es[:len(es)-1]
		case "add-empty":
			es = append(es, rfEntry{name: strconv.Itoa(len(es))})
		case "add-copy":
			es = append(es, rfEntry{name: strconv.Itoa(len(es)), data: es[e].data})
		default: // reverse
			for i, j := 0, len(es)-1; i < j; i, j = i+1, j-1 {
				es[i], es[j] = es[j], es[i]
			}
		}
	default:
		es[e].data = d.content(false, es[e].data)
	}
	out, err = rfZip(es)
	return out, false, err
}

// rfReplaceFile puts new content under the name of the recording file the way a careful writer does
// (new file, then rename): goroutines of an earlier replay that still hold the old file keep reading
// the old content.
func rfReplaceFile(path string, content []byte) error {
	tmp := path + ".tmp"
	if err := os.WriteFile(tmp, content, 0o644); err != nil {
		return err
	}
	return os.Rename(tmp, path)
}

// ---------------------------------------------------------------- goroutines of a replay

var rfReplayFrames = []string{"kapacitor.replayBatchFromChan(", "kapacitor.readBatchFromIO(", "kapacitor.readPointsFromIO(", "kapacitor.replayStreamFromChan("}

var rfGoroutineRE = regexp.MustCompile(`^goroutine (\d+) \[([^\],]*)`)

// rfReplayGoroutines returns id -> state of the goroutines that run a reader or replayer of kapacitor's replay.
func rfReplayGoroutines() map[string]string {
	buf := make([]byte, 1<<20)
	for {
		n := runtime.Stack(buf, true)
		if n < len(buf) || len(buf) >= 64<<20 {
			buf = buf[:n]
			break
		}
		buf = make([]byte, 2*len(buf))
	}
	out := map[string]string{}
	for _, g := range strings.Split(string(buf), "\n\n") {
		hit := false
		for _, f := range rfReplayFrames {
			if strings.Contains(g, f) {
				hit = true
				break
			}
		}
		if !hit {
			continue
		}
		if m := rfGoroutineRE.FindStringSubmatch(g); m != nil {
			out[m[1]] = m[2]
		}
	}
	return out
}

// rfSettle waits until the reader and replayer goroutines that were started during the case (those not
// in before) have ended, so that a panic in one of them kills the process while the case is still in
// flight. It gives up when all of them have been parked on a channel, unchanged, for 100 ms (leaked:
// they will never run again) or after 5 s, and returns how many are left.
func rfSettle(before map[string]string) int {
	deadline := time.Now().Add(5 * time.Second)
	var last string
	var stableSince time.Time
	for n := 0; ; n++ {
		cur := rfReplayGoroutines()
		var ids []string
		parked := true
		for id, st := range cur {
			if _, old := before[id]; old {
				continue
			}
			ids = append(ids, id+":"+st)
			if !strings.HasPrefix(st, "chan ") && st != "select" {
				parked = false
			}
		}
		if len(ids) == 0 {
			return 0
		}
		sort.Strings(ids)
		sig := strings.Join(ids, " ")
		now := time.Now()
		if !parked || sig != last {
			last, stableSince = sig, now
		} else if now.Sub(stableSince) > 100*time.Millisecond {
			return len(ids)
		}
		if now.After(deadline) {
			return len(ids)
		}
		if n < 50 {
			time.Sleep(200 * time.Microsecond)
		} else {
			time.Sleep(2 * time.Millisecond)
		}
	}
}

// ---------------------------------------------------------------- the property body

func rfFail(sig, format string, args ...any) (string, string) {
	return sig, fmt.Sprintf(format, args...)
}

// rfStick keeps the shrinker on the defect class it found first (search only).
func rfStick[C any](core func(C, *kit.Case) (string, string)) func(C, *kit.Case) {
	first := ""
	return func(c C, cc *kit.Case) {
		sig, msg := core(c, cc)
		if sig == "" {
			return
		}
		if first == "" {
			first = sig
		}
		if sig == first {
			cc.Fail(sig, "%s", msg)
		}
	}
}

func runReplayFile(c RFCase, cc *kit.Case) {
	if sig, msg := replayFileCore(c, cc); sig != "" {
		cc.Fail(sig, "%s", msg)
	}
}

func rfGoroutines() string {
	buf := make([]byte, 1<<20)
	return firstKapacitorGoroutines(string(buf[:runtime.Stack(buf, true)]), 12)
}

func replayFileCore(c RFCase, cc *kit.Case) (string, string) {
	nsrc := len(c.Sources)
	stream := c.Kind == "stream"
	if nsrc == 0 || nsrc > 4 || (c.Kind != "batch" && c.Kind != "stream") || (stream && nsrc != 1) {
		return rfFail("harness/replayfile-case", "kind %q with %d sources", c.Kind, nsrc)
	}
	cc.Label("kind=" + c.Kind)
	cc.Label("damage=" + c.Damage.Kind)
	if !stream {
		cc.Label(fmt.Sprintf("sources=%d", nsrc))
	}
	hasData := false
	for i := range c.Sources {
		if _, p := c.expect(i); p > 0 {
			hasData = true
		}
	}

	// ---- the daemon's pieces around the replay service (server.appendReplayService)
	dir, err := os.MkdirTemp("", "verif-c05-replayfile")
	if err != nil {
		return rfFail("harness/replayfile-env", "temp dir: %v", err)
	}
	defer os.RemoveAll(dir)
	influx := &rfInflux{c: c, next: map[int]int{}}
	env, err := kit.NewEnv(kit.EnvOpts{Influx: influx})
	if err != nil {
		return rfFail("harness/replayfile-env", "task master: %v", err)
	}
	defer env.Close()
	store, err := kit.OpenStore(filepath.Join(dir, "kapacitor.db"))
	if err != nil {
		return rfFail("harness/replayfile-env", "bolt store: %v", err)
	}
	defer store.Close()
	u := kit.Unique()
	taskA, taskB, recID := "taskA"+u, "taskB"+u, "rec"+u
	dbrps := []kapacitor.DBRP{{Database: rfDB, RetentionPolicy: rfRP}}
	tasks := map[string]*kapacitor.Task{}
	for _, ts := range [][2]string{{taskA, "A"}, {taskB, "B"}} {
		script, tt := c.script(ts[1])
		task, err := env.TM.NewTask(ts[0], script, tt, dbrps, 0, nil)
		if err != nil {
			return rfFail("harness/replayfile-task", "task definition rejected: %v\n%s", err, script)
		}
		tasks[ts[0]] = task
	}
	routes := &rfRoutes{}
	saveDir := filepath.Join(dir, "replay")
	svc := replay.NewService(replay.Config{Dir: saveDir}, kit.DiagService.NewReplayHandler())
	svc.StorageService = store
	svc.TaskStore = rfTaskStore{tasks: tasks}
	svc.HTTPDService = routes
	svc.InfluxDBService = influx
	svc.TaskMaster = env.TM
	svc.TaskMasterLookup = kapacitor.NewTaskMasterLookup()
	if err := svc.Open(); err != nil {
		return rfFail("harness/replayfile-env", "replay service open: %v", err)
	}
	defer svc.Close()

	// ---- record: a valid recording made by the service itself
	var code int
	var body []byte
	if stream {
		q := fmt.Sprintf(`SELECT * FROM "%s"."%s"."%s0"`, rfDB, rfRP, rfSrc)
		code, body, err = routes.do("POST", "/recordings/query", "/recordings/query", kclient.RecordQueryOptions{ID: recID, Type: kclient.StreamTask, Query: q})
	} else {
		start := time.Unix(rfStart, 0).UTC()
		stop := start.Add(time.Duration(c.nQueries()) * time.Duration(rfWindow) * time.Second)
		if c.nQueries() == 0 {
			stop = start.Add(time.Second) // no query fits: an archive of empty entries
		}
		code, body, err = routes.do("POST", "/recordings/batch", "/recordings/batch", kclient.RecordBatchOptions{ID: recID, Task: taskA, Start: start, Stop: stop})
	}
	if err != nil {
		return rfFail("harness/replayfile-record", "%v", err)
	}
	if code != http.StatusCreated {
		return rfFail("harness/replayfile-record", "the recording request was answered with status %d: %s", code, rfClip(string(body), 400))
	}
	var recording kclient.Recording
	done, err := routes.await("/recordings", recID, &recording)
	if err != nil {
		return rfFail("harness/replayfile-record", "%v", err)
	}
	if !done {
		return rfFail("harness/replayfile-record", "the recording did not end within %v although the InfluxDB fake answers at once", rfBound)
	}
	if recording.Status != kclient.Finished || recording.Error != "" {
		return rfFail("harness/replayfile-record", "the recording ended with status %v, error %q", recording.Status, recording.Error)
	}
	ext := ".brpl"
	if stream {
		ext = ".srpl"
	}
	path := filepath.Join(saveDir, recID+ext)
	orig, err := os.ReadFile(path)
	if err != nil {
		return rfFail("harness/replayfile-record", "the finished recording has no file %s: %v", path, err)
	}

	// ---- shape of the recording (labels), archive entry of the damaged source
	entry := 0
	if stream {
		if len(orig) > 64<<10 {
			cc.Label("stream-file>64KiB")
		}
	} else {
		es, csize, err := rfUnzip(orig)
		if err != nil || len(es) != nsrc {
			return rfFail("harness/replayfile-record", "the recorded archive has %d entries for %d query nodes (error %v)", len(es), nsrc, err)
		}
		// the archive holds the entries in the order in which the executing batch node linked its query
		// nodes: the walk order of the pipeline, not the script order
		var order []int
		_ = tasks[taskA].Pipeline.Walk(func(n pipeline.Node) error {
			if qn, ok := n.(*pipeline.QueryNode); ok {
				if m := rfSrcRE.FindStringSubmatch(qn.QueryStr); m != nil {
					k, _ := strconv.Atoi(m[1])
					order = append(order, k)
				}
			}
			return nil
		})
		if len(order) != nsrc {
			return rfFail("harness/replayfile-record", "the pipeline walk found %d query nodes for %d sources", len(order), nsrc)
		}
		src := ((c.Damage.Source % nsrc) + nsrc) % nsrc
		for j, k := range order {
			if k == src {
				entry = j
			}
			// self-check of the mapping: an entry with data names the measurement of its source
			if len(es[j].data) > 0 && !bytes.HasPrefix(es[j].data, []byte(`{"name":"`+rfSrc+strconv.Itoa(k)+`"`)) {
				return rfFail("harness/replayfile-record", "archive entry %d does not start with a batch of source %d: %s", j, k, rfClip(string(es[j].data), 80))
			}
		}
		e := entry
		big, tiny := false, false
		for i := range es {
			if csize[i] > 64<<10 {
				big = true
			}
			if len(es[i].data) > 0 && len(es[i].data) < 2048 {
				tiny = true
			}
		}
		if big {
			cc.Label("entry>64KiB")
		}
		if big && tiny {
			cc.Label("entry>64KiB-next-to-entry<2KiB")
			if rfContentKinds[c.Damage.Kind] {
				if csize[e] > 64<<10 {
					cc.Label("damaged-the-large-entry-next-to-a-tiny-one")
				} else if len(es[e].data) < 2048 {
					cc.Label("damaged-the-tiny-entry-next-to-a-large-one")
				}
			}
		}
	}

	// ---- damage the file on disk
	damaged, remove, err := c.Damage.apply(stream, orig, entry)
	if err != nil {
		return rfFail("harness/replayfile-damage", "cannot damage the recording (%d bytes): %v", len(orig), err)
	}
	if remove {
		err = os.Remove(path)
	} else {
		err = rfReplaceFile(path, damaged)
	}
	if err != nil {
		return rfFail("harness/replayfile-damage", "%v", err)
	}
	noop := !remove && bytes.Equal(damaged, orig)
	if noop {
		cc.Label("damage-is-a-no-op")
	} else if hasData {
		cc.NonTrivial()
	}
	desc := fmt.Sprintf("recording file of %d bytes, damaged: %d bytes (removed=%v), damage %+v", len(orig), len(damaged), remove, c.Damage)

	// ---- replay the damaged file
	before := rfReplayGoroutines() // left behind by earlier cases of this process
	defer func() {
		// the case is over when the goroutines of its replays are: a panic in one of them belongs to this case
		if left := rfSettle(before); left > 0 {
			cc.Label("replay-goroutines-left-behind")
		}
	}()
	rep1 := "rep1" + u
	code, body, err = routes.do("POST", "/replays", "/replays", kclient.CreateReplayOptions{ID: rep1, Recording: recID, Task: taskA, RecordingTime: c.RecTime, Clock: kclient.Fast})
	if hp, ok := err.(*rfHandlerPanic); ok {
		return rfFail("replayfile/handler-panic/create-replay", "POST /replays panicked: %v\n%s", hp, desc)
	}
	if err != nil {
		return rfFail("harness/replayfile-route", "%v", err)
	}
	if code != http.StatusCreated {
		// the request was refused: an error at most
		cc.Label("outcome=refused")
	} else {
		var rep kclient.Replay
		routes.extraMiB = c.Damage.Len >> 20
		done, err = routes.await("/replays", rep1, &rep)
		if hp, ok := err.(*rfHandlerPanic); ok {
			return rfFail("replayfile/handler-panic/get-replay", "GET /replays/<id> panicked: %v\n%s", hp, desc)
		}
		if err != nil {
			return rfFail("harness/replayfile-route", "%v", err)
		}
		if !done {
			return rfFail("replayfile/hang/"+c.Kind+"/"+c.Damage.Kind, "the replay of the damaged recording was still running after %v (fast clock: nothing waits for time); %s\n%s", rfBound, desc, rfGoroutines())
		}
		switch {
		case rep.Status == kclient.Finished && rep.Error == "":
			cc.Label("outcome=finished")
		case rep.Status == kclient.Failed:
			cc.Label("outcome=failed")
			switch {
			case strings.Contains(rep.Error, "data source open"):
				cc.Label("failed:data-source-open")
			case strings.Contains(rep.Error, "running replay"):
				cc.Label("failed:running-replay")
			case strings.Contains(rep.Error, "task run"):
				cc.Label("failed:task-run")
			default:
				cc.Label("failed:other")
			}
		default:
			return rfFail("replayfile/final-state", "the replay of the damaged recording is neither running nor finished nor failed: status %v, error %q; %s", rep.Status, rep.Error, desc)
		}
	}

	// ---- the service still works: replay of the intact recording
	if err := rfReplaceFile(path, orig); err != nil {
		return rfFail("harness/replayfile-damage", "restore: %v", err)
	}
	rep2 := "rep2" + u
	task2, sink2 := taskA, "A"
	if c.OtherTask {
		task2, sink2 = taskB, "B"
		cc.Label("follow-up-with-another-task")
	}
	// what the damaged replay delivered to the sinks of the follow-up task: the replay is over, nothing is added any more
	count := func(i int) (nb, np int) {
		for _, o := range env.Sink.By(sink2 + strconv.Itoa(i)) {
			if o.B != nil {
				nb++
				np += len(o.B.Points)
			}
			if o.P != nil {
				np++
			}
		}
		return
	}
	baseB, baseP := make([]int, nsrc), make([]int, nsrc)
	for i := range c.Sources {
		baseB[i], baseP[i] = count(i)
	}
	code, body, err = routes.do("POST", "/replays", "/replays", kclient.CreateReplayOptions{ID: rep2, Recording: recID, Task: task2, RecordingTime: c.RecTime, Clock: kclient.Fast})
	if hp, ok := err.(*rfHandlerPanic); ok {
		return rfFail("replayfile/after/handler-panic", "POST /replays of the intact recording panicked: %v\n%s", hp, desc)
	}
	if err != nil {
		return rfFail("harness/replayfile-route", "%v", err)
	}
	if code != http.StatusCreated {
		return rfFail("replayfile/after/refused", "after the replay of the damaged file, the replay of the intact recording was answered with status %d: %s; %s", code, rfClip(string(body), 400), desc)
	}
	var rep kclient.Replay
	done, err = routes.await("/replays", rep2, &rep)
	if hp, ok := err.(*rfHandlerPanic); ok {
		return rfFail("replayfile/after/handler-panic", "GET /replays/<id> of the intact recording panicked: %v\n%s", hp, desc)
	}
	if err != nil {
		return rfFail("harness/replayfile-route", "%v", err)
	}
	if !done {
		return rfFail("replayfile/after/hang", "after the replay of the damaged file, the replay of the intact recording was still running after %v; %s\n%s", rfBound, desc, rfGoroutines())
	}
	if rep.Status != kclient.Finished || rep.Error != "" {
		return rfFail("replayfile/after/error", "after the replay of the damaged file, the replay of the intact recording ended with status %v, error %q; %s", rep.Status, rep.Error, desc)
	}
	for i := range c.Sources {
		wantB, wantP := c.expect(i)
		gotB, gotP := count(i)
		gotB, gotP = gotB-baseB[i], gotP-baseP[i]
		if gotB != wantB || gotP != wantP {
			return rfFail("replayfile/after/incomplete", "after the replay of the damaged file, the replay of the intact recording delivered %d batches / %d points of source %d, recorded were %d / %d; %s", gotB, gotP, i, wantB, wantP, desc)
		}
	}
	return "", ""
}

var assumptionsReplayFile = []string{
	"the replay service is assembled as server.appendReplayService does (StorageService = Bolt store, TaskStore, HTTPDService, InfluxDBService, TaskMaster, TaskMasterLookup) and driven through the handlers of its HTTP routes (POST /recordings/batch, POST /recordings/query, GET /recordings/<id>, POST /replays, GET /replays/<id>) with the option structs of client/v1; 202 Accepted = still running (copied from unit File of C18)",
	"InfluxDB is a fake that answers the k-th query naming measurement src<i> with one series of Rows rows (time, a 48-character string, a float; values from a splitmix64 sequence so that they do not compress) for k < Batches of source i and with an empty response otherwise; the task's query nodes use .period(1h).every(1h) and the recorded range is [start, start + max(Batches)*1h]",
	"the recording file is <save dir>/<recording id>.brpl (zip, one entry per query node) or .srpl (gzip): the harness reads, damages and restores it there between the requests, as an operator or a failing disk would; content-level damage re-packs the archive / the gzip stream with the writers the service uses (zip deflate, gzip)",
	"a replay of a damaged file may end finished (the damage left a valid recording, or the reader took a read error for the end of the data) or failed - both satisfy 'an error at most'; a POST /replays answered with another status than 201 is an error as well; only a process death, a panic out of a handler, a replay still running after 30 s plus 5 s per MiB of a generated huge line (fast clock: nothing waits for time) and an unknown final status are violations",
	"the follow-up replay runs the same task again (1 in 4 cases: a second task with the same query nodes and its own |log() sinks); it must finish without error and deliver exactly Batches batches and Batches*Rows points per source (stream: Rows points), counted at the |log() sinks from the moment the damaged replay has reached its final state (a finished or failed replay has closed its task master: it delivers nothing any more) - counts only, the content is the business of C18",
	"30 s bounds are hang detection only (signatures replayfile/hang/..., replayfile/after/hang); the polling interval is not a correctness signal",
	"the finding crash/.../send on closed channel (a damaged entry of a batch archive while batches are being collected) is repaired in /repo (8e04ce9): its input class is generated; VERIF_C05_REPLAYFILE_EXCLUDE=1 restricts such damage to position 0 of the damaged entry with every other source empty again (for an older tree)",
}

func TestReplayFile(t *testing.T) {
	r := kit.NewRec("C05", "ReplayFile", ruleReplayFile, assumptionsReplayFile...)
	kit.Check(t, r, genReplayFile(r), rfStick(replayFileCore))
}

func TestReplayReplayFile(t *testing.T) {
	r := kit.NewRec("C05", "ReplayFile", ruleReplayFile, assumptionsReplayFile...)
	kit.Replay(t, r, runReplayFile)
}
