// C05 (a) — definition plane: every text offered as TICKscript returns a task or an error; it
// never panics, hangs, leaks goroutines or terminates the process.
package c05

import (
	"fmt"
	"os"
	"runtime"
	"strconv"
	"strings"
	"testing"
	"time"

	"verifharness/kit"

	"github.com/influxdata/kapacitor/pipeline"
	"github.com/influxdata/kapacitor/tick"
	"github.com/influxdata/kapacitor/tick/ast"
	"github.com/influxdata/kapacitor/tick/stateful"
	"pgregory.net/rapid"
)

// the token alphabet of the exhaustive enumeration
var alphabet = []string{
	"/", "'", "\"", "|", ".", "@", "(", ")", ",", ":", "=", "!", "<", ">", "+", "-", "*", "%", "\\", "\n",
	" ", "1", "a", "é", "€", "\xff", "\x80", "\xbf", "\xc3", "\xe2\x82", "lambda", "var", "TRUE", "AND", "1s", "//", "'''", "stream", "from", "x", "0.5", "=~", "[", "]",
}

// real scripts into which short strings are spliced
var hosts = []string{
	"stream|from().measurement('m').where(lambda: \"v\" > 1)|window().period(10s).every(5s)|count('v')|alert().crit(lambda: \"count\" > 3).log('/tmp/x')",
	"var x = 5\nvar p = batch|query('SELECT v FROM \"db\".\"rp\".\"m\"').period(1m).every(30s).groupBy(time(10s), 'host')\np|eval(lambda: \"v\" * x / 2.0).as('e').keep()|httpOut('out')",
	"// comment\nvar re = /^a.*b$/\nstream|from().where(lambda: \"host\" =~ re AND !(\"v\" < -1.5e3))|groupBy(*)|stateDuration(lambda: TRUE).unit(1m)",
}

type deadman struct{}

func (deadman) Interval() time.Duration { return 0 }
func (deadman) Threshold() float64      { return 0 }
func (deadman) Id() string              { return "" }
func (deadman) Message() string         { return "" }
func (deadman) Global() bool            { return false }

// define runs one text through every definition entry point. It returns a description of a
// panic that escaped to the caller, or "".
func define(script string) (escaped string, accepted bool) {
	call := func(name string, f func()) {
		defer func() {
			if r := recover(); r != nil && escaped == "" {
				buf := make([]byte, 2048)
				buf = buf[:runtime.Stack(buf, false)]
				escaped = fmt.Sprintf("%s panicked: %v\n%s", name, r, buf)
			}
		}()
		f()
	}
	call("ast.Parse", func() { ast.Parse(script) })
	call("tick.Format", func() { tick.Format(script) })
	call("pipeline.CreatePipeline(stream)", func() {
		if _, err := pipeline.CreatePipeline(script, pipeline.StreamEdge, stateful.NewScope(), deadman{}, nil); err == nil {
			accepted = true
		}
	})
	call("pipeline.CreatePipeline(batch)", func() {
		if _, err := pipeline.CreatePipeline(script, pipeline.BatchEdge, stateful.NewScope(), deadman{}, nil); err == nil {
			accepted = true
		}
	})
	call("pipeline.CreateTemplatePipeline", func() {
		pipeline.CreateTemplatePipeline(script, pipeline.StreamEdge, stateful.NewScope(), deadman{})
	})
	call("ast.ParseLambda", func() { ast.ParseLambda(script) })
	return
}

// settle waits for transient goroutines (the lexer) to end; false = still above the baseline.
func settle(base int) bool {
	for i := 0; i < 2000; i++ {
		if runtime.NumGoroutine() <= base {
			return true
		}
		if i < 100 {
			runtime.Gosched()
		} else {
			time.Sleep(time.Millisecond)
		}
	}
	return runtime.NumGoroutine() <= base
}

func panicSig(desc string) string {
	// first kapacitor frame of the stack
	for _, line := range strings.Split(desc, "\n") {
		if strings.HasPrefix(line, "github.com/influxdata/kapacitor/") && !strings.Contains(line, "verifharness") {
			f := strings.TrimPrefix(line, "github.com/influxdata/kapacitor/")
			if i := strings.LastIndex(f, "("); i > 0 {
				f = f[:i]
			}
			return "def/panic/" + f
		}
	}
	return "def/panic/?"
}

// checkText is the oracle for one text.
func checkText(script string, cc *kit.Case, base int) {
	esc, _ := define(script)
	if esc != "" {
		cc.Fail(panicSig(esc), "defining %q: %s", script, esc)
		return
	}
	if !settle(base) {
		buf := make([]byte, 1<<16)
		buf = buf[:runtime.Stack(buf, true)]
		cc.Fail("def/goroutine-leak", "defining %q leaves %d goroutines behind (baseline %d)\n%s", script, runtime.NumGoroutine()-base, base, firstKapacitorGoroutines(string(buf), 3))
	}
}

func firstKapacitorGoroutines(dump string, n int) string {
	var keep []string
	for _, g := range strings.Split(dump, "\n\n") {
		if strings.Contains(g, "influxdata/kapacitor") && !strings.Contains(g, "verifharness") {
			keep = append(keep, g)
			if len(keep) == n {
				break
			}
		}
	}
	return strings.Join(keep, "\n\n")
}

// ---------------------------------------------------------------- exhaustive short strings

// Chunk is a slice of the enumeration: all strings of Len alphabet symbols with index in
// [Start, Start+Count), optionally spliced into host script Host at byte position At.
type Chunk struct {
	Len   int `json:"len"`
	Start int `json:"start"`
	Count int `json:"count"`
	Host  int `json:"host"` // -1: the short string alone
	At    int `json:"at"`
}

const ruleShort = "exhaustive: every string of <= L symbols over a 40-symbol token alphabet (quick L=3 alone and L<=2 spliced into 10 positions of 3 real scripts; thorough L=4 and L<=3 spliced), through ast.Parse, tick.Format, pipeline.CreatePipeline (stream and batch), CreateTemplatePipeline and ast.ParseLambda; " +
	"oracle: returns (value or error), no panic reaches the caller, process alive, goroutine count back at the baseline; non-trivial = a text accepted by some entry point or rejected after its first byte; cases are chunks of the enumeration, distinct by chunk"

func nth(l, idx int) string {
	var sb strings.Builder
	for i := 0; i < l; i++ {
		sb.WriteString(alphabet[idx%len(alphabet)])
		idx /= len(alphabet)
	}
	return sb.String()
}

func pow(b, e int) int {
	r := 1
	for i := 0; i < e; i++ {
		r *= b
	}
	return r
}

func splicePositions(h string) []int {
	var out []int
	for i := 0; i < 10; i++ {
		out = append(out, (len(h)*i)/10)
	}
	return out
}

func runChunk(c Chunk, cc *kit.Case) {
	base := runtime.NumGoroutine()
	acc, rejLate := false, false
	for i := c.Start; i < c.Start+c.Count && i < pow(len(alphabet), c.Len); i++ {
		s := nth(c.Len, i)
		if c.Host >= 0 {
			h := hosts[c.Host]
			s = h[:c.At] + s + h[c.At:]
		}
		progress(s)
		checkText(s, cc, base)
		if cc.Failed() {
			return
		}
		if _, err := ast.Parse(s); err == nil {
			acc = true
		} else if !strings.Contains(err.Error(), "char 1 ") {
			rejLate = true
		}
	}
	if acc || rejLate {
		cc.NonTrivial()
	}
	if acc {
		cc.Label("chunk-with-accepted-text")
	}
}

// progress keeps the text being defined in a side file, so that a process-fatal crash can be
// pinned to it (the driver attributes the crash to the chunk).
var progressFile *os.File

func progress(s string) {
	if progressFile == nil {
		p := os.Getenv("VERIF_INFLIGHT")
		if p == "" {
			return
		}
		f, err := os.OpenFile(p+".text", os.O_CREATE|os.O_RDWR|os.O_TRUNC, 0o644)
		if err != nil {
			return
		}
		progressFile = f
	}
	b := []byte(strconv.Quote(s) + "\n")
	progressFile.WriteAt(b, 0)
	progressFile.Truncate(int64(len(b)))
}

func TestShort(t *testing.T) {
	r := kit.NewRec("C05", "Short", ruleShort, assumptionsDef...)
	r.SetExhaustive(true)
	defer r.Flush()
	shard, _ := strconv.Atoi(os.Getenv("VERIF_SHARD"))
	nshards, _ := strconv.Atoi(os.Getenv("VERIF_NSHARDS"))
	if nshards == 0 {
		nshards = 1
	}
	maxAlone, maxSpliced := 3, 2
	if kit.Tier() == "thorough" {
		maxAlone, maxSpliced = 4, 3
	}
	const chunkSize = 4096
	var chunks []Chunk
	for l := 0; l <= maxAlone; l++ {
		for s := 0; s < pow(len(alphabet), l); s += chunkSize {
			chunks = append(chunks, Chunk{Len: l, Start: s, Count: chunkSize, Host: -1})
		}
	}
	for l := 1; l <= maxSpliced; l++ {
		for h := range hosts {
			for _, at := range splicePositions(hosts[h]) {
				for s := 0; s < pow(len(alphabet), l); s += chunkSize {
					chunks = append(chunks, Chunk{Len: l, Start: s, Count: chunkSize, Host: h, At: at})
				}
			}
		}
	}
	for i, c := range chunks {
		if i%nshards != shard {
			continue
		}
		cc := r.Begin(c)
		runChunk(c, cc)
		n := c.Count
		if rest := pow(len(alphabet), c.Len) - c.Start; rest < n {
			n = rest
		}
		cc.Label("texts:" + strconv.Itoa(n)) // label histogram keeps the number of texts
		cc.End()
		r.AddEvaluations(int64(n - 1))
		if cc.Failed() {
			t.Fatalf("%s", cc.Message())
		}
	}
}

func TestReplayShort(t *testing.T) {
	r := kit.NewRec("C05", "Short", ruleShort, assumptionsDef...)
	kit.Replay(t, r, runChunk)
}

// ---------------------------------------------------------------- almost valid scripts

type Text struct {
	S string `json:"s"`
}

const ruleGrammar = "rapid: valid task scripts from a node menu with 0-3 token-level mutations (delete, duplicate, swap, replace by an alphabet symbol, insert) and hostile literals; same entry points and oracle as Short; " +
	"non-trivial = the text is accepted or rejected after its first line; distinct by text"

var fragments = []string{
	"|where(lambda: \"v\" > 1)", "|where(lambda: \"a\" == 'x' AND (\"b\" != 2 OR !\"c\"))", "|eval(lambda: \"v\" * 2.0, lambda: sigma(\"v\")).as('a', 'b').keep('a')",
	"|window().period(10s).every(5s).align()", "|window().periodCount(5).everyCount(1)", "|count('v')", "|mean('v').as('m')", "|percentile('v', 95.0)", "|top(3, 'v', 'host')",
	"|groupBy('host', 'dc')", "|groupBy(*).exclude('x').byMeasurement()", "|alert().id('{{ .Name }}').info(lambda: \"v\" > 1).crit(lambda: \"v\" > 2).critReset(lambda: \"v\" < 1).stateChangesOnly(5m).log('/tmp/a').post('http://x').topic('t')",
	"|derivative('v').unit(1m).nonNegative()", "|stateCount(lambda: \"v\" > 0)", "|stateDuration(lambda: TRUE).unit(1s)", "|sample(3)", "|sample(10s)", "|shift(-5m)", "|default().field('f', 1.5).tag('t', 'x')", "|delete().field('f')",
	"|flatten().on('a', 'b').tolerance(1s)", "|combine(lambda: \"a\" == 'x', lambda: TRUE).as('l', 'r')", "|httpOut('x')", "|influxDBOut().database('d').retentionPolicy('r').tag('k', 'v').buffer(10)", "|log().prefix('p').level('DEBUG')",
	"|changeDetect('v')", "|barrier().idle(10s)", "|kapacitorLoopback().database('d').retentionPolicy('r')", "|httpPost('http://x')", "|elapsed('v', 1s)", "|holtWinters('v', 3, 2, 1m)", "|sideload().source('file:///x').order('a.yml').field('f', 1)",
	"|deadman(10.0, 1m)", "|stats(1s)", "@udf().opt(1)", "|k8sAutoscale().resourceName('r').replicas(lambda: 1)", "|swarmAutoscale().serviceName('s').replicas(lambda: int(\"v\"))",
}

func tokenize(s string) []string {
	var out []string
	cur := ""
	flush := func() {
		if cur != "" {
			out = append(out, cur)
			cur = ""
		}
	}
	for _, r := range s {
		c := string(r)
		if strings.ContainsAny(c, "|.()',:\"<>=!+-*/% \n") {
			flush()
			out = append(out, c)
		} else {
			cur += c
		}
	}
	flush()
	return out
}

func genText(t *rapid.T) Text {
	var sb strings.Builder
	if rapid.Bool().Draw(t, "vars") {
		sb.WriteString(rapid.SampledFrom([]string{"var x = 5\n", "var re = /a\\/b/\n", "var d = 10s\n", "var l = lambda: \"v\" > 1\n", "var s = 'it''s'\n", "var name string\n", "var n = -1.5\n", "// c\n"}).Draw(t, "var"))
	}
	if rapid.Bool().Draw(t, "batch") {
		sb.WriteString("batch|query('SELECT mean(v) FROM \"db\".\"rp\".\"m\" WHERE x = 1').period(1m).every(10s).groupBy(time(10s), *).fill(0)")
	} else {
		sb.WriteString(rapid.SampledFrom([]string{"stream|from()", "stream|from().measurement('m').database('db').retentionPolicy('rp').where(lambda: \"x\" =~ /a/).groupBy('h').truncate(1s)", "var p = stream|from()\np"}).Draw(t, "src"))
	}
	k := rapid.IntRange(0, 4).Draw(t, "k")
	for i := 0; i < k; i++ {
		sb.WriteString(rapid.SampledFrom(fragments).Draw(t, "frag"))
		if rapid.IntRange(0, 5).Draw(t, "nl") == 0 {
			sb.WriteString("\n    // comment\n    ")
		}
	}
	toks := tokenize(sb.String())
	m := rapid.IntRange(0, 3).Draw(t, "mutations")
	for i := 0; i < m && len(toks) > 0; i++ {
		p := rapid.IntRange(0, len(toks)-1).Draw(t, "pos")
		switch rapid.IntRange(0, 6).Draw(t, "mut") {
		case 5, 6:
			// drop the parenthesised argument list that follows position p (method used as a property)
			for q := p; q < len(toks); q++ {
				if toks[q] != "(" {
					continue
				}
				depth, e := 0, q
				for ; e < len(toks); e++ {
					if toks[e] == "(" {
						depth++
					} else if toks[e] == ")" {
						depth--
						if depth == 0 {
							break
						}
					}
				}
				if e < len(toks) {
					if rapid.Bool().Draw(t, "keepparens") {
						toks = append(toks[:q+1], toks[e:]...) // keep "()" but drop the arguments
					} else {
						toks = append(toks[:q], toks[e+1:]...)
					}
				}
				break
			}
		case 0:
			toks = append(toks[:p], toks[p+1:]...)
		case 1:
			toks = append(toks[:p+1], toks[p:]...)
		case 2:
			q := rapid.IntRange(0, len(toks)-1).Draw(t, "pos2")
			toks[p], toks[q] = toks[q], toks[p]
		case 3:
			toks[p] = rapid.SampledFrom(alphabet).Draw(t, "sym")
		case 4:
			ins := rapid.SampledFrom(append([]string{"9223372036854775808", "1e999", "-", "lambda:", "''", "{{", "\x00", " ", "0x10", "1ns", "1w"}, alphabet...)).Draw(t, "ins")
			toks = append(toks[:p], append([]string{ins}, toks[p:]...)...)
		}
	}
	return Text{S: strings.Join(toks, "")}
}

func runText(c Text, cc *kit.Case) {
	base := runtime.NumGoroutine()
	checkText(c.S, cc, base)
	if _, err := ast.Parse(c.S); err == nil {
		cc.Label("parses")
		cc.NonTrivial()
		if _, ok := define(c.S); ok {
			cc.Label("defines-a-pipeline")
		}
	} else if !strings.Contains(err.Error(), "line 1 ") {
		cc.NonTrivial()
	}
}

var assumptionsDef = []string{
	"entry points: ast.Parse, ast.ParseLambda, tick.Format, pipeline.CreatePipeline (stream and batch source), pipeline.CreateTemplatePipeline - what TaskMaster.NewTask/NewTemplate and the task API call",
	"a panic that kapacitor itself recovers and returns as an error is fine; a panic that reaches the harness's recover, or that kills the process (panic in a goroutine of the code under test), is a violation",
	"goroutine leak = runtime.NumGoroutine() does not return to the value before the call within 2 s",
}

func TestGrammar(t *testing.T) {
	r := kit.NewRec("C05", "Grammar", ruleGrammar, assumptionsDef...)
	kit.Check(t, r, genText, runText)
}

func TestReplayGrammar(t *testing.T) {
	r := kit.NewRec("C05", "Grammar", ruleGrammar, assumptionsDef...)
	kit.Replay(t, r, runText)
}
