// C05 (f) — JSON pipelines and JSON lambdas: every document returns a pipeline/expression or an error.
package c05

import (
	"encoding/json"
	"fmt"
	"runtime"
	"strings"
	"testing"

	"verifharness/kit"

	"github.com/influxdata/kapacitor/pipeline"
	"github.com/influxdata/kapacitor/tick/ast"
	"github.com/influxdata/kapacitor/tick/stateful"
	"pgregory.net/rapid"
)

type JSONCase struct {
	Lambda bool   `json:"lambda"` // a lambda AST document (else a pipeline document)
	Doc    string `json:"doc"`
}

const ruleJSON = "rapid: JSON documents obtained by marshalling real pipelines (from the script menu) and lambda ASTs and then mutating them at the value level (unknown/missing typeOf, null, wrong JSON type, huge numbers, deleted keys, truncated text), read back with pipeline.Unmarshal / ast.LambdaNode.UnmarshalJSON; " +
	"oracle: returns (value or error), no panic reaches the caller, process alive; non-trivial = the document is still well-formed JSON after the mutation; distinct by document"

func genJSON(t *rapid.T) JSONCase {
	c := JSONCase{Lambda: rapid.Bool().Draw(t, "lambda")}
	var doc []byte
	if c.Lambda {
		src := rapid.SampledFrom(hazardLambdas).Draw(t, "src")
		l, err := ast.ParseLambda(src)
		if err != nil {
			l, _ = ast.ParseLambda("\"a\" > 1")
		}
		doc, _ = json.Marshal(l)
	} else {
		script := "stream|from().measurement('m')"
		k := rapid.IntRange(1, 3).Draw(t, "k")
		for i := 0; i < k; i++ {
			script += rapid.SampledFrom(fragments).Draw(t, "frag")
		}
		p, err := pipeline.CreatePipeline(script, pipeline.StreamEdge, stateful.NewScope(), deadman{}, nil)
		if err != nil {
			p, _ = pipeline.CreatePipeline("stream|from()|window().period(1s).every(1s)", pipeline.StreamEdge, stateful.NewScope(), deadman{}, nil)
		}
		doc, _ = json.Marshal(p)
	}
	// value-level mutations of the decoded document
	var v interface{}
	if err := json.Unmarshal(doc, &v); err != nil {
		c.Doc = string(doc)
		return c
	}
	m := rapid.IntRange(0, 3).Draw(t, "mutations")
	for i := 0; i < m; i++ {
		v = mutate(t, v, 0)
	}
	out, _ := json.Marshal(v)
	c.Doc = string(out)
	if rapid.IntRange(0, 9).Draw(t, "truncate") == 0 && len(c.Doc) > 2 {
		c.Doc = c.Doc[:rapid.IntRange(1, len(c.Doc)-1).Draw(t, "cut")]
	}
	return c
}

var hostileJSON = []interface{}{nil, true, 1.0, -1.0, 1e308, "x", "", []interface{}{}, map[string]interface{}{}, map[string]interface{}{"typeOf": "nosuch"}, map[string]interface{}{"typeOf": 5.0}, []interface{}{nil}, "9223372036854775808"}

// mutate changes one place of the document: descends randomly and replaces, deletes or retypes.
func mutate(t *rapid.T, v interface{}, depth int) interface{} {
	switch x := v.(type) {
	case map[string]interface{}:
		if len(x) == 0 {
			return v
		}
		keys := kit.SortedKeys(x)
		k := rapid.SampledFrom(keys).Draw(t, "key")
		switch rapid.IntRange(0, 5).Draw(t, "mapmut") {
		case 0:
			delete(x, k)
		case 1:
			x[k] = rapid.SampledFrom(hostileJSON).Draw(t, "hostile")
		case 2:
			if k == "typeOf" {
				x[k] = rapid.SampledFrom([]interface{}{"nosuch", "", "lambda", "program", "func", "binary", nil, 3.0, "stream", "window"}).Draw(t, "typeof")
			} else {
				x[k] = mutate(t, x[k], depth+1)
			}
		default:
			x[k] = mutate(t, x[k], depth+1)
		}
		return x
	case []interface{}:
		if len(x) == 0 {
			return append(x, rapid.SampledFrom(hostileJSON).Draw(t, "hostile"))
		}
		i := rapid.IntRange(0, len(x)-1).Draw(t, "idx")
		switch rapid.IntRange(0, 3).Draw(t, "arrmut") {
		case 0:
			return append(x[:i], x[i+1:]...)
		case 1:
			x[i] = rapid.SampledFrom(hostileJSON).Draw(t, "hostile")
		default:
			x[i] = mutate(t, x[i], depth+1)
		}
		return x
	default:
		return rapid.SampledFrom(hostileJSON).Draw(t, "hostile")
	}
}

func runJSON(c JSONCase, cc *kit.Case) {
	var probe interface{}
	if json.Unmarshal([]byte(c.Doc), &probe) == nil {
		cc.NonTrivial()
	}
	escaped := ""
	func() {
		defer func() {
			if r := recover(); r != nil {
				buf := make([]byte, 2048)
				buf = buf[:runtime.Stack(buf, false)]
				escaped = fmt.Sprintf("%v\n%s", r, buf)
			}
		}()
		if c.Lambda {
			l := &ast.LambdaNode{}
			if err := l.UnmarshalJSON([]byte(c.Doc)); err == nil {
				cc.Label("lambda-accepted")
				// an accepted lambda must also be usable
				if l.Expression != nil {
					stateful.NewExpression(l.Expression)
					_ = l.Format
				}
			}
		} else {
			p := &pipeline.Pipeline{}
			if err := p.Unmarshal([]byte(c.Doc)); err == nil {
				cc.Label("pipeline-accepted")
				p.Dot("x")
				json.Marshal(p)
			}
		}
	}()
	if escaped != "" {
		cc.Fail(panicSig(escaped)+"/json", "reading the JSON document %s panicked: %s", c.Doc, escaped)
	}
	_ = strings.TrimSpace
}

func TestJSON(t *testing.T) {
	r := kit.NewRec("C05", "JSON", ruleJSON, "entry points: pipeline.Pipeline.Unmarshal (what the task API calls for JSON pipelines) and ast.LambdaNode.UnmarshalJSON; accepted documents are additionally rendered (Dot, Marshal) / compiled")
	kit.Check(t, r, genJSON, runJSON)
}

func TestReplayJSON(t *testing.T) {
	r := kit.NewRec("C05", "JSON", ruleJSON)
	kit.Replay(t, r, runJSON)
}
