// C05 (g) — hostile numeric parameters: a script whose properties carry extreme numbers is either
// rejected when it is defined or runs without taking the process down or hanging.
package c05

import (
	"fmt"
	"strings"
	"testing"
	"time"

	"verifharness/kit"

	"pgregory.net/rapid"
)

type ParamCase struct {
	Tmpl int      `json:"tmpl"`
	Vals []string `json:"vals"`
	N    int      `json:"n"`
}

const ruleParams = "rapid: node properties that take numbers (window period/every/periodCount/everyCount, sample, shift, movingAverage, top/bottom, percentile, holtWinters, derivative/stateDuration/elapsed units, flatten/combine tolerance and max, alert history/flapping/stateChangesOnly, influxDBOut buffer/flushInterval, barrier, from truncate/round, eval/where with literal arithmetic) filled with hostile literals (0, negative, max int64, huge/zero/negative durations, out-of-range floats) and run over a few well-formed points; " +
	"oracle: definition returns task or error; a defined task runs to the end of its input within the bound and the process stays alive (the task itself may fail); non-trivial = the script was accepted; distinct by case hash"

// %I int, %D duration, %F float
var paramTemplates = []string{
	"stream|from().measurement('m')|window().period(%D).every(%D)|count('f')|log().prefix('S')",
	"stream|from().measurement('m')|window().period(%D).every(%D).align().fillPeriod()|log().prefix('S')",
	"stream|from().measurement('m')|window().periodCount(%I).everyCount(%I)|log().prefix('S')",
	"stream|from().measurement('m')|window().periodCount(%I).everyCount(%I).fillPeriod()|sum('i')|log().prefix('S')",
	"stream|from().measurement('m')|sample(%I)|log().prefix('S')",
	"stream|from().measurement('m')|sample(%D)|log().prefix('S')",
	"stream|from().measurement('m')|shift(%D)|log().prefix('S')",
	"stream|from().measurement('m')|movingAverage('f', %I)|log().prefix('S')",
	"stream|from().measurement('m')|window().periodCount(3).everyCount(1)|top(%I, 'f')|log().prefix('S')",
	"stream|from().measurement('m')|window().periodCount(3).everyCount(1)|bottom(%I, 'f', 'h')|log().prefix('S')",
	"stream|from().measurement('m')|window().periodCount(3).everyCount(1)|percentile('f', %F)|log().prefix('S')",
	"stream|from().measurement('m')|window().periodCount(4).everyCount(1)|holtWinters('f', %I, %I, 500ms)|log().prefix('S')",
	"stream|from().measurement('m')|window().periodCount(4).everyCount(1)|holtWintersWithFit('f', %I, %I, 500ms)|log().prefix('S')",
	"stream|from().measurement('m')|derivative('f').unit(%D)|log().prefix('S')",
	"stream|from().measurement('m')|stateDuration(lambda: TRUE).unit(%D)|log().prefix('S')",
	"stream|from().measurement('m')|elapsed('f', %D)|log().prefix('S')",
	"stream|from().measurement('m')|flatten().on('h').tolerance(%D)|log().prefix('S')",
	"stream|from().measurement('m')|combine(lambda: TRUE, lambda: TRUE).as('a', 'b').tolerance(%D).max(%I)|log().prefix('S')",
	"stream|from().measurement('m')|alert().crit(lambda: TRUE).history(%I).flapping(%F, %F).stateChangesOnly(%D)|log().prefix('S')",
	"stream|from().measurement('m')|influxDBOut().database('d').buffer(%I).flushInterval(%D)|log().prefix('S')",
	"stream|from().measurement('m')|barrier().idle(%D)|log().prefix('S')",
	"stream|from().measurement('m')|barrier().period(%D).delete(TRUE)|log().prefix('S')",
	"stream|from().measurement('m').truncate(%D).round(%D)|log().prefix('S')",
	"stream|from().measurement('m')|eval(lambda: %I / %I, lambda: %I %% %I, lambda: %F / %F, lambda: %D / %D).as('a', 'b', 'c', 'd')|log().prefix('S')",
	"stream|from().measurement('m')|where(lambda: \"i\" / %I > %I)|log().prefix('S')",
	"stream|from().measurement('m')|eval(lambda: strSubstring('abc', %I, %I)).as('a')|log().prefix('S')",
	"stream|from().measurement('m')|stats(%D)|log().prefix('S')",
	"stream|from().measurement('m')|deadman(%F, %D)|log().prefix('S')",
	"stream|from().measurement('m')|join(stream|from().measurement('m2')).as('a', 'b').tolerance(%D).fill(%F)|log().prefix('S')",
	"stream|from().measurement('m')|window().period(10s).every(%D)|httpOut('x')",
	"stream|from().measurement('m')|cumulativeSum('i')|window().periodCount(%I)|log().prefix('S')",
	"stream|from().measurement('m')|changeDetect('i')|sample(%I)|log().prefix('S')",
	"batch|query('SELECT f FROM \"db\".\"rp\".\"m\"').period(%D).every(%D).offset(%D).groupBy(time(%D))|log().prefix('S')",
}

var hostileInts = []string{"0", "-1", "1", "2", "-9223372036854775807", "9223372036854775807", "1000000000", "-2", "3"}
var hostileDurs = []string{"0s", "-1s", "1s", "1u", "-1u", "1ms", "106751d", "-106751d", "1h", "10s"}
var hostileFloats = []string{"0.0", "-1.0", "0.5", "1.0", "100.0", "101.0", "-0.5", "1e308", "99.9999"}

var rec5 *kit.Rec

func genParams(t *rapid.T) ParamCase {
	c := ParamCase{Tmpl: rapid.IntRange(0, len(paramTemplates)-1).Draw(t, "tmpl"), N: rapid.IntRange(1, 12).Draw(t, "n")}
	tmpl := paramTemplates[c.Tmpl]
	for i := 0; i+1 < len(tmpl); i++ {
		if tmpl[i] != '%' {
			continue
		}
		switch tmpl[i+1] {
		case 'I':
			v := rapid.SampledFrom(hostileInts).Draw(t, "int")
			if len(v) >= 10 && v[0] != '-' && !strings.Contains(tmpl, "lambda: %") && !strings.Contains(tmpl, "/ %I") && !strings.Contains(tmpl, "strSubstring") {
				// a count of 10^9 or more makes the node allocate that many elements (window buffers, reducer
				// heaps, alert history): memory exhaustion of the sandbox, not generated outside lambdas
				rec5.Exclude("count-parameter-of-1e9-or-more")
				v = "7"
			}
			c.Vals = append(c.Vals, v)
		case 'D':
			c.Vals = append(c.Vals, rapid.SampledFrom(hostileDurs).Draw(t, "dur"))
		case 'F':
			c.Vals = append(c.Vals, rapid.SampledFrom(hostileFloats).Draw(t, "float"))
		}
		i++
	}
	return c
}

func (c ParamCase) script() string {
	tmpl := paramTemplates[c.Tmpl]
	var sb strings.Builder
	k := 0
	for i := 0; i < len(tmpl); i++ {
		if tmpl[i] == '%' && i+1 < len(tmpl) {
			switch tmpl[i+1] {
			case 'I', 'D', 'F':
				v := "0"
				if k < len(c.Vals) {
					v = c.Vals[k]
				}
				k++
				sb.WriteString(v)
				i++
				continue
			case '%':
				sb.WriteByte('%')
				i++
				continue
			}
		}
		sb.WriteByte(tmpl[i])
	}
	return sb.String()
}

func runParams(c ParamCase, cc *kit.Case) {
	script := c.script()
	cc.Label(fmt.Sprintf("tmpl:%02d", c.Tmpl))
	env, err := kit.NewEnv(kit.EnvOpts{Alerts: strings.Contains(script, "|alert()"), Influx: nullInflux{}})
	if err != nil {
		cc.Fail("harness/env", "env: %v", err)
		return
	}
	skipClose := false
	defer func() {
		if !skipClose {
			env.Close()
		}
	}()
	var pts []kit.Pt
	for i := 0; i < c.N; i++ {
		pts = append(pts, kit.Pt{Name: "m", Tags: map[string]string{"h": fmt.Sprintf("h%d", i%2)}, Fields: map[string]kit.FV{"i": kit.I(int64(i)), "f": kit.F(float64(i) + 0.5), "s": kit.S("abc")},
			Time: dt0 + int64(i)*dsec/2})
		pts = append(pts, kit.Pt{Name: "m2", Tags: map[string]string{"h": "h0"}, Fields: map[string]kit.FV{"f": kit.F(1)}, Time: dt0 + int64(i)*dsec/2})
	}
	type res struct{ defErr, runErr error }
	done := make(chan res, 1)
	go func() {
		var r res
		if strings.HasPrefix(script, "batch") {
			bt := kit.Bt{Name: "m", TMax: dt0 + 10*dsec, Points: []kit.Pt{}}
			for _, p := range pts {
				if p.Name == "m" {
					bt.Points = append(bt.Points, kit.Pt{Tags: p.Tags, Fields: p.Fields, Time: p.Time})
				}
			}
			r.defErr, r.runErr = env.RunBatch(script, [][]kit.Bt{{bt}})
		} else {
			r.defErr, r.runErr = env.RunStream(script, pts)
		}
		done <- r
	}()
	select {
	case r := <-done:
		if r.defErr != nil {
			cc.Label("rejected-at-definition")
			return
		}
		cc.NonTrivial()
		if r.runErr != nil {
			cc.Label("task-failed-at-run-time")
		}
	case <-time.After(30 * time.Second):
		skipClose = true
		cc.Fail("params/hang", "the task did not come to the end of %d points within 30 s\nscript: %s", len(pts), script)
	}
}

func TestParams(t *testing.T) {
	r := kit.NewRec("C05", "Params", ruleParams, "a script rejected when it is defined, and a defined task that fails at run time with an error, are both accepted here; a process death (panic in a goroutine nothing recovers) or a task that never reaches the end of its input is a violation",
		"count-like parameters of 10^9 or more are not generated outside lambdas: nodes allocate that many elements, which exhausts the sandbox's memory (resource limits are not part of the property); the holtWinters interval equals the spacing of the data (a much smaller interval makes InfluxDB's reducer fill millions of slots)")
	rec5 = r
	kit.Check(t, r, genParams, runParams)
}

func TestReplayParams(t *testing.T) {
	r := kit.NewRec("C05", "Params", ruleParams)
	kit.Replay(t, r, runParams)
}
