// C05 (f2) — JSON pipelines and JSON lambdas on the data plane: a JSON pipeline that is ACCEPTED is a
// task definition like any other; the task it defines reports an error for a data point at most and
// keeps processing subsequent points.
//
// Unit JSON reads documents and renders / compiles what was accepted. It never evaluated an accepted
// document against data, so a reader that returns a half-built AST node (a member that was null,
// missing or of another JSON type left at its Go zero value: nil *regexp.Regexp, nil operand, empty
// operator, nil argument list ...) went unnoticed as long as the expression compiler does not look at
// that member. This unit puts every accepted document to work.
//
// Generator: a stream script from a menu of expression-bearing nodes (the direct EvalBool path:
// from.where, where, alert levels, stateCount, stateDuration, combine; the Eval path: eval,
// k8s-style int lambdas are not started) with 1-4 lambdas from a menu that contains every AST node
// kind a lambda can hold (binary, unary, paren, reference, string, number int/float, duration, bool,
// regex, function), beside a plain reader branch; the pipeline is marshalled with the project's own
// marshaller and 0-2 members of objects of the document are changed: the object is any JSON object of
// the document carrying "typeOf" (AST nodes inside the lambdas three times as likely as pipeline
// nodes), the member any of its keys, the change one of: null (what the project's own marshaller
// writes for a value that is not set, e.g. "regex": null for a RegexNode without a value), member
// deleted, a value of another JSON type, a value taken from the same member of an object of another
// kind, typeOf of another kind.
//
// Oracle: (1) Pipeline.Unmarshal returns a pipeline or an error, no panic; (2) for an accepted
// pipeline TaskMaster.StartTask returns a running task or an error, no panic; (3) the running task
// is fed sentinel and hostile points (the Data unit's classes): the process stays alive and the task
// ends without an error (node.start turns a panic of a node into the task's error: that is a data
// point killing the task); (4) when the document was not changed, the last sentinel reaches the sink
// through the node under test and through the reader branch (the JSON form of a pipeline defines the
// same task).
package c05

import (
	"encoding/json"
	"fmt"
	"os"
	"runtime"
	"strings"
	"time"
	"testing"

	"verifharness/kit"

	"github.com/influxdata/kapacitor"
	"github.com/influxdata/kapacitor/pipeline"
	"github.com/influxdata/kapacitor/tick/stateful"
	"pgregory.net/rapid"
)

type JSONDataCase struct {
	Script  string   `json:"script"`  // the script the document was marshalled from
	Doc     string   `json:"doc"`     // the JSON pipeline document offered
	Changes []string `json:"changes"` // description of the changes made to the marshalled document (empty = unchanged)
	Alerts  bool     `json:"alerts"`
	Pts     []HP     `json:"pts"`
}

const ruleJSONData = "rapid: a stream script (menu of nodes that evaluate a lambda per point: from.where, where, alert levels, stateCount, stateDuration, combine, eval, also below a window, beside a plain reader branch; 1-4 lambdas from a menu holding every AST node kind: binary, unary, reference, string, int, float, duration, bool, regex =~ and !~, function) is marshalled to its JSON pipeline document by the project's marshaller; 0-2 members of objects carrying typeOf (AST nodes of the lambdas 3x as likely as pipeline nodes) are set to null, deleted, given a value of another JSON type, given the value the same member has in an object of another kind, or the typeOf of another kind; the document is read with pipeline.Pipeline.Unmarshal, an accepted pipeline is started as a task and fed a sentinel, 1-4 hostile points (classes of unit Data) each followed by a sentinel; " +
	"oracle: Unmarshal and StartTask return (value or error) without a panic; process alive; the started task ends without an error after all points; an unchanged document delivers the last sentinel through the node under test and the reader branch; non-trivial = the document was accepted and the task it defines was started; distinct by case hash"

// lambdas: each is true for the sentinel point i=2 j=1 f=1.5 s='abc' b=TRUE h='a' (tag). Together
// they hold every AST node kind that can occur inside a lambda.
var jsonLambdas = []string{
	`"s" =~ /a.c/`, `"s" !~ /^x/`, `"h" =~ /a/ AND "i" > 1`, `"j" == 1 OR "s" =~ /b+/`, `!("s" =~ /zzz/)`,
	`"i" > 1`, `"f" >= 1.5`, `"s" == 'abc'`, `"b"`, `!"b" OR "i" / "j" == 2`, `-"i" < 0`, `"b" AND TRUE`, `"b" != FALSE`,
	`10s / "i" > 1s`, `duration("i", 1s) >= 2s`, `strLength("s") == 3`, `strSubstring("s", "j", "i") == 'b'`, `if("b", "i", 0) == 2`,
	`abs(float("i")) > 0.0`, `isPresent("i") AND "i" % 2 == 0`, `count() >= 0`, `sigma("f") >= 0.0 OR "j" == 1`, `("i" + 1) * 2 == 6`,
	`strHasPrefix("s", 'a') AND "h" == 'a'`, `hour("time") >= 0`, `string("i") + 'x' == '2x'`,
}

// node templates: %s = lambda; X = the node under test, S = the plain reader branch.
var jsonDataNodes = []string{
	"stream|from().measurement('m').where(lambda: %s)|log().prefix('X')",
	"stream|from().measurement('m')|where(lambda: %s)|log().prefix('X')",
	"stream|from().measurement('m').groupBy('h')|where(lambda: %s)|log().prefix('X')",
	"stream|from().measurement('m')|window().periodCount(1).everyCount(1)|where(lambda: %s)|log().prefix('X')",
	"stream|from().measurement('m')|stateCount(lambda: %s)|log().prefix('X')",
	"stream|from().measurement('m')|stateDuration(lambda: %s).unit(1s)|log().prefix('X')",
	"stream|from().measurement('m')|alert().crit(lambda: %s)|log().prefix('X')",
	"stream|from().measurement('m')|alert().info(lambda: %s).warn(lambda: %s).crit(lambda: %s).critReset(lambda: %s)|log().prefix('X')",
	"stream|from().measurement('m')|combine(lambda: %s, lambda: TRUE).as('a', 'b')|log().prefix('C')",
	"stream|from().measurement('m')|eval(lambda: %s).as('e').keep()|log().prefix('X')",
	"stream|from().measurement('m')|eval(lambda: %s, lambda: %s).as('e1', 'e2').keep()|where(lambda: %s)|log().prefix('X')",
	"stream|from().measurement('m')|where(lambda: %s)|where(lambda: %s)|log().prefix('X')",
}

const jsonDataReader = "\nstream|from().measurement('m')|log().prefix('S')"

// values of another JSON type / hostile values of the same type
var jsonDataHostile = []interface{}{true, false, 0.0, 1.0, -1.0, 1e308, "", "x", "(", "1s", "=~", "regex", []interface{}{}, []interface{}{nil}, []interface{}{"x"}, map[string]interface{}{}, map[string]interface{}{"typeOf": "nosuch"}, "9223372036854775808"}

var jsonDataTypeOfs = []interface{}{"regex", "string", "number", "duration", "bool", "reference", "func", "unary", "binary", "lambda", "star", "list", "identifier", "program", "comment", "dbrp", "where", "from", "stream", "alert", "nosuch", ""}

type jsonObj struct {
	path string
	m    map[string]interface{}
	ast  bool // below a lambda
}

// jsonObjects lists the objects of the document that carry typeOf, in document order (sorted keys).
func jsonObjects(v interface{}, path string, ast bool, out *[]jsonObj) {
	switch x := v.(type) {
	case map[string]interface{}:
		if ty, ok := x["typeOf"]; ok {
			if ty == "lambda" {
				ast = true
			}
			*out = append(*out, jsonObj{path: path, m: x, ast: ast})
		}
		for _, k := range kit.SortedKeys(x) {
			jsonObjects(x[k], path+"."+k, ast, out)
		}
	case []interface{}:
		for i, e := range x {
			jsonObjects(e, fmt.Sprintf("%s[%d]", path, i), ast, out)
		}
	}
}

// requiredLambdaMember: the member holds the lambda(s) a where / stateCount / stateDuration / eval /
// combine node cannot be created without (alert levels and from.where may be null).
func requiredLambdaMember(m map[string]interface{}, k string) bool {
	switch m["typeOf"] {
	case "where", "stateCount", "stateDuration", "eval", "combine":
		return k == "lambda" || k == "lambdas"
	}
	return false
}

var recJSONData *kit.Rec

func deepCopyJSON(v interface{}) interface{} {
	b, _ := json.Marshal(v)
	var o interface{}
	json.Unmarshal(b, &o)
	return o
}

func genJSONData(t *rapid.T) JSONDataCase {
	var c JSONDataCase
	tmpl := rapid.SampledFrom(jsonDataNodes).Draw(t, "node")
	n := strings.Count(tmpl, "%s")
	args := make([]interface{}, n)
	for i := range args {
		args[i] = rapid.SampledFrom(jsonLambdas).Draw(t, "lambda")
	}
	c.Script = fmt.Sprintf(tmpl, args...) + jsonDataReader
	c.Alerts = strings.Contains(c.Script, "|alert()")
	p, err := pipeline.CreatePipeline(c.Script, pipeline.StreamEdge, stateful.NewScope(), deadman{}, nil)
	if err != nil {
		t.Fatalf("menu script rejected: %v\n%s", err, c.Script)
	}
	doc, err := json.Marshal(p)
	if err != nil {
		t.Fatalf("menu pipeline cannot be marshalled: %v\n%s", err, c.Script)
	}
	var v interface{}
	if err := json.Unmarshal(doc, &v); err != nil {
		t.Fatalf("marshalled pipeline is not JSON: %v", err)
	}
	m := rapid.SampledFrom([]int{0, 1, 1, 1, 1, 2}).Draw(t, "changes")
	for i := 0; i < m; i++ {
		var objs []jsonObj
		jsonObjects(v, "$", false, &objs)
		// AST nodes inside the lambdas three times as likely as pipeline nodes
		var pool []jsonObj
		for _, o := range objs {
			pool = append(pool, o)
			if o.ast {
				pool = append(pool, o, o)
			}
		}
		if len(pool) == 0 {
			break
		}
		o := pool[rapid.IntRange(0, len(pool)-1).Draw(t, "obj")]
		keys := kit.SortedKeys(o.m)
		k := rapid.SampledFrom(keys).Draw(t, "key")
		what := fmt.Sprintf("%s(%v).%s", o.path, o.m["typeOf"], k)
		op := rapid.IntRange(0, 7).Draw(t, "op")
		if !o.ast && op <= 6 && requiredLambdaMember(o.m, k) && os.Getenv("VERIF_C05_JSONDATA_NO_EXCLUDE") == "" {
			// proposed known finding jsondata/start-panic/nil-lambda: the readers of where / stateCount /
			// stateDuration / eval / combine accept a document whose lambda member is null, missing
			// or empty and starting the task dereferences the nil lambda
			if recJSONData != nil {
				recJSONData.Exclude("pipeline-node-without-its-required-lambda")
			}
			continue
		}
		if !o.ast && (op == 7 || (op == 6 && k == "typeOf")) && os.Getenv("VERIF_C05_JSONDATA_NO_EXCLUDE") == "" {
			// proposed known finding def/panic/pipeline.(*chainnode).Window/json: a pipeline node relabelled
			// as a kind its parent cannot have as a child (window below a window) makes the reader panic
			// ('cannot Window batch edge') where the script evaluator returns an error
			if recJSONData != nil {
				recJSONData.Exclude("pipeline-node-relabelled-as-another-kind")
			}
			continue
		}
		switch op {
		case 0, 1, 2:
			o.m[k] = nil
			what += " = null"
		case 3:
			delete(o.m, k)
			what += " deleted"
		case 4, 5:
			h := rapid.SampledFrom(jsonDataHostile).Draw(t, "hostile")
			if _, num := h.(float64); num && !o.ast && os.Getenv("VERIF_C05_JSONDATA_NO_EXCLUDE") == "" {
				// known finding jsondata/task-died/window (same root cause as the two above: the reader
				// does not validate the nodes it builds): a pipeline node's numeric member given another
				// number ("periodCount": -1) is accepted and the first point ends the task (makeslice)
				if recJSONData != nil {
					recJSONData.Exclude("pipeline-node-number-member-given-another-number")
				}
				continue
			}
			o.m[k] = deepCopyJSON(h)
			what += fmt.Sprintf(" = %v", h)
		case 6:
			// the value the same member has in another object (other regex, other operator, other operand ...)
			var donors []interface{}
			for _, d := range objs {
				if dv, ok := d.m[k]; ok && fmt.Sprint(dv) != fmt.Sprint(o.m[k]) {
					donors = append(donors, dv)
				}
			}
			if len(donors) == 0 {
				o.m[k] = nil
				what += " = null"
			} else {
				d := donors[rapid.IntRange(0, len(donors)-1).Draw(t, "donor")]
				o.m[k] = deepCopyJSON(d)
				what += fmt.Sprintf(" = %v (from another object)", d)
			}
		default:
			ty := rapid.SampledFrom(jsonDataTypeOfs).Draw(t, "typeOf")
			if !o.ast && os.Getenv("VERIF_C05_JSONDATA_NO_EXCLUDE") == "" && requiredLambdaMember(map[string]interface{}{"typeOf": ty}, "lambda") && o.m["lambda"] == nil && o.m["lambdas"] == nil {
				// the same class: a pipeline node of another kind relabelled as one that needs a lambda
				if recJSONData != nil {
					recJSONData.Exclude("pipeline-node-without-its-required-lambda")
				}
				continue
			}
			what = fmt.Sprintf("%s(%v).typeOf = %v", o.path, o.m["typeOf"], ty)
			o.m["typeOf"] = ty
		}
		c.Changes = append(c.Changes, what)
	}
	out, _ := json.Marshal(v)
	c.Doc = string(out)
	np := rapid.IntRange(1, 4).Draw(t, "n")
	for i := 0; i < np; i++ {
		hp := HP{F: map[string]kit.FV{}}
		for _, f := range []string{"i", "j", "f", "s", "b"} {
			if fv, ok := hostileValue(t, f); ok {
				hp.F[f] = fv
			}
		}
		if len(hp.F) == 0 {
			hp.F["i"] = kit.I(0) // a point carries at least one field
		}
		if rapid.Bool().Draw(t, "tag") {
			hp.T = map[string]string{"h": rapid.SampledFrom([]string{"", "a", "x,y=z", "é"}).Draw(t, "h")}
		}
		c.Pts = append(c.Pts, hp)
	}
	return c
}

func recovered(f func()) (escaped string) {
	defer func() {
		if r := recover(); r != nil {
			buf := make([]byte, 4096)
			buf = buf[:runtime.Stack(buf, false)]
			escaped = fmt.Sprintf("%v\n%s", r, buf)
		}
	}()
	f()
	return ""
}

// startPanicSig names the first frame of the code under test below the panic.
func startPanicSig(desc string) string {
	for _, line := range strings.Split(desc, "\n") {
		if strings.HasPrefix(line, "github.com/influxdata/kapacitor") && !strings.Contains(line, "verifharness") {
			f := strings.TrimPrefix(line, "github.com/influxdata/")
			if i := strings.LastIndex(f, "("); i > 0 {
				f = f[:i]
			}
			return "jsondata/start-panic/" + f
		}
	}
	return "jsondata/start-panic/?"
}

func runJSONData(c JSONDataCase, cc *kit.Case) {
	p := &pipeline.Pipeline{}
	var err error
	if esc := recovered(func() { err = p.Unmarshal([]byte(c.Doc)) }); esc != "" {
		cc.Fail(panicSig(esc)+"/json", "reading the JSON pipeline panicked: %s\nchanges: %v\ndocument: %s", esc, c.Changes, c.Doc)
		return
	}
	if err != nil {
		cc.Label("rejected-by-reader")
		return
	}
	if p.Len() <= 1 {
		// TaskMaster.NewTask: "task does nothing"
		cc.Label("accepted-empty")
		return
	}
	env, err := kit.NewEnv(kit.EnvOpts{Alerts: c.Alerts || strings.Contains(c.Doc, `"alert"`)})
	if err != nil {
		cc.Fail("harness/env", "env: %v", err)
		return
	}
	defer env.Close()
	task := &kapacitor.Task{ID: "j" + kit.Unique(), Pipeline: p, Type: kapacitor.StreamTask, DBRPs: kit.DefaultDBRP}
	var et *kapacitor.ExecutingTask
	if esc := recovered(func() { et, err = env.TM.StartTask(task) }); esc != "" {
		cc.Fail(startPanicSig(esc), "starting the task of the accepted JSON pipeline panicked: %s\nchanges: %v\ndocument: %s", esc, c.Changes, c.Doc)
		return
	}
	if err != nil {
		cc.Label("rejected-at-start")
		return
	}
	cc.NonTrivial()
	if len(c.Changes) == 0 {
		cc.Label("started:unchanged")
	} else {
		cc.Label("started:changed")
	}
	sentinel := func(t int64) kit.Pt {
		return kit.Pt{Name: "m", DB: "db", RP: "rp", Tags: map[string]string{"h": "a"}, Fields: map[string]kit.FV{"i": kit.I(2), "j": kit.I(1), "f": kit.F(1.5), "s": kit.S("abc"), "b": kit.B(true)}, Time: t}
	}
	t := dt0
	pts := []kit.Pt{sentinel(t)}
	for _, h := range c.Pts {
		if len(h.F) == 0 {
			continue
		}
		t += dsec
		pts = append(pts, kit.Pt{Name: "m", DB: "db", RP: "rp", Tags: h.T, Fields: h.F, Time: t})
		t += dsec
		pts = append(pts, sentinel(t))
	}
	t += dsec
	pts = append(pts, sentinel(t))
	last := t
	for _, pt := range pts {
		if err := env.TM.WriteKapacitorPoint(pt.Msg()); err != nil {
			cc.Fail("harness/write", "write: %v", err)
			return
		}
	}
	env.TM.Drain()
	et.StopStats()
	waited := make(chan error, 1)
	go func() { waited <- et.Wait() }()
	var runErr error
	select {
	case runErr = <-waited:
	case <-time.After(10 * time.Second):
		// the signature names the first change made to the document ("$.nodes[5](log).typeOf = stream ..." -> log.typeOf)
		what := "unchanged"
		if len(c.Changes) > 0 {
			what = c.Changes[0]
			if i := strings.Index(what, "("); i >= 0 {
				what = what[i+1:]
			}
			if i := strings.Index(what, " "); i >= 0 {
				what = what[:i]
			}
			what = strings.Replace(what, ")", "", 1)
		}
		cc.Fail("jsondata/task-never-ends/"+what, "the task defined by an accepted JSON pipeline did not end within 10 s after its input was closed (work of milliseconds)\nchanges to the marshalled document: %v\nscript it was marshalled from: %s\ndocument: %s", c.Changes, c.Script, c.Doc)
		return
	}
	if len(env.Sink.Errors()) > 0 {
		cc.Label("node-reported-error")
	}
	if runErr != nil {
		// the signature names the kind of the node that ended the task ("combine2: runtime error ..." -> combine)
		kind := "unknown"
		if i := strings.Index(runErr.Error(), ":"); i > 0 {
			kind = strings.TrimRight(runErr.Error()[:i], "0123456789")
		}
		cc.Fail("jsondata/task-died/"+kind, "the task defined by an accepted JSON pipeline was killed by a data point: %v\nchanges to the marshalled document: %v\nscript it was marshalled from: %s\ndocument: %s\npoints: %+v\nnode errors: %+v", runErr, c.Changes, c.Script, c.Doc, c.Pts, env.Sink.Errors())
		return
	}
	if len(c.Changes) > 0 {
		return
	}
	for _, prefix := range []string{"S", "X"} {
		if prefix == "X" && !strings.Contains(c.Script, "prefix('X')") {
			continue
		}
		seen := false
		for _, o := range env.Sink.By(prefix) {
			if o.P != nil && o.P.Time == last {
				seen = true
			}
			if o.B != nil {
				if o.B.TMax == last {
					seen = true
				}
				for _, bp := range o.B.Points {
					if bp.Time == last {
						seen = true
					}
				}
			}
		}
		if !seen {
			cc.Fail("jsondata/sentinel-lost", "the task defined by the unchanged JSON form of a script did not deliver the last sentinel (t=%d) at log node %s\nscript: %s\ndocument: %s\npoints: %+v\nnode errors: %+v", last, prefix, c.Script, c.Doc, c.Pts, env.Sink.Errors())
			return
		}
	}
}

var assumptionsJSONData = []string{
	"a JSON pipeline is defined with pipeline.Pipeline.Unmarshal (pipeline/json.go; the lambdas inside are read by ast.LambdaNode.UnmarshalJSON); the pipeline it returns is made a task the way TaskMaster.NewTask does it: kapacitor.Task{ID, Pipeline, Type, DBRPs} (all exported) handed to TaskMaster.StartTask; a pipeline of one node is not started (NewTask: 'task does nothing')",
	"defining = Unmarshal + StartTask: an error from either is the 'or an error' of the property; nothing is asserted about which changed documents are accepted",
	"every lambda of the menu is true for the sentinel point (i=2 j=1 f=1.5 s='abc' b=TRUE, tag h='a'); only for an UNCHANGED document the last sentinel must reach the log nodes X (below the node under test) and S (reader branch): the JSON form written by Pipeline.MarshalJSON defines the same task as the script (pipeline/json.go doc; C13 checks the round trip itself)",
	"a started task whose ExecutingTask.Wait returns an error after the points were written was ended by a data point: the menu nodes need no service besides the alert service the environment provides, node.start turns a panic of the node goroutine into that error",
	"points are written with WriteKapacitorPoint; hostile values are those of unit Data; every point carries at least one field",
	"the member changes include null because the project's own marshaller writes null for values that are not set (ast JSONNode.SetRegex / SetDuration for a RegexNode / DurationNode without a value, nil lambdas of alert levels)",
}

func TestJSONData(t *testing.T) {
	r := kit.NewRec("C05", "JSONData", ruleJSONData, assumptionsJSONData...)
	recJSONData = r
	kit.Check(t, r, genJSONData, runJSONData)
}

func TestReplayJSONData(t *testing.T) {
	r := kit.NewRec("C05", "JSONData", ruleJSONData, assumptionsJSONData...)
	kit.Replay(t, r, runJSONData)
}
