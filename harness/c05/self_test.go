package c05

import (
	"testing"

	"verifharness/kit"
)

// TestSelfMenu validates the hazard menu: every node x lambda must pass sentinel-only input.
func TestSelfMenu(t *testing.T) {
	r := kit.NewRec("C05", "Self", "self", "")
	for n := range dataNodes {
		for l := range hazardLambdas {
			c := DataCase{Node: n, Lambda: l}
			cc := r.Begin(c)
			runData(c, cc)
			if cc.Failed() {
				t.Errorf("node %d lambda %d (%s): %s", n, l, hazardLambdas[l], firstLine(cc.Message()))
			}
		}
		if n >= 10 {
			// nodes without lambda: one run is enough
		}
	}
}

func firstLine(s string) string {
	if len(s) > 300 {
		s = s[:300]
	}
	return s
}
