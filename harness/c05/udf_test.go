// C05 (c) — UDF peer: for every byte stream on the UDF socket the server reports an error for
// that peer at most; no panic, no process death, Stop returns.
package c05

import (
	"bufio"
	"bytes"
	"context"
	"encoding/binary"
	"fmt"
	"io"
	"math"
	"sync"
	"testing"
	"time"

	"verifharness/kit"

	"github.com/influxdata/flux"
	"github.com/influxdata/kapacitor/edge"
	"github.com/influxdata/kapacitor/influxdb"
	"github.com/influxdata/kapacitor/keyvalue"
	"github.com/influxdata/kapacitor/models"
	"github.com/influxdata/kapacitor/udf"
	"github.com/influxdata/kapacitor/udf/agent"
	"pgregory.net/rapid"
)

// Frame is one element of the byte stream the peer sends.
type Frame struct {
	Kind string `json:"kind"` // info init snapshot restore keepalive error begin point end empty raw hugelen truncated
	Size int64  `json:"size,omitempty"`
	Raw  []byte `json:"raw,omitempty"`
	N    int    `json:"n,omitempty"`
}

type UDFCase struct {
	Frames []Frame    `json:"frames"`
	Send   [][]string `json:"send"` // points the harness sends to the UDF meanwhile: field value kinds per point
}

const ruleUDF = "rapid: byte streams from a UDF peer to udf.Server: well-framed responses of every kind in arbitrary order (point inside/outside a batch, end without begin, begin with negative/huge size hint, empty response, error), frames with huge or truncated length prefixes, garbage bytes; " +
	"oracle: process alive, the reader goroutine does not panic, the server stops within the bound; non-trivial = at least one well-framed message was consumed before a malformed one; distinct by case hash"

func genUDF(t *rapid.T) UDFCase {
	var c UDFCase
	n := rapid.IntRange(1, 8).Draw(t, "n")
	kinds := []string{"info", "init", "snapshot", "restore", "keepalive", "error", "begin", "point", "point", "end", "empty", "raw", "hugelen", "truncated", "unknownfield"}
	for i := 0; i < n; i++ {
		f := Frame{Kind: rapid.SampledFrom(kinds).Draw(t, "kind")}
		switch f.Kind {
		case "begin":
			f.Size = rapid.SampledFrom([]int64{0, 1, 2, -1, math.MinInt64, 1 << 40, math.MaxInt64, 5000}).Draw(t, "size")
		case "raw":
			f.Raw = rapid.SliceOfN(rapid.Byte(), 0, 12).Draw(t, "raw")
		case "hugelen":
			f.Size = rapid.SampledFrom([]int64{1 << 31, 1 << 33, 1 << 40, 1 << 62, -1, math.MaxInt32, 1<<31 - 2, 1 << 25}).Draw(t, "len")
			f.N = rapid.IntRange(0, 64).Draw(t, "follow")
		case "truncated":
			f.N = rapid.IntRange(0, 20).Draw(t, "cut")
		}
		c.Frames = append(c.Frames, f)
	}
	ns := rapid.IntRange(0, 3).Draw(t, "send")
	for i := 0; i < ns; i++ {
		c.Send = append(c.Send, rapid.SliceOfN(rapid.SampledFrom([]string{"int64", "float", "str", "bool", "dur", "nil", "time", "int", "nan"}), 1, 4).Draw(t, "fields"))
	}
	return c
}

func frameBytes(f Frame) []byte {
	var msg *agent.Response
	switch f.Kind {
	case "info":
		msg = &agent.Response{Message: &agent.Response_Info{Info: &agent.InfoResponse{Wants: agent.EdgeType_STREAM, Provides: agent.EdgeType_STREAM}}}
	case "init":
		msg = &agent.Response{Message: &agent.Response_Init{Init: &agent.InitResponse{Success: true}}}
	case "snapshot":
		msg = &agent.Response{Message: &agent.Response_Snapshot{Snapshot: &agent.SnapshotResponse{Snapshot: []byte("x")}}}
	case "restore":
		msg = &agent.Response{Message: &agent.Response_Restore{Restore: &agent.RestoreResponse{Success: false, Error: "e"}}}
	case "keepalive":
		msg = &agent.Response{Message: &agent.Response_Keepalive{Keepalive: &agent.KeepaliveResponse{Time: 1}}}
	case "error":
		msg = &agent.Response{Message: &agent.Response_Error{Error: &agent.ErrorResponse{Error: "peer says no"}}}
	case "begin":
		msg = &agent.Response{Message: &agent.Response_Begin{Begin: &agent.BeginBatch{Name: "m", Group: "g", Size: f.Size, ByName: true}}}
	case "point":
		msg = &agent.Response{Message: &agent.Response_Point{Point: &agent.Point{Name: "m", Time: 1, Group: "g", Tags: map[string]string{"a": "b"}, FieldsInt: map[string]int64{"i": 1}, FieldsDouble: map[string]float64{"f": math.NaN()}}}}
	case "end":
		msg = &agent.Response{Message: &agent.Response_End{End: &agent.EndBatch{Name: "m", Group: "g", Tmax: 2}}}
	case "empty":
		msg = &agent.Response{}
	case "unknownfield":
		// a field number this version does not know (a response kind of a future protocol version)
		return append([]byte{3}, 0xf8, 0x07, 0x01)
	case "raw":
		return f.Raw
	case "hugelen":
		b := binary.AppendUvarint(nil, uint64(f.Size))
		return append(b, bytes.Repeat([]byte{0x2a}, f.N)...)
	case "truncated":
		full := frameBytes(Frame{Kind: "point"})
		if f.N < len(full) {
			return full[:f.N]
		}
		return full
	}
	var buf bytes.Buffer
	if err := agent.WriteMessage(msg, &buf); err != nil {
		panic(err)
	}
	return buf.Bytes()
}

type nopWriteCloser struct{ io.Writer }

func (nopWriteCloser) Close() error { return nil }

type udfDiag struct{}

func (udfDiag) Error(msg string, err error, ctx ...keyvalue.T) {}
func (udfDiag) UDFLog(msg string)                              {}

func runUDF(c UDFCase, cc *kit.Case) {
	var stream bytes.Buffer
	wellFramed, malformedAfter := 0, false
	for _, f := range c.Frames {
		switch f.Kind {
		case "raw", "hugelen", "truncated", "empty", "unknownfield":
			if wellFramed > 0 {
				malformedAfter = true
			}
		default:
			wellFramed++
		}
		cc.Label("frame:" + f.Kind)
		stream.Write(frameBytes(f))
	}
	if malformedAfter {
		cc.NonTrivial()
	}
	aborted := make(chan struct{})
	sent := make(chan struct{})
	var abortOnce sync.Once
	srv := udf.NewServer("task", "node", bufio.NewReader(&stream), nopWriteCloser{io.Discard}, udfDiag{}, 0,
		func() {
			// as the UDF node does: tell the feeder to stop and wait for it before the server closes its input
			abortOnce.Do(func() { close(aborted) })
			<-sent
		}, func() {})
	if err := srv.Start(); err != nil {
		cc.Fail("harness/udf-start", "start: %v", err)
		return
	}
	// points (and batches) with every kind of field value on their way to the UDF
	go func() {
		defer close(sent)
		for i, kinds := range c.Send {
			fields := models.Fields{}
			for j, k := range kinds {
				name := fmt.Sprintf("f%d", j)
				switch k {
				case "int64":
					fields[name] = int64(1)
				case "float":
					fields[name] = 1.5
				case "nan":
					fields[name] = math.NaN()
				case "str":
					fields[name] = "s"
				case "bool":
					fields[name] = true
				case "dur":
					fields[name] = time.Second
				case "nil":
					fields[name] = nil
				case "time":
					fields[name] = time.Unix(1, 0)
				case "int":
					fields[name] = 1
				}
				cc.Label("sent-field:" + k)
			}
			var m edge.Message = edge.NewPointMessage("m", "db", "rp", models.Dimensions{}, fields, models.Tags{"t": "v"}, time.Unix(int64(i), 0))
			if i%2 == 1 {
				m = edge.NewBufferedBatchMessage(edge.NewBeginBatchMessage("m", models.Tags{"t": "v"}, false, time.Unix(9, 0), 1),
					[]edge.BatchPointMessage{edge.NewBatchPointMessage(fields, models.Tags{"t": "v"}, time.Unix(int64(i), 0))}, edge.NewEndBatchMessage())
			}
			select {
			case srv.In() <- m:
			case <-aborted:
				return
			case <-time.After(5 * time.Second):
				return
			}
		}
	}()
	// drain whatever the server forwards
	outDone := make(chan struct{})
	go func() {
		for range srv.Out() {
		}
		close(outDone)
	}()
	done := make(chan error, 1)
	go func() {
		// the reader ends at EOF or at the first error (it closes the output channel); then stop
		// the server as the UDF node does
		<-outDone
		<-sent
		done <- srv.Stop()
	}()
	select {
	case <-done:
	case <-time.After(20 * time.Second):
		cc.Fail("udf/hang", "the UDF server did not stop within 20 s after the peer's stream ended\nframes: %+v", c.Frames)
		return
	}
}

var assumptionsUDF = []string{
	"the peer's whole byte stream is available to the server's reader, followed by EOF (what a UDF process that writes and exits produces); the harness drains the server's output channel",
	"a server that reports an error and aborts that UDF is fine; a panic in the reader goroutine (fatal to the process) or a Stop that does not return within 20 s is a violation",
}

func TestUDF(t *testing.T) {
	r := kit.NewRec("C05", "UDF", ruleUDF, assumptionsUDF...)
	kit.Check(t, r, genUDF, runUDF)
}

func TestReplayUDF(t *testing.T) {
	r := kit.NewRec("C05", "UDF", ruleUDF, assumptionsUDF...)
	kit.Replay(t, r, runUDF)
}

// nullInflux is an InfluxDB service whose client accepts and discards everything.
type nullInflux struct{}

func (nullInflux) NewNamedClient(name string) (influxdb.Client, error) { return nullClient{}, nil }

type nullClient struct{}

func (nullClient) Ping(ctx context.Context) (time.Duration, string, error) { return 0, "", nil }
func (nullClient) Write(bp influxdb.BatchPoints) error                     { return nil }
func (nullClient) WriteV2(w influxdb.FluxWrite) error                      { return nil }
func (nullClient) Query(q influxdb.Query) (*influxdb.Response, error) {
	return &influxdb.Response{}, nil
}
func (nullClient) QueryFlux(q influxdb.FluxQuery) (flux.ResultIterator, error) {
	return nil, fmt.Errorf("no flux")
}
func (nullClient) QueryFluxResponse(q influxdb.FluxQuery) (*influxdb.Response, error) {
	return &influxdb.Response{}, nil
}
func (nullClient) CreateBucketV2(bucket string, org string, orgID string) error { return nil }
