package c05

import (
	"bufio"
	"bytes"
	"io"
	"runtime"
	"testing"
	"time"

	"github.com/influxdata/kapacitor/udf"
)

// FuzzDefine: coverage-guided mutation of real scripts through every definition entry point.
func FuzzDefine(f *testing.F) {
	for _, h := range hosts {
		f.Add(h)
	}
	for _, fr := range fragments {
		f.Add("stream|from()" + fr)
	}
	for _, a := range alphabet {
		f.Add(a)
		f.Add("/" + a)
		f.Add("stream|from()." + a)
	}
	f.Fuzz(func(t *testing.T, s string) {
		if len(s) > 4096 {
			return
		}
		base := runtime.NumGoroutine()
		esc, _ := define(s)
		if esc != "" {
			t.Fatalf("[sig=%s] defining %q: %s", panicSig(esc), s, esc)
		}
		if !settle(base) {
			t.Fatalf("[sig=def/goroutine-leak] defining %q leaves goroutines behind", s)
		}
	})
}

// FuzzUDFStream: arbitrary bytes from a UDF peer.
func FuzzUDFStream(f *testing.F) {
	for _, k := range []string{"info", "init", "snapshot", "restore", "keepalive", "error", "begin", "point", "end", "empty", "unknownfield"} {
		f.Add(frameBytes(Frame{Kind: k}))
	}
	f.Add(append(frameBytes(Frame{Kind: "begin", Size: 2}), frameBytes(Frame{Kind: "point"})...))
	f.Add(frameBytes(Frame{Kind: "hugelen", Size: -1, N: 3}))
	f.Fuzz(func(t *testing.T, b []byte) {
		srv := udf.NewServer("task", "node", bufio.NewReader(bytes.NewReader(b)), nopWriteCloser{io.Discard}, udfDiag{}, 0, func() {}, func() {})
		if err := srv.Start(); err != nil {
			return
		}
		outDone := make(chan struct{})
		go func() {
			for range srv.Out() {
			}
			close(outDone)
		}()
		done := make(chan struct{})
		go func() {
			<-outDone
			srv.Stop()
			close(done)
		}()
		select {
		case <-done:
		case <-time.After(20 * time.Second):
			t.Fatalf("[sig=udf/hang] server did not stop for stream %x", b)
		}
	})
}
