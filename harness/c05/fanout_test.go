// C05 (d) — fan-out: a point message is shared by every child of a node and, through the task
// master's forking, by every task subscribed to the stream. A node that writes into the message it
// received (instead of into a copy) changes the data of its siblings and of other tasks, and races
// with them: the Go runtime ends the whole process on a concurrent map read and write.
//
// Generator: one parent with 2-5 children drawn from a menu of nodes that add, overwrite, rename
// or delete fields and tags (alert with level/message/id/duration fields and tags, eval, default,
// delete, shift, flatten, state tracking, derivative, window + selectors, ...), optionally grouped,
// optionally a second task on the same stream; 50-400 points fed without pauses.
// Oracle: the process survives (under the race detector: no data race in the thorough tier),
// the task ends without error, the plain reader branch and the second task receive every point
// exactly as written, and the messages the harness handed in still hold exactly their original
// fields and tags afterwards.
package c05

import (
	"fmt"
	"reflect"
	"strings"
	"testing"

	"verifharness/kit"

	"github.com/influxdata/kapacitor"
	"github.com/influxdata/kapacitor/edge"
	"pgregory.net/rapid"
)

type FanCase struct {
	Group    bool  `json:"group"`
	Children []int `json:"children"` // indexes into fanChildren
	Second   bool  `json:"second"`   // a second task reads the same stream
	Batch    bool  `json:"batch"`    // the children hang below a count window (batch edges)
	N        int   `json:"n"`
	Seed     int   `json:"seed"` // value pattern
}

// every child ends in its own log sink; %d = index of the child
var fanChildren = []string{
	`|alert().crit(lambda: "i" > 1).warn(lambda: "i" > 0).levelField('lvl').messageField('msg').idField('aid').durationField('dur').levelTag('lt').idTag('it')`,
	`|alert().info(lambda: "f" > 0.5).stateChangesOnly().levelField('i').messageField('s')`,
	`|eval(lambda: "i" + 1).as('e').keep()`,
	`|eval(lambda: "i" + 1, lambda: "f" * 2.0).as('i', 'f')`,
	`|eval(lambda: string("i")).as('s').tags('s').keep('s')`,
	`|default().field('z', 1).field('i', 5).tag('h2', 'x')`,
	`|delete().field('j').tag('h')`,
	`|shift(1s)`,
	`|flatten().on('h')`,
	`|stateCount(lambda: "i" > 1)`,
	`|stateDuration(lambda: "f" > 0.5).as('i')`,
	`|derivative('f').as('f')`,
	`|changeDetect('s')`,
	`|sample(2)`,
	`|where(lambda: "i" >= 0 AND "f" >= 0.0 AND "b")`,
	`|httpOut('x%d')`,
	`|window().periodCount(3).everyCount(1)|max('i')`,
	`|window().periodCount(3).everyCount(2)|last('s').as('i')`,
	`|window().periodCount(2).everyCount(1)|eval(lambda: "i" * 2).as('i')`,
	`|window().periodCount(2).everyCount(1)|default().field('i', 0).field('y', 1.0)`,
	`|window().periodCount(2).everyCount(1)|delete().field('f').tag('h')`,
	`|combine(lambda: "i" >= 0, lambda: TRUE).as('a', 'b').tolerance(1s)`,
	`|groupBy('h')|eval(lambda: "i" - 1).as('i')`,
	`|log()`,
	`|cumulativeSum('i').as('i')`,
	`|elapsed('i', 1s).as('i')`,
}

// batchChildren are the children that accept a batch edge (below a window).
var fanBatchChildren = []string{
	`|max('i')`,
	`|last('s').as('i')`,
	`|mean('f').as('f')`,
	`|eval(lambda: "i" * 2).as('i')`,
	`|eval(lambda: "i" + 1).as('e').keep()`,
	`|default().field('i', 0).field('y', 1.0).tag('h2', 'x')`,
	`|delete().field('f').tag('h')`,
	`|shift(1s)`,
	`|where(lambda: "i" >= 0)`,
	`|alert().crit(lambda: "i" > 1).levelField('lvl').messageField('msg').idField('aid').levelTag('lt')`,
	`|flatten().on('h')`,
	`|difference('i').as('i')`,
	`|derivative('f').as('f')`,
	`|stateCount(lambda: "i" > 1)`,
	`|log()`,
	`|httpOut('x%d')`,
	`|top(2, 'i')`,
	`|combine(lambda: "i" >= 0, lambda: TRUE).as('a', 'b')`,
}

const ruleFan = "rapid: one parent (stream, optionally grouped, optionally below a count window = batch edges) with 2-5 children from a menu of nodes that add / overwrite / rename / delete fields and tags, plus a plain reader branch, optionally a second task on the same stream; 50-400 points fed without pauses; " +
	"oracle: process alive, task ends without error, the reader branch and the second task receive exactly what was written, the messages handed in are unchanged afterwards (thorough tier additionally under the race detector, a data race ends the process); non-trivial = at least two children that write fields or tags; distinct by case hash"

func genFan(t *rapid.T) FanCase {
	c := FanCase{Group: rapid.Bool().Draw(t, "group"), Second: rapid.IntRange(0, 2).Draw(t, "second") == 0, Batch: rapid.IntRange(0, 3).Draw(t, "batch") == 0}
	menu := len(fanChildren)
	if c.Batch {
		menu = len(fanBatchChildren)
	}
	n := rapid.IntRange(2, 5).Draw(t, "children")
	for i := 0; i < n; i++ {
		c.Children = append(c.Children, rapid.IntRange(0, menu-1).Draw(t, "child"))
	}
	c.N = rapid.SampledFrom([]int{50, 100, 200, 400}).Draw(t, "n")
	c.Seed = rapid.IntRange(0, 7).Draw(t, "seed")
	return c
}

func (c FanCase) menu() []string {
	if c.Batch {
		return fanBatchChildren
	}
	return fanChildren
}

func (c FanCase) script() string {
	var s strings.Builder
	s.WriteString("var p = stream|from().measurement('m')")
	if c.Group {
		s.WriteString(".groupBy('h')")
	}
	if c.Batch {
		s.WriteString("|window().periodCount(4).everyCount(2)")
	}
	s.WriteString("\n")
	for i, k := range c.Children {
		child := c.menu()[k]
		if strings.Contains(child, "%d") {
			child = fmt.Sprintf(child, i)
		}
		fmt.Fprintf(&s, "p%s|log().prefix('C%d')\n", child, i)
	}
	s.WriteString("p|log().prefix('R')\n")
	return s.String()
}

func (c FanCase) points() []kit.Pt {
	var pts []kit.Pt
	for i := 0; i < c.N; i++ {
		v := int64((i*7 + c.Seed) % 5)
		pts = append(pts, kit.Pt{Name: "m", DB: "db", RP: "rp",
			Tags:   map[string]string{"h": fmt.Sprintf("h%d", (i+c.Seed)%3), "k": "v"},
			Fields: map[string]kit.FV{"i": kit.I(v), "j": kit.I(int64(i)), "f": kit.F(float64(v) / 2), "s": kit.S(fmt.Sprintf("s%d", v%2)), "b": kit.B(true)},
			Time:   dt0 + int64(i)*dsec})
	}
	return pts
}

func samePoint(a, b kit.Pt) bool {
	return a.Name == b.Name && a.Time == b.Time && reflect.DeepEqual(a.Fields, b.Fields) && reflect.DeepEqual(a.Tags, b.Tags)
}

func runFan(c FanCase, cc *kit.Case) {
	script := c.script()
	writers := 0
	for _, k := range c.Children {
		child := c.menu()[k]
		cc.Label("child:" + strings.SplitN(strings.TrimPrefix(child, "|"), "(", 2)[0])
		if !strings.HasPrefix(child, "|where") && !strings.HasPrefix(child, "|log") && !strings.HasPrefix(child, "|httpOut") && !strings.HasPrefix(child, "|sample") && !strings.HasPrefix(child, "|changeDetect") {
			writers++
		}
	}
	if writers >= 2 {
		cc.NonTrivial()
	}
	if c.Batch {
		cc.Label("batch-edges")
	}
	if c.Second {
		cc.Label("second-task")
	}
	env, err := kit.NewEnv(kit.EnvOpts{Alerts: strings.Contains(script, "|alert()")})
	if err != nil {
		cc.Fail("harness/env", "env: %v", err)
		return
	}
	defer env.Close()
	et, err := env.StartTask("t"+kit.Unique(), script, kapacitor.StreamTask, nil)
	if err != nil {
		cc.Fail("harness/script-rejected", "script rejected: %v\n%s", err, script)
		return
	}
	var et2 *kapacitor.ExecutingTask
	if c.Second {
		et2, err = env.StartTask("u"+kit.Unique(), "stream|from().measurement('m')|where(lambda: \"i\" >= 0 AND isPresent(\"f\"))|log().prefix('T2')", kapacitor.StreamTask, nil)
		if err != nil {
			cc.Fail("harness/script-rejected", "second task rejected: %v", err)
			return
		}
	}
	pts := c.points()
	msgs := make([]edge.PointMessage, len(pts))
	for i, p := range pts {
		msgs[i] = p.Msg()
		if err := env.TM.WriteKapacitorPoint(msgs[i]); err != nil {
			cc.Fail("harness/write", "write: %v", err)
			return
		}
	}
	env.TM.Drain()
	for _, e := range []*kapacitor.ExecutingTask{et, et2} {
		if e == nil {
			continue
		}
		e.StopStats()
		if err := e.Wait(); err != nil {
			cc.Fail("fanout/task-died", "task %s ended with error: %v\n%s", e.Task.ID, err, script)
			return
		}
	}
	// the messages handed in are unchanged
	for i, m := range msgs {
		after := kit.PtOf(m)
		if !reflect.DeepEqual(after.Fields, pts[i].Fields) || !reflect.DeepEqual(after.Tags, pts[i].Tags) {
			cc.Fail("fanout/input-message-modified", "the message of point %d was modified in place by a node: fields %v tags %v, written as fields %v tags %v\n%s", i, after.Fields, after.Tags, pts[i].Fields, pts[i].Tags, script)
			return
		}
	}
	// the second task sees exactly what was written
	if c.Second {
		obs := env.Sink.By("T2")
		if len(obs) != len(pts) {
			cc.Fail("fanout/other-task-count", "the second task received %d of %d points\n%s", len(obs), len(pts), script)
			return
		}
		for i, o := range obs {
			if o.P == nil || !samePoint(*o.P, pts[i]) {
				cc.Fail("fanout/other-task-data", "the second task received point %d as %+v, written as %+v\n%s", i, o.P, pts[i], script)
				return
			}
		}
	}
	// the reader branch sees exactly what the parent emits
	obs := env.Sink.By("R")
	if !c.Batch {
		if len(obs) != len(pts) {
			cc.Fail("fanout/sibling-count", "the reader branch received %d of %d points\n%s", len(obs), len(pts), script)
			return
		}
		// grouped: order is per group; compare by the serial field j
		byJ := map[int64]kit.Pt{}
		for _, o := range obs {
			if o.P == nil {
				cc.Fail("fanout/sibling-data", "the reader branch received a non-point\n%s", script)
				return
			}
			j, _ := o.P.Fields["j"].Go().(int64)
			byJ[j] = *o.P
		}
		for i, p := range pts {
			if got, ok := byJ[int64(i)]; !ok || !samePoint(got, p) {
				cc.Fail("fanout/sibling-data", "the reader branch received point %d as %+v, written as %+v\n%s", i, got, p, script)
				return
			}
		}
		return
	}
	// batch edges: every point of every window the reader sees is one of the written points, unchanged
	for _, o := range obs {
		if o.B == nil {
			cc.Fail("fanout/sibling-data", "the reader branch below the window received a non-batch\n%s", script)
			return
		}
		for _, bp := range o.B.Points {
			j, _ := bp.Fields["j"].Go().(int64)
			if j < 0 || int(j) >= len(pts) || !reflect.DeepEqual(bp.Fields, pts[j].Fields) || bp.Time != pts[j].Time {
				cc.Fail("fanout/sibling-data", "the reader branch below the window received a point %+v that is not the written point j=%d %+v\n%s", bp, j, pts[int(j)%len(pts)], script)
				return
			}
			want := pts[j].Tags
			if !reflect.DeepEqual(bp.Tags, want) {
				cc.Fail("fanout/sibling-data", "the reader branch below the window received point j=%d with tags %v, written with %v\n%s", j, bp.Tags, want, script)
				return
			}
		}
	}
}

var assumptionsFan = []string{
	"a point message is shared by all children of a node and by all tasks subscribed to the stream: a node that changes fields, tags, name or time works on a copy (ShallowCopy + copied maps), so siblings, other tasks and the producer's own message are never affected",
	"all points carry the same five fields with well-typed values and two tags; points are written without pauses so that the children run concurrently",
	"thorough tier: the unit additionally runs under the race detector with halt_on_error (a data race on the shared message is what the runtime turns into 'fatal error: concurrent map read and map write')",
}

func TestFanout(t *testing.T) {
	r := kit.NewRec("C05", "Fanout", ruleFan, assumptionsFan...)
	kit.Check(t, r, genFan, runFan)
}

func TestReplayFanout(t *testing.T) {
	r := kit.NewRec("C05", "Fanout", ruleFan, assumptionsFan...)
	kit.Replay(t, r, runFan)
}
