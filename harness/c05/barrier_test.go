// C05 (f) — nodes with timers of their own: the barrier node's per-group emitters run on the system
// clock and write into the node's edges from their own goroutines. A tick that fires while the
// task is ending (input closed, emitters not yet stopped) must not panic in that goroutine - an
// unrecovered panic there ends the daemon.
package c05

import (
	"fmt"
	"testing"

	"verifharness/kit"

	"pgregory.net/rapid"
)

type BarrierCase struct {
	Idle   bool   `json:"idle"`   // idle barrier, else periodic
	Dur    string `json:"dur"`    // TICKscript duration literal
	Delete bool   `json:"delete"` // .delete(TRUE)
	Groups int    `json:"groups"`
	N      int    `json:"n"`      // points per round
	Rounds int    `json:"rounds"` // task lifecycles
	Below  int    `json:"below"`  // node below the barrier
}

var barrierBelow = []string{"", "|window().period(2s).every(1s)|count('i')", "|stateCount(lambda: \"i\" > 1)", "|where(lambda: \"i\" >= 0)"}

const ruleBarrier = "rapid: barrier().idle(d) / .period(d) with d from 1us to 20ms, with and without delete(TRUE), 1-8 groups, 1-40 points, an optional grouped node below; 5-40 task lifecycles per case (start, feed without pauses, end), so that timer ticks coincide with the end of the task; " +
	"oracle: process alive, every task ends without error; non-trivial = period or idle time <= 1ms with delete(TRUE) and >= 2 groups; distinct by case hash"

func genBarrier(t *rapid.T) BarrierCase {
	return BarrierCase{
		Idle:   rapid.Bool().Draw(t, "idle"),
		Dur:    rapid.SampledFrom([]string{"1u", "1u", "10u", "100u", "1ms", "1ms", "5ms", "20ms"}).Draw(t, "dur"),
		Delete: rapid.IntRange(0, 2).Draw(t, "delete") > 0,
		Groups: rapid.IntRange(1, 8).Draw(t, "groups"),
		N:      rapid.IntRange(1, 40).Draw(t, "n"),
		Rounds: rapid.SampledFrom([]int{5, 10, 20, 40}).Draw(t, "rounds"),
		Below:  rapid.IntRange(0, len(barrierBelow)-1).Draw(t, "below"),
	}
}

func (c BarrierCase) script() string {
	kind := "period"
	if c.Idle {
		kind = "idle"
	}
	s := fmt.Sprintf("stream|from().measurement('m').groupBy('h')|barrier().%s(%s)", kind, c.Dur)
	if c.Delete {
		s += ".delete(TRUE)"
	}
	return s + barrierBelow[c.Below] + "|log().prefix('S')"
}

func runBarrier(c BarrierCase, cc *kit.Case) {
	script := c.script()
	if c.Idle {
		cc.Label("barrier:idle")
	} else {
		cc.Label("barrier:period")
	}
	if c.Delete {
		cc.Label("delete")
	}
	if c.Delete && c.Groups >= 2 && (c.Dur == "1u" || c.Dur == "10u" || c.Dur == "100u" || c.Dur == "1ms") {
		cc.NonTrivial()
	}
	var pts []kit.Pt
	for i := 0; i < c.N; i++ {
		pts = append(pts, kit.Pt{Name: "m", Tags: map[string]string{"h": fmt.Sprintf("h%d", i%c.Groups)},
			Fields: map[string]kit.FV{"i": kit.I(int64(i % 4))}, Time: dt0 + int64(i)*dsec})
	}
	for r := 0; r < c.Rounds; r++ {
		env, err := kit.NewEnv(kit.EnvOpts{})
		if err != nil {
			cc.Fail("harness/env", "env: %v", err)
			return
		}
		defErr, runErr := env.RunStream(script, pts)
		env.Close()
		if defErr != nil {
			cc.Fail("harness/script-rejected", "script rejected: %v\n%s", defErr, script)
			return
		}
		if runErr != nil {
			cc.Fail("barrier/task-died", "round %d: task ended with error: %v\n%s", r, runErr, script)
			return
		}
	}
}

var assumptionsBarrier = []string{
	"the barrier's timers run on the system clock: which tick coincides with the end of a task is sampled by repetition (5-40 task lifecycles per case, short periods); a process death is attributed to the case in flight by the driver",
}

func TestBarrier(t *testing.T) {
	r := kit.NewRec("C05", "Barrier", ruleBarrier, assumptionsBarrier...)
	kit.Check(t, r, genBarrier, runBarrier)
}

func TestReplayBarrier(t *testing.T) {
	r := kit.NewRec("C05", "Barrier", ruleBarrier, assumptionsBarrier...)
	kit.Replay(t, r, runBarrier)
}
