// C05 (a2) — definition plane, vars: "for every TICKscript text, template/vars document ...
// defining it returns either a task or an error: it never panics".
//
// A template may declare a var without a default value (`var filter lambda`); while the template
// itself is defined such a var holds the zero value of its type (docs: "TICKscript templates",
// tick/eval.go evalTypeDeclaration): 0, ”, FALSE, 0s, and for lambda / regex / list / star a nil
// pointer or nil slice. A task defined from the same script gets its values from a vars document.
//
// Generator: a stem that builds one node of every kind (`var n = stream|from()|window()...`),
// followed by 1-3 calls of methods and property setters of that node. The callable members are not
// written down by hand: they are read by reflection from the node object the stem evaluates to
// (every exported method, every exported field), so every argument position of the node API is
// reachable. Every argument is a literal of the parameter's type, or a var that is declared with a
// default value, or declared with a type and no value (the class a template allows), of the
// parameter's type or of another one. The script is defined as a template (no vars), and as a task
// with a generated vars document (var absent / supplied with the declared type / supplied with
// another type; values shaped as services/task_store builds them: parsed lambda, compiled regex,
// list of vars, star node).
// Oracle: every definition entry point returns (value or error); no panic reaches the caller; an
// accepted template / task answers Dot() and Vars(); goroutines back at the baseline.
package c05

import (
	"fmt"
	"reflect"
	"regexp"
	"runtime"
	"sort"
	"strings"
	"sync"
	"testing"
	"time"
	"unicode"

	"verifharness/kit"

	"github.com/influxdata/kapacitor"
	"github.com/influxdata/kapacitor/pipeline"
	"github.com/influxdata/kapacitor/tick"
	"github.com/influxdata/kapacitor/tick/ast"
	"github.com/influxdata/kapacitor/tick/stateful"
	"pgregory.net/rapid"
)

// PV is one entry of the vars document handed to NewTask.
type PV struct {
	Name string `json:"name"`
	Type string `json:"type"` // TICKscript type name
}

type VarsCase struct {
	Script string `json:"script"`
	Batch  bool   `json:"batch"`
	Vars   []PV   `json:"vars,omitempty"`
}

const ruleVars = "rapid: a stem that builds one node of every kind, then 1-3 calls of members of that node read by reflection from the node object (every exported method and field = every chain method, property method and property of the node API), each argument a literal, a var with a default value or a var declared with a type and NO value (template: zero value, nil for lambda/regex/list/star), of the parameter's type or another; defined as a template and as a task with a generated vars document (absent / declared type / other type); " +
	"oracle: ast.Parse, tick.Format, pipeline.CreatePipeline, CreateTemplatePipeline, TaskMaster.NewTemplate and TaskMaster.NewTask(vars) return (value or error), no panic reaches the caller, Dot()/Vars() of an accepted template or task return, goroutine count back at the baseline; non-trivial = some call of the script was evaluated with a var that has no default value (template accepted, or rejected by the called member itself); distinct by case hash"

var assumptionsVars = []string{
	"a template may declare `var x <type>` without a value; while the template is defined the var holds the zero value of the type (tick/eval.go evalTypeDeclaration + ast.ZeroValue: nil *ast.LambdaNode, nil *regexp.Regexp, nil list, nil *ast.StarNode); such a script is a TICKscript text a user can submit to POST /templates, so defining it must return a template or an error",
	"the members called are read by reflection from the node object (exported methods and fields of the pipeline node types): everything tick's ReflectionDescriber lets a script call with '|' or '.'; members with func/chan/map parameters cannot be written in TICKscript and are skipped",
	"vars documents have the shape services/task_store.convertToTickVarFromService produces: Type plus a concrete Go value (parsed lambda, compiled regex, []tick.Var for lists, &ast.StarNode{}); the type may differ from the declared one (the API does not check it before NewTask)",
	"only definition is exercised (NewTemplate, NewTask, Dot, Vars): what an accepted task does at run time is the business of the other units",
}

// ---------------------------------------------------------------- the node API by reflection

type member struct {
	Name     string   // TICKscript name
	Params   []string // kinds: S I F B D L R X (star) T (list) N (node) A (any); a trailing "*" marks variadic
	Chain    bool     // returns a node other than the receiver: called with '|'
	Nilable  bool     // has a parameter whose zero value is nil
	Variadic bool
}

type stem struct {
	Batch   bool
	Text    string
	Members []member
}

var (
	stemsOnce sync.Once
	stems     []stem
)

var (
	tLambda   = reflect.TypeOf((*ast.LambdaNode)(nil))
	tRegex    = reflect.TypeOf((*regexp.Regexp)(nil))
	tStar     = reflect.TypeOf((*ast.StarNode)(nil))
	tDuration = reflect.TypeOf(time.Duration(0))
	tNode     = reflect.TypeOf((*pipeline.Node)(nil)).Elem()
)

func kindOf(t reflect.Type) string {
	switch {
	case t == tLambda:
		return "L"
	case t == tRegex:
		return "R"
	case t == tStar:
		return "X"
	case t == tDuration:
		return "D"
	case t.Implements(tNode):
		return "N"
	}
	switch t.Kind() {
	case reflect.String:
		return "S"
	case reflect.Int64, reflect.Int, reflect.Int32:
		return "I"
	case reflect.Float64:
		return "F"
	case reflect.Bool:
		return "B"
	case reflect.Interface:
		if t.NumMethod() == 0 {
			return "A"
		}
		return "N"
	case reflect.Slice:
		if k := kindOf(t.Elem()); k != "" {
			return "T"
		}
	}
	return ""
}

func lowerFirst(s string) string {
	r := []rune(s)
	r[0] = unicode.ToLower(r[0])
	return string(r)
}

// taggedProps collects the method names that `tick:"Name"` field tags declare as property
// methods (tick.NewReflectionDescriber: every other exported method is a chain method) and the
// exported fields without a tag (properties set directly).
func taggedProps(st reflect.Type, tagged map[string]bool, plain map[string]reflect.Type) {
	for i := 0; i < st.NumField(); i++ {
		f := st.Field(i)
		if f.Anonymous {
			ft := f.Type
			if ft.Kind() == reflect.Ptr {
				ft = ft.Elem()
			}
			if ft.Kind() == reflect.Struct {
				taggedProps(ft, tagged, plain)
			}
			continue
		}
		if name := f.Tag.Get("tick"); name != "" {
			tagged[name] = true
		} else if f.PkgPath == "" {
			if _, ok := plain[f.Name]; !ok {
				plain[f.Name] = f.Type
			}
		}
	}
}

func membersOf(obj interface{}) []member {
	var out []member
	t := reflect.TypeOf(obj)
	tagged, plain := map[string]bool{}, map[string]reflect.Type{}
	if t.Kind() == reflect.Ptr && t.Elem().Kind() == reflect.Struct {
		taggedProps(t.Elem(), tagged, plain)
	}
	for i := 0; i < t.NumMethod(); i++ {
		m := t.Method(i)
		mt := m.Type
		mem := member{Name: lowerFirst(m.Name), Variadic: mt.IsVariadic(), Chain: !tagged[m.Name]}
		ok := true
		for p := 1; p < mt.NumIn(); p++ {
			pt := mt.In(p)
			if mt.IsVariadic() && p == mt.NumIn()-1 {
				pt = pt.Elem()
			}
			k := kindOf(pt)
			if k == "" {
				ok = false
				break
			}
			if strings.Contains("LRXTAN", k) {
				mem.Nilable = true
			}
			mem.Params = append(mem.Params, k)
		}
		if !ok {
			continue
		}
		delete(plain, m.Name)
		out = append(out, mem)
	}
	for name, ft := range plain {
		k := kindOf(ft)
		if k == "" {
			continue
		}
		out = append(out, member{Name: lowerFirst(name), Params: []string{k}, Nilable: strings.Contains("LRXTAN", k)})
	}
	sort.Slice(out, func(i, j int) bool { return out[i].Name < out[j].Name })
	return out
}

func loadStems() {
	type src struct {
		batch bool
		text  string
	}
	const q = "batch|query('SELECT v FROM \"db\".\"rp\".\"m\"').period(1m).every(30s)"
	list := []src{
		{false, "stream"}, {false, "stream|from()"}, {false, "stream|from().measurement('m').where(lambda: \"x\" > 1)"},
		{false, "stream|from().measurement('m').groupBy('h')|where(lambda: \"x\" > 1)"},
		{false, "stream|from()|join(stream|from().measurement('m2')).as('a', 'b')"}, {false, "stream|from()|union(stream|from().measurement('m2'))"},
		{false, "stream|from()|window().period(10s).every(5s)|join(stream|from()|window().period(10s).every(5s)).as('a', 'b')"},
		{true, "batch"}, {true, q}, {true, q + "|count('v')"}, {true, q + "|alert().crit(lambda: \"v\" > 1)"}, {true, q + "|eval(lambda: \"v\" * 2).as('w')"},
		{true, q + "|where(lambda: \"v\" > 1)"}, {true, q + "|join(" + q + ").as('a', 'b')"}, {true, q + "|influxDBOut().database('d')"}, {true, q + "|groupBy('h')"},
	}
	for _, f := range fragments {
		if strings.HasPrefix(f, "@") {
			continue
		}
		list = append(list, src{false, "stream|from().measurement('m')" + f})
	}
	for _, s := range list {
		scope := stateful.NewScope()
		et := pipeline.StreamEdge
		if s.batch {
			et = pipeline.BatchEdge
		}
		if _, err := pipeline.CreatePipeline("var n = "+s.text, et, scope, deadman{}, nil); err != nil {
			continue
		}
		obj, err := scope.Get("n")
		if err != nil || obj == nil {
			continue
		}
		if ms := membersOf(obj); len(ms) > 0 {
			stems = append(stems, stem{Batch: s.batch, Text: s.text, Members: ms})
		}
	}
}

// ---------------------------------------------------------------- generator

var varKinds = []string{"S", "I", "F", "B", "D", "L", "R", "X", "T"}

var kindType = map[string]string{"S": "string", "I": "int", "F": "float", "B": "bool", "D": "duration", "L": "lambda", "R": "regex", "X": "star", "T": "list"}

var kindLits = map[string][]string{
	"S": {"'v'", "''", "'a b'", "'{{ .Name }}'"},
	"I": {"3", "0", "-1", "1"},
	"F": {"1.5", "0.0", "-2.0", "100.0"},
	"B": {"TRUE", "FALSE"},
	"D": {"10s", "0s", "-1m", "1h"},
	"L": {"lambda: \"v\" > 1", "lambda: TRUE", "lambda: \"host\" == 'a' AND \"v\" / 2 > 1", "lambda: \"v\""},
	"R": {"/a.*/", "/^$/"},
	"X": {"*"},
	"T": {"['a', 'b']", "[]", "['a', *]", "[*]"},
}

func genVars(t *rapid.T) VarsCase {
	stemsOnce.Do(loadStems)
	if len(stems) == 0 {
		t.Fatalf("no stem evaluates")
	}
	st := stems[rapid.IntRange(0, len(stems)-1).Draw(t, "stem")]
	c := VarsCase{Batch: st.Batch}
	var nilable []member
	for _, m := range st.Members {
		if m.Nilable {
			nilable = append(nilable, m)
		}
	}
	var decls, calls []string
	nvars := 0
	arg := func(k string) string {
		if k == "A" {
			k = rapid.SampledFrom(varKinds).Draw(t, "anykind")
		}
		if k == "N" {
			switch rapid.IntRange(0, 3).Draw(t, "nodearg") {
			case 0:
				return "n"
			case 1:
				if st.Batch {
					return "batch"
				}
				return "stream"
			default:
				k = rapid.SampledFrom(varKinds).Draw(t, "nodekind")
			}
		}
		want := k
		fill := rapid.IntRange(0, 9).Draw(t, "fill")
		if fill == 8 || fill == 9 {
			k = rapid.SampledFrom(varKinds).Draw(t, "otherkind") // a value of another type
		}
		switch {
		case fill <= 3 || fill == 8: // declared with a type and no value
			name := fmt.Sprintf("v%d", nvars)
			nvars++
			decls = append(decls, fmt.Sprintf("var %s %s", name, kindType[k]))
			// the vars document of the task: absent, declared type, other type
			switch rapid.IntRange(0, 3).Draw(t, "supply") {
			case 0:
			case 1:
				c.Vars = append(c.Vars, PV{Name: name, Type: kindType[rapid.SampledFrom(varKinds).Draw(t, "supplykind")]})
			default:
				c.Vars = append(c.Vars, PV{Name: name, Type: kindType[k]})
			}
			return name
		case fill <= 5 || fill == 9: // declared with a default value
			name := fmt.Sprintf("v%d", nvars)
			nvars++
			decls = append(decls, fmt.Sprintf("var %s = %s", name, rapid.SampledFrom(kindLits[k]).Draw(t, "default")))
			if rapid.IntRange(0, 3).Draw(t, "override") == 0 {
				c.Vars = append(c.Vars, PV{Name: name, Type: kindType[rapid.SampledFrom([]string{want, k, rapid.SampledFrom(varKinds).Draw(t, "overridekind")}).Draw(t, "overridetype")]})
			}
			return name
		default:
			return rapid.SampledFrom(kindLits[k]).Draw(t, "lit")
		}
	}
	ncalls := rapid.IntRange(1, 3).Draw(t, "calls")
	for i := 0; i < ncalls; i++ {
		ms := st.Members
		if len(nilable) > 0 && rapid.Bool().Draw(t, "prefer-nilable") {
			ms = nilable
		}
		m := ms[rapid.IntRange(0, len(ms)-1).Draw(t, "member")]
		var args []string
		for pi, k := range m.Params {
			if m.Variadic && pi == len(m.Params)-1 {
				for r := rapid.IntRange(0, 3).Draw(t, "variadic"); r > 0; r-- {
					args = append(args, arg(k))
				}
				continue
			}
			args = append(args, arg(k))
		}
		switch rapid.IntRange(0, 11).Draw(t, "arity") {
		case 0:
			if len(args) > 0 {
				args = args[:len(args)-1]
			}
		case 1:
			args = append(args, arg("A"))
		}
		op := "."
		if m.Chain {
			op = "|"
		}
		if rapid.IntRange(0, 15).Draw(t, "flipop") == 0 {
			op = map[string]string{".": "|", "|": "."}[op]
		}
		calls = append(calls, fmt.Sprintf("n%s%s(%s)", op, m.Name, strings.Join(args, ", ")))
	}
	var sb strings.Builder
	for _, d := range decls {
		sb.WriteString(d + "\n")
	}
	sb.WriteString("var n = " + st.Text + "\n")
	for _, cl := range calls {
		sb.WriteString(cl + "\n")
	}
	c.Script = sb.String()
	return c
}

// ---------------------------------------------------------------- oracle

// tickVar builds the value the task store hands to NewTask for a var of the given type.
func tickVar(typ string) tick.Var {
	switch typ {
	case "string":
		return tick.Var{Type: ast.TString, Value: "w"}
	case "int":
		return tick.Var{Type: ast.TInt, Value: int64(2)}
	case "float":
		return tick.Var{Type: ast.TFloat, Value: 2.5}
	case "bool":
		return tick.Var{Type: ast.TBool, Value: true}
	case "duration":
		return tick.Var{Type: ast.TDuration, Value: 5 * time.Second}
	case "lambda":
		l, _ := ast.ParseLambda("\"w\" > 2")
		return tick.Var{Type: ast.TLambda, Value: l}
	case "regex":
		return tick.Var{Type: ast.TRegex, Value: regexp.MustCompile("b+")}
	case "star":
		return tick.Var{Type: ast.TStar, Value: &ast.StarNode{}}
	default:
		return tick.Var{Type: ast.TList, Value: []tick.Var{{Type: ast.TString, Value: "x"}, {Type: ast.TString, Value: "y"}}}
	}
}

func runVars(c VarsCase, cc *kit.Case) {
	base := runtime.NumGoroutine()
	checkText(c.Script, cc, base)
	if cc.Failed() {
		return
	}
	// a task master that is never opened: NewTemplate / NewTask only read its services
	tm := kapacitor.NewTaskMaster("vtm"+kit.Unique(), kit.ServerInfo{}, kit.DiagService.NewKapacitorHandler())
	tm.DeadmanService = kit.DeadmanStub{}
	tt := kapacitor.StreamTask
	if c.Batch {
		tt = kapacitor.BatchTask
	}
	escaped := ""
	call := func(name string, f func()) {
		defer func() {
			if r := recover(); r != nil && escaped == "" {
				buf := make([]byte, 4096)
				buf = buf[:runtime.Stack(buf, false)]
				escaped = fmt.Sprintf("%s panicked: %v\n%s", name, r, buf)
			}
		}()
		f()
	}
	var tmplErr, taskErr error
	call("TaskMaster.NewTemplate", func() {
		var tmpl *kapacitor.Template
		tmpl, tmplErr = tm.NewTemplate("tmpl"+kit.Unique(), c.Script, tt)
		if tmplErr == nil {
			_ = tmpl.Dot()
			_ = tmpl.Vars()
		}
	})
	vars := map[string]tick.Var{}
	for _, v := range c.Vars {
		vars[v.Name] = tickVar(v.Type)
	}
	call("TaskMaster.NewTask", func() {
		var task *kapacitor.Task
		task, taskErr = tm.NewTask("task"+kit.Unique(), c.Script, tt, kit.DefaultDBRP, 0, vars)
		if taskErr == nil {
			_ = task.Dot()
			_ = task.Measurements()
		}
	})
	if escaped != "" {
		cc.Fail(panicSig(escaped), "defining the script panicked instead of returning a template/task or an error\nscript:\n%s\nvars: %+v\n%s", c.Script, c.Vars, escaped)
		return
	}
	noDefault := strings.Contains(c.Script, " lambda\n") || strings.Contains(c.Script, " regex\n") || strings.Contains(c.Script, " list\n") || strings.Contains(c.Script, " star\n") ||
		strings.Contains(c.Script, " string\n") || strings.Contains(c.Script, " int\n") || strings.Contains(c.Script, " float\n") || strings.Contains(c.Script, " bool\n") || strings.Contains(c.Script, " duration\n")
	switch {
	case tmplErr == nil:
		cc.Label("template-accepted")
		if noDefault {
			cc.NonTrivial()
		}
	case strings.Contains(tmplErr.Error(), "error calling func"):
		cc.Label("template-rejected/by-the-member-called")
		if noDefault {
			cc.NonTrivial()
		}
	case strings.Contains(tmplErr.Error(), "no method or property") || strings.Contains(tmplErr.Error(), "operator instead"):
		cc.Label("template-rejected/no-such-member")
	default:
		cc.Label("template-rejected/other")
	}
	if taskErr == nil {
		cc.Label("task-accepted")
	} else if strings.Contains(taskErr.Error(), "missing value for var") {
		cc.Label("task-rejected/missing-var")
	} else {
		cc.Label("task-rejected/other")
	}
	if strings.Contains(c.Script, " lambda\n") {
		cc.Label("var-without-value:lambda")
	}
	if strings.Contains(c.Script, " regex\n") || strings.Contains(c.Script, " list\n") || strings.Contains(c.Script, " star\n") {
		cc.Label("var-without-value:regex/list/star")
	}
	if !settle(base) {
		buf := make([]byte, 1<<16)
		buf = buf[:runtime.Stack(buf, true)]
		cc.Fail("def/goroutine-leak", "defining the script leaves %d goroutines behind (baseline %d)\n%s\n%s", runtime.NumGoroutine()-base, base, c.Script, firstKapacitorGoroutines(string(buf), 3))
	}
}

func TestVars(t *testing.T) {
	r := kit.NewRec("C05", "Vars", ruleVars, append(append([]string{}, assumptionsDef...), assumptionsVars...)...)
	kit.Check(t, r, genVars, runVars)
}

func TestReplayVars(t *testing.T) {
	r := kit.NewRec("C05", "Vars", ruleVars, append(append([]string{}, assumptionsDef...), assumptionsVars...)...)
	kit.Replay(t, r, runVars)
}
