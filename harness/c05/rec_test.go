// C05 (e) — recordings are data from disk: any bytes offered as a stream or batch recording
// make the replay return an error at most; the reader goroutines never panic.
package c05

import (
	"bytes"
	"io"
	"strings"
	"testing"
	"time"

	"verifharness/kit"

	"github.com/influxdata/kapacitor"
	"github.com/influxdata/kapacitor/clock"
	"github.com/influxdata/kapacitor/edge"
	"pgregory.net/rapid"
)

type RecCase struct {
	Batch bool     `json:"batch"`
	Lines []string `json:"lines"`
}

const ruleRec = "rapid: recordings assembled from a menu of valid and hostile lines (db/rp/line-protocol triples, comments, blank lines, truncated records, JSON batches, null, wrong JSON types, huge numbers) replayed with ReplayStreamFromIO / ReplayBatchFromIO; " +
	"oracle: the replay ends with nil or an error within the bound, the process stays alive; non-trivial = a valid record precedes a hostile one; distinct by case hash"

var streamLines = []string{"db", "rp", "m,t=v f=1i 1", "m f=1.5", "# comment", "", " ", "m", "m,t= f=1", "m f=\"a", "m f=1 notatime", "db\nrp", "\x00", "m f=1i,g=\"x\" 99999999999999999999", strings.Repeat("a", 70000) + " f=1"}
var batchLines = []string{`{"name":"m","points":[{"fields":{"v":1},"time":"2020-01-01T00:00:00Z"}]}`, `null`, `{}`, `[]`, `{"points":null}`, `{"name":1}`, `{"points":[null]}`, `{"points":[{"fields":null,"time":"x"}]}`, `1e999`, `"s"`, `{"name":"m","tmax":"2020-01-01T00:00:00Z","points":[]}`, `{`, ``, `{"points":[{"fields":{"v":1e400}}]}`, `{"tags":{"a":1}}`, `true`}

func genRec(t *rapid.T) RecCase {
	c := RecCase{Batch: rapid.Bool().Draw(t, "batch")}
	menu := streamLines
	if c.Batch {
		menu = batchLines
	}
	n := rapid.IntRange(1, 8).Draw(t, "n")
	for i := 0; i < n; i++ {
		c.Lines = append(c.Lines, rapid.SampledFrom(menu).Draw(t, "line"))
	}
	return c
}

type nullStream struct{}

func (nullStream) CollectPoint(edge.PointMessage) error { return nil }
func (nullStream) Close() error                         { return nil }

type nullBatch struct{}

func (nullBatch) CollectBatch(edge.BufferedBatchMessage) error { return nil }
func (nullBatch) Close() error                                 { return nil }

func runRec(c RecCase, cc *kit.Case) {
	data := io.NopCloser(bytes.NewReader([]byte(strings.Join(c.Lines, "\n") + "\n")))
	clk := clock.New(time.Time{})
	clk.Set(time.Date(9999, 1, 1, 0, 0, 0, 0, time.UTC)) // Until never waits
	var errC <-chan error
	if c.Batch {
		errC = kapacitor.ReplayBatchFromIO(clk, []io.ReadCloser{data}, []kapacitor.BatchCollector{nullBatch{}}, true)
	} else {
		errC = kapacitor.ReplayStreamFromIO(clk, data, nullStream{}, true, "n")
	}
	if len(c.Lines) > 1 {
		cc.NonTrivial()
	}
	select {
	case <-errC:
	case <-time.After(20 * time.Second):
		cc.Fail("recording/hang", "replaying the recording did not end within 20 s\nlines: %q", c.Lines)
	}
}

func TestRecording(t *testing.T) {
	r := kit.NewRec("C05", "Recording", ruleRec, "a replay that ends with an error is fine; a panic in a reader goroutine (fatal to the daemon) or a replay that never ends is a violation")
	kit.Check(t, r, genRec, runRec)
}

func TestReplayRecording(t *testing.T) {
	r := kit.NewRec("C05", "Recording", ruleRec)
	kit.Replay(t, r, runRec)
}
