// C05 (b) — data plane: for every data point (any field types and values) a running task reports
// an error for that point at most and keeps processing subsequent points.
package c05

import (
	"fmt"
	"math"
	"os"
	"strings"
	"testing"

	"verifharness/kit"

	"pgregory.net/rapid"
)

type HP struct {
	F map[string]kit.FV `json:"f"` // absent key = missing field
	T map[string]string `json:"t,omitempty"`
}

type DataCase struct {
	Node   int  `json:"node"`
	Lambda int  `json:"lambda"`
	Batch  bool `json:"batch"`
	Pts    []HP `json:"pts"`
}

const ruleData = "rapid: every expression-bearing node kind (from.where, where, eval, alert levels, stateCount, stateDuration, default, derivative, influxql functions, flatten, sample ...) with lambdas from a hazard menu (integer / and %, strSubstring and friends, conversions, regex, time functions, stateful functions) fed points with hostile values (0, +-1, min/max int64, NaN, +-Inf, empty/multi-byte strings, wrong type, missing) followed by sentinel points; " +
	"oracle: process alive, task still executing, the last sentinel reaches the sink; non-trivial = some node reported an error for a hostile point; distinct by case hash"

// lambdas: every one is true (or harmless) for the sentinel point i=2 j=1 f=1.5 s='abc' b=TRUE
var hazardLambdas = []string{
	`10 / "i" > 1`, `"i" % "j" == 0`, `7 % "i" == 1`, `"i" / "j" >= 2`, `1.0 / "f" > 0.0`, `"j" == 1 OR "i" / 0 == 1`, `int("f") / "i" == 0`,
	`strSubstring("s", "j", "i") == 'b'`, `"j" == 1 OR strSubstring("s", "i", "j") == 'b'`, `strIndex("s", 'b') == "j"`, `strLength("s") / "i" == 1`, `strReplace("s", 'a', 'x', "i") != ''`,
	`"s" =~ /a.c/`, `"s" == 'abc' OR float("s") > 1.0`, `"s" == 'abc' OR int("s") > 1`, `"s" == 'abc' OR bool("s")`, `"s" == 'abc' OR duration("s") > 1s`, `string("i") == '2'`, `float("i") * "f" > 1.0`,
	`if("b", 10 / "i", 0) == 5`, `sigma("f") >= 0.0 OR "j" == 1`, `count() / "i" >= 0`, `spread("f") / "f" >= 0.0 OR "j" == 1`, `abs(float("i")) > 0.0`, `pow(float("i"), "f") > 0.0`, `sqrt("f") > 0.0`, `log("f") > 0.0`,
	`hour("time") >= 0`, `unixNano("time") / "i" != 0`, `"i" > "f"`, `"s" + 'x' == 'abcx'`, `!"b" OR "i" / "j" == 2`, `isPresent("i") AND "i" / "i" == 1`,
	`10s / "i" > 0s`, `duration("i", 1s) / "j" >= 0s`, `1s / 2.0 * "f" > 0s`, `1h / duration("i", 1m) > 0`,
	`humanBytes("i") != ''`, `strToUpper("s") == 'ABC'`, `ceil("f") / float("i") > 0.0`, `max("f", 1.0) / min("f", 1.0) > 1.0`, `-"i" / "j" < 0`, `"i" * "i" / "i" == "i"`,
	// string functions at the boundaries of multi-byte values (indexes that are valid byte offsets but lie beyond the number of characters)
	`"j" == 1 OR strLength(strSubstring("s", 1, strLength("s") - 1)) >= 0`, `"j" == 1 OR strSubstring("s", 0, 6) != 'x'`, `"j" == 1 OR strSubstring("s", 2, 4) != 'x'`,
	`"j" == 1 OR strIndex("s", 'é') >= -1`, `"j" == 1 OR strLastIndex("s", '語') >= -1`, `"j" == 1 OR strTrimPrefix("s", 'é') != 'x'`, `"j" == 1 OR strTrim(strToTitle("s"), 'é') != 'x'`,
	`"j" == 1 OR strHasSuffix("s", strSubstring("s", strLength("s") / 2, strLength("s") - 1))`,
}

// node templates: %s = lambda. Each forwards the sentinel.
var dataNodes = []string{
	"stream|from().measurement('m').where(lambda: %s)|log().prefix('S')",
	"stream|from().measurement('m')|where(lambda: %s)|log().prefix('S')",
	"stream|from().measurement('m')|eval(lambda: %s).as('e').keep()|log().prefix('S')",
	"stream|from().measurement('m')|eval(lambda: %s, lambda: \"e1\").as('e1', 'e2')|log().prefix('S')",
	"stream|from().measurement('m')|stateCount(lambda: %s)|log().prefix('S')",
	"stream|from().measurement('m')|stateDuration(lambda: %s)|log().prefix('S')",
	"stream|from().measurement('m')|alert().crit(lambda: %s).warn(lambda: %s).warnReset(lambda: %s).message('{{ index .Fields \"i\" }}')|log().prefix('S')",
	"stream|from().measurement('m').groupBy('h')|where(lambda: %s)|log().prefix('S')",
	"stream|from().measurement('m')|window().periodCount(1).everyCount(1)|where(lambda: %s)|log().prefix('S')",
	"stream|from().measurement('m')|window().periodCount(1).everyCount(1)|eval(lambda: %s).as('e')|log().prefix('S')",
	"stream|from().measurement('m')|combine(lambda: %s, lambda: TRUE).as('a', 'b')|log().prefix('C')\nstream|from().measurement('m')|log().prefix('S')",
	// fixed lambdas that are ill-formed for every point (too many / too few / wrong arguments): the
	// node reports an error per point, the sibling branch S keeps receiving the sentinels
	"stream|from().measurement('m')|where(lambda: strReplace(\"s\", 'a', 'x', \"i\", 1) != '')|log().prefix('X')\nstream|from().measurement('m')|log().prefix('S')",
	"stream|from().measurement('m')|stateCount(lambda: if(\"b\", 1, 2, 3, 4, 5) == 1)|log().prefix('X')\nstream|from().measurement('m')|log().prefix('S')",
	"stream|from().measurement('m')|eval(lambda: pow(\"f\", 2.0, 3.0, 4.0, 5.0, 6.0), lambda: sigma()).as('a', 'b')|log().prefix('X')\nstream|from().measurement('m')|log().prefix('S')",
	"stream|from().measurement('m')|alert().crit(lambda: strSubstring(\"s\", 1, 2, 3, 4, 5, 6) == 'a')|log().prefix('X')\nstream|from().measurement('m')|log().prefix('S')",
	// nodes without a lambda that interpret field values
	"stream|from().measurement('m')|derivative('f')|log().prefix('S')",
	"stream|from().measurement('m')|derivative('i').nonNegative().unit(1m)|log().prefix('S')",
	"stream|from().measurement('m')|window().periodCount(2).everyCount(1)|mean('f')|log().prefix('S')",
	"stream|from().measurement('m')|window().periodCount(2).everyCount(1)|percentile('i', 50.0)|log().prefix('S')",
	"stream|from().measurement('m')|window().periodCount(2).everyCount(1)|top(1, 'f')|log().prefix('S')",
	"stream|from().measurement('m')|window().periodCount(2).everyCount(1)|stddev('i')|log().prefix('S')",
	"stream|from().measurement('m')|sum('i')|log().prefix('X')\nstream|from().measurement('m')|log().prefix('S')",
	"stream|from().measurement('m')|movingAverage('f', 2)|log().prefix('S')",
	"stream|from().measurement('m')|cumulativeSum('i')|log().prefix('S')",
	"stream|from().measurement('m')|elapsed('i', 1s)|log().prefix('S')",
	"stream|from().measurement('m')|difference('f')|log().prefix('S')",
	"stream|from().measurement('m')|changeDetect('s')|log().prefix('X')\nstream|from().measurement('m')|log().prefix('S')",
	"stream|from().measurement('m')|flatten().on('h')|log().prefix('X')\nstream|from().measurement('m')|log().prefix('S')",
	"stream|from().measurement('m')|default().field('i', 1).tag('h', 'x')|log().prefix('S')",
	"stream|from().measurement('m')|delete().field('i').tag('h')|log().prefix('S')",
	"stream|from().measurement('m')|sample(2s)|log().prefix('X')\nstream|from().measurement('m')|log().prefix('S')",
	"stream|from().measurement('m')|httpOut('x')|log().prefix('S')",
	"stream|from().measurement('m')|window().period(3s).every(1s)|last('s')|log().prefix('X')\nstream|from().measurement('m')|log().prefix('S')",
	"stream|from().measurement('m')|holtWinters('f', 1, 0, 1s)|log().prefix('X')\nstream|from().measurement('m')|log().prefix('S')",
	// alert templates that interpret a field value: they render for the sentinel, not for every hostile
	// point (missing field, other type, empty string). KEEP THESE LAST: dataTemplateNodes of them are
	// excluded by construction (known finding data/task-died/alert-template), replays index this list.
	"stream|from().measurement('m')|alert().crit(lambda: TRUE).message('{{ index .Fields \"s\" | len }}')|log().prefix('S')",
	"stream|from().measurement('m')|alert().crit(lambda: TRUE).details('{{ index (index .Fields \"s\") 0 }}')|log().prefix('S')",
	"stream|from().measurement('m')|window().periodCount(1).everyCount(1)|alert().crit(lambda: TRUE).message('{{ slice (index .Fields \"s\") 1 }}')|log().prefix('S')",
}

// dataTemplateNodes is the number of templates at the end of dataNodes whose alert templates
// interpret a field value. A point for which such a template cannot be rendered used to end the
// task (alert.go: the error of renderMessageAndDetails was returned by the node; repaired in /repo
// by a fix: commit). The class is searched; VERIF_C05_DATA_EXCLUDE=1 excludes it again (counted).
const dataTemplateNodes = 3

var recData *kit.Rec

func hostileValue(t *rapid.T, label string) (kit.FV, bool) {
	switch rapid.IntRange(0, 9).Draw(t, label+"kind") {
	case 0:
		return kit.FV{}, false // missing
	case 1, 2, 3:
		if rapid.IntRange(0, 2).Draw(t, label+"small") == 0 {
			// small values: indexes into the string fields, divisors, counts
			return kit.I(int64(rapid.IntRange(-2, 14).Draw(t, label+"si"))), true
		}
		return kit.I(rapid.SampledFrom([]int64{0, 0, -1, 1, 2, math.MinInt64, math.MaxInt64, 3, 1 << 53}).Draw(t, label+"i")), true
	case 4, 5:
		return kit.F(rapid.SampledFrom([]float64{0, math.Copysign(0, -1), math.NaN(), math.Inf(1), math.Inf(-1), -1.5, 1e308, 5e-324, 1.5}).Draw(t, label+"f")), true
	case 6, 7:
		return kit.S(rapid.SampledFrom([]string{"", "a", "é€", "abc", "1", "1.5", "TRUE", "10s", "\x00", strings.Repeat("ab", 300), "{{ . }}", "a\nb", "ééééé", "日本語", strings.Repeat("é", 40), strings.Repeat("語", 25), "aé\xffb"}).Draw(t, label+"s")), true
	default:
		return kit.B(rapid.Bool().Draw(t, label+"b")), true
	}
}

func genData(t *rapid.T) DataCase {
	c := DataCase{Node: rapid.IntRange(0, len(dataNodes)-1).Draw(t, "node"), Lambda: rapid.IntRange(0, len(hazardLambdas)-1).Draw(t, "lambda")}
	if c.Node >= len(dataNodes)-dataTemplateNodes && os.Getenv("VERIF_C05_DATA_EXCLUDE") != "" {
		if recData != nil {
			recData.Exclude("alert-template-that-interprets-a-field-value")
		}
		c.Node = 6 // the alert node with a template that renders for every point
	}
	n := rapid.IntRange(1, 6).Draw(t, "n")
	for i := 0; i < n; i++ {
		p := HP{F: map[string]kit.FV{}}
		for _, f := range []string{"i", "j", "f", "s", "b"} {
			// mostly the declared type with a hostile value, sometimes any type
			if v, ok := hostileValue(t, f); ok {
				p.F[f] = v
			}
		}
		if rapid.Bool().Draw(t, "tag") {
			p.T = map[string]string{"h": rapid.SampledFrom([]string{"", "a", "x,y=z", "é"}).Draw(t, "h")}
		}
		c.Pts = append(c.Pts, p)
	}
	return c
}

func (c DataCase) script() string {
	tmpl := dataNodes[c.Node]
	n := strings.Count(tmpl, "%s")
	args := make([]interface{}, n)
	for i := range args {
		args[i] = hazardLambdas[(c.Lambda+i)%len(hazardLambdas)]
	}
	return fmt.Sprintf(tmpl, args...)
}

const dsec = int64(1e9)
const dt0 = int64(1_500_000_000) * dsec

func runData(c DataCase, cc *kit.Case) {
	script := c.script()
	env, err := kit.NewEnv(kit.EnvOpts{Alerts: strings.Contains(script, "|alert()")})
	if err != nil {
		cc.Fail("harness/env", "env: %v", err)
		return
	}
	defer env.Close()
	sentinel := func(t int64) kit.Pt {
		return kit.Pt{Name: "m", Tags: map[string]string{"h": "a"}, Fields: map[string]kit.FV{"i": kit.I(2), "j": kit.I(1), "f": kit.F(1.5), "s": kit.S("abc"), "b": kit.B(true)}, Time: t}
	}
	var pts []kit.Pt
	t := dt0
	// a sentinel first (stateful nodes have a well-formed predecessor), then hostile points each
	// followed by a sentinel, then two sentinels
	pts = append(pts, sentinel(t))
	for _, h := range c.Pts {
		t += dsec
		pts = append(pts, kit.Pt{Name: "m", Tags: h.T, Fields: h.F, Time: t})
		t += dsec
		pts = append(pts, sentinel(t))
	}
	t += dsec
	pts = append(pts, sentinel(t))
	t += dsec
	pts = append(pts, sentinel(t))
	last := t
	if len(c.Pts) > 0 && len(c.Pts[0].F) == 0 {
		// a point without any field cannot be written
		delete(pts[1].Fields, "x")
	}
	var clean []kit.Pt
	for _, p := range pts {
		if len(p.Fields) > 0 {
			clean = append(clean, p)
		}
	}
	defErr, runErr := env.RunStream(script, clean)
	if defErr != nil {
		cc.Fail("harness/script-rejected", "script rejected: %v\n%s", defErr, script)
		return
	}
	cc.Label(fmt.Sprintf("node:%02d", c.Node))
	if len(env.Sink.Errors()) > 0 {
		cc.NonTrivial()
		cc.Label("node-reported-error")
	}
	if runErr != nil {
		sig := "data/task-died"
		if strings.Contains(runErr.Error(), "template:") {
			sig = "data/task-died/alert-template"
		}
		cc.Fail(sig, "a data point killed the task: %v\nscript: %s\npoints: %+v", runErr, script, c.Pts)
		return
	}
	// the last sentinel must have come through
	seen := false
	for _, o := range env.Sink.By("S") {
		if o.P != nil && o.P.Time == last {
			seen = true
		}
		if o.B != nil {
			if o.B.TMax == last {
				seen = true
			}
			for _, p := range o.B.Points {
				if p.Time == last {
					seen = true
				}
			}
		}
	}
	if !seen {
		cc.Fail("data/sentinel-lost", "the well-formed points after the hostile ones did not come through (last sentinel t=%d missing at the sink)\nscript: %s\npoints: %+v\nnode errors: %+v", last, script, c.Pts, env.Sink.Errors())
	}
}

var assumptionsData = []string{
	"points are written with WriteKapacitorPoint: field values of every Go type kapacitor uses (int64, float64 incl. NaN/Inf, string, bool), missing fields; every point carries at least one field",
	"alert message/details templates that interpret a field value (len, index, slice of a string field) render for the sentinel; a point for which they cannot be rendered (field missing, other type, empty string) is an error for that point (it used to end the task: fixed finding data/task-died/alert-template); VERIF_C05_DATA_EXCLUDE=1 excludes these node templates (counted)",
	"every lambda of the menu is true for the sentinel point (i=2 j=1 f=1.5 s='abc' b=TRUE); the last sentinel must reach the sink, the process must stay alive and the task must end without error",
}

func TestData(t *testing.T) {
	r := kit.NewRec("C05", "Data", ruleData, assumptionsData...)
	recData = r
	kit.Check(t, r, genData, runData)
}

func TestReplayData(t *testing.T) {
	r := kit.NewRec("C05", "Data", ruleData, assumptionsData...)
	kit.Replay(t, r, runData)
}
