// C05 (h) — "... the process and all other tasks are unaffected."
//
// The other data-plane units run one task (Fanout: one task plus a reader) that stays healthy.
// This unit puts 2-5 stream tasks on one task master, lets some of them END WITH AN ERROR at a
// generated point of the input (a node of the task returns an error for a point: an alert whose
// message / id template cannot be rendered for the point, a combine over its maximum), and keeps
// writing: the remaining tasks (the bystanders) must receive every point of their subscription,
// exactly once, unchanged and in the order written, and end without error.
//
// Generator: per task a subscription (dbrps db.rp / db2.rp / both; from() without measurement,
// with 'm', with 'n', or two from() nodes) and a role (bystander, or a victim kind from a menu with
// the index of the point that ends it); 60-400 points over the measurements m / n and the two
// dbrps, written in rounds (the harness waits, bounded, for the bystanders to catch up between two
// rounds, so that the death of a victim and its consequences inside the task master - the victim's
// source node aborts the edge on which the task master delivers points to it - happen while points
// are still being written); optionally the dead task is stopped after a generated number of
// further points, as services/task_store does once it notices that the task has ended.
// Oracle: process alive; every bystander receives exactly the points selected by its dbrps and
// measurement, in the order written, with the written content; every bystander ends without error.
// Nothing is asserted about the victim (labelled: died / survived).
package c05

import (
	"fmt"
	"strings"
	"testing"
	"time"

	"verifharness/kit"

	"github.com/influxdata/kapacitor"
	"pgregory.net/rapid"
)

type ByTask struct {
	Victim int `json:"victim"` // -1: bystander; else index into byVictims
	Sub    int `json:"sub"`    // index into bySubs
	DBRP   int `json:"dbrp"`   // 0: db.rp, 1: db2.rp, 2: both
	KillAt int `json:"kill_at,omitempty"`
	StopIn int `json:"stop_in,omitempty"` // > 0: StopTask(victim) that many rounds after the round of KillAt
}

type ByCase struct {
	Tasks []ByTask `json:"tasks"`
	N     int      `json:"n"`
	Round int      `json:"round"`
	Mix   int      `json:"mix"` // how measurements and dbrps alternate over the points
}

// subscriptions: what follows "stream" up to the first node after from(); Meas lists the
// measurements selected (nil = all)
type bySub struct {
	From string
	Meas []string
}

var bySubs = []bySub{
	{"|from()", nil},
	{"|from().measurement('m')", []string{"m"}},
	{"|from().measurement('n')", []string{"n"}},
	{"|from().measurement('m').groupBy('h')", []string{"m"}},
}

// victims: %s = the from() part, %d = index (field j) of the point that ends the task
var byVictims = []string{
	// the id template cannot be rendered (a tag value is a string, it has no field): the alert node
	// fails when the first point of a group arrives
	"stream%s|where(lambda: \"j\" >= %d)|alert().id('{{ .Tags.h.nope }}').crit(lambda: TRUE)|log().prefix('V')",
	// the same with another template error
	"stream%s|where(lambda: \"j\" >= %d)|alert().id('{{ .Name.nope }}').warn(lambda: TRUE).stateChangesOnly()|log().prefix('V')",
	// the same below a window (batch edges inside the victim)
	"stream%s|where(lambda: \"j\" >= %d)|window().periodCount(2).everyCount(2)|alert().id('{{ .Tags.h.nope }}').crit(lambda: TRUE)|log().prefix('V')",
	// the failing node is one of two branches
	"var p = stream%s|where(lambda: \"j\" >= %d)\np|alert().id('{{ .Tags.h.nope }}').crit(lambda: TRUE)\np|log().prefix('V')",
	// more combinations than the node's maximum
	"stream%s|where(lambda: \"j\" >= %d)|combine(lambda: TRUE, lambda: TRUE).as('a', 'b').tolerance(4s).max(1)|log().prefix('V')",
	// an alert message template that cannot be rendered used to end the task as well (fixed: the
	// task survives; kept as a victim kind that must not die)
	"stream%s|alert().crit(lambda: \"j\" >= %d).message('{{ .Fields.j.nope }}')|log().prefix('V')",
}

const ruleBy = "rapid: 2-5 stream tasks on one task master with generated subscriptions (db.rp / db2.rp / both; from() without measurement, 'm', 'n', grouped), 1-2 of them victims that end with an error at a generated point (alert id template that cannot be rendered, below a window, in one of two branches; combine over its maximum), the others bystanders; 60-400 points over two measurements and two dbrps written in rounds, the dead task optionally stopped some rounds later as the task store does; " +
	"oracle: process alive, every bystander receives exactly the points its dbrps and measurement select, once, unchanged, in the order written, and ends without error; non-trivial = a victim ended with an error and at least 20 points selected by a bystander that shares a dbrp with it were written after the point that ended it; distinct by case hash"

var assumptionsBy = []string{
	"'the process and all other tasks are unaffected' is read as: a task that ends with an error (for whatever reason) changes nothing for the tasks that keep running - they receive every point written to a database/retention policy they declared whose measurement their from() selects, exactly once and in the order written (the delivery rule itself is the statement of C02; documentation: from().measurement, task dbrps)",
	"points are written by one goroutine with TaskMaster.WriteKapacitorPoint; the task master forwards them in order (one forking goroutine, FIFO edges), so a bystander's input order is the order written",
	"a victim is ended by an error a node returns for a point (alert id template not renderable, combine max exceeded). Whether such a task ought to end at all is not judged here and nothing is asserted about the victim; its end is only the stimulus",
	"the harness waits between rounds until the bystanders have caught up, at most 2 s (pacing only, never a verdict; after the first wait that runs out the rest is written without waiting); the verdict is taken after TaskMaster.Drain and Wait of every bystander",
	"a task that ended with an error stays registered with the task master until somebody calls StopTask (services/task_store does so from a goroutine after ExecutingTask.Wait returned): both are generated - never stopped, and stopped 1-3 rounds later",
}

func genBy(t *rapid.T) ByCase {
	c := ByCase{N: rapid.SampledFrom([]int{60, 120, 200, 400}).Draw(t, "n"), Round: rapid.SampledFrom([]int{5, 10, 25}).Draw(t, "round"), Mix: rapid.IntRange(0, 3).Draw(t, "mix")}
	nt := rapid.IntRange(2, 5).Draw(t, "tasks")
	nv := rapid.IntRange(1, 2).Draw(t, "victims")
	if nv >= nt {
		nv = nt - 1
	}
	for i := 0; i < nt; i++ {
		bt := ByTask{Victim: -1, Sub: rapid.IntRange(0, len(bySubs)-1).Draw(t, "sub"), DBRP: rapid.SampledFrom([]int{0, 0, 0, 1, 2, 2}).Draw(t, "dbrp")}
		if i < nv {
			bt.Victim = rapid.IntRange(0, len(byVictims)-1).Draw(t, "victim")
			bt.KillAt = rapid.IntRange(0, c.N/2).Draw(t, "killat")
			if rapid.IntRange(0, 2).Draw(t, "stop") == 0 {
				bt.StopIn = rapid.IntRange(1, 3).Draw(t, "stopin")
			}
		}
		c.Tasks = append(c.Tasks, bt)
	}
	return c
}

func (c ByCase) points() []kit.Pt {
	var pts []kit.Pt
	for i := 0; i < c.N; i++ {
		name, db := "m", "db"
		switch c.Mix {
		case 1:
			if i%3 == 2 {
				name = "n"
			}
		case 2:
			if i%4 == 3 {
				db = "db2"
			}
		case 3:
			if i%3 == 1 {
				name = "n"
			}
			if i%5 == 4 {
				db = "db2"
			}
		}
		pts = append(pts, kit.Pt{Name: name, DB: db, RP: "rp",
			Tags:   map[string]string{"h": fmt.Sprintf("h%d", i%3)},
			Fields: map[string]kit.FV{"j": kit.I(int64(i)), "f": kit.F(float64(i%7) / 2), "s": kit.S(fmt.Sprintf("s%d", i%2))},
			Time:   dt0 + int64(i)*dsec})
	}
	return pts
}

func (t ByTask) dbrps() []kapacitor.DBRP {
	switch t.DBRP {
	case 1:
		return []kapacitor.DBRP{{Database: "db2", RetentionPolicy: "rp"}}
	case 2:
		return []kapacitor.DBRP{{Database: "db", RetentionPolicy: "rp"}, {Database: "db2", RetentionPolicy: "rp"}}
	}
	return []kapacitor.DBRP{{Database: "db", RetentionPolicy: "rp"}}
}

// selects is the delivery rule: the task declared the point's database/retention policy and its
// from() selects the measurement.
func (t ByTask) selects(p kit.Pt) bool {
	ok := false
	for _, d := range t.dbrps() {
		if d.Database == p.DB && d.RetentionPolicy == p.RP {
			ok = true
		}
	}
	if !ok {
		return false
	}
	ms := bySubs[t.Sub].Meas
	if ms == nil {
		return true
	}
	for _, m := range ms {
		if m == p.Name {
			return true
		}
	}
	return false
}

func runBy(c ByCase, cc *kit.Case) {
	env, err := kit.NewEnv(kit.EnvOpts{Alerts: true})
	if err != nil {
		cc.Fail("harness/env", "env: %v", err)
		return
	}
	defer env.Close()
	type running struct {
		t      ByTask
		id     string
		prefix string
		script string
		et     *kapacitor.ExecutingTask
		stopAt int // index of the point before which StopTask is called; -1 never
	}
	var tasks []*running
	for i, bt := range c.Tasks {
		r := &running{t: bt, id: fmt.Sprintf("t%d_%s", i, kit.Unique()), prefix: fmt.Sprintf("B%d", i), stopAt: -1}
		if bt.Victim >= 0 {
			r.script = fmt.Sprintf(byVictims[bt.Victim], bySubs[bt.Sub].From, bt.KillAt)
			cc.Label(fmt.Sprintf("victim:%d", bt.Victim))
			if bt.StopIn > 0 {
				r.stopAt = (bt.KillAt/c.Round + 1 + bt.StopIn) * c.Round
			}
		} else {
			r.script = fmt.Sprintf("stream%s|log().prefix('%s')", bySubs[bt.Sub].From, r.prefix)
		}
		r.et, err = env.StartTask(r.id, r.script, kapacitor.StreamTask, bt.dbrps())
		if err != nil {
			cc.Fail("harness/script-rejected", "script rejected: %v\n%s", err, r.script)
			return
		}
		tasks = append(tasks, r)
	}
	describe := func() string {
		var sb strings.Builder
		for _, r := range tasks {
			role := "bystander"
			if r.t.Victim >= 0 {
				role = fmt.Sprintf("victim (ends at point %d, StopTask before point %d)", r.t.KillAt, r.stopAt)
			}
			fmt.Fprintf(&sb, "task %s dbrps %v %s:\n%s\n", r.id, r.t.dbrps(), role, r.script)
		}
		return sb.String()
	}
	pts := c.points()
	want := map[string][]kit.Pt{}
	pace := true
	for i, p := range pts {
		for _, r := range tasks {
			if r.stopAt == i {
				// what the task store does once it has noticed that the task ended with an error
				done := make(chan error, 1)
				go func(r *running) { done <- r.et.Wait() }(r)
				select {
				case err := <-done:
					if err != nil {
						cc.Label("dead-task-stopped")
						env.TM.StopTask(r.id)
					}
				case <-time.After(50 * time.Millisecond):
					// the victim has not ended (yet): it keeps running
				}
			}
		}
		if err := env.TM.WriteKapacitorPoint(p.Msg()); err != nil {
			cc.Fail("harness/write", "write: %v", err)
			return
		}
		for _, r := range tasks {
			if r.t.Victim < 0 && r.t.selects(p) {
				want[r.prefix] = append(want[r.prefix], p)
			}
		}
		if pace && (i+1)%c.Round == 0 {
			deadline := time.Now().Add(2 * time.Second)
			for {
				ok := true
				for _, r := range tasks {
					if r.t.Victim < 0 && env.Sink.Count(r.prefix) < len(want[r.prefix]) {
						ok = false
					}
				}
				if ok {
					break
				}
				if time.Now().After(deadline) {
					pace = false
					break
				}
				time.Sleep(200 * time.Microsecond)
			}
		}
	}
	env.TM.Drain()
	// victims: nothing asserted
	for _, r := range tasks {
		if r.t.Victim < 0 {
			continue
		}
		r.et.StopStats()
		if err := r.et.Wait(); err != nil {
			cc.Label("victim-ended-with-error")
			cc.Label(fmt.Sprintf("victim:%d:ended-with-error", r.t.Victim))
			// non-trivial: enough points for a bystander on a shared dbrp after the fatal point
			for _, b := range tasks {
				if b.t.Victim >= 0 {
					continue
				}
				after := 0
				for _, p := range want[b.prefix] {
					shared := false
					for _, d := range r.t.dbrps() {
						if d.Database == p.DB && d.RetentionPolicy == p.RP {
							shared = true
						}
					}
					if j, _ := p.Fields["j"].Go().(int64); int(j) > r.t.KillAt && shared {
						after++
					}
				}
				if after >= 20 {
					cc.NonTrivial()
				}
			}
		} else {
			cc.Label("victim-survived")
		}
	}
	for _, r := range tasks {
		if r.t.Victim >= 0 {
			continue
		}
		r.et.StopStats()
		if err := r.et.Wait(); err != nil {
			cc.Fail("bystander/task-died", "bystander task %s ended with error: %v\n%s", r.id, err, describe())
			return
		}
		obs := env.Sink.By(r.prefix)
		exp := want[r.prefix]
		k := 0
		for _, o := range obs {
			if o.P == nil {
				cc.Fail("bystander/data", "bystander task %s received a non-point\n%s", r.id, describe())
				return
			}
			if k >= len(exp) {
				cc.Fail("bystander/extra-point", "bystander task %s received %d points, %d written points are selected by it; first extra: %+v\n%s", r.id, len(obs), len(exp), *o.P, describe())
				return
			}
			if !samePoint(*o.P, exp[k]) {
				gj, _ := o.P.Fields["j"].Go().(int64)
				wj, _ := exp[k].Fields["j"].Go().(int64)
				sig := "bystander/data"
				if gj > wj {
					sig = "bystander/point-lost"
				} else if gj < wj {
					sig = "bystander/point-duplicated-or-reordered"
				}
				cc.Fail(sig, "bystander task %s: observation %d is point j=%d %+v, expected the written point j=%d %+v (received %d, selected %d)\n%s", r.id, k, gj, *o.P, wj, exp[k], len(obs), len(exp), describe())
				return
			}
			k++
		}
		if k < len(exp) {
			cc.Fail("bystander/point-lost", "bystander task %s received %d of the %d written points it selects; first missing: j=%v\n%s", r.id, k, len(exp), exp[k].Fields["j"], describe())
			return
		}
	}
}

func TestBystander(t *testing.T) {
	r := kit.NewRec("C05", "Bystander", ruleBy, assumptionsBy...)
	kit.Check(t, r, genBy, runBy)
}

func TestReplayBystander(t *testing.T) {
	r := kit.NewRec("C05", "Bystander", ruleBy, assumptionsBy...)
	kit.Replay(t, r, runBy)
}
