// C02, unit UDPWrite — the UDP ingestion entry point (services/udp: the transport of InfluxDB
// subscriptions and of the [[udp]] inputs; server.go wires its PointsWriter to the TaskMaster).
//
// Generator: 1-2 listeners (each configured with its own database / retention policy, one of them
// without a retention policy = the task master's default), 1-40 datagrams of 1-4 points of
// generated sizes sent back to back over the loopback interface, optionally while one WritePoints
// call of a listener is held back (back-pressure of the ingest path: the listener's reader keeps
// taking datagrams off the socket while its writer is busy).
// Oracle: every datagram the listener has received is a write of its points to the listener's
// db/rp: the observer task on that db/rp receives every point of every datagram exactly once, with
// the name, tags, fields and time written, the points of one datagram in the order written (the
// order BETWEEN datagrams is the transport's: not asserted). Datagrams the listener's own
// statistics do not account for (dropped by the kernel) make the case inconclusive for
// completeness, never a failure.
package c02

import (
	stdexpvar "expvar"
	"fmt"
	"net"
	"reflect"
	"strings"
	"sync"
	"sync/atomic"
	"testing"
	"time"

	"verifharness/kit"

	imodels "github.com/influxdata/influxdb/models"
	"github.com/influxdata/kapacitor"
	kexpvar "github.com/influxdata/kapacitor/expvar"
	"github.com/influxdata/kapacitor/keyvalue"
	"github.com/influxdata/kapacitor/server/vars"
	"github.com/influxdata/kapacitor/services/udp"
	"pgregory.net/rapid"
)

type UDgram struct {
	L   int `json:"l"`   // listener
	N   int `json:"n"`   // points in the datagram
	Pad int `json:"pad"` // length of the string field of its points
}

type UDPCase struct {
	Listeners int      `json:"listeners"` // 1 or 2
	Dgrams    []UDgram `json:"dgrams"`
	// Hold k >= 0: WritePoints call number k of listener 0 does not return before the listeners have
	// taken every datagram of the case off their sockets (-1: no call is held)
	Hold int `json:"hold"`
}

// listener l writes to uDBRPs[l]; listener 1 is configured without a retention policy and the
// task master's default retention policy is uDefaultRP
var uDBRPs = [][2]string{{"db", "rp"}, {"db2", ""}}

const uDefaultRP = "rpdflt"

const ruleUDPWrite = "rapid: 1-40 line-protocol datagrams (1-4 points each, string fields of 0-300 bytes) sent back to back over loopback to 1-2 real udp.Service listeners (own db/rp each, one relying on the default retention policy) whose PointsWriter is a real TaskMaster with one observer task per db/rp; optionally one WritePoints call of a listener is held until the listeners have read every datagram (back-pressure); " +
	"oracle: every point of every received datagram reaches the observer of the listener's db/rp exactly once with the content written, points of one datagram in order; non-trivial = >=3 datagrams of different lengths to one listener; distinct by case hash"

func genUDPWrite(t *rapid.T) UDPCase {
	c := UDPCase{Listeners: rapid.IntRange(1, 2).Draw(t, "listeners"), Hold: -1}
	n := rapid.SampledFrom([]int{1, 2, 3, 5, 8, 12, 20, 40}).Draw(t, "ndgrams")
	for i := 0; i < n; i++ {
		c.Dgrams = append(c.Dgrams, UDgram{L: rapid.IntRange(0, c.Listeners-1).Draw(t, "l"), N: rapid.SampledFrom([]int{1, 1, 1, 2, 4}).Draw(t, "n"),
			Pad: rapid.SampledFrom([]int{0, 0, 1, 3, 10, 40, 300}).Draw(t, "pad")})
	}
	if rapid.IntRange(0, 2).Draw(t, "hashold") != 0 {
		c.Hold = rapid.IntRange(0, 3).Draw(t, "hold")
	}
	return c
}

type uDiag struct {
	mu   sync.Mutex
	errs []string
}

func (d *uDiag) Error(msg string, err error, ctx ...keyvalue.T) {
	d.mu.Lock()
	if len(d.errs) < 5 {
		e := fmt.Sprintf("%s: %v", msg, err)
		if len(e) > 200 {
			e = e[:200] + "..."
		}
		d.errs = append(d.errs, e)
	}
	d.mu.Unlock()
}
func (d *uDiag) StartedListening(string) {}
func (d *uDiag) ClosedService()          {}
func (d *uDiag) list() []string {
	d.mu.Lock()
	defer d.mu.Unlock()
	return append([]string(nil), d.errs...)
}

// uWriter is the listener's PointsWriter: the task master, behind a gate that holds one call.
type uWriter struct {
	tm      *kapacitor.TaskMaster
	calls   int64
	hold    int64
	release chan struct{}
}

func (w *uWriter) WritePoints(database, retentionPolicy string, consistencyLevel imodels.ConsistencyLevel, points []imodels.Point) error {
	if k := atomic.AddInt64(&w.calls, 1) - 1; k == w.hold {
		<-w.release
	}
	return w.tm.WritePoints(database, retentionPolicy, consistencyLevel, points)
}

// udpBytesRx: the bytes_rx statistic the listener bound to addr publishes (-1: none published).
func udpBytesRx(addr string) int64 {
	root, ok := stdexpvar.Get(vars.Product).(*kexpvar.Map)
	if !ok {
		return -1
	}
	out := int64(-1)
	root.Do(func(kv stdexpvar.KeyValue) {
		m, ok := kv.Value.(*kexpvar.Map)
		if !ok {
			return
		}
		name, _ := m.Get("name").(*kexpvar.String)
		tags, _ := m.Get("tags").(*kexpvar.Map)
		vals, _ := m.Get("values").(*kexpvar.Map)
		if name == nil || tags == nil || vals == nil || name.StringValue() != "udp" {
			return
		}
		bind, _ := tags.Get("bind").(kexpvar.StringVar)
		if bind == nil || bind.StringValue() != addr {
			return
		}
		out = 0
		if v, ok := vals.Get("bytes_rx").(kexpvar.IntVar); ok {
			out = v.IntValue()
		}
	})
	return out
}

func runUDPWrite(c UDPCase, cc *kit.Case) {
	if c.Listeners < 1 || c.Listeners > len(uDBRPs) {
		return
	}
	env, err := kit.NewEnv(kit.EnvOpts{Prepare: func(e *kit.Env) { e.TM.DefaultRetentionPolicy = uDefaultRP }})
	if err != nil {
		cc.Fail("harness/env", "env: %v", err)
		return
	}
	defer env.Close()
	uniq := kit.Unique()
	var ets []*kapacitor.ExecutingTask
	release := make(chan struct{})
	released := false
	doRelease := func() {
		if !released {
			released = true
			close(release)
		}
	}
	type listener struct {
		svc    *udp.Service
		conn   *net.UDPConn
		diag   *uDiag
		sent   int64 // bytes
		closed bool
	}
	var ls []*listener
	defer func() {
		doRelease()
		for _, l := range ls {
			if l.conn != nil {
				l.conn.Close()
			}
			if !l.closed {
				l.svc.Close()
			}
		}
	}()
	for i := 0; i < c.Listeners; i++ {
		rp := uDBRPs[i][1]
		if rp == "" {
			rp = uDefaultRP
		}
		et, err := env.StartTask(fmt.Sprintf("u%dx%s", i, uniq), fmt.Sprintf("stream|from()|log().prefix('U%d')", i), kapacitor.StreamTask,
			[]kapacitor.DBRP{{Database: uDBRPs[i][0], RetentionPolicy: rp}})
		if err != nil {
			cc.Fail("harness/script-rejected", "observer rejected: %v", err)
			return
		}
		ets = append(ets, et)
		d := &uDiag{}
		svc := udp.NewService(udp.Config{Enabled: true, BindAddress: "127.0.0.1:0", Database: uDBRPs[i][0], RetentionPolicy: uDBRPs[i][1]}, d)
		w := &uWriter{tm: env.TM, hold: -1, release: release}
		if i == 0 {
			w.hold = int64(c.Hold)
		}
		svc.PointsWriter = w
		if err := svc.Open(); err != nil {
			// no UDP on the loopback interface of this machine: nothing to judge
			cc.Label("udp-not-available(not judged): " + err.Error())
			return
		}
		l := &listener{svc: svc, diag: d}
		ls = append(ls, l)
		if l.conn, err = net.DialUDP("udp", nil, svc.Addr()); err != nil {
			cc.Label("udp-not-available(not judged): " + err.Error())
			return
		}
	}

	// the datagrams; want[l][serial] = the point as written, dgramOf[serial] = its datagram
	want := make([]map[int64]kit.Pt, c.Listeners)
	for i := range want {
		want[i] = map[int64]kit.Pt{}
	}
	dgramOf := map[int64]int{}
	serial := int64(0)
	lengths := make([]map[int]bool, c.Listeners)
	for i := range lengths {
		lengths[i] = map[int]bool{}
	}
	for di, d := range c.Dgrams {
		if d.L < 0 || d.L >= c.Listeners || d.N < 1 {
			continue
		}
		var body strings.Builder
		for i := 0; i < d.N; i++ {
			s := strings.Repeat(string(rune('a'+di%26)), d.Pad)
			tns := int64(1_500_000_000)*1e9 + serial
			fmt.Fprintf(&body, "m%d,dg=g%d,h=h%d n=%di,s=\"%s\",f=%g %d\n", i%2, di, i%3, serial, s, float64(serial)/4, tns)
			rp := uDBRPs[d.L][1]
			if rp == "" {
				rp = uDefaultRP
			}
			want[d.L][serial] = kit.Pt{Name: fmt.Sprintf("m%d", i%2), DB: uDBRPs[d.L][0], RP: rp, Tags: map[string]string{"dg": fmt.Sprintf("g%d", di), "h": fmt.Sprintf("h%d", i%3)},
				Fields: map[string]kit.FV{"n": kit.I(serial), "s": kit.S(s), "f": kit.F(float64(serial) / 4)}, Time: tns}
			dgramOf[serial] = di
			serial++
		}
		l := ls[d.L]
		n, err := l.conn.Write([]byte(body.String()))
		if err != nil || n != body.Len() {
			cc.Fail("harness/udp-send", "sending datagram %d (%d bytes): n=%d err=%v", di, body.Len(), n, err)
			return
		}
		l.sent += int64(n)
		lengths[d.L][body.Len()] = true
	}
	for i := range lengths {
		if len(lengths[i]) >= 3 {
			cc.NonTrivial()
		}
	}
	if c.Hold >= 0 {
		cc.Label("write-call-held")
	} else {
		cc.Label("no-call-held")
	}
	if c.Listeners > 1 {
		cc.Label("two-listeners")
	}

	// wait until each listener accounts for every byte sent to it (its reader has taken the
	// datagrams off the socket), then let the held call go and close the listeners: Close returns
	// when everything read has been written
	complete := true
	for _, l := range ls {
		addr := l.svc.Addr().String()
		deadline := time.Now().Add(10 * time.Second)
		for udpBytesRx(addr) < l.sent {
			if time.Now().After(deadline) {
				complete = false
				break
			}
			time.Sleep(50 * time.Microsecond)
		}
	}
	if !complete {
		cc.Label("datagrams-not-accounted-for-by-listener")
	}
	doRelease()
	for _, l := range ls {
		l.conn.Close()
		l.conn = nil
		closed := make(chan error, 1)
		go func() { closed <- l.svc.Close() }()
		select {
		case err := <-closed:
			l.closed = true
			if err != nil {
				cc.Fail("udp/close-error", "udp.Service.Close: %v", err)
				return
			}
		case <-time.After(30 * time.Second):
			l.closed = true // do not close twice
			cc.Fail("udp/close-hang", "udp.Service.Close did not return within 30 s after %d datagrams", len(c.Dgrams))
			return
		}
	}
	env.TM.Drain()
	for _, et := range ets {
		et.StopStats()
		if err := et.Wait(); err != nil {
			cc.Fail("task-error", "observer ended with error: %v", err)
			return
		}
	}

	for i := range ls {
		obs := env.Sink.By(fmt.Sprintf("U%d", i))
		seen := map[int64]bool{}
		lastInDgram := map[int]int64{}
		for k, o := range obs {
			if o.P == nil {
				continue
			}
			nv, ok := o.P.Fields["n"]
			var n int64
			if ok {
				n, ok = nv.Go().(int64)
			}
			w, known := want[i][n]
			if !ok || !known {
				cc.Fail("udp/foreign-point", "observer of listener %d (%s.%s) received as point %d %+v, which no datagram sent to that listener contains; listener errors: %v", i, uDBRPs[i][0], uDBRPs[i][1], k, *o.P, ls[i].diag.list())
				return
			}
			if seen[n] {
				cc.Fail("udp/duplicate-delivery", "observer of listener %d received the point with serial %d (datagram %d) more than once; %d points received, %d sent; listener errors: %v", i, n, dgramOf[n], len(obs), len(want[i]), ls[i].diag.list())
				return
			}
			seen[n] = true
			if o.P.Name != w.Name || o.P.Time != w.Time || o.P.DB != w.DB || o.P.RP != w.RP || !reflect.DeepEqual(o.P.Tags, w.Tags) || !reflect.DeepEqual(o.P.Fields, w.Fields) {
				cc.Fail("udp/point-content", "observer of listener %d received %+v, written as %+v (datagram %d); listener errors: %v", i, *o.P, w, dgramOf[n], ls[i].diag.list())
				return
			}
			if last, ok := lastInDgram[dgramOf[n]]; ok && n < last {
				cc.Fail("udp/reorder-within-datagram", "observer of listener %d received serial %d after %d, both of datagram %d", i, n, last, dgramOf[n])
				return
			}
			lastInDgram[dgramOf[n]] = n
		}
		if complete && len(seen) != len(want[i]) {
			var missing []int64
			for n := int64(0); n < serial; n++ {
				if _, ok := want[i][n]; ok && !seen[n] {
					missing = append(missing, n)
				}
			}
			cc.Fail("udp/lost-point", "listener %d (%s.%s) accounted for all %d bytes sent to it, but its observer task received %d of the %d points written: serials %v are missing; listener errors: %v",
				i, uDBRPs[i][0], uDBRPs[i][1], ls[i].sent, len(seen), len(want[i]), missing, ls[i].diag.list())
			return
		}
	}
}

var assumptionsUDPWrite = []string{
	"a datagram received by a udp.Service is a write of its line-protocol points to the listener's configured database/retention policy (services/udp/service.go: ParsePoints + PointsWriter.WritePoints; server.go appendUDPServices: PointsWriter = TaskMaster; an empty retention policy is TaskMaster.DefaultRetentionPolicy): C02's exactly-once delivery holds from there",
	"datagrams are sent from one socket per listener over loopback; UDP may drop or reorder datagrams: the order between datagrams is not asserted, and completeness only when the listener's published statistic bytes_rx (server/vars, name udp, tag bind) accounts for every byte sent (otherwise the case is labelled and only duplicates/foreign points/content are checked); at most 40 small datagrams per case stay far below the socket buffer",
	"the listener's PointsWriter is the TaskMaster behind a gate that holds one WritePoints call until the datagrams have been read: TaskMaster.WritePoints blocks under back-pressure of the ingest edge in the same way; udp.Service.Close returns when every packet read has been written (wg.Wait on its reader and writer goroutines)",
	"line protocol is well-formed, every point carries its time stamp in nanoseconds (the listener parses with the default precision)",
}

func TestUDPWrite(t *testing.T) {
	r := kit.NewRec("C02", "UDPWrite", ruleUDPWrite, assumptionsUDPWrite...)
	kit.Check(t, r, genUDPWrite, runUDPWrite)
}

func TestReplayUDPWrite(t *testing.T) {
	r := kit.NewRec("C02", "UDPWrite", ruleUDPWrite, assumptionsUDPWrite...)
	kit.Replay(t, r, runUDPWrite)
}
