// C02, unit HTTPWrite — the ingestion entry point: points written through POST /write (the real
// httpd.Handler in front of a real TaskMaster) reach the tasks that declared the db/rp, every
// point of every accepted request, in the order written, with the values written - whatever the
// transfer looks like (plain or gzip body, Content-Length or chunked, precision, request size).
package c02

import (
	"bytes"
	"compress/gzip"
	"expvar"
	"fmt"
	"io"
	"log"
	"net/http"
	"net/http/httptest"
	"reflect"
	"strings"
	"testing"
	"time"

	"verifharness/kit"

	"github.com/influxdata/kapacitor"
	"github.com/influxdata/kapacitor/services/httpd"
	"pgregory.net/rapid"
)

type WReq struct {
	DB        int    `json:"db"` // index into wDBRPs
	N         int    `json:"n"`  // points in the request
	Gzip      bool   `json:"gzip"`
	Chunked   bool   `json:"chunked"`   // no Content-Length
	Precision string `json:"precision"` // "" n u ms s
	Path      int    `json:"path"`
	Pad       int    `json:"pad"`      // length of the string field (compressibility and size of the body)
	Trailing  bool   `json:"trailing"` // body ends with a newline
}

type HTTPWriteCase struct {
	Reqs []WReq `json:"reqs"`
}

var wDBRPs = [][2]string{{"db", "rp"}, {"db", "other"}, {"db2", "rp"}}
var wPaths = []string{"/write", "/kapacitor/v1/write"}

const ruleHTTPWrite = "rapid: 1-8 POST /write requests (plain or gzip body, with Content-Length or chunked, precision n/u/ms/s or default, 1-400 points per request, string fields of 0-200 bytes, declared and undeclared db/rp) through the real httpd.Handler into a real TaskMaster with an observer task; " +
	"oracle: every request is answered 204, the observer receives exactly the points of the requests to its db/rp, in order, with the values written; non-trivial = a gzip request whose decompressed body is longer than the compressed one and a plain request in one case; distinct by case hash"

func genHTTPWrite(t *rapid.T) HTTPWriteCase {
	var c HTTPWriteCase
	for i, n := 0, rapid.IntRange(1, 8).Draw(t, "nreq"); i < n; i++ {
		r := WReq{DB: rapid.SampledFrom([]int{0, 0, 0, 1, 2}).Draw(t, "db"), Gzip: rapid.Bool().Draw(t, "gzip"), Chunked: rapid.IntRange(0, 2).Draw(t, "chunked") == 0,
			Precision: rapid.SampledFrom([]string{"", "n", "u", "ms", "s"}).Draw(t, "precision"), Path: rapid.IntRange(0, 1).Draw(t, "path"),
			Pad: rapid.SampledFrom([]int{0, 1, 10, 50, 200}).Draw(t, "pad"), Trailing: rapid.Bool().Draw(t, "trailing")}
		r.N = rapid.SampledFrom([]int{1, 1, 2, 5, 20, 100, 400}).Draw(t, "n")
		c.Reqs = append(c.Reqs, r)
	}
	return c
}

type wDiag struct{}

func (wDiag) NewHTTPServerErrorLogger() *log.Logger { return log.New(io.Discard, "", 0) }
func (wDiag) StartingService()                      {}
func (wDiag) StoppedService()                       {}
func (wDiag) ShutdownTimeout()                      {}
func (wDiag) AuthenticationEnabled(bool)            {}
func (wDiag) ListeningOn(string, string)            {}
func (wDiag) WriteBodyReceived(string)              {}
func (wDiag) HTTP(string, string, time.Time, string, string, string, int, string, string, string, time.Duration) {
}
func (wDiag) Error(string, error) {}
func (wDiag) RecoveryError(string, string, string, string, time.Time, string, string, string, int, string, string, string, time.Duration) {
}

var precUnit = map[string]int64{"": 1, "n": 1, "u": 1e3, "ms": 1e6, "s": 1e9}

// onlyReader hides every method but Read: net/http then cannot know the length of the body.
type onlyReader struct{ r io.Reader }

func (o onlyReader) Read(p []byte) (int, error) { return o.r.Read(p) }

func runHTTPWrite(c HTTPWriteCase, cc *kit.Case) {
	env, err := kit.NewEnv(kit.EnvOpts{})
	if err != nil {
		cc.Fail("harness/env", "env: %v", err)
		return
	}
	defer env.Close()
	statMap := &expvar.Map{}
	statMap.Init()
	h := httpd.NewHandler(false, false, false, false, true, statMap, wDiag{}, "")
	h.PointsWriter = env.TM
	et, err := env.StartTask("o"+kit.Unique(), "stream|from()|log().prefix('O')", kapacitor.StreamTask, []kapacitor.DBRP{{Database: "db", RetentionPolicy: "rp"}})
	if err != nil {
		cc.Fail("harness/script-rejected", "observer rejected: %v", err)
		return
	}
	var want []kit.Pt
	serial := int64(0)
	hasGz, hasPlain := false, false
	for ri, r := range c.Reqs {
		unit := precUnit[r.Precision]
		var body bytes.Buffer
		for i := 0; i < r.N; i++ {
			// times in the unit of the request's precision
			tu := (int64(1_500_000_000)*1e9)/unit + serial
			s := strings.Repeat("x", r.Pad)
			fmt.Fprintf(&body, "m%d,h=h%d,req=r%d i=%di,f=%g,s=\"%s\",b=%v %d", i%2, i%3, ri, serial, float64(serial)/4, s, i%2 == 0, tu)
			if i < r.N-1 || r.Trailing {
				body.WriteByte('\n')
			}
			if wDBRPs[r.DB] == [2]string{"db", "rp"} {
				want = append(want, kit.Pt{Name: fmt.Sprintf("m%d", i%2), DB: "db", RP: "rp", Tags: map[string]string{"h": fmt.Sprintf("h%d", i%3), "req": fmt.Sprintf("r%d", ri)},
					Fields: map[string]kit.FV{"i": kit.I(serial), "f": kit.F(float64(serial) / 4), "s": kit.S(s), "b": kit.B(i%2 == 0)}, Time: tu * unit})
			}
			serial++
		}
		raw := body.Bytes()
		payload := raw
		if r.Gzip {
			var zb bytes.Buffer
			zw := gzip.NewWriter(&zb)
			zw.Write(raw)
			zw.Close()
			payload = zb.Bytes()
			if len(raw) > len(payload) {
				hasGz = true
			}
			cc.Label("gzip")
		} else {
			hasPlain = true
			cc.Label("plain")
		}
		url := fmt.Sprintf("%s?db=%s&rp=%s", wPaths[r.Path], wDBRPs[r.DB][0], wDBRPs[r.DB][1])
		if r.Precision != "" {
			url += "&precision=" + r.Precision
		}
		var rd io.Reader = bytes.NewReader(payload)
		if r.Chunked {
			rd = onlyReader{rd}
			cc.Label("chunked")
		} else {
			cc.Label("content-length")
		}
		req, err := http.NewRequest("POST", url, rd)
		if err != nil {
			cc.Fail("harness/request", "%v", err)
			return
		}
		if r.Gzip {
			req.Header.Set("Content-Encoding", "gzip")
		}
		rec := httptest.NewRecorder()
		h.ServeHTTP(rec, req)
		if rec.Code != http.StatusNoContent {
			cc.Fail("write/status", "request %d (%+v, %d bytes on the wire, %d bytes of line protocol) was answered %d %s", ri, r, len(payload), len(raw), rec.Code, strings.TrimSpace(rec.Body.String()))
			return
		}
	}
	if hasGz && hasPlain {
		cc.NonTrivial()
	}
	env.TM.Drain()
	et.StopStats()
	if err := et.Wait(); err != nil {
		cc.Fail("task-error", "observer ended with error: %v", err)
		return
	}
	obs := env.Sink.By("O")
	if len(obs) != len(want) {
		cc.Fail("write/point-count", "%d points were written to db.rp in %d accepted requests, the observer task received %d\nrequests: %+v", len(want), len(c.Reqs), len(obs), c.Reqs)
		return
	}
	for i, w := range want {
		o := obs[i].P
		if o == nil || o.Name != w.Name || o.Time != w.Time || !reflect.DeepEqual(o.Tags, w.Tags) || !reflect.DeepEqual(o.Fields, w.Fields) {
			cc.Fail("write/point-content", "point %d arrived as %+v, written as %+v", i, o, w)
			return
		}
	}
}

var assumptionsHTTPWrite = []string{
	"requests are handed to Handler.ServeHTTP in-process (net/http's server side is trusted); a request without Content-Length models a chunked transfer",
	"line protocol bodies are well-formed; the time stamp is given in the unit of the precision parameter; TaskMaster.WritePoints is the PointsWriter as in the daemon",
}

func TestHTTPWrite(t *testing.T) {
	r := kit.NewRec("C02", "HTTPWrite", ruleHTTPWrite, assumptionsHTTPWrite...)
	kit.Check(t, r, genHTTPWrite, runHTTPWrite)
}

func TestReplayHTTPWrite(t *testing.T) {
	r := kit.NewRec("C02", "HTTPWrite", ruleHTTPWrite, assumptionsHTTPWrite...)
	kit.Replay(t, r, runHTTPWrite)
}
