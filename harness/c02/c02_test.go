// C02 — each stream task receives its selected points exactly once, in order.
//
// Generator: histories of start/stop/delete/restart of stream tasks (1-3 from() nodes each with
// optional database/retentionPolicy/measurement/where filters - comparisons on the field v and
// presence conditions built from isPresent() -, generated dbrp sets) interleaved
// with writes over 2 databases x 2 retention policies x 3 measurements, on one TaskMaster.
// Oracle: routing model. Observer tasks that run for the whole history must receive exactly the
// matching subsequence; tasks started and stopped on the way must receive strictly increasing
// serial numbers, only matching points, and every matching point written while they were
// verifiably subscribed.
package c02

import (
	"fmt"
	"strings"
	"testing"
	"time"

	"verifharness/kit"

	imodels "github.com/influxdata/influxdb/models"
	"github.com/influxdata/kapacitor"
	"pgregory.net/rapid"
)

type From struct {
	DB    string `json:"db,omitempty"`
	RP    string `json:"rp,omitempty"`
	M     string `json:"m,omitempty"`
	Where int    `json:"where"` // -1 none, else "v" > Where
	// SharedGT k > 0: the (first) condition is .where(cond), cond being a lambda variable of the
	// script ("v" > k-1) that the other from() nodes of the task with SharedGT use as well
	SharedGT int `json:"sgt,omitempty"`
	// W2 k > 0: a second .where(lambda: "v" != k-1) on the same from() (conditions are AND-ed)
	W2 int `json:"w2,omitempty"`
	// Parent k > 0: this from() is chained below from() number k-1 of the task (which keeps its own
	// log() child): it sees what the parent selects and selects from that
	Parent int `json:"parent,omitempty"`
	// Pres k > 0: a further .where() on the same from() that selects by the PRESENCE of a field or
	// tag (presConds[k-1]); such a condition is defined on points that lack what it refers to
	Pres int `json:"pres,omitempty"`
}

// presence conditions: lambda text and the reference model (hasV: the point carries the field v;
// otherwise it carries the field u; every point carries the tag src and none carries host/w)
var presConds = []struct {
	lambda string
	sel    func(hasV bool) bool
}{
	{`isPresent("v")`, func(hasV bool) bool { return hasV }},
	{`!isPresent("v")`, func(hasV bool) bool { return !hasV }},
	{`isPresent("u")`, func(hasV bool) bool { return !hasV }},
	{`!isPresent("u")`, func(hasV bool) bool { return hasV }},
	{`!isPresent("host")`, func(hasV bool) bool { return true }},
	{`isPresent("src")`, func(hasV bool) bool { return true }},
	{`isPresent("w")`, func(hasV bool) bool { return false }},
	{`isPresent("v") OR isPresent("u")`, func(hasV bool) bool { return true }},
	{`isPresent("src") AND !isPresent("u")`, func(hasV bool) bool { return hasV }},
}

type TaskDef struct {
	DBRPs []int  `json:"dbrps"` // indexes into the dbrp universe
	Froms []From `json:"froms"`
}

type W struct {
	DBRP int   `json:"dbrp"`
	M    int   `json:"m"`
	V    int64 `json:"v"`
	// NoV: the point does not carry the field v that the where() conditions refer to (it carries
	// u instead): a condition that cannot be evaluated does not select the point
	NoV bool `json:"nov,omitempty"`
	// NoRP: written without a retention policy (the task master's default one is r0: only points
	// of a dbrp with r0 are written so)
	NoRP bool `json:"norp,omitempty"`
}

type Op struct {
	Kind    string   `json:"kind"` // start stop delete restart write
	Task    int      `json:"task,omitempty"`
	Def     *TaskDef `json:"def,omitempty"`
	Pts     []W      `json:"pts,omitempty"`
	Batch   bool     `json:"batch,omitempty"`   // write: all points in one WritePoints call
	NoQuiet bool     `json:"noquiet,omitempty"` // do not wait for ingest quiescence before this op
}

type Case struct {
	Observers []TaskDef `json:"observers"`
	Ops       []Op      `json:"ops"`
}

const rule = "rapid: histories (<=25 steps) of start/stop/delete/restart of up to 4 stream tasks (1-3 from() nodes with db/rp/measurement/where filters - conditions given inline or through a lambda variable shared by several from() nodes, one or two where() per node, a further where() that selects by the presence of a field/tag with isPresent() - negated, on fields some or all points lack -, from() nodes chained below another from() that keeps its own consumer -, generated dbrp sets) and writes over 2 dbs x 2 rps x 3 measurements (with the retention policy named or left to the task master's default); 2 generated observer tasks plus a universal one run throughout; " +
	"oracle: routing model (exact for observers; exactly-once/in-order/only-matching/nothing-missed for tasks started and stopped on the way); non-trivial = >=2 tasks with different selections enabled at once and >=1 start/stop between writes; distinct by case hash"

var dbrpUniverse = []kapacitor.DBRP{{Database: "d0", RetentionPolicy: "r0"}, {Database: "d0", RetentionPolicy: "r1"}, {Database: "d1", RetentionPolicy: "r0"}, {Database: "d1", RetentionPolicy: "r1"}}
var measurements = []string{"m0", "m1", "m2"}

func genDef(t *rapid.T) TaskDef {
	var d TaskDef
	mask := rapid.IntRange(1, 15).Draw(t, "dbrpmask")
	for i := 0; i < 4; i++ {
		if mask&(1<<i) != 0 {
			d.DBRPs = append(d.DBRPs, i)
		}
	}
	nf := rapid.IntRange(1, 3).Draw(t, "nfrom")
	shared := 0
	if rapid.IntRange(0, 3).Draw(t, "hasshared") == 0 {
		shared = 1 + rapid.IntRange(0, 8).Draw(t, "shared")
	}
	for i := 0; i < nf; i++ {
		f := From{Where: -1}
		if rapid.IntRange(0, 3).Draw(t, "hasdb") == 0 {
			f.DB = rapid.SampledFrom([]string{"d0", "d1"}).Draw(t, "db")
		}
		if rapid.IntRange(0, 3).Draw(t, "hasrp") == 0 {
			f.RP = rapid.SampledFrom([]string{"r0", "r1"}).Draw(t, "rp")
		}
		if rapid.IntRange(0, 2).Draw(t, "hasm") != 0 {
			f.M = rapid.SampledFrom(measurements).Draw(t, "m")
		}
		if rapid.IntRange(0, 2).Draw(t, "haswhere") == 0 {
			f.Where = rapid.IntRange(0, 8).Draw(t, "where")
		}
		if shared > 0 && rapid.IntRange(0, 2).Draw(t, "useshared") != 0 {
			f.Where, f.SharedGT = -1, shared
		}
		if (f.Where >= 0 || f.SharedGT > 0) && rapid.IntRange(0, 2).Draw(t, "hasw2") == 0 {
			f.W2 = 1 + rapid.IntRange(0, 9).Draw(t, "w2")
		}
		if i > 0 && rapid.IntRange(0, 3).Draw(t, "chained") == 0 {
			f.Parent = 1 + rapid.IntRange(0, i-1).Draw(t, "parent")
		}
		if rapid.IntRange(0, 3).Draw(t, "haspres") == 0 {
			f.Pres = 1 + rapid.IntRange(0, len(presConds)-1).Draw(t, "pres")
		}
		d.Froms = append(d.Froms, f)
	}
	return d
}

// sel: from() number j of the task selects the point (its own filters and those of the from()
// nodes it is chained below).
func (d TaskDef) sel(j int, w written) bool {
	f := d.Froms[j]
	if !f.matches(w) {
		return false
	}
	if f.Parent > 0 && f.Parent-1 < j {
		return d.sel(f.Parent-1, w)
	}
	return true
}

func gen(t *rapid.T) Case {
	var c Case
	c.Observers = []TaskDef{genDef(t), genDef(t)}
	n := rapid.IntRange(1, 25).Draw(t, "nops")
	for i := 0; i < n; i++ {
		var op Op
		switch rapid.IntRange(0, 9).Draw(t, "op") {
		case 0, 1:
			d := genDef(t)
			op = Op{Kind: "start", Task: rapid.IntRange(0, 3).Draw(t, "task"), Def: &d}
		case 2:
			op = Op{Kind: "stop", Task: rapid.IntRange(0, 3).Draw(t, "task")}
		case 3:
			op = Op{Kind: "delete", Task: rapid.IntRange(0, 3).Draw(t, "task")}
		case 4:
			op = Op{Kind: "restart", Task: rapid.IntRange(0, 3).Draw(t, "task")}
		default:
			op = Op{Kind: "write", Batch: rapid.Bool().Draw(t, "batch")}
			k := rapid.IntRange(1, 8).Draw(t, "npts")
			for j := 0; j < k; j++ {
				op.Pts = append(op.Pts, W{DBRP: rapid.IntRange(0, 3).Draw(t, "dbrp"), M: rapid.IntRange(0, 2).Draw(t, "m"), V: int64(rapid.IntRange(0, 9).Draw(t, "v")),
					NoV: rapid.IntRange(0, 5).Draw(t, "nov") == 0, NoRP: rapid.IntRange(0, 3).Draw(t, "norp") == 0})
			}
		}
		op.NoQuiet = rapid.IntRange(0, 3).Draw(t, "noquiet") == 0
		c.Ops = append(c.Ops, op)
	}
	return c
}

func (d TaskDef) script(id string) string {
	var s strings.Builder
	for _, f := range d.Froms {
		if f.SharedGT > 0 {
			fmt.Fprintf(&s, "var cond = lambda: \"v\" > %d\n", f.SharedGT-1)
			break
		}
	}
	chained := false
	for _, f := range d.Froms {
		chained = chained || f.Parent > 0
	}
	for i, f := range d.Froms {
		switch {
		case !chained:
			s.WriteString("stream|from()")
		case f.Parent > 0 && f.Parent-1 < i:
			fmt.Fprintf(&s, "var f%d = f%d|from()", i, f.Parent-1)
		default:
			fmt.Fprintf(&s, "var f%d = stream|from()", i)
		}
		if f.DB != "" {
			fmt.Fprintf(&s, ".database('%s')", f.DB)
		}
		if f.RP != "" {
			fmt.Fprintf(&s, ".retentionPolicy('%s')", f.RP)
		}
		if f.M != "" {
			fmt.Fprintf(&s, ".measurement('%s')", f.M)
		}
		if f.Where >= 0 {
			fmt.Fprintf(&s, ".where(lambda: \"v\" > %d)", f.Where)
		}
		if f.SharedGT > 0 {
			s.WriteString(".where(cond)")
		}
		if f.W2 > 0 {
			fmt.Fprintf(&s, ".where(lambda: \"v\" != %d)", f.W2-1)
		}
		if f.Pres > 0 && f.Pres <= len(presConds) {
			fmt.Fprintf(&s, ".where(lambda: %s)", presConds[f.Pres-1].lambda)
		}
		if chained {
			fmt.Fprintf(&s, "\nf%d", i)
		}
		fmt.Fprintf(&s, "|log().prefix('%s.%d')\n", id, i)
	}
	return s.String()
}

func (d TaskDef) dbrps() []kapacitor.DBRP {
	var out []kapacitor.DBRP
	for _, i := range d.DBRPs {
		out = append(out, dbrpUniverse[i])
	}
	return out
}

type written struct {
	n    int64
	dbrp int
	m    string
	v    int64
	noV  bool
}

func (d TaskDef) declares(w written) bool {
	for _, i := range d.DBRPs {
		if i == w.dbrp {
			return true
		}
	}
	return false
}

func (f From) matches(w written) bool {
	db, rp := dbrpUniverse[w.dbrp].Database, dbrpUniverse[w.dbrp].RetentionPolicy
	if f.DB != "" && f.DB != db {
		return false
	}
	if f.RP != "" && f.RP != rp {
		return false
	}
	if f.M != "" && f.M != w.m {
		return false
	}
	if f.Where >= 0 && (w.noV || !(w.v > int64(f.Where))) {
		return false
	}
	if f.SharedGT > 0 && (w.noV || !(w.v > int64(f.SharedGT-1))) {
		return false
	}
	if f.W2 > 0 && (w.noV || w.v == int64(f.W2-1)) {
		return false
	}
	if f.Pres > 0 && f.Pres <= len(presConds) && !presConds[f.Pres-1].sel(!w.noV) {
		return false
	}
	return true
}

// interval of a dynamic task's life: serial numbers of written points
type interval struct {
	def TaskDef
	// points with serial in [sureFrom, sureTo) were written while the task was verifiably subscribed
	// (after StartTask returned, and forked before the stop was requested); points with serial in
	// [mayFrom, mayTo) may have been delivered (in flight at start or stop)
	mayFrom, sureFrom, sureTo, mayTo int64
}

func serials(obs []kit.Obs) []int64 {
	var out []int64
	for _, o := range obs {
		if o.P != nil {
			out = append(out, o.P.Fields["n"].Go().(int64))
		}
	}
	return out
}

func run(c Case, cc *kit.Case) {
	env, err := kit.NewEnv(kit.EnvOpts{Prepare: func(e *kit.Env) { e.TM.DefaultRetentionPolicy = "r0" }})
	if err != nil {
		cc.Fail("harness/env", "env: %v", err)
		return
	}
	defer env.Close()
	tm := env.TM
	uniq := kit.Unique()
	id := func(name string) string { return name + "x" + uniq }

	// universal observer: every dbrp, unfiltered. Its sink tells the harness how far forking got.
	universal := TaskDef{DBRPs: []int{0, 1, 2, 3}, Froms: []From{{Where: -1}}}
	type running struct {
		et  *kapacitor.ExecutingTask
		def TaskDef
	}
	observers := append([]TaskDef{universal}, c.Observers...)
	var obsET []*kapacitor.ExecutingTask
	for i, d := range observers {
		name := fmt.Sprintf("o%d", i)
		et, err := env.StartTask(id(name), d.script(name), kapacitor.StreamTask, d.dbrps())
		if err != nil {
			cc.Fail("harness/script-rejected", "observer rejected: %v\n%s", err, d.script(name))
			return
		}
		obsET = append(obsET, et)
	}

	var all []written
	forked := int64(0) // serials < forked are known to have been forked to every subscribed task
	quiesceFailed := false
	quiesce := func() bool {
		want := len(all)
		bound := 10 * time.Second
		if quiesceFailed {
			// the universal observer already missed a point once in this case: the final
			// comparison will report it; do not spend the long bound again
			bound = 50 * time.Millisecond
		}
		deadline := time.Now().Add(bound)
		for env.Sink.Count("o0.0") < want {
			if time.Now().After(deadline) {
				quiesceFailed = true
				return false
			}
			time.Sleep(20 * time.Microsecond)
		}
		forked = int64(want)
		return true
	}

	tasks := map[int]*running{}
	intervals := map[int][]*interval{}
	lastDef := map[int]TaskDef{}
	inconclusive := false
	startStops := 0
	maxConcurrentDistinct := 0

	stop := func(k int, del bool) {
		r := tasks[k]
		if r == nil {
			return
		}
		iv := intervals[k][len(intervals[k])-1]
		iv.sureTo = forked
		iv.mayTo = int64(len(all))
		var err error
		if del {
			err = tm.DeleteTask(id(fmt.Sprintf("t%d", k)))
		} else {
			err = tm.StopTask(id(fmt.Sprintf("t%d", k)))
		}
		if err != nil {
			cc.Fail("routing/stop-error", "stopping task t%d: %v", k, err)
		}
		delete(tasks, k)
		startStops++
	}
	start := func(k int, d TaskDef) {
		name := fmt.Sprintf("t%d", k)
		et, err := env.StartTask(id(name), d.script(name), kapacitor.StreamTask, d.dbrps())
		if err != nil {
			cc.Fail("harness/script-rejected", "task rejected: %v\n%s", err, d.script(name))
			return
		}
		tasks[k] = &running{et: et, def: d}
		lastDef[k] = d
		// everything written after StartTask returned is forked after the subscription
		intervals[k] = append(intervals[k], &interval{def: d, mayFrom: forked, sureFrom: int64(len(all)), sureTo: -1, mayTo: -1})
		startStops++
	}

	for _, op := range c.Ops {
		if cc.Failed() {
			return
		}
		if !op.NoQuiet {
			if !quiesce() {
				inconclusive = true
			}
		}
		switch op.Kind {
		case "start":
			if tasks[op.Task] != nil {
				stop(op.Task, false)
			}
			start(op.Task, *op.Def)
		case "stop":
			stop(op.Task, false)
		case "delete":
			stop(op.Task, true)
		case "restart":
			if d, ok := lastDef[op.Task]; ok {
				stop(op.Task, false)
				start(op.Task, d)
			}
		case "write":
			// written per (db, rp) as WritePoints takes one pair per call; a batch groups runs of equal dbrp
			i := 0
			for i < len(op.Pts) {
				j := i + 1
				if op.Batch {
					for j < len(op.Pts) && op.Pts[j].DBRP == op.Pts[i].DBRP && op.Pts[j].NoRP == op.Pts[i].NoRP {
						j++
					}
				}
				var pts []imodels.Point
				for _, w := range op.Pts[i:j] {
					n := int64(len(all))
					fields := map[string]interface{}{"n": n, "v": w.V}
					if w.NoV {
						fields = map[string]interface{}{"n": n, "u": w.V}
					}
					p, err := imodels.NewPoint(measurements[w.M], imodels.NewTags(map[string]string{"src": "c02"}),
						fields, time.Unix(1_500_000_000+n, 0).UTC())
					if err != nil {
						cc.Fail("harness/point", "NewPoint: %v", err)
						return
					}
					pts = append(pts, p)
					all = append(all, written{n: n, dbrp: w.DBRP, m: measurements[w.M], v: w.V, noV: w.NoV})
				}
				d := dbrpUniverse[op.Pts[i].DBRP]
				if op.Pts[i].NoRP && d.RetentionPolicy == "r0" {
					d.RetentionPolicy = "" // the task master's default
					cc.Label("written-without-rp")
				}
				if err := tm.WritePoints(d.Database, d.RetentionPolicy, imodels.ConsistencyLevelAll, pts); err != nil {
					cc.Fail("routing/write-error", "WritePoints: %v", err)
					return
				}
				i = j
			}
		}
		// concurrency classification
		sel := map[string]bool{}
		for _, r := range tasks {
			sel[r.def.script("x")] = true
		}
		if len(sel) > maxConcurrentDistinct {
			maxConcurrentDistinct = len(sel)
		}
	}
	if !quiesce() {
		inconclusive = true
	}
	// close every interval that is still open, then let everything finish
	for k := range tasks {
		iv := intervals[k][len(intervals[k])-1]
		iv.sureTo, iv.mayTo = forked, int64(len(all))
	}
	var ets []*kapacitor.ExecutingTask
	for _, r := range tasks {
		ets = append(ets, r.et)
	}
	tm.Drain()
	for _, et := range append(ets, obsET...) {
		et.StopStats()
		done := make(chan error, 1)
		go func() { done <- et.Wait() }()
		select {
		case err := <-done:
			if err != nil {
				cc.Fail("task-error", "task ended with error: %v", err)
				return
			}
		case <-time.After(20 * time.Second):
			// Drain closes the stream of every task that is still subscribed: a task that does not
			// end has lost its subscription while it was running
			cc.Fail("routing/task-not-closed-by-drain", "task %s did not end within 20 s after TaskMaster.Drain: its input stream was never closed (the task master no longer knows its subscription)", et.Task.ID)
			return
		}
	}

	// labels
	if maxConcurrentDistinct+1 >= 2 && startStops >= 1 && len(all) > 0 {
		cc.NonTrivial()
	}
	for _, d := range append(append([]TaskDef{}, c.Observers...), func() []TaskDef {
		var ds []TaskDef
		for _, op := range c.Ops {
			if op.Def != nil {
				ds = append(ds, *op.Def)
			}
		}
		return ds
	}()...) {
		filtered, unfiltered := false, false
		for _, f := range d.Froms {
			if f.Pres > 0 {
				cc.Label("where-isPresent")
			}
			if f.M != "" {
				filtered = true
			} else {
				unfiltered = true
			}
		}
		if filtered && unfiltered {
			cc.Label("filtered+unfiltered-from-in-one-task")
		}
	}
	if inconclusive {
		cc.Label("quiescence-timeout")
	}

	// observers: exact
	for i, d := range observers {
		for j, f := range d.Froms {
			var want []int64
			for _, w := range all {
				if d.declares(w) && d.sel(j, w) {
					want = append(want, w.n)
				}
			}
			got := serials(env.Sink.By(fmt.Sprintf("o%d.%d", i, j)))
			if fmt.Sprint(got) != fmt.Sprint(want) {
				sig := "routing/observer-mismatch"
				if dupOnly(got, want) {
					sig = "routing/duplicate-delivery"
				}
				cc.Fail(sig, "observer o%d from #%d (dbrps %v, %+v) received serials %v, reference %v\nscript:\n%s", i, j, d.DBRPs, f, got, want, d.script("o"))
				return
			}
		}
	}
	// tasks started/stopped on the way
	for k, ivs := range intervals {
		maxFroms := 0
		for _, iv := range ivs {
			if len(iv.def.Froms) > maxFroms {
				maxFroms = len(iv.def.Froms)
			}
		}
		for j := 0; j < maxFroms; j++ {
			got := serials(env.Sink.By(fmt.Sprintf("t%d.%d", k, j)))
			last := int64(-1)
			for _, n := range got {
				if n <= last {
					cc.Fail("routing/duplicate-or-reorder", "task t%d from #%d received serial %d after %d: %v", k, j, n, last, got)
					return
				}
				last = n
			}
			gotSet := map[int64]bool{}
			for _, n := range got {
				gotSet[n] = true
			}
			may := map[int64]bool{}
			for _, iv := range ivs {
				if j >= len(iv.def.Froms) {
					continue
				}
				f := iv.def.Froms[j]
				for _, w := range all {
					if !(iv.def.declares(w) && iv.def.sel(j, w)) {
						continue
					}
					if w.n >= iv.mayFrom && w.n < iv.mayTo {
						may[w.n] = true
					}
					if !inconclusive && w.n >= iv.sureFrom && w.n < iv.sureTo && !gotSet[w.n] {
						cc.Fail("routing/lost-point", "task t%d from #%d (%+v, dbrps %v) did not receive serial %d, which was written while it was subscribed and forked before its stop; received %v", k, j, f, iv.def.DBRPs, w.n, got)
						return
					}
				}
			}
			for _, n := range got {
				if !may[n] {
					w := all[n]
					cc.Fail("routing/foreign-point", "task t%d from #%d received serial %d (dbrp %d, %s, v=%d), which no enabled interval of the task selects; received %v", k, j, n, w.dbrp, w.m, w.v, got)
					return
				}
			}
		}
	}
}

// dupOnly: got equals want after removing repeated elements.
func dupOnly(got, want []int64) bool {
	var d []int64
	for i, n := range got {
		if i == 0 || n != got[i-1] {
			d = append(d, n)
		}
	}
	return fmt.Sprint(d) == fmt.Sprint(want) && len(got) > len(want)
}

var assumptions = []string{
	"points are written through TaskMaster.WritePoints (what the HTTP write handler and the UDP/other listeners call); measurement names are non-empty (line protocol cannot produce an empty one)",
	"a point written after StartTask returned is forked after the subscription; a point is known to be forked once the universal observer task's sink has seen it (forkPoint serves all subscribed tasks in one call)",
	"for a task stopped on the way, points still in the ingest buffer when the stop is requested may go either way (C07 covers the stopping task itself); with quiescence observed before the stop they must all be delivered",
	"a from() chained below another from() selects from what the parent selects (both filters apply); a write without a retention policy is a write to TaskMaster.DefaultRetentionPolicy (task_master.go WritePoints; the daemon sets it from its configuration)",
	"where() filters compare the integer field v; one point in six carries u instead: a condition that cannot be evaluated for a point does not select it",
	"isPresent(ref) is defined for a point that lacks ref (CHANGELOG #1203: 'isPresent operator for verifying whether a value is present'; the repository's TestStream_Eval_Missing_isPresent filters points that lack the field with where(lambda: isPresent(...))): a where() made only of isPresent()/!isPresent() terms (combined with AND/OR, every term defined for every point) selects by presence alone - a point lacking the field is selected by !isPresent(field); every point carries the tag src, none carries host or w",
}

func TestRouting(t *testing.T) {
	r := kit.NewRec("C02", "Routing", rule, assumptions...)
	kit.Check(t, r, gen, run)
}

func TestReplayRouting(t *testing.T) {
	r := kit.NewRec("C02", "Routing", rule, assumptions...)
	kit.Replay(t, r, run)
}
