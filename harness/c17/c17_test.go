// C17 — scheduled task runs happen in order, exactly once, only while scheduled.
//
// Generator: an operation history (Schedule / re-Schedule / Release / Advance /
// SetExecutorBehaviour / Unblock) over task ids 1..5 sharing 1..4 workers, drawn into a
// JSON-serialisable Case. run() executes it against scheduler.NewScheduler with a mock clock
// (see clock_test.go), a recording Executor and a recording SchedulableService.
//
// Oracle: invariants over the recorded history, checked at the moment each call is observed,
// against an expected-occurrence model: per task and per Schedule call ("epoch") the
// scheduledFor values are exactly cron.Next(lastScheduled), cron.Next(of that), ... computed
// with the same scheduler.Schedule value the Schedulable hands to the scheduler (the cron
// library is trusted). After a clock jump over many occurrences every missed occurrence is
// expected, one after the other ("consecutive occurrences ... each exactly once" in the
// statement; TreeScheduler re-inserts a dispatched item with its NEXT occurrence, not with the
// next occurrence after now).
//
// Two input classes added after independently seeded changes were missed:
//   - the last-scheduled time handed to scheduler.NewSchedule carries a non-UTC location (Op.Zone):
//     the same INSTANT, expressed with a fixed offset. The expected occurrences are computed from
//     the UTC instant (cron strings are UTC: cron.ParseUTC), never from the time.Time value that
//     NewSchedule returns, so a schedule whose first run depends on the location of its input is
//     reported (order/skipped, order/regressed or liveness/due-not-run). Zone-sensitive cron
//     strings (fixed minute / hour fields) are part of the schedule table.
//   - schedules that END (7-field cron with a year field, clock started shortly before the end
//     of that year): after the last occurrence has run the model expects no further run of the
//     task (order/duplicate, order/after-last-occurrence) while every other task carries on.
package c17

import (
	"context"
	"encoding/binary"
	"errors"
	"fmt"
	"runtime"
	"sort"
	"strings"
	"sync"
	"sync/atomic"
	"testing"
	"time"

	"verifharness/kit"

	"github.com/cespare/xxhash"
	"github.com/influxdata/kapacitor/task/backend/scheduler"
	"pgregory.net/rapid"
)

const (
	maxID      = 5
	baseUnix   = 1_000_000_000 // 2001-09-09T01:46:40Z
	hangBound  = 20 * time.Second
	maxBacklog = 300 // overdue occurrences at Schedule time (cost bound)
)

type Op struct {
	K    string `json:"k"`              // sched | resched | release | adv | behave | unblock
	ID   int    `json:"id,omitempty"`   // task id 1..5 (unblock: 0 = all)
	Spec string `json:"spec,omitempty"` // cron / @every string
	Off  int64  `json:"off,omitempty"`  // offset, seconds (may be negative)
	Last int64  `json:"last,omitempty"` // lastScheduled = now - Last seconds (before NewSchedule's alignment)
	Zone int    `json:"zone,omitempty"` // location of the lastScheduled time.Time handed to NewSchedule: fixed offset, seconds east of UTC (0 = UTC); the instant is the same
	CP   bool   `json:"cp,omitempty"`   // resched: lastScheduled = latest checkpoint of the id (what the coordinator passes)
	D    int64  `json:"d,omitempty"`    // adv: milliseconds
	B    string `json:"b,omitempty"`    // behave: ok | err | panic | block
}

type Case struct {
	Workers int   `json:"workers"`
	BaseMs  int64 `json:"base_ms"` // clock starts at baseUnix s + BaseMs ms
	Ops     []Op  `json:"ops"`
	// LocalOff: the process-local zone (time.Local) while the case runs, seconds east of UTC
	LocalOff int `json:"local_off,omitempty"`
}

const rule = "rapid: history of <=40 ops (Schedule/re-Schedule/Release/Advance/SetExecutorBehaviour/Unblock) over ids 1..5, 24 schedules (@every 1s..1h, 5/6-field cron incl. fixed minute/hour fields, " +
	"7-field cron bounded to the year in which the clock starts), lastScheduled in UTC or a fixed-offset location, clock start incl. 3..90 s before the end of the year (schedules run out), " +
	"offsets 0/+-s, 1..4 workers, mock clock, process-local zone UTC or a fixed offset (+05:30, -03:30, +01:00, +12:45); non-trivial = a clock jump over >=3 occurrences of a task while another task's executor is blocked on the same worker; distinct by case hash"

type specT struct {
	s string
	p int64 // nominal period, seconds (generator only)
}

var specs = []specT{
	{"@every 1s", 1}, {"@every 2s", 2}, {"@every 7s", 7}, {"@every 10s", 10}, {"@every 1m", 60}, {"@every 90s", 90}, {"@every 1h", 3600},
	{"*/5 * * * * *", 5}, {"30 * * * * *", 60}, {"0 */2 * * * *", 120}, {"15,45 * * * * *", 30}, {"0 0 * * * *", 3600}, {"*/20 * * * * *", 20},
	// fixed minute / hour fields: the occurrences depend on the zone the fields are evaluated in (cron strings are UTC)
	{"0 15 * * * *", 3600}, {"0 * * * *", 3600}, {"0 10,40 * * * *", 1800}, {"0 0 */3 * * *", 10800}, {"0 30 12 * * *", 86400}, {"0 5-59/10 * * * *", 600},
}

// endingSpecs: 7-field cron strings bounded to 2001, the year in which the harness clock starts.
// With a clock start shortly before 2002-01-01T00:00:00Z (the last three entries of bases) they run out of occurrences
// while scheduled; with the other clock starts they are ordinary schedules.
var endingSpecs = []specT{
	{"* * * * * * 2001", 1}, {"*/5 * * * * * 2001", 5}, {"0 * * * * * 2001", 60}, {"*/2 * * * * * 2000-2001", 2}, {"30 * * * * * 2001", 60},
}

const yearEndMs = (1_009_843_200 - baseUnix) * 1000 // 2002-01-01T00:00:00Z relative to baseUnix

var bases = []int64{0, 0, 250, 20_000, 3_599_000, 1_234_500, yearEndMs - 10_000, yearEndMs - 90_000, yearEndMs - 3_250}

// zones: location of the lastScheduled value, seconds east of UTC (UTC, +05:30, -03:00, +01:00, +05:45, -09:30, +12:45)
var zones = []int{0, 0, 0, 0, 19800, -10800, 3600, 20700, -34200, 45900}

var offsets = []int64{0, 0, 0, 0, 1, 5, 30, 90, -1, -5, -30, -90}

func gen(t *rapid.T) Case {
	var c Case
	c.Workers = rapid.IntRange(1, 4).Draw(t, "workers")
	c.BaseMs = rapid.SampledFrom(bases).Draw(t, "base")
	c.LocalOff = rapid.SampledFrom([]int{0, 0, 19800, -12600, 3600, 45900}).Draw(t, "localzone")
	nearEnd := c.BaseMs >= yearEndMs-100_000
	n := rapid.IntRange(1, 40).Draw(t, "n")
	period := map[int]int64{}  // generator's view of what is scheduled
	blocking := map[int]bool{} // ids whose executor behaviour is "block"
	ids := func() []int {
		var l []int
		for id := range period {
			l = append(l, id)
		}
		sort.Ints(l)
		return l
	}
	minP := func() int64 {
		m := int64(3600)
		for _, p := range period {
			if p < m {
				m = p
			}
		}
		return m
	}
	drawSched := func(id int, re bool) Op {
		sp := rapid.SampledFrom(specs).Draw(t, "spec")
		// ending schedules: every second Schedule when the clock starts shortly before the end, rarely otherwise
		if e := rapid.IntRange(0, 19).Draw(t, "ending"); (nearEnd && e < 10) || e == 0 {
			sp = rapid.SampledFrom(endingSpecs).Draw(t, "endspec")
		}
		o := Op{K: "sched", ID: id, Spec: sp.s, Off: rapid.SampledFrom(offsets).Draw(t, "off"), Zone: rapid.SampledFrom(zones).Draw(t, "zone")}
		if re {
			o.K = "resched"
			o.CP = rapid.IntRange(0, 9).Draw(t, "cp") < 7
		}
		o.Last = rapid.SampledFrom([]int64{0, 0, 1, sp.p / 2, sp.p, sp.p + 1, 3 * sp.p, 10*sp.p + 1, 30 * sp.p}).Draw(t, "last")
		period[id] = sp.p
		return o
	}
	for i := 0; i < n; i++ {
		k := 0
		if len(period) > 0 {
			k = rapid.SampledFrom([]int{0, 0, 1, 1, 2, 2, 3, 3, 3, 3, 3, 3, 3, 3, 4, 4, 4, 4, 5, 5, 5, 5}).Draw(t, "kind")
		}
		switch k {
		case 0:
			id := rapid.IntRange(1, maxID).Draw(t, "id")
			_, re := period[id]
			c.Ops = append(c.Ops, drawSched(id, re))
		case 1:
			c.Ops = append(c.Ops, drawSched(rapid.SampledFrom(ids()).Draw(t, "id"), true))
		case 2:
			// mostly a scheduled id; sometimes any id (the coordinator releases on delete whatever the state)
			id := rapid.IntRange(1, maxID).Draw(t, "anyid")
			if rapid.IntRange(0, 4).Draw(t, "known") > 0 {
				id = rapid.SampledFrom(ids()).Draw(t, "id")
			}
			delete(period, id)
			c.Ops = append(c.Ops, Op{K: "release", ID: id})
		case 3:
			p := period[rapid.SampledFrom(ids()).Draw(t, "ref")]
			var d int64
			switch rapid.IntRange(0, 8).Draw(t, "advkind") {
			case 0:
				d = rapid.SampledFrom([]int64{400, 1500, 999}).Draw(t, "sub")
			case 1:
				d = 1000
			case 2:
				d = (p - 1) * 1000
			case 3, 4:
				d = p * 1000
			case 5:
				d = (p + 1) * 1000
			case 6:
				d = 3*p*1000 + p*500
			case 7:
				d = int64(rapid.IntRange(4, 25).Draw(t, "many")) * p * 1000
			case 8:
				d = int64(rapid.IntRange(1, 120).Draw(t, "secs")) * 1000
			}
			if lim := 120 * minP() * 1000; d > lim {
				d = lim
			}
			if d <= 0 {
				d = 1000
			}
			c.Ops = append(c.Ops, Op{K: "adv", D: d})
		case 4:
			o := Op{K: "behave", ID: rapid.SampledFrom(ids()).Draw(t, "id"),
				B: rapid.SampledFrom([]string{"block", "block", "block", "ok", "err", "panic"}).Draw(t, "b")}
			blocking[o.ID] = o.B == "block"
			c.Ops = append(c.Ops, o)
		case 5:
			id := 0
			var bl []int
			for b, on := range blocking {
				if on {
					bl = append(bl, b)
				}
			}
			sort.Ints(bl)
			switch k := rapid.IntRange(0, 5).Draw(t, "one"); {
			case k == 0:
			case k <= 3 && len(bl) > 0:
				id = rapid.SampledFrom(bl).Draw(t, "id")
			default:
				id = rapid.IntRange(1, maxID).Draw(t, "id")
			}
			c.Ops = append(c.Ops, Op{K: "unblock", ID: id})
		}
	}
	return c
}

// ---------------------------------------------------------------------------------------
// recorded history + model

type runRec struct {
	id       int
	epoch    int
	sf       int64 // scheduledFor, unix s
	runAt    int64
	clk      int64 // harness clock (ns) at entry
	behave   string
	unblock  chan struct{}
	released bool // Unblock was issued (or not a blocking run)
	done     bool
}

type taskM struct {
	ever      bool
	scheduled bool
	epoch     int
	sch       scheduler.Schedule
	spec      string
	off       int64
	last      int64 // lastScheduled handed to the scheduler in this epoch
	next      int64 // next expected occurrence (0 when exhausted)
	exhausted bool  // the schedule has no occurrence after prevSF (or none at all): no further run is expected in this epoch
	prevSF    int64 // scheduledFor of the latest run started in this epoch (0 = none)
	behave    string
	active    *runRec // Execute in progress
	pendingCP *runRec // Execute returned, UpdateLastScheduled not yet seen
	cpEpoch   int     // epoch of the latest checkpoint
	cpLast    int64   // its value
	cpLatest  int64   // latest checkpoint value whatever the epoch (0 = none): what a caller would persist
	relClk    int64   // harness clock when Release returned
	relOp     int
}

type world struct {
	mu       sync.Mutex
	notify   chan struct{}
	cur      int64 // harness clock, ns
	workers  int
	tasks    [maxID + 1]*taskM
	nRuns    int
	nCps     int
	nErrRuns int
	nPanics  int
	nBlocked int
	nLast    int // runs that were the last occurrence of an ending schedule
	opIdx    int
	draining bool
	failSig  string
	failMsg  string
	onErr    atomic.Int64
	trace    []string
}

func (w *world) fail(sig, f string, a ...any) {
	if w.failSig == "" && !w.draining {
		w.failSig, w.failMsg = sig, fmt.Sprintf(f, a...)
	}
}

func (w *world) ping() {
	select {
	case w.notify <- struct{}{}:
	default:
	}
}

func (w *world) log(f string, a ...any) {
	if len(w.trace) >= 256 {
		w.trace = append(w.trace[:0], w.trace[128:]...)
	}
	w.trace = append(w.trace, fmt.Sprintf(f, a...))
}

func rel(s int64) string {
	if s == 0 {
		return "none"
	}
	return fmt.Sprintf("%+ds", s-baseUnix)
}

// workerOf: "Distribution is handled by hashing the TaskID ... all tasks of the same ID go to
// the same worker" (TreeScheduler doc comment). Used to decide what the harness waits for and
// for the labels; the safety invariants do not depend on it.
func workerOf(id, n int) int {
	var b [8]byte
	binary.LittleEndian.PutUint64(b[:], uint64(id))
	return int(xxhash.Sum64(b[:]) % uint64(n))
}

// Execute is the recording executor.
func (w *world) Execute(ctx context.Context, sid scheduler.ID, scheduledFor time.Time, runAt time.Time) error {
	id := int(sid)
	w.mu.Lock()
	if id < 1 || id > maxID || w.tasks[id] == nil || !w.tasks[id].ever {
		w.fail("exec/unknown-id", "Execute called for id %d which was never scheduled", id)
		w.mu.Unlock()
		return nil
	}
	t := w.tasks[id]
	sf := scheduledFor.Unix()
	clk := w.cur
	w.nRuns++
	w.log("op%d exec id=%d for=%s clk=%+dms", w.opIdx, id, rel(sf), (clk-baseUnix*1e9)/1e6)
	if scheduledFor.Nanosecond() != 0 {
		w.fail("exec/subsecond", "id %d: scheduledFor %v is not a whole second", id, scheduledFor.UTC())
	}
	if t.active != nil {
		w.fail("concurrent/same-id", "id %d: Execute(for %s) entered while Execute(for %s) of the same id is still in progress", id, rel(sf), rel(t.active.sf))
	}
	if !t.scheduled {
		if (sf+t.off)*1e9 > t.relClk {
			w.fail("release/run-after-release", "id %d: Execute(for %s, offset %ds) although Release returned at op %d when the clock was %+dms: the occurrence lies after the release", id, rel(sf), t.off, t.relOp, (t.relClk-baseUnix*1e9)/1e6)
		} else {
			w.fail("release/dispatch-after-release", "id %d: Execute(for %s) started after Release had returned (op %d) and no run of it was in flight at that time", id, rel(sf), t.relOp)
		}
	} else {
		switch {
		case !t.exhausted && sf == t.next:
		case t.prevSF != 0 && sf == t.prevSF:
			w.fail("order/duplicate", "id %d (%s, last %s): occurrence %s executed twice; expected next %s", id, t.spec, rel(t.last), rel(sf), rel(t.next))
		case t.exhausted:
			w.fail("order/after-last-occurrence", "id %d (%s, last %s): Execute for %s although the schedule has no occurrence after %s (cron Next reports the end of the schedule)", id, t.spec, rel(t.last), rel(sf), rel(t.prevSF))
		case sf < t.next:
			w.fail("order/regressed", "id %d (%s, last %s): Execute for %s but the next consecutive occurrence is %s (previous run was for %s)", id, t.spec, rel(t.last), rel(sf), rel(t.next), rel(t.prevSF))
		default:
			w.fail("order/skipped", "id %d (%s, last %s): Execute for %s but the next consecutive occurrence %s was never executed (previous run was for %s)", id, t.spec, rel(t.last), rel(sf), rel(t.next), rel(t.prevSF))
		}
		if (sf+t.off)*1e9 > clk {
			w.fail("early/before-offset", "id %d (%s): Execute for %s with offset %ds entered when the scheduler's clock was %+dms, i.e. %dms before occurrence+offset", id, t.spec, rel(sf), t.off, (clk-baseUnix*1e9)/1e6, ((sf+t.off)*1e9-clk)/1e6)
		}
		if !t.exhausted {
			t.prevSF = sf
			if nx, err := t.sch.Next(time.Unix(sf, 0).UTC()); err == nil {
				t.next = nx.Unix()
			} else {
				// the schedule ends here (7-field cron past its last year): nothing more is expected
				t.next, t.exhausted = 0, true
				w.nLast++
				w.log("op%d id=%d schedule ended after %s: %v", w.opIdx, id, rel(sf), err)
			}
		}
	}
	r := &runRec{id: id, epoch: t.epoch, sf: sf, runAt: runAt.Unix(), clk: clk, behave: t.behave, unblock: make(chan struct{})}
	if w.draining {
		r.behave = "ok"
	}
	if r.behave != "block" {
		r.released = true
	} else {
		w.nBlocked++
	}
	t.active = r
	w.ping()
	w.mu.Unlock()

	if r.behave == "block" {
		<-r.unblock
	}

	w.mu.Lock()
	r.done = true
	if t.active == r {
		t.active = nil
	}
	t.pendingCP = r
	switch r.behave {
	case "err":
		w.nErrRuns++
	case "panic":
		w.nPanics++
	}
	w.ping()
	w.mu.Unlock()
	switch r.behave {
	case "err":
		return errors.New("c17: executor failure")
	case "panic":
		panic("c17: executor panic")
	}
	return nil
}

// UpdateLastScheduled is the recording SchedulableService.
func (w *world) UpdateLastScheduled(ctx context.Context, sid scheduler.ID, ts time.Time) error {
	id := int(sid)
	w.mu.Lock()
	defer w.mu.Unlock()
	defer w.ping()
	if id < 1 || id > maxID || w.tasks[id] == nil || !w.tasks[id].ever {
		w.fail("checkpoint/unknown-id", "UpdateLastScheduled for id %d which was never scheduled", id)
		return nil
	}
	t := w.tasks[id]
	cp := ts.Unix()
	w.nCps++
	w.log("op%d checkpoint id=%d %s", w.opIdx, id, rel(cp))
	r := t.pendingCP
	t.pendingCP = nil
	if r == nil {
		w.fail("checkpoint/unmatched", "id %d: UpdateLastScheduled(%s) without a preceding finished Execute", id, rel(cp))
		return nil
	}
	if cp != r.sf || ts.Nanosecond() != 0 {
		w.fail("checkpoint/wrong-time", "id %d: UpdateLastScheduled(%v) after Execute for %s", id, ts.UTC(), rel(r.sf))
	}
	// "only moves forward": within one Schedule call. Across a re-Schedule the caller chooses
	// lastScheduled and may itself rewind (model: checkpoints of the new epoch must exceed it,
	// which the order invariant already implies).
	if t.cpLast != 0 && t.cpEpoch == r.epoch && cp <= t.cpLast {
		w.fail("checkpoint/backwards", "id %d: last-scheduled checkpoint moved from %s to %s", id, rel(t.cpLast), rel(cp))
	}
	t.cpEpoch, t.cpLast, t.cpLatest = r.epoch, cp, cp
	return nil
}

func (w *world) blockedWorkers() map[int]int { // worker -> id of the blocked run
	m := map[int]int{}
	for id := 1; id <= maxID; id++ {
		if t := w.tasks[id]; t != nil && t.active != nil && !t.active.released {
			m[workerOf(id, w.workers)] = id
		}
	}
	return m
}

func (w *world) curNow() int64 {
	w.mu.Lock()
	defer w.mu.Unlock()
	return w.cur
}

func (w *world) blockedSnap() map[int]int {
	w.mu.Lock()
	defer w.mu.Unlock()
	return w.blockedWorkers()
}

// due: the next expected occurrence of the task has been reached by the clock (never for an exhausted schedule).
func (t *taskM) due(cur int64) bool {
	return !t.exhausted && (t.next+t.off)*1e9 <= cur
}

// settled: no executor call in progress other than deliberately blocked ones, every
// finished call checkpointed, and no due occurrence outstanding for a task whose worker is
// not blocked. Caller holds w.mu.
func (w *world) settled() (bool, string, string) {
	bw := w.blockedWorkers()
	for id := 1; id <= maxID; id++ {
		t := w.tasks[id]
		if t == nil {
			continue
		}
		if t.active != nil && t.active.released {
			return false, "harness/executor-not-returning", fmt.Sprintf("id %d: unblocked Execute(for %s) still in progress", id, rel(t.active.sf))
		}
		if t.pendingCP != nil {
			return false, "liveness/checkpoint-missing", fmt.Sprintf("id %d: Execute(for %s) returned but UpdateLastScheduled was not called", id, rel(t.pendingCP.sf))
		}
	}
	for id := 1; id <= maxID; id++ {
		t := w.tasks[id]
		if t == nil || !t.scheduled {
			continue
		}
		if _, b := bw[workerOf(id, w.workers)]; b {
			continue
		}
		if t.due(w.cur) {
			return false, "liveness/due-not-run", fmt.Sprintf("id %d (%s, offset %ds, last %s): occurrence %s is due (clock %+dms), its worker %d/%d is not blocked, yet Execute was not called (previous run: %s)",
				id, t.spec, t.off, rel(t.last), rel(t.next), (w.cur-baseUnix*1e9)/1e6, workerOf(id, w.workers), w.workers, rel(t.prevSF))
		}
	}
	return true, "", ""
}

// ---------------------------------------------------------------------------------------

type schedulable struct {
	id   scheduler.ID
	s    scheduler.Schedule
	off  time.Duration
	last time.Time
}

func (s schedulable) ID() scheduler.ID             { return s.id }
func (s schedulable) Schedule() scheduler.Schedule { return s.s }
func (s schedulable) Offset() time.Duration        { return s.off }
func (s schedulable) LastScheduled() time.Time     { return s.last }

// budget is the hang bound. It is consumed only by "timely" waiting: the waiting goroutine
// polls every 2 ms and each poll consumes at most 5 ms, so that a process that is itself
// starved of CPU (the poller is then late as well) does not run out of budget while the
// scheduler's goroutines had no chance to run. On an idle machine it is exactly hangBound.
type budget struct {
	used time.Duration
	last time.Time
}

func newBudget() *budget { return &budget{last: time.Now()} }

func (b *budget) reset() { b.used = 0; b.last = time.Now() }

// spent accounts for the time since the previous call and reports whether the bound is used up.
func (b *budget) spent() bool {
	now := time.Now()
	dt := now.Sub(b.last)
	b.last = now
	if dt > 5*time.Millisecond {
		dt = 5 * time.Millisecond
	}
	b.used += dt
	return b.used > hangBound
}

// bounded runs fn on its own goroutine and reports whether it returned within the hang bound.
func bounded(fn func()) bool {
	done := make(chan struct{})
	go func() { defer close(done); fn() }()
	select { // fast path
	case <-done:
		return true
	case <-time.After(time.Millisecond):
	}
	b := newBudget()
	tk := time.NewTicker(2 * time.Millisecond)
	defer tk.Stop()
	for {
		select {
		case <-done:
			return true
		case <-tk.C:
			if b.spent() {
				return false
			}
		}
	}
}

// planned is the model's view of one Schedule call.
type planned struct {
	sch     scheduler.Schedule
	aligned time.Time // what NewSchedule returned: handed to the scheduler as LastScheduled(), as the coordinator does
	ref     time.Time // the last-scheduled INSTANT the occurrences are counted from, in UTC
	first   time.Time // first expected occurrence
	none    bool      // the schedule has no occurrence after ref
}

// plan does what coordinator.NewSchedulableTask does (scheduler.NewSchedule(spec, ts)) and
// derives the expected first occurrence from the UTC instant of the last-scheduled time:
//   - cron strings: the instant ts itself, cut to the whole second ("occurrences of its cron
//     schedule after its last-scheduled time"; cron strings are UTC, cron.ParseUTC). The
//     time.Time value returned by NewSchedule is deliberately NOT used here.
//   - "@every d": NewSchedule aligns the last-scheduled time to a multiple of d ("Align create
//     to the hour/minute"); that alignment is taken from NewSchedule (as an instant) because
//     the property does not define it.
//
// The cron library evaluates the fields in the location of its argument, so the model always
// hands it UTC values.
func plan(spec string, ts time.Time) (planned, error) {
	sch, aligned, err := scheduler.NewSchedule(spec, ts)
	if err != nil {
		return planned{}, fmt.Errorf("NewSchedule(%q, %v): %v", spec, ts, err)
	}
	p := planned{sch: sch, aligned: aligned, ref: ts.UTC().Truncate(time.Second)}
	if strings.HasPrefix(strings.TrimSpace(spec), "@every") {
		p.ref = aligned.UTC()
	}
	if p.first, err = sch.Next(p.ref); err != nil {
		p.none = true // trusted cron library: no occurrence after ref
	}
	return p, nil
}

func run(c Case, cc *kit.Case) {
	if c.Workers < 1 || c.Workers > 16 {
		cc.Fail("harness/case", "workers=%d", c.Workers)
		return
	}
	if c.LocalOff != 0 && raceBuild {
		cc.Label("process-local-zone-left-at-utc(race build)")
	}
	if c.LocalOff != 0 && !raceBuild {
		// the zone of the server: set before the scheduler exists, restored after everything of the
		// case has ended (the deferred teardown below runs first)
		time.Local = time.FixedZone("local", c.LocalOff)
		defer func() { time.Local = time.UTC }()
		cc.Label("process-local-zone-not-utc")
	}
	w := &world{notify: make(chan struct{}, 1), workers: c.Workers}
	base := time.Unix(baseUnix, 0).UTC().Add(time.Duration(c.BaseMs) * time.Millisecond)
	w.cur = base.UnixNano()
	hc := newHClock(base)
	s, _, err := scheduler.NewScheduler(w, w, scheduler.WithTime(hc), scheduler.WithMaxConcurrentWorkers(c.Workers),
		scheduler.WithOnErrorFn(func(context.Context, scheduler.ID, time.Time, error) { w.onErr.Add(1) }))
	if err != nil {
		cc.Fail("harness/new-scheduler", "%v", err)
		return
	}
	stopped := false
	labels := map[string]bool{}
	nt := false
	defer func() {
		// every executor goroutine must have exited before run returns
		w.mu.Lock()
		hadFail := w.failSig != ""
		if hadFail {
			w.draining = true // the state is no longer quiescent: stop judging
		}
		var ids []int
		for id := 1; id <= maxID; id++ {
			if t := w.tasks[id]; t != nil && t.scheduled {
				ids = append(ids, id)
			}
		}
		w.mu.Unlock()
		for _, id := range ids {
			id := id
			if !bounded(func() { _ = s.Release(scheduler.ID(id)) }) {
				cc.Fail("hang/release", "final Release(%d) did not return within %v", id, hangBound)
			}
			w.mu.Lock()
			t := w.tasks[id]
			t.scheduled, t.relClk, t.relOp = false, w.cur, len(c.Ops)
			w.mu.Unlock()
		}
		w.mu.Lock()
		for id := 1; id <= maxID; id++ {
			if t := w.tasks[id]; t != nil {
				t.behave = "ok"
				if t.active != nil && !t.active.released {
					t.active.released = true
					close(t.active.unblock)
				}
			}
		}
		w.mu.Unlock()
		if ok, sig, why := waitSettled(w, hc); !ok && !hadFail {
			cc.Fail(sig, "after the final Release/Unblock: %s", why)
		}
		w.mu.Lock()
		w.draining = true
		w.mu.Unlock()
		if !stopped {
			if !bounded(s.Stop) {
				cc.Fail("hang/stop", "Stop did not return within %v after all tasks were released and all executors unblocked", hangBound)
			}
		}
		w.mu.Lock()
		if w.failSig != "" {
			cc.Fail(w.failSig, "%s\nworkers=%d trace (tail):\n  %s", w.failMsg, c.Workers, strings.Join(tail(w.trace, 16), "\n  "))
		}
		runs := w.nRuns
		if w.nErrRuns > 0 {
			labels["ran:error"] = true
		}
		if w.nPanics > 0 {
			labels["ran:panic"] = true
		}
		if w.nBlocked > 0 {
			labels["ran:blocked"] = true
		}
		if w.nLast > 0 {
			labels["ran:last-occurrence-of-an-ending-schedule"] = true
		}
		w.mu.Unlock()
		switch {
		case runs == 0:
			labels["runs=0"] = true
		case runs <= 10:
			labels["runs=1-10"] = true
		case runs <= 100:
			labels["runs=11-100"] = true
		default:
			labels["runs>100"] = true
		}
		labels[fmt.Sprintf("workers=%d", c.Workers)] = true
		var ls []string
		for l := range labels {
			ls = append(ls, l)
		}
		sort.Strings(ls)
		for _, l := range ls {
			cc.Label(l)
		}
		if nt {
			cc.NonTrivial()
		}
	}()
	if err := hc.bind(s); err != nil {
		cc.Fail("harness/bind", "%v", err)
		return
	}
	setNow := func(now time.Time) {
		w.mu.Lock()
		w.cur = now.UnixNano()
		w.mu.Unlock()
	}

	for i, op := range c.Ops {
		w.mu.Lock()
		w.opIdx = i
		w.log("op%d %+v", i, op)
		w.mu.Unlock()
		switch op.K {
		case "sched", "resched":
			if op.ID < 1 || op.ID > maxID {
				cc.Fail("harness/case", "op %d: id %d", i, op.ID)
				return
			}
			w.mu.Lock()
			t := w.tasks[op.ID]
			if t == nil {
				t = &taskM{behave: "ok"}
				w.tasks[op.ID] = t
			}
			if op.Zone < -14*3600 || op.Zone > 14*3600 {
				w.mu.Unlock()
				cc.Fail("harness/case", "op %d: zone %d", i, op.Zone)
				return
			}
			loc := time.UTC
			if op.Zone != 0 {
				loc = time.FixedZone("", op.Zone)
			}
			ts := time.Unix(0, w.cur).UTC().Add(-time.Duration(op.Last) * time.Second)
			if op.CP && t.cpLatest != 0 {
				ts = time.Unix(t.cpLatest, 0).UTC()
				labels["resched:from-checkpoint"] = true
			}
			w.mu.Unlock()
			ps, err := plan(op.Spec, ts.In(loc)) // what coordinator.NewSchedulableTask does
			if err != nil {
				cc.Fail("harness/spec", "%q: %v", op.Spec, err)
				return
			}
			// cost bound: at most maxBacklog overdue occurrences at Schedule time (a checkpoint
			// can be arbitrarily old; the scheduler runs every missed occurrence)
			if !ps.none {
				nowT := time.Unix(0, w.curNow()).UTC()
				o, k := ps.first, 0
				for ; k <= maxBacklog && !o.After(nowT); k++ {
					if o, err = ps.sch.Next(o); err != nil {
						break // the schedule ends: a finite backlog
					}
				}
				if k > maxBacklog {
					labels["schedule:backlog-clamped"] = true
					second, _ := ps.sch.Next(ps.first)
					ts = nowT.Add(-time.Duration(maxBacklog/2) * second.Sub(ps.first))
					if ps, err = plan(op.Spec, ts.In(loc)); err != nil {
						cc.Fail("harness/spec", "%q: %v", op.Spec, err)
						return
					}
				}
			}
			if ps.none {
				// No occurrence after lastScheduled (an ending schedule whose end has passed): what
				// Schedule has to do then is not part of the property; the call is not issued.
				labels["schedule:no-occurrence-left(skipped)"] = true
				continue
			}
			sch, aligned, first := ps.sch, ps.aligned, ps.first
			if op.Zone != 0 {
				labels["lastScheduled:non-UTC-location"] = true
				if z, err := sch.Next(ps.ref.In(loc)); err != nil || !z.Equal(first) {
					labels["lastScheduled:non-UTC-location,zone-sensitive-schedule"] = true
				}
			}
			if _, err := sch.Next(time.Date(2001, 12, 31, 23, 59, 59, 0, time.UTC)); err != nil {
				labels["schedule:ending"] = true
			}
			w.mu.Lock()
			if t.scheduled {
				labels["re-schedule"] = true
				if t.active != nil {
					labels["re-schedule:while-running"] = true
				}
			} else if t.ever {
				labels["schedule-after-release"] = true
			}
			if len(w.blockedWorkers()) > 0 {
				labels["schedule:while-an-executor-is-blocked"] = true
			}
			if (first.Unix()+op.Off)*1e9 <= w.cur {
				labels["schedule:overdue(catch-up)"] = true
			}
			if op.Off < 0 {
				labels["offset<0"] = true
			} else if op.Off > 0 {
				labels["offset>0"] = true
			}
			if strings.HasPrefix(op.Spec, "@every") {
				labels["spec:every"] = true
			} else {
				labels["spec:cron"] = true
			}
			// the model switches to the new epoch before the call: runs of the new item may
			// start before Schedule returns to this goroutine
			t.ever, t.scheduled = true, true
			t.epoch++
			t.sch, t.spec, t.off, t.last, t.next, t.prevSF, t.exhausted = sch, op.Spec, op.Off, ps.ref.Unix(), first.Unix(), 0, false
			w.mu.Unlock()
			var serr error
			if !bounded(func() {
				serr = s.Schedule(schedulable{id: scheduler.ID(op.ID), s: sch, off: time.Duration(op.Off) * time.Second, last: aligned})
			}) {
				cc.Fail("hang/schedule", "op %d: Schedule(%d) did not return within %v (blocked executors: %v)", i, op.ID, hangBound, w.blockedSnap())
				return
			}
			if serr != nil {
				cc.Fail("schedule/error", "op %d: Schedule(%d, %q, last %v) returned %v", i, op.ID, op.Spec, aligned, serr)
				return
			}
		case "release":
			if op.ID < 1 || op.ID > maxID {
				cc.Fail("harness/case", "op %d: id %d", i, op.ID)
				return
			}
			w.mu.Lock()
			if t := w.tasks[op.ID]; t != nil && t.scheduled {
				labels["release"] = true
				if t.active != nil {
					labels["release:while-running"] = true
				} else if b, ok := w.blockedWorkers()[workerOf(op.ID, w.workers)]; ok && b != op.ID && t.due(w.cur) {
					labels["release:with-backlog-behind-blocked-worker"] = true
				}
			} else {
				labels["release:not-scheduled"] = true
			}
			w.mu.Unlock()
			var rerr error
			if !bounded(func() { rerr = s.Release(scheduler.ID(op.ID)) }) {
				cc.Fail("hang/release", "op %d: Release(%d) did not return within %v (blocked executors: %v)", i, op.ID, hangBound, w.blockedSnap())
				return
			}
			if rerr != nil {
				cc.Fail("release/error", "op %d: Release(%d) returned %v", i, op.ID, rerr)
				return
			}
			w.mu.Lock()
			if t := w.tasks[op.ID]; t != nil && t.scheduled {
				t.scheduled, t.relClk, t.relOp = false, w.cur, i
			}
			w.mu.Unlock()
		case "adv":
			if op.D <= 0 {
				cc.Fail("harness/case", "op %d: advance %d", i, op.D)
				return
			}
			d := time.Duration(op.D) * time.Millisecond
			w.mu.Lock()
			target := w.cur + int64(d)
			bw := w.blockedWorkers()
			if len(bw) > 0 {
				labels["advance:while-an-executor-is-blocked"] = true
			}
			for id := 1; id <= maxID; id++ {
				t := w.tasks[id]
				if t == nil || !t.scheduled || t.exhausted {
					continue
				}
				// occurrences of this task that become due by this advance
				k, o := 0, t.next
				for k < 3 && (o+t.off)*1e9 <= target {
					if (o+t.off)*1e9 > w.cur {
						k++
					}
					nx, err := t.sch.Next(time.Unix(o, 0).UTC())
					if err != nil {
						labels["advance:over-the-end-of-a-schedule"] = true
						break
					}
					o = nx.Unix()
				}
				if k >= 1 {
					labels["advance:occurrence-becomes-due"] = true
				}
				if k >= 3 {
					labels["advance:jump>=3-occurrences"] = true
					if b, ok := bw[workerOf(id, w.workers)]; ok && b != id {
						labels["NT:jump>=3-behind-other-task-blocked-on-same-worker"] = true
						nt = true
					}
					if b, ok := bw[workerOf(id, w.workers)]; ok && b == id {
						labels["advance:jump>=3-while-own-run-blocked"] = true
					}
				}
			}
			if op.D%1000 != 0 {
				labels["advance:sub-second"] = true
			}
			w.mu.Unlock()
			if hc.advance(d, setNow) {
				labels["mock:tick-dropped(channel-full)"] = true
			}
			if hc.stuck {
				cc.Fail("hang/scheduler-mutex", "op %d %+v: the scheduler's mutex (needed by Schedule and Release) was held for more than %v (blocked executors: %v)", i, op, hangBound, w.blockedSnap())
				return
			}
		case "behave":
			if op.ID < 1 || op.ID > maxID {
				cc.Fail("harness/case", "op %d: id %d", i, op.ID)
				return
			}
			switch op.B {
			case "ok", "err", "panic", "block":
			default:
				cc.Fail("harness/case", "op %d: behaviour %q", i, op.B)
				return
			}
			w.mu.Lock()
			if w.tasks[op.ID] == nil {
				w.tasks[op.ID] = &taskM{behave: "ok"}
			}
			w.tasks[op.ID].behave = op.B
			w.mu.Unlock()
		case "unblock":
			w.mu.Lock()
			for id := 1; id <= maxID; id++ {
				if op.ID != 0 && op.ID != id {
					continue
				}
				if t := w.tasks[id]; t != nil && t.active != nil && !t.active.released {
					t.active.released = true
					close(t.active.unblock)
					labels["unblock"] = true
					if t.scheduled && t.due(w.cur) {
						labels["unblock:with-backlog"] = true
					}
				}
			}
			w.mu.Unlock()
		default:
			cc.Fail("harness/case", "op %d: kind %q", i, op.K)
			return
		}
		// a real timer armed with a deadline <= now fires at once; the mock needs a nudge
		if hc.advance(0, nil) {
			labels["mock:tick-dropped(channel-full)"] = true
		}
		ok, sig, why := waitSettled(w, hc)
		w.mu.Lock()
		failed := w.failSig != ""
		w.mu.Unlock()
		if failed {
			return
		}
		if hc.stuck {
			cc.Fail("hang/scheduler-mutex", "after op %d %+v: the scheduler's mutex (needed by Schedule and Release) was held for more than %v (blocked executors: %v)", i, op, hangBound, w.blockedSnap())
			return
		}
		if !ok {
			dump := schedulerStacks()
			w.mu.Lock()
			w.fail(sig, "after op %d %+v (no recorded call for %v): %s\ntimer: %s\ngoroutines in scheduler code:\n%s", i, op, hangBound, why, hc.timerState(), dump)
			w.mu.Unlock()
			return
		}
	}
}

// waitSettled polls the recorded history until the model says nothing is outstanding. The
// bound is a hang bound (>= 1000x the normal sub-20ms), not a tuning knob.
func waitSettled(w *world, hc *hclock) (bool, string, string) {
	b := newBudget()
	nextFlush := time.Now().Add(20 * time.Millisecond)
	seen := -1
	for {
		w.mu.Lock()
		ok, sig, why := w.settled()
		failed := w.failSig != "" && !w.draining
		progress := w.nRuns + w.nCps
		w.mu.Unlock()
		if ok || failed || hc.stuck {
			return true, "", ""
		}
		if progress != seen { // the bound is on the time WITHOUT any recorded call, not on the length of a catch-up
			seen = progress
			b.reset()
		}
		if b.spent() {
			return false, sig, why
		}
		if time.Now().After(nextFlush) {
			hc.advance(0, nil) // timers whose deadline has passed fire (real-timer semantics)
			nextFlush = time.Now().Add(50 * time.Millisecond)
			b.last = time.Now() // the flush sleeps inside the mock (gosched): not waiting time
		}
		select {
		case <-w.notify:
		case <-time.After(2 * time.Millisecond):
		}
	}
}

// schedulerStacks: diagnostic for hang reports (which scheduler goroutines exist and where they are).
func schedulerStacks() string {
	buf := make([]byte, 1<<20)
	buf = buf[:runtime.Stack(buf, true)]
	var out []string
	for _, g := range strings.Split(string(buf), "\n\n") {
		if strings.Contains(g, "backend/scheduler.") {
			if len(g) > 1500 {
				g = g[:1500] + " ..."
			}
			out = append(out, g)
		}
	}
	return strings.Join(out, "\n\n")
}

func tail(s []string, n int) []string {
	if len(s) > n {
		return s[len(s)-n:]
	}
	return s
}

var assumptions = []string{
	"the zone of the process (time.Local) is UTC or a fixed offset, set for the duration of a case: cron strings of the task scheduler are UTC whatever the server's zone (cron.ParseUTC), so the expected occurrences do not depend on it",
	"occurrences are computed with the scheduler.Schedule (influxdata/cron) value handed to the scheduler: the cron library is trusted; it evaluates the fields in the location of its argument, so the model always hands it UTC times (cron strings are UTC: scheduler.NewSchedule and ValidateSchedule parse them with cron.ParseUTC)",
	"the last-scheduled time is an instant: the time.Time handed to NewSchedule is in UTC or in a fixed-offset location (a caller can produce both: TreeScheduler.work passes time.Unix(..), i.e. the process-local zone, to UpdateLastScheduled, task/kv persists LatestScheduled as RFC3339 JSON and coordinator.NewSchedulableTask hands the decoded value to NewSchedule unchanged); for cron strings the expected occurrences are counted from that instant cut to the whole second, not from the value NewSchedule returns; for '@every d' the alignment to a multiple of d is taken from NewSchedule's return value as an instant (the property does not define the alignment)",
	"a schedule can end (7-field cron with a year field; cron Next returns an error after the last occurrence): the last occurrence is still due and must run, after it no run of that id is expected until it is scheduled again; a Schedule call whose schedule has no occurrence after lastScheduled is not issued (its effect is not defined by the property)",
	"lastScheduled goes through scheduler.NewSchedule (truncation/alignment) exactly as coordinator.NewSchedulableTask does; on Schedule it is the clock minus 0..30 periods, on re-Schedule mostly the latest checkpoint of the id (what the coordinator persists; with a negative offset that can be ahead of the clock), sometimes clock-relative",
	"offsets are whole seconds, positive or negative (task/options validation: 'offset option must be expressible as whole seconds', negative allowed); schedules have whole-second periods >= 1 s",
	"a re-Schedule defines a new epoch: runs after it are the consecutive occurrences after the NEW lastScheduled (an occurrence may therefore legitimately run again after a re-Schedule that rewinds); checkpoints are required to move forward within an epoch",
	"clock = benbjohnson/clock Mock v1.1.0; the harness advances it with the scheduler's mutex held (atomic jump), flushes due timers after every operation and drops a tick when the timer channel is full (real time.Timer semantics); see clock_test.go",
	"worker of an id = xxhash(id) mod workers (TreeScheduler doc comment): used only to decide which due occurrences can be waited for while an executor is blocked, and for labels",
	"a panicking executor is inside the contract: TreeScheduler.work recovers it (ErrUnrecoverable 'executor panicked') and carries on",
	"liveness (a due occurrence on a non-blocked worker is executed) and promptness of Schedule/Release use a hang bound of 20 s without any recorded executor/checkpoint call (normal latency < 20 ms); the bound is consumed in polls of <= 5 ms so that a CPU-starved test process does not exhaust it",
	"cost bound: at most 300 overdue occurrences at Schedule time (an older lastScheduled is moved to 150 periods before the clock); a clock advance is at most 120 periods of the fastest scheduled task",
}

func TestSched(t *testing.T) {
	r := kit.NewRec("C17", "Sched", rule, assumptions...)
	kit.Check(t, r, gen, run)
}

func TestReplaySched(t *testing.T) {
	r := kit.NewRec("C17", "Sched", rule, assumptions...)
	kit.Replay(t, r, run)
}
