//go:build race

package c17

// raceBuild: the binary is instrumented by the race detector. Writing time.Local (the process-local
// zone of a case) is a write to a package variable the runtime's timer goroutines read in
// time.Now(): the detector reports it, although nothing of the case runs at that moment. Under the
// race detector the cases run with the process zone left at UTC.
const raceBuild = true
