//go:build !race

package c17

const raceBuild = false
