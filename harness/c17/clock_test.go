package c17

// The harness clock: github.com/benbjohnson/clock's Mock (v1.1.0, the version /repo pins)
// behind a thin wrapper that makes a clock advance ATOMIC with respect to the scheduler.
//
// Why this is needed (all three are artefacts of Mock v1.1.0, not scheduler behaviour):
//
//  1. Mock timers fire only inside Add/Set. A real timer armed with Reset(0) fires at once;
//     the harness therefore flushes due timers (an advance by 0) after every operation.
//  2. Mock.Add changes "now" in discrete jumps. A scheduler pass that reads Now() and then
//     calls timer.Reset(until) can be straddled by the jump, which arms the timer late by
//     the size of the jump (with a real clock the straddle is nanoseconds wide). A late timer
//     would make an occurrence that is due not run until some later advance: a liveness false
//     alarm that depends on goroutine timing. The harness removes the artefact by holding
//     the scheduler's mutex while the clock moves: every scheduler pass runs entirely before
//     or entirely after the jump, and no scheduler goroutine reads the clock while it moves
//     (Mock.runNextTimer also moves "now" BACKWARDS transiently when a timer is armed in the
//     past, which the scheduler does: see the side observation in the final report).
//  3. internalTimer.Tick does a BLOCKING send on the 1-slot channel while holding the mock's
//     mutex. A real time.Timer drops the tick when the channel is full. If the scheduler's
//     loop has a wake-up pending (it is busy offering a due item to a blocked worker) and the
//     timer is armed again and fires, the mock deadlocks. The harness emulates the real
//     semantics: with the scheduler's mutex held, if the timer would fire during this advance
//     and its channel is already full, the timer is stopped instead (tick dropped, timer
//     inactive: the state a real timer would be in).
//
// The scheduler's mutex and the mock timer's (next, stopped) fields are unexported; they are
// reached with reflect+unsafe. This is a synchronisation device of the harness clock only: no
// oracle reads scheduler internals. A layout change makes newHClock/bind return an error
// (reported as harness/..., never as a violation of the property).

import (
	"fmt"
	"reflect"
	"sync"
	"time"
	"unsafe"

	"github.com/benbjohnson/clock"
	"github.com/influxdata/kapacitor/task/backend/scheduler"
)

type hclock struct {
	*clock.Mock
	tmu    sync.Mutex
	timers []*clock.Timer // timers handed to the scheduler (exactly one)

	smu   *sync.RWMutex // the scheduler's mutex
	tNext *time.Time    // &timer.next
	tStop *bool         // &timer.stopped
	stuck bool          // the scheduler's mutex could not be taken within the hang bound
}

func newHClock(base time.Time) *hclock {
	m := clock.NewMock()
	m.Set(base)
	return &hclock{Mock: m}
}

// Timer is the only constructor the scheduler uses; remember what was handed out.
func (h *hclock) Timer(d time.Duration) *clock.Timer {
	t := h.Mock.Timer(d)
	h.tmu.Lock()
	h.timers = append(h.timers, t)
	h.tmu.Unlock()
	return t
}

func (h *hclock) bind(s *scheduler.TreeScheduler) error {
	v := reflect.ValueOf(s).Elem().FieldByName("mu")
	if !v.IsValid() || v.Type() != reflect.TypeOf(sync.RWMutex{}) {
		return fmt.Errorf("TreeScheduler.mu is not a sync.RWMutex field any more")
	}
	h.smu = (*sync.RWMutex)(unsafe.Pointer(v.UnsafeAddr()))
	h.tmu.Lock()
	defer h.tmu.Unlock()
	if len(h.timers) != 1 {
		return fmt.Errorf("scheduler created %d timers on the injected clock, harness expects 1", len(h.timers))
	}
	tv := reflect.ValueOf(h.timers[0]).Elem()
	n, st := tv.FieldByName("next"), tv.FieldByName("stopped")
	if !n.IsValid() || n.Type() != reflect.TypeOf(time.Time{}) || !st.IsValid() || st.Kind() != reflect.Bool {
		return fmt.Errorf("clock.Timer layout changed (next/stopped)")
	}
	h.tNext = (*time.Time)(unsafe.Pointer(n.UnsafeAddr()))
	h.tStop = (*bool)(unsafe.Pointer(st.UnsafeAddr()))
	return nil
}

// advance moves the clock by d (>= 0) atomically w.r.t. the scheduler and fires the
// scheduler's timer if it is due at the new time. after runs with the scheduler's mutex
// still held (the harness publishes its own notion of "now" there). Returns whether a
// tick was dropped because the channel was full (real-timer semantics, see 3. above).
//
// The mutex is taken with the hang bound: Schedule and Release need the same mutex, so a
// scheduler that keeps it for the whole bound cannot "return promptly" either; stuck reports it.
func (h *hclock) advance(d time.Duration, after func(now time.Time)) (dropped bool) {
	if h.stuck {
		return false
	}
	if !bounded(h.smu.Lock) {
		h.stuck = true
		return false
	}
	defer h.smu.Unlock()
	target := h.Mock.Now().Add(d)
	t := h.timers[0]
	armed := !*h.tStop
	if armed && !h.tNext.After(target) && len(t.C) == cap(t.C) {
		t.Stop()
		dropped = true
		armed = false
	}
	if d > 0 || (armed && !h.tNext.After(target)) {
		h.Mock.Add(d)
	}
	if after != nil {
		after(target)
	}
	return dropped
}

// timerState: diagnostic only.
func (h *hclock) timerState() string {
	if h.stuck || !bounded(h.smu.Lock) {
		return "scheduler mutex not available"
	}
	defer h.smu.Unlock()
	return fmt.Sprintf("armed=%v next=%v mock.now=%v pending-tick=%d", !*h.tStop, h.tNext.UTC().Format("15:04:05.000"), h.Mock.Now().UTC().Format("15:04:05.000"), len(h.timers[0].C))
}
