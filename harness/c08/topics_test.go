// C08, unit Topics — the alert service's own part of the statement, over several topics: after a
// restart from the storage as it stood at any commit boundary, every topic holds exactly the
// recorded non-OK level of every ID, and the remaining history ends in the same state as the
// uninterrupted run.
//
// The Restart unit drives one task with one named (and one anonymous) topic through the whole
// stack; this unit talks to services/alert.Service directly (Collect as the alert nodes call it,
// CloseTopic / RestoreTopic as tasks do when they stop and start, DeleteTopic as the API does),
// which is cheap enough for histories over 2-5 topics whose names are prefixes of each other.
package c08

import (
	"fmt"
	"os"
	"path/filepath"
	"sort"
	"strings"
	"sync"
	"testing"
	"time"

	"verifharness/kit"

	"github.com/influxdata/kapacitor/alert"
	"github.com/influxdata/kapacitor/services/storage"
	bolt "go.etcd.io/bbolt"
	"pgregory.net/rapid"
)

type TOp struct {
	K     string `json:"k"` // collect | close | restore | delete
	Topic int    `json:"topic"`
	ID    int    `json:"id,omitempty"`
	Level int    `json:"level,omitempty"`
	// Reg (restore only): the task that reuses the topic has handlers of its own: it registers them
	// on the topic right before it restores it, and deregisters them after it has closed the topic
	Reg bool `json:"reg,omitempty"`
}

type TopicsCase struct {
	Ops []TOp `json:"ops"`
}

var topicPool = []string{"a", "ab", "b", "T", "main:task:alert2", "a/b"}
var idPool = []string{"x", "xy", "m:host=h0", "y"}

const ruleTopics = "rapid: histories of Collect(topic, id, level) over 2-6 topics (names that are prefixes of each other, an anonymous-topic name) and 1-4 IDs, with CloseTopic / RestoreTopic (alone, or after a handler was registered on the closed topic, as a task with handlers of its own does) / DeleteTopic in between; every commit boundary of the topic store is a crash point (copy of the Bolt file), followed by a new service on the copy and the rest of the history; " +
	"oracle: model of the record (topic -> id -> last non-OK level); the copy holds exactly the model's record, the new service shows exactly the copy for every topic, a topic shows exactly the record right after it was restored for reuse, the final record and the final in-memory state equal those of the uninterrupted run; non-trivial = at some crash point a topic whose IDs have all recovered (empty bucket) sorts before a topic with a non-OK ID; distinct by case hash"

func genTopics(t *rapid.T) TopicsCase {
	var c TopicsCase
	nt := rapid.IntRange(2, len(topicPool)).Draw(t, "topics")
	ni := rapid.IntRange(1, len(idPool)).Draw(t, "ids")
	n := rapid.IntRange(2, 24).Draw(t, "n")
	closed := map[int]bool{}
	for i := 0; i < n; i++ {
		tp := rapid.IntRange(0, nt-1).Draw(t, "topic")
		k := rapid.IntRange(0, 19).Draw(t, "kind")
		switch {
		case k == 0 && !closed[tp]:
			c.Ops = append(c.Ops, TOp{K: "close", Topic: tp})
			closed[tp] = true
			continue
		case k == 1:
			c.Ops = append(c.Ops, TOp{K: "delete", Topic: tp})
			delete(closed, tp)
			continue
		}
		if closed[tp] {
			// a task restores its topic before it publishes to it again (alert.go runAlert)
			c.Ops = append(c.Ops, TOp{K: "restore", Topic: tp, Reg: rapid.Bool().Draw(t, "reg")})
			delete(closed, tp)
		}
		// recoveries are frequent: the interesting records are the ones that disappear
		lvl := rapid.SampledFrom([]int{0, 0, 0, 1, 2, 3, 3}).Draw(t, "level")
		c.Ops = append(c.Ops, TOp{K: "collect", Topic: tp, ID: rapid.IntRange(0, ni-1).Draw(t, "id"), Level: lvl})
	}
	return c
}

type record map[string]map[string]int // topic -> id -> level (non-OK only)

func (r record) clone() record {
	out := record{}
	for t, m := range r {
		out[t] = map[string]int{}
		for id, l := range m {
			out[t][id] = l
		}
	}
	return out
}

func (r record) String() string {
	var parts []string
	for _, t := range kit.SortedKeys(r) {
		var ids []string
		for _, id := range kit.SortedKeys(r[t]) {
			ids = append(ids, fmt.Sprintf("%s=%s", id, lvlName[r[t][id]]))
		}
		parts = append(parts, fmt.Sprintf("%s{%s}", t, strings.Join(ids, " ")))
	}
	return strings.Join(parts, " ")
}

func sameRecord(a, b record) bool {
	norm := func(r record) string {
		c := record{}
		for t, m := range r {
			for id, l := range m {
				if l != 0 {
					if c[t] == nil {
						c[t] = map[string]int{}
					}
					c[t][id] = l
				}
			}
		}
		return c.String()
	}
	return norm(a) == norm(b)
}

// topicsModel is the reference: the durable record and the in-memory state of every topic.
type topicsModel struct {
	disk    record          // non-OK level per topic and ID
	buckets map[string]bool // topics whose bucket exists (possibly empty)
	mem     record          // in-memory state incl. OK levels; absent topic = not open
	closed  map[string]bool
}

func newTopicsModel() *topicsModel {
	return &topicsModel{disk: record{}, buckets: map[string]bool{}, mem: record{}, closed: map[string]bool{}}
}

// fromDisk is the model of a freshly opened service on a record.
func fromDisk(d record, buckets map[string]bool) *topicsModel {
	m := newTopicsModel()
	m.disk = d.clone()
	for t := range buckets {
		m.buckets[t] = true
		m.mem[t] = map[string]int{}
		for id, l := range d[t] {
			m.mem[t][id] = l
		}
	}
	return m
}

// apply returns whether the operation commits a transaction to the topic store.
func (m *topicsModel) apply(op TOp) bool {
	t := topicPool[op.Topic]
	switch op.K {
	case "collect":
		id := idPool[op.ID]
		if m.mem[t] == nil {
			m.mem[t] = map[string]int{}
		}
		m.mem[t][id] = op.Level
		m.buckets[t] = true
		if m.disk[t] == nil {
			m.disk[t] = map[string]int{}
		}
		if op.Level == 0 {
			delete(m.disk[t], id)
		} else {
			m.disk[t][id] = op.Level
		}
		return true
	case "close":
		delete(m.mem, t)
		m.closed[t] = true
		return false
	case "restore":
		m.mem[t] = map[string]int{}
		for id, l := range m.disk[t] {
			m.mem[t][id] = l
		}
		delete(m.closed, t)
		return false
	case "delete":
		delete(m.mem, t)
		delete(m.closed, t)
		delete(m.disk, t)
		delete(m.buckets, t)
		return true
	}
	return false
}

type topicsRun struct {
	commits  int
	commitOp []int // commitOp[k-1] = index of the op that made the k-th commit
	mem      record
}

func snapName(dir string, k int) string { return filepath.Join(dir, fmt.Sprintf("snap%03d.db", k)) }

func readMem(env *kit.Env) record {
	out := record{}
	for _, t := range topicPool {
		states, err := env.Alert.EventStates(t, alert.OK)
		if err != nil {
			continue // unknown topic
		}
		out[t] = map[string]int{}
		for id, st := range states {
			out[t][id] = int(st.Level)
		}
	}
	return out
}

// runTopics opens a service on the Bolt file in dir, optionally compares what it restored with
// want, applies ops[from:] and returns the final in-memory state.
// model, positioned at ops[from], is advanced along with the run: what a topic shows right after
// it was restored for reuse is compared with it.
func runTopics(c TopicsCase, dir string, from int, snapshots bool, want record, model *topicsModel, where string, cc *kit.Case) (*topicsRun, bool) {
	const sig = "topics/"
	res := &topicsRun{}
	var mu sync.Mutex
	active := false
	var db *bolt.DB
	cur := -1
	regd := map[string]*recHandler{} // handlers a task registered on its topic (see TOp.Reg)
	env, err := kit.NewEnv(kit.EnvOpts{Alerts: true, PersistTopics: true, Dir: dir, TMName: "main",
		StoreWrap: func(ns string, s storage.Interface) storage.Interface {
			if ns != topicNS || !snapshots {
				return s
			}
			return snapStore{Interface: s, db: &db, dir: dir, mu: &mu, count: &res.commits, active: &active}
		}})
	if err != nil {
		cc.Fail("harness/env", "env: %v", err)
		return nil, false
	}
	defer env.Close()
	db = env.Store.DB
	if want != nil {
		got := readMem(env)
		if !sameRecord(got, want) {
			cc.Fail(sig+"restored-differs-from-record", "a new service on the storage shows %s; the storage holds %s\n%s", got, want, where)
			return nil, false
		}
	}
	active = true
	for i := from; i < len(c.Ops); i++ {
		op := c.Ops[i]
		cur = i
		before := res.commits
		t := topicPool[op.Topic]
		var err error
		switch op.K {
		case "collect":
			err = env.Alert.Collect(alert.Event{Topic: t, State: alert.EventState{ID: idPool[op.ID], Level: alert.Level(op.Level),
				Message: fmt.Sprintf("op %d", i), Time: time.Unix(0, t0+int64(i)*sec).UTC()}})
		case "close":
			err = env.Alert.CloseTopic(t)
			if h := regd[t]; h != nil {
				env.Alert.DeregisterAnonHandler(t, h)
				delete(regd, t)
			}
		case "restore":
			if op.Reg {
				// the order of AlertNode.runAlert: handlers first, then the restore
				h := &recHandler{}
				regd[t] = h
				env.Alert.RegisterAnonHandler(t, h)
			}
			err = env.Alert.RestoreTopic(t)
		case "delete":
			err = env.Alert.DeleteTopic(t)
		}
		if err != nil {
			cc.Fail(sig+"op-error", "op %d %+v failed: %v\n%s", i, op, err, where)
			return nil, false
		}
		for k := before; k < res.commits; k++ {
			res.commitOp = append(res.commitOp, cur)
		}
		model.apply(op)
		if op.K == "restore" {
			// the task that reuses the topic reads its IDs' states from it before it publishes
			// anything (AlertNode.restoreEvent): the restored topic must show the record now
			shown := record{t: {}}
			states, err := env.Alert.EventStates(t, alert.OK)
			if err != nil {
				cc.Fail(sig+"reused-topic-differs-from-record", "op %d %+v: the topic cannot be read right after it was restored: %v\n%s", i, op, err, where)
				return nil, false
			}
			for id, st := range states {
				shown[t][id] = int(st.Level)
			}
			if wantT := (record{t: model.mem[t]}); !sameRecord(shown, wantT) {
				cc.Fail(sig+"reused-topic-differs-from-record", "op %d %+v: right after the topic was restored it shows %s; the last non-OK levels recorded are %s\n%s", i, op, shown, wantT, where)
				return nil, false
			}
		}
	}
	active = false
	res.mem = readMem(env)
	return res, true
}

func storeRecord(path string) (record, map[string]bool, error) {
	st, err := readStore(path)
	if err != nil {
		return nil, nil, err
	}
	r, b := record{}, map[string]bool{}
	for t, m := range st {
		b[t] = true
		r[t] = map[string]int{}
		for id, x := range m {
			r[t][id] = x.Level
		}
	}
	return r, b, nil
}

func runTopicsCase(c TopicsCase, cc *kit.Case) {
	dir, err := os.MkdirTemp("", "c08t")
	if err != nil {
		cc.Fail("harness/tmp", "%v", err)
		return
	}
	defer os.RemoveAll(dir)
	hist := func() string {
		var s []string
		for i, op := range c.Ops {
			if op.K == "collect" {
				s = append(s, fmt.Sprintf("%d:collect(%s,%s,%s)", i, topicPool[op.Topic], idPool[op.ID], lvlName[op.Level]))
			} else {
				k := op.K
				if op.Reg {
					k = "register-handler+" + k
				}
				s = append(s, fmt.Sprintf("%d:%s(%s)", i, k, topicPool[op.Topic]))
			}
		}
		return strings.Join(s, " ")
	}
	for _, op := range c.Ops {
		cc.Label("op:" + op.K)
		if op.Reg {
			cc.Label("op:restore-after-registering-a-handler")
		}
	}

	// ---- the model of the uninterrupted run: the record after every committing op
	m := newTopicsModel()
	type boundary struct {
		op      int
		disk    record
		buckets map[string]bool
	}
	bounds := []boundary{{op: -1, disk: record{}, buckets: map[string]bool{}}}
	for i, op := range c.Ops {
		if m.apply(op) {
			b := map[string]bool{}
			for t := range m.buckets {
				b[t] = true
			}
			bounds = append(bounds, boundary{op: i, disk: m.disk.clone(), buckets: b})
		}
	}
	final := m

	// ---- run 1: uninterrupted, with a copy of the file after every commit
	r1, ok := runTopics(c, dir, 0, true, nil, newTopicsModel(), "uninterrupted run\nhistory: "+hist(), cc)
	if !ok {
		return
	}
	if r1.commits != len(bounds)-1 {
		cc.Fail("topics/commit-count", "%d committing operations, the topic store committed %d updates\n%s", len(bounds)-1, r1.commits, hist())
		return
	}
	for k := 1; k <= r1.commits; k++ {
		if r1.commitOp[k-1] != bounds[k].op {
			cc.Fail("topics/commit-attribution", "commit %d was made by op %d, the model says op %d\n%s", k, r1.commitOp[k-1], bounds[k].op, hist())
			return
		}
	}
	if !sameRecord(r1.mem, final.mem) {
		cc.Fail("topics/uninterrupted/final-state", "uninterrupted run ends with %s, the model with %s\n%s", r1.mem, final.mem, hist())
		return
	}
	for t := range final.mem {
		if _, open := r1.mem[t]; !open {
			cc.Fail("topics/uninterrupted/open-topics", "topic %s is not open at the end of the uninterrupted run; the model says it is\n%s", t, hist())
			return
		}
	}

	// ---- crash points
	nontrivial := false
	for k := 0; k <= r1.commits; k++ {
		if cc.Failed() {
			return
		}
		crashDir := filepath.Join(dir, fmt.Sprintf("crash%03d", k))
		os.MkdirAll(crashDir, 0o755)
		rec, buckets := record{}, map[string]bool{}
		if k > 0 {
			data, err := os.ReadFile(snapName(dir, k))
			if err != nil {
				cc.Fail("harness/snapshot", "snapshot %d: %v", k, err)
				return
			}
			os.WriteFile(filepath.Join(crashDir, "kapacitor.db"), data, 0o600)
			rec, buckets, err = storeRecord(filepath.Join(crashDir, "kapacitor.db"))
			if err != nil {
				cc.Fail("harness/snapshot", "reading snapshot %d: %v", k, err)
				return
			}
		}
		where := fmt.Sprintf("crash after commit %d of %d (made by op %d)\nhistory: %s", k, r1.commits, bounds[k].op, hist())
		// the storage holds the last non-OK level recorded for every ID
		if !sameRecord(rec, bounds[k].disk) {
			cc.Fail("topics/record-differs-from-model", "the storage holds %s, the last non-OK levels recorded are %s\n%s", rec, bounds[k].disk, where)
			return
		}
		// classification
		names := kit.SortedKeys(buckets)
		sort.Strings(names)
		for i, t := range names {
			if len(rec[t]) == 0 {
				for _, u := range names[i+1:] {
					if len(rec[u]) > 0 {
						nontrivial = true
					}
				}
			}
		}
		// restart: the service shows the record; then the rest of the history
		resume := bounds[k].op + 1
		r2, ok := runTopics(c, crashDir, resume, false, rec, fromDisk(rec, buckets), where, cc)
		if !ok {
			return
		}
		// expected end: the model restarted from the record
		m2 := fromDisk(rec, buckets)
		for _, op := range c.Ops[resume:] {
			m2.apply(op)
		}
		if !sameRecord(r2.mem, m2.mem) {
			cc.Fail("topics/final-state-differs-from-model", "after restart + rest of the history the topics show %s, the model (restarted from the record) says %s\n%s", r2.mem, m2.mem, where)
			return
		}
		// same final state as the uninterrupted run, for every topic that is open at its end
		for t, ids := range final.mem {
			got := r2.mem[t]
			for id, l := range ids {
				if got[id] != l {
					cc.Fail("topics/final-state", "topic %s id %s ends at %s after crash+restart, at %s in the uninterrupted run\n%s", t, id, lvlName[got[id]], lvlName[l], where)
					return
				}
			}
			for id, l := range got {
				if l != 0 && ids[id] != l {
					cc.Fail("topics/final-state", "topic %s id %s ends at %s after crash+restart, at %s in the uninterrupted run\n%s", t, id, lvlName[l], lvlName[ids[id]], where)
					return
				}
			}
		}
		// and the same final record
		frec, _, err := storeRecord(filepath.Join(crashDir, "kapacitor.db"))
		if err != nil {
			cc.Fail("harness/snapshot", "reading the final file of crash point %d: %v", k, err)
			return
		}
		if !sameRecord(frec, final.disk) {
			cc.Fail("topics/final-record", "the storage ends with %s after crash+restart, with %s in the uninterrupted run\n%s", frec, final.disk, where)
			return
		}
		os.RemoveAll(crashDir)
	}
	if nontrivial {
		cc.NonTrivial()
	}
	cc.Label(fmt.Sprintf("crash-points:%d", bucket(r1.commits+1)))
}

var assumptionsTopics = []string{
	"crash points are the commit boundaries of the topic store; Collect commits once per event (a put for a non-OK level, a delete for OK), DeleteTopic once, CloseTopic and RestoreTopic not at all",
	"RestoreTopic is called only on a closed topic before it is published to again, as AlertNode.runAlert does; a closed topic is open again after a restart (the service loads every bucket)",
	"a task with handlers of its own registers them on the topic (RegisterAnonHandler) right before it restores it and deregisters them right after it has closed it (the order of AlertNode.runAlert); registering a handler is no event: the restored topic shows the record all the same",
	"an ID whose last event was OK may be listed at level OK or not at all",
	"what a topic shows (EventStates) right after RestoreTopic is compared with the record as well: the alert node that reuses the topic reads the states of its IDs from it before it publishes anything (AlertNode.restoreEvent), so 'resumes at the last non-OK level recorded' is decided there",
	"event times increase with the position in the history; messages, details and durations are not compared",
}

func TestTopics(t *testing.T) {
	r := kit.NewRec("C08", "Topics", ruleTopics, assumptionsTopics...)
	kit.Check(t, r, genTopics, runTopicsCase)
}

func TestReplayTopics(t *testing.T) {
	r := kit.NewRec("C08", "Topics", ruleTopics, assumptionsTopics...)
	kit.Replay(t, r, runTopicsCase)
}
