// C08 — alert state survives restart: no lost or phantom level after recovery.
//
// Generator: alert configurations (levels with resets, stateChangesOnly, noRecoveries; a named
// topic, optionally also a handler of the node itself = anonymous topic, or only such a handler =
// anonymous topic alone; the default alert ID or an .id() template over the measurement, the task
// name, the group and tags of the points that are or are not group-by dimensions) x histories of
// 5-30 points over 1-3 alert IDs. Fault enumeration: the harness-owned storage takes a snapshot of the
// Bolt file after every committed update of the topic store; for every snapshot (crash point) a
// fresh service + TaskMaster + task is opened on it and fed the remaining points.
// Oracle: restored state == what the snapshot holds; the events of the second run equal the
// reference alert state machine started from the restored level; the final topic state equals the
// one of the uninterrupted run; handlers are told of every level an ID ends up in.
package c08

import (
	"bytes"
	"encoding/json"
	"fmt"
	"os"
	"path/filepath"
	"sort"
	"strings"
	"sync"
	"testing"
	"time"

	"verifharness/kit"

	"github.com/influxdata/kapacitor"
	"github.com/influxdata/kapacitor/alert"
	"github.com/influxdata/kapacitor/services/storage"
	bolt "go.etcd.io/bbolt"
	"pgregory.net/rapid"
)

type P struct {
	G   int   `json:"g"`
	Gap int64 `json:"gap"` // seconds, >= 1
	V   int64 `json:"v"`
}

type Case struct {
	Levels   [4]int64 `json:"levels"` // threshold per level 1..3 ("v" > t); -1 = level absent
	Resets   [4]int64 `json:"resets"` // reset per level ("v" < t); -1 = none
	SCO      bool     `json:"sco"`
	NoRec    bool     `json:"norec"`
	Anon     bool     `json:"anon"` // the alert also has a handler of its own (anonymous topic)
	// NoTopic: the alert has no .topic(): its handler of its own (Anon is set) and the anonymous
	// topic are all there is; events are then observed through that handler (the log file)
	NoTopic bool `json:"notopic,omitempty"`
	// IDForm selects the alert ID: 0 = default ({{ .Name }}:{{ .Group }}), else idTemplates[IDForm]
	IDForm int `json:"idform,omitempty"`
	Groups   int      `json:"groups"`
	Pts      []P      `json:"pts"`
	ResumeAt []int    `json:"resumeat"` // per crash point: which of the admissible resume positions (mod range)
	// Between also enumerates the crash points between the anonymous-topic commit and the named-topic
	// commit of one event (known finding restart/between-anon-and-named-commit: excluded by default)
	Between bool `json:"between,omitempty"`
	// BetweenKind enumerates the in-between crash points of one known kind only (witnesses)
	BetweenKind string `json:"between_kind,omitempty"`
}

const rule = "rapid: alert config (info/warn/crit thresholds + resets, stateChangesOnly, noRecoveries; named topic, named + anonymous topic, or anonymous topic alone; default ID or an .id() template over .Name/.TaskName/.Group/.Tags incl. tags that are not group-by dimensions) x 5-30 points over 1-3 IDs; every storage commit boundary of the topic store is a crash point (snapshot of the Bolt file), followed by restart and continuation from a generated admissible resume position; " +
	"oracle: restored state == snapshot, run-2 events == reference state machine from the restored level, final topic state == uninterrupted run, no silent miss; non-trivial = some crash point lies between a non-OK persist and a later level change of the same ID; distinct by case hash"

const sec = int64(1e9)
const t0 = int64(1_500_000_000) * sec

var lvlName = [4]string{"OK", "INFO", "WARNING", "CRITICAL"}
var lvlProp = [4]string{"", "info", "warn", "crit"}

func gen(t *rapid.T) Case {
	c := genCfg(t)
	for i := 0; i < 64; i++ {
		c.ResumeAt = append(c.ResumeAt, rapid.IntRange(0, 7).Draw(t, "resume"))
	}
	return c
}

// genCfg draws the alert configuration and the history (shared with unit TaskRestart).
func genCfg(t *rapid.T) Case {
	var c Case
	mask := rapid.IntRange(1, 7).Draw(t, "mask")
	for l := 1; l <= 3; l++ {
		c.Levels[l], c.Resets[l] = -1, -1
		if mask&(1<<(l-1)) != 0 {
			c.Levels[l] = int64(l * 3)
			if rapid.Bool().Draw(t, "reset") {
				c.Resets[l] = int64(l*3) - int64(rapid.IntRange(0, 3).Draw(t, "hyst"))
			}
		}
	}
	c.SCO = rapid.IntRange(0, 3).Draw(t, "sco") != 0
	c.NoRec = rapid.IntRange(0, 4).Draw(t, "norec") == 0
	switch rapid.IntRange(0, 5).Draw(t, "topics") {
	case 0, 1:
	case 2, 3, 4:
		c.Anon = true
	case 5:
		c.Anon, c.NoTopic = true, true
	}
	// forms 2-4 use a tag that is not a group-by dimension
	c.IDForm = rapid.SampledFrom([]int{0, 0, 0, 1, 2, 2, 3, 3, 4}).Draw(t, "idform")
	c.Groups = rapid.IntRange(1, 3).Draw(t, "groups")
	n := rapid.IntRange(5, 30).Draw(t, "n")
	for i := 0; i < n; i++ {
		c.Pts = append(c.Pts, P{G: rapid.IntRange(0, c.Groups-1).Draw(t, "g"), Gap: int64(rapid.IntRange(1, 3).Draw(t, "gap")), V: int64(rapid.IntRange(0, 12).Draw(t, "v"))})
	}
	return c
}

func (c Case) script(logPath string) string {
	var s strings.Builder
	s.WriteString("stream|from().measurement('m').groupBy('host')|alert()")
	if !c.NoTopic {
		s.WriteString(".topic('T')")
	}
	if c.IDForm != 0 {
		fmt.Fprintf(&s, ".id('%s')", idTemplates[c.IDForm])
	}
	for l := 1; l <= 3; l++ {
		if c.Levels[l] >= 0 {
			fmt.Fprintf(&s, ".%s(lambda: \"v\" > %d)", lvlProp[l], c.Levels[l])
		}
		if c.Resets[l] >= 0 {
			fmt.Fprintf(&s, ".%sReset(lambda: \"v\" < %d)", lvlProp[l], c.Resets[l])
		}
	}
	if c.SCO {
		s.WriteString(".stateChangesOnly()")
	}
	if c.NoRec {
		s.WriteString(".noRecoveries()")
	}
	if c.Anon {
		fmt.Fprintf(&s, ".log('%s')", logPath)
	}
	return s.String()
}

func (c Case) points() []kit.Pt {
	t := t0
	var pts []kit.Pt
	for i, p := range c.Pts {
		t += p.Gap * sec
		// "dc" and "rack" are not group-by dimensions; every point of a host carries the same values
		// (two hosts may share a dc, a rack belongs to one host)
		pts = append(pts, kit.Pt{Name: "m", DB: "db", RP: "rp", Tags: map[string]string{"host": fmt.Sprintf("h%d", p.G), "dc": fmt.Sprintf("d%d", p.G%2), "rack": fmt.Sprintf("r%d", p.G)},
			Fields: map[string]kit.FV{"v": kit.I(p.V), "n": kit.I(int64(i))}, Time: t})
	}
	return pts
}

// idTemplates are the .id() templates of the generator (index = Case.IDForm; 0 = no .id()).
// Documented template data (pipeline/alert.go, ID): Name = measurement, TaskName, Group =
// group-by tags as key=value, Tags = map of tags. In every form the ID is a one-to-one function
// of the group (every point of a host carries the same dc and rack).
var idTemplates = []string{
	"",
	`{{ index .Tags "host" }}`,
	`{{ index .Tags "dc" }}/{{ index .Tags "host" }}`,
	`{{ .Name }}-{{ index .Tags "rack" }}`,
	`{{ .TaskName }}|{{ .Group }}|{{ index .Tags "dc" }}`,
}

const taskName = "task"

// idOf is the alert ID of the events of point p.
func (c Case) idOf(p kit.Pt) string {
	switch c.IDForm {
	case 1:
		return p.Tags["host"]
	case 2:
		return p.Tags["dc"] + "/" + p.Tags["host"]
	case 3:
		return p.Name + "-" + p.Tags["rack"]
	case 4:
		return taskName + "|host=" + p.Tags["host"] + "|" + p.Tags["dc"]
	}
	return p.Name + ":host=" + p.Tags["host"]
}

// ---------------------------------------------------------------- reference state machine

type idState struct {
	cur      int
	prevEmit int // level the named topic last saw for this ID
}

func (c Case) level(v int64, cur int) int {
	h := 0
	for l := 3; l >= 1; l-- {
		if c.Levels[l] >= 0 && v > c.Levels[l] {
			h = l
			break
		}
	}
	if h >= cur {
		return h
	}
	if c.Resets[cur] >= 0 && !(v < c.Resets[cur]) {
		return cur
	}
	return h
}

type event struct {
	ID    string
	Level int
	Time  int64
	Prev  int
	Pt    int // index of the point that produced it
}

// model feeds points[from:] to the state machine starting from init and returns the events.
func (c Case) model(pts []kit.Pt, from int, states map[string]*idState) []event {
	var evs []event
	for i := from; i < len(pts); i++ {
		p := pts[i]
		id := c.idOf(p)
		st := states[id]
		if st == nil {
			st = &idState{}
			states[id] = st
		}
		l := c.level(p.Fields["v"].Go().(int64), st.cur)
		changed := l != st.cur
		st.cur = l
		if c.SCO && !changed {
			continue
		}
		if l == 0 && !changed {
			continue
		}
		if c.NoRec && l == 0 {
			continue
		}
		evs = append(evs, event{ID: id, Level: l, Time: p.Time, Prev: st.prevEmit, Pt: i})
		st.prevEmit = l
	}
	return evs
}

// ---------------------------------------------------------------- observation

type recHandler struct {
	mu  sync.Mutex
	evs []event
}

func (h *recHandler) Handle(e alert.Event) {
	h.mu.Lock()
	h.evs = append(h.evs, event{ID: e.State.ID, Level: int(e.State.Level), Time: e.State.Time.UnixNano(), Prev: int(e.PreviousState().Level)})
	h.mu.Unlock()
}
func (h *recHandler) get() []event {
	h.mu.Lock()
	defer h.mu.Unlock()
	return append([]event(nil), h.evs...)
}

const topicNS = "topic_states_store"

// snapStore wraps the topic store: after every committed update a consistent copy of the Bolt
// file is taken (Bolt commits are atomic; the copy is the storage "as it stood at that moment").
type snapStore struct {
	storage.Interface
	db     **bolt.DB
	dir    string
	mu     *sync.Mutex
	count  *int
	active *bool
	// onCommit is called after the k-th commit, before the snapshot is taken
	onCommit func(k int)
}

func (s snapStore) Update(f func(storage.Tx) error) error {
	err := s.Interface.Update(f)
	if err == nil && *s.active {
		s.mu.Lock()
		*s.count++
		k := *s.count
		s.mu.Unlock()
		if s.onCommit != nil {
			s.onCommit(k)
		}
		(*s.db).View(func(tx *bolt.Tx) error {
			return tx.CopyFile(filepath.Join(s.dir, fmt.Sprintf("snap%03d.db", k)), 0o600)
		})
	}
	return err
}
func (s snapStore) Store(b ...[]byte) storage.Interface {
	c := s
	c.Interface = s.Interface.Store(b...)
	return c
}

// stored reads the persisted event states of a snapshot file: topic -> id -> (level, time).
type storedState struct {
	Level int
	Time  int64
}

func readStore(path string) (map[string]map[string]storedState, error) {
	db, err := bolt.Open(path, 0o600, &bolt.Options{ReadOnly: true, Timeout: time.Second})
	if err != nil {
		return nil, err
	}
	defer db.Close()
	return readStoreDB(db)
}

// readStoreDB reads the persisted event states from an open Bolt file.
func readStoreDB(db *bolt.DB) (map[string]map[string]storedState, error) {
	out := map[string]map[string]storedState{}
	err := db.View(func(tx *bolt.Tx) error {
		root := tx.Bucket([]byte(topicNS))
		if root == nil {
			return nil
		}
		return root.ForEach(func(k, v []byte) error {
			if v != nil {
				return nil
			}
			b := root.Bucket(k)
			m := map[string]storedState{}
			out[string(k)] = m
			return b.ForEach(func(id, data []byte) error {
				var es struct {
					Time  time.Time   `json:"time"`
					Level alert.Level `json:"level"`
				}
				if err := json.Unmarshal(data, &es); err != nil {
					return err
				}
				m[string(id)] = storedState{Level: int(es.Level), Time: es.Time.UnixNano()}
				return nil
			})
		})
	})
	return out, err
}

type runResult struct {
	handler   []event
	final     map[string]int // named topic: id -> level at the end
	finalAnon map[string]int // anonymous topic, likewise
	restored  map[string]map[string]storedState
	commits   int
	anonTopic string
	// collected[k-1]: how many events the named / the anonymous topic had accepted for its
	// handlers when the k-th commit was made
	collected [][2]int64
}

// runOnce opens service + TaskMaster + task on the Bolt file in dir, optionally checks the state
// restored from it, feeds pts[from:] and returns what the named topic's handler saw.
func runOnce(c Case, dir string, pts []kit.Pt, from int, snapshots bool, cc *kit.Case) (*runResult, bool) {
	res := &runResult{final: map[string]int{}, finalAnon: map[string]int{}}
	h := &recHandler{}
	var mu sync.Mutex
	active := false
	var db *bolt.DB
	var envp *kit.Env
	env, err := kit.NewEnv(kit.EnvOpts{Alerts: true, PersistTopics: true, Dir: dir, TMName: "main",
		StoreWrap: func(ns string, s storage.Interface) storage.Interface {
			if ns != topicNS || !snapshots {
				return s
			}
			return snapStore{Interface: s, db: &db, dir: dir, mu: &mu, count: &res.commits, active: &active, onCommit: func(k int) {
				var c [2]int64
				if st, ok, _ := envp.Alert.TopicState("T"); ok {
					c[0] = st.Collected
				}
				if st, ok, _ := envp.Alert.TopicState("main:task:alert2"); ok {
					c[1] = st.Collected
				}
				res.collected = append(res.collected, c)
			}}
		},
		Prepare: func(e *kit.Env) {
			envp = e
			if !c.NoTopic {
				e.Alert.RegisterAnonHandler("T", h)
			}
		}})
	if err != nil {
		cc.Fail("harness/env", "env: %v", err)
		return nil, false
	}
	defer env.Close()
	db = env.Store.DB
	// what the services restored from the file, before any point is fed
	res.restored = map[string]map[string]storedState{}
	et, err := env.StartTask(taskName, c.script(filepath.Join(dir, "alert.log")), kapacitor.StreamTask, nil)
	if err != nil {
		cc.Fail("harness/script-rejected", "script rejected: %v\n%s", err, c.script("x"))
		return nil, false
	}
	res.anonTopic = "main:task:alert2"
	active = true
	for i := from; i < len(pts); i++ {
		if err := env.TM.WriteKapacitorPoint(pts[i].Msg()); err != nil {
			cc.Fail("harness/write", "write: %v", err)
			return nil, false
		}
	}
	env.TM.Drain()
	et.StopStats()
	if err := et.Wait(); err != nil {
		cc.Fail("task-error", "task ended with error: %v", err)
		return nil, false
	}
	active = false
	if states, err := env.Alert.EventStates("T", alert.OK); err == nil {
		for id, st := range states {
			res.final[id] = int(st.Level)
		}
	}
	env.Close()
	if c.Anon {
		// the anonymous topic is closed with the task: its final state is read from the store file
		if st, err := readStore(filepath.Join(dir, "kapacitor.db")); err == nil {
			for id, x := range st[res.anonTopic] {
				res.finalAnon[id] = x.Level
			}
		}
	}
	res.handler = h.get()
	if c.NoTopic {
		// no named topic: the events are those the alert's own handler wrote (all of them are
		// written when the task has ended: closing the anonymous topic closes its handlers)
		evs, err := readLog(filepath.Join(dir, "alert.log"))
		if err != nil {
			cc.Fail("harness/log", "reading the alert log: %v", err)
			return nil, false
		}
		res.handler = evs
	}
	return res, true
}

func (c Case) observer() string {
	if c.NoTopic {
		return "the alert's own handler (.log(), anonymous topic)"
	}
	return "the handler of topic T"
}

// readLog returns the events a .log() handler wrote to path (one JSON alert.Data per line).
func readLog(path string) ([]event, error) {
	data, err := os.ReadFile(path)
	if os.IsNotExist(err) {
		return nil, nil
	}
	if err != nil {
		return nil, err
	}
	var evs []event
	dec := json.NewDecoder(bytes.NewReader(data))
	for dec.More() {
		var ad struct {
			ID            string      `json:"id"`
			Time          time.Time   `json:"time"`
			Level         alert.Level `json:"level"`
			PreviousLevel alert.Level `json:"previousLevel"`
		}
		if err := dec.Decode(&ad); err != nil {
			return nil, err
		}
		evs = append(evs, event{ID: ad.ID, Level: int(ad.Level), Time: ad.Time.UnixNano(), Prev: int(ad.PreviousLevel)})
	}
	return evs, nil
}

func fmtEvents(evs []event) string {
	var s []string
	for _, e := range evs {
		s = append(s, fmt.Sprintf("{%s %s t=%d prev=%s}", e.ID, lvlName[e.Level], (e.Time-t0)/sec, lvlName[e.Prev]))
	}
	return strings.Join(s, " ")
}

func sameEvents(a, b []event, withPrev bool) bool {
	if len(a) != len(b) {
		return false
	}
	for i := range a {
		if a[i].ID != b[i].ID || a[i].Level != b[i].Level || a[i].Time != b[i].Time || (withPrev && a[i].Prev != b[i].Prev) {
			return false
		}
	}
	return true
}

var rec *kit.Rec

func run(c Case, cc *kit.Case) {
	pts := c.points()
	script := c.script("alert.log")
	dir, err := os.MkdirTemp("", "c08")
	if err != nil {
		cc.Fail("harness/tmp", "%v", err)
		return
	}
	defer os.RemoveAll(dir)
	switch {
	case c.NoTopic && !c.Anon:
		cc.Fail("harness/case", "a case without a named topic needs the anonymous one")
		return
	case c.NoTopic:
		cc.Label("anon-topic-only")
	case c.Anon:
		cc.Label("anon+named-topic")
	default:
		cc.Label("named-topic-only")
	}
	cc.Label(fmt.Sprintf("id-form:%d", c.IDForm))
	if c.SCO {
		cc.Label("stateChangesOnly")
	}
	if c.NoRec {
		cc.Label("noRecoveries")
	}

	// ---- run 1: uninterrupted, with a snapshot after every commit
	full := c.model(pts, 0, map[string]*idState{})
	r1, ok := runOnce(c, dir, pts, 0, true, cc)
	if !ok {
		return
	}
	if !sameEvents(r1.handler, full, true) {
		cc.Fail("alert/uninterrupted-run", "the uninterrupted run already disagrees with the reference (C01's subject)\nscript: %s\nobserved: %s\nexpected: %s", script, fmtEvents(r1.handler), fmtEvents(full))
		return
	}
	perEvent := 1
	if c.Anon && !c.NoTopic {
		perEvent = 2
	}
	if r1.commits != len(full)*perEvent {
		cc.Fail("persist/commit-count", "%d events were collected on %d topic(s), the topic store committed %d updates (one per event and topic is expected)\nscript: %s", len(full), perEvent, r1.commits, script)
		return
	}
	// tell, then commit: when an event's state is committed for a topic, the topic has already
	// accepted the event for its handlers - a crash right after the commit then costs a repeat at
	// worst; the other order leaves a level on record that no handler was ever told
	for k := 1; k <= r1.commits && k <= len(r1.collected); k++ {
		e := (k - 1) / perEvent
		which, name := 0, "T"
		if c.NoTopic || c.Anon && k%2 == 1 {
			which, name = 1, "the anonymous topic"
		}
		if r1.collected[k-1][which] < int64(e+1) {
			cc.Fail("persist/committed-before-handlers-told", "commit %d records event %d (%s) for %s, but the topic had accepted only %d events for its handlers at that moment: a crash right after this commit is a silent miss\nscript: %s\nevents: %s", k, e, fmtEvents(full[e:e+1]), name, r1.collected[k-1][which], script, fmtEvents(full))
			return
		}
	}
	// the final state of the uninterrupted run, from the model
	finalModel := map[string]*idState{}
	c.model(pts, 0, finalModel)

	// ---- crash points: snapshot k = storage after the k-th commit (k = 0: before the first)
	nontrivial := false
	excludedBetween := 0
	for k := 0; k <= r1.commits; k++ {
		if cc.Failed() {
			return
		}
		// the event whose commit is the k-th one, and the next one
		lastPt := -1 // point that caused commit k
		if k > 0 {
			lastPt = full[(k-1)/perEvent].Pt
		}
		nextPt := len(pts) // point that causes commit k+1
		if k < r1.commits {
			nextPt = full[k/perEvent].Pt
		}
		// admissible resume positions: the points up to lastPt were consumed; those from nextPt on
		// were certainly not processed; points in between produced no commit either way
		lo, hi := lastPt+1, nextPt
		if hi < lo {
			hi = lo // crash between the two commits of one event: that point is gone
		}
		resume := lo
		if hi > lo {
			resume = lo + c.ResumeAt[k%len(c.ResumeAt)]%(hi-lo+1)
		}
		// storage as it stood
		crashDir := filepath.Join(dir, fmt.Sprintf("crash%03d", k))
		os.MkdirAll(crashDir, 0o755)
		if k > 0 {
			data, err := os.ReadFile(filepath.Join(dir, fmt.Sprintf("snap%03d.db", k)))
			if err != nil {
				cc.Fail("harness/snapshot", "snapshot %d: %v", k, err)
				return
			}
			os.WriteFile(filepath.Join(crashDir, "kapacitor.db"), data, 0o600)
		}
		stored := map[string]map[string]storedState{}
		if k > 0 {
			stored, err = readStore(filepath.Join(crashDir, "kapacitor.db"))
			if err != nil {
				cc.Fail("harness/snapshot", "reading snapshot %d: %v", k, err)
				return
			}
		}
		named, anon := stored["T"], stored[r1.anonTopic]
		if c.NoTopic {
			// the anonymous topic is the only one: its record is "the" record
			named = anon
		}
		// ---- the level each ID resumes at, per the property: the last recorded non-OK level
		// (anonymous topic wins over the named one when both hold a state, as restoreEvent documents)
		ids := map[string]bool{}
		for id := range named {
			ids[id] = true
		}
		for id := range anon {
			ids[id] = true
		}
		between := c.Anon && !c.NoTopic && k%2 == 1
		sigPrefix := "restart/"
		if between {
			// the event whose anonymous-topic commit is on file and whose named-topic commit is not
			ev := full[(k-1)/perEvent]
			kind := "change" // both topics hold a non-OK level, and they differ
			switch {
			case ev.Level == 0:
				kind = "recovery" // the anonymous topic dropped the ID, the named one still holds it
			case ev.Prev == 0:
				kind = "first" // only the anonymous topic holds the ID
			case ev.Prev == ev.Level:
				kind = "same" // both hold the same level (a repeated event)
			}
			if kind == "change" {
				// the two topics are reconciled when the ID's next point arrives
				later := false
				for _, p := range pts[resume:] {
					if c.idOf(p) == ev.ID {
						later = true
					}
				}
				if !later {
					kind = "change-last"
				}
			}
			if kind == "recovery" {
				// the named topic still holds the ID's old non-OK level. Resuming there is admissible
				// when it ends where the uninterrupted run ends (the recovery is repeated); it is not
				// when the ID gets no further point or stays inside a reset band (known finding)
				stale := &idState{cur: ev.Prev, prevEmit: ev.Prev}
				c.model(pts, resume, map[string]*idState{ev.ID: stale})
				if stale.cur != finalModel[ev.ID].cur {
					kind = "recovery-stale"
				}
			}
			if (kind == "first" || kind == "change-last" || kind == "recovery-stale") && !c.Between && c.BetweenKind != kind {
				// known finding restart/between-anon-and-named-commit/{first,change-last,recovery-stale}
				excludedBetween++
				os.RemoveAll(crashDir)
				continue
			}
			sigPrefix = "restart/between-anon-and-named-commit/" + kind + "/"
			cc.Label("crash-between-anon-and-named-commit:" + kind)
		}
		// candidate resume states: at a crash point between the two commits of one event both the
		// anonymous topic's view (event recorded) and the named topic's view (event not yet
		// recorded) are "the last level that was recorded"; elsewhere the two agree
		mkInit := func(anonView bool) map[string]*idState {
			init := map[string]*idState{}
			for id := range ids {
				st := &idState{}
				n, nok := named[id]
				a, aok := anon[id]
				if c.Anon && anonView {
					// the anonymous topic is written first: it holds the last recorded event
					if aok {
						st.cur = a.Level
					}
				} else if nok {
					st.cur = n.Level
				}
				if nok {
					st.prevEmit = n.Level
				}
				init[id] = st
			}
			return init
		}
		inits := []map[string]*idState{mkInit(true)}
		if between {
			inits = append(inits, mkInit(false))
		}
		// what the handlers had been told when the storage stood like this
		told := map[string]int{}
		for _, e := range full[:(k+perEvent-1)/perEvent] {
			told[e.ID] = e.Level
		}
		r2, ok := runOnce(c, crashDir, pts, resume, false, cc)
		if !ok {
			return
		}
		where := fmt.Sprintf("crash after commit %d of %d (stored: T=%v anon=%v), resumed at point %d\nscript: %s\nuninterrupted events: %s", k, r1.commits, named, anon, resume, script, fmtEvents(full))
		var init map[string]*idState
		var exp2 []event
		for _, cand := range inits {
			e := c.model(pts, resume, cand)
			if init == nil || sameEvents(r2.handler, e, false) {
				init, exp2 = cand, e
				if sameEvents(r2.handler, e, false) {
					break
				}
			}
		}
		if !sameEvents(r2.handler, exp2, false) {
			cc.Fail(sigPrefix+"events-differ", "after the restart %s received %s, the reference (state machine started from the restored levels) says %s\n%s", c.observer(), fmtEvents(r2.handler), fmtEvents(exp2), where)
			return
		}
		// no silent miss: every ID whose final level differs from what handlers were last told got an event with that level
		finalLevels := map[string]int{}
		for id, st := range init {
			finalLevels[id] = st.cur
		}
		toldBefore := map[string]int{} // at a crash between the two commits T's handler may not have been told the last event
		for _, e := range full[:k/perEvent] {
			toldBefore[e.ID] = e.Level
		}
		for id, f := range finalLevels {
			if c.NoRec && f == 0 {
				continue
			}
			if f == told[id] || f == toldBefore[id] {
				continue
			}
			got := false
			for _, e := range r2.handler {
				if e.ID == id && e.Level == f {
					got = true
				}
			}
			if !got {
				cc.Fail(sigPrefix+"silent-miss", "ID %s ends at %s, handlers were last told %s before the crash, and no event with the final level was delivered after the restart\nrun 2 events: %s\n%s", id, lvlName[f], lvlName[told[id]], fmtEvents(r2.handler), where)
				return
			}
		}
		// same final topic state as the uninterrupted run (resume == nextPt or earlier consumes the same data);
		// noRecoveries legitimately keeps a withheld recovery out of the store
		if !c.NoRec {
			for id, st := range finalModel {
				got, has := r2.final[id]
				if !c.NoTopic && (st.cur != 0 && (!has || got != st.cur) || st.cur == 0 && has && got != 0) {
					// points in [lastPt+1, resume) were consumed before the crash without a commit: they did not change any level
					cc.Fail(sigPrefix+"final-state", "final state of topic T after crash+restart: %s=%v(present=%v), uninterrupted run ends at %s\n%s", id, got, has, lvlName[st.cur], where)
					return
				}
				if c.Anon {
					got, has := r2.finalAnon[id]
					if st.cur != 0 && (!has || got != st.cur) || st.cur == 0 && has && got != 0 {
						cc.Fail(sigPrefix+"final-state-anon", "final state of the anonymous topic after crash+restart: %s=%v(present=%v), uninterrupted run ends at %s\n%s", id, got, has, lvlName[st.cur], where)
						return
					}
				}
			}
		}
		// classification: a non-OK state is stored for an ID whose level changes later
		for id, n := range named {
			if n.Level != 0 {
				for _, e := range exp2 {
					if e.ID == id && e.Level != n.Level {
						nontrivial = true
					}
				}
			}
		}
		os.RemoveAll(crashDir)
	}
	if nontrivial {
		cc.NonTrivial()
	}
	for i := 0; i < excludedBetween; i++ {
		rec.Exclude("crash-point-between-anon-and-named-commit")
	}
	cc.Label(fmt.Sprintf("crash-points:%d", bucket(r1.commits+1)))
	_ = sort.Strings
}

func bucket(n int) int {
	switch {
	case n <= 5:
		return 5
	case n <= 20:
		return 20
	}
	return 60
}

var assumptions = []string{
	"crash points are the commit boundaries of the topic store (Bolt commits are atomic; torn writes are out of scope); a crash loses the points that were in flight: processing resumes with a later point",
	"points between the one that caused commit k and the one that causes commit k+1 changed nothing that is recorded: the resume position is generated anywhere in that range",
	"events are observed by a handler on the named topic T; with an anonymous topic as well, every event is committed to the anonymous topic first and to the named topic second: at a crash point between the two the last recorded event is the anonymous topic's",
	"at a crash point between the two commits of one event the ID may resume at either recorded level (the anonymous topic's or the named topic's); a repeated event is allowed, a final state different from the uninterrupted run or a silent miss is not",
	"known finding restart/between-anon-and-named-commit/{first,change-last,recovery-stale}: in-between crash points of an event that raises an ID from OK, is a change between non-OK levels after which the ID gets no further point, or is a recovery after which the ID, resumed at the named topic's stale level, does not end where the uninterrupted run ends (no further point, or points inside a reset band), are excluded by construction (counted) and covered by the replayed witnesses; in-between crash points of the other level changes, of the other recoveries and of repeated events are checked",
	"tell, then commit: at every commit of an event's state the topic must already have accepted that event for its handlers (its collected counter, read inside the commit wrapper) - what 'at worst a repeat, never a silent miss' rests on; whether a handler's own goroutine had run before a crash cannot be observed in-process",
	"durations after a restart are not compared (the property does not state them)",
	"noRecoveries: the withheld OK event is never recorded, so the final stored state is not compared with the uninterrupted run",
	"level lambdas are thresholds over an integer field that every point carries; stream tasks",
	"alert IDs: the default or an .id() template over the documented template data (pipeline/alert.go: Name, TaskName, Group, Tags = map of tags); the ID of an event is rendered from the point that caused it, with all of its tags (alertState.Point; the model's IDs are checked against the uninterrupted run first); the tags a template uses have one value per group, so group and ID correspond one to one - 'every alert ID resumes' is then about exactly the IDs on record, whether or not the template's tags are group-by dimensions",
	"alert without .topic() (anonymous topic alone): the events are read from the file its .log() handler wrote, after the task has ended (closing the anonymous topic closes its handlers, which drains them); the anonymous topic's record is the record; one commit per event",
}

func TestRestart(t *testing.T) {
	r := kit.NewRec("C08", "Restart", rule, assumptions...)
	rec = r
	kit.Check(t, r, gen, run)
}

func TestReplayRestart(t *testing.T) {
	r := kit.NewRec("C08", "Restart", rule, assumptions...)
	rec = r
	kit.Replay(t, r, run)
}
