// C08, unit Migrate — the first start on a storage that is still in the version 1 topic-store
// layout (one object per topic in the alert namespace) converts it to version 2 (one bucket per
// topic) in several transactions. "After a restart from the storage as it stood at any moment,
// every alert ID resumes at the last non-OK level that was recorded for it": that includes the
// moments in the middle of the upgrade - the restart runs the upgrade again on what it finds.
//
// Generator: a version 1 store with 0-5 topics (names that are prefixes of each other, an anonymous
// topic name) holding 0-4 IDs each at any level, optionally more than one page (100) of topics.
// Fault enumeration: a copy of the Bolt file after every committed update of the alert and topic
// namespaces during Service.Open; a new service is opened on every copy.
// Oracle: after every (re)start every topic shows exactly the recorded non-OK levels.
package c08

import (
	"fmt"
	"os"
	"path/filepath"
	"sync"
	"testing"
	"time"

	"verifharness/kit"

	"github.com/influxdata/kapacitor/alert"
	salert "github.com/influxdata/kapacitor/services/alert"
	"github.com/influxdata/kapacitor/services/storage"
	bolt "go.etcd.io/bbolt"
	"pgregory.net/rapid"
)

type MTopic struct {
	Name int   `json:"name"`   // index into topicPool, or >= len(topicPool): a filler topic
	IDs  []int `json:"levels"` // level of idPool[i]; -1 = absent
}

type MigrateCase struct {
	Topics []MTopic `json:"topics"`
	Filler int      `json:"filler"` // additional topics f000.. with one CRITICAL id each (more than one page of the upgrade's listing)
}

const ruleMigrate = "rapid: a version 1 topic store with 0-5 topics (prefix-related names, an anonymous-topic name) x 0-4 IDs at any level, optionally 95-120 filler topics (the upgrade lists 100 at a time); every commit boundary of the alert and topic-state namespaces during the upgrade in Service.Open is a crash point (copy of the Bolt file), followed by a new service on the copy (which runs the upgrade again); " +
	"oracle: after the uninterrupted upgrade and after every restart each topic shows exactly the recorded non-OK levels; non-trivial = >= 2 topics with a non-OK ID and >= 3 crash points; distinct by case hash"

func genMigrate(t *rapid.T) MigrateCase {
	var c MigrateCase
	used := map[int]bool{}
	for i, n := 0, rapid.IntRange(0, 5).Draw(t, "topics"); i < n; i++ {
		name := rapid.IntRange(0, len(topicPool)-1).Draw(t, "name")
		if used[name] {
			continue
		}
		used[name] = true
		mt := MTopic{Name: name}
		for range idPool {
			mt.IDs = append(mt.IDs, rapid.SampledFrom([]int{-1, -1, 0, 1, 2, 3, 3}).Draw(t, "level"))
		}
		c.Topics = append(c.Topics, mt)
	}
	if rapid.IntRange(0, 5).Draw(t, "filler") == 0 {
		c.Filler = rapid.SampledFrom([]int{95, 99, 100, 101, 120}).Draw(t, "nfiller")
	}
	return c
}

func (c MigrateCase) record() record {
	r := record{}
	for _, mt := range c.Topics {
		m := map[string]int{}
		for i, l := range mt.IDs {
			if l >= 0 {
				m[idPool[i]] = l
			}
		}
		r[topicPool[mt.Name]] = m
	}
	for i := 0; i < c.Filler; i++ {
		r[fmt.Sprintf("f%03d", i)] = map[string]int{"x": 3}
	}
	return r
}

// snapAll copies the Bolt file after every committed update of any namespace.
type snapAll struct {
	storage.Interface
	db    **bolt.DB
	dir   string
	mu    *sync.Mutex
	count *int
}

func (s snapAll) Update(f func(storage.Tx) error) error {
	err := s.Interface.Update(f)
	if err == nil && *s.db != nil {
		s.mu.Lock()
		*s.count++
		k := *s.count
		s.mu.Unlock()
		(*s.db).View(func(tx *bolt.Tx) error {
			return tx.CopyFile(snapName(s.dir, k), 0o600)
		})
	}
	return err
}
func (s snapAll) Store(b ...[]byte) storage.Interface {
	c := s
	c.Interface = s.Interface.Store(b...)
	return c
}

func shown(env *kit.Env, topics []string) record {
	out := record{}
	for _, t := range topics {
		states, err := env.Alert.EventStates(t, alert.OK)
		if err != nil {
			continue
		}
		out[t] = map[string]int{}
		for id, st := range states {
			out[t][id] = int(st.Level)
		}
	}
	return out
}

func runMigrate(c MigrateCase, cc *kit.Case) {
	dir, err := os.MkdirTemp("", "c08m")
	if err != nil {
		cc.Fail("harness/tmp", "%v", err)
		return
	}
	defer os.RemoveAll(dir)
	want := c.record()
	var topics []string
	nonOK := 0
	for t, ids := range want {
		topics = append(topics, t)
		for _, l := range ids {
			if l > 0 {
				nonOK++
				break
			}
		}
	}
	if c.Filler > 0 {
		cc.Label("more-than-one-page-of-topics")
	}
	// ---- the version 1 store, written with the version 1 DAO
	path := filepath.Join(dir, "kapacitor.db")
	st, err := kit.OpenStore(path)
	if err != nil {
		cc.Fail("harness/store", "%v", err)
		return
	}
	dao, err := salert.NewTopicStateKV(st.Store(salert.AlertNameSpace))
	if err != nil {
		st.Close()
		cc.Fail("harness/v1-dao", "%v", err)
		return
	}
	for t, ids := range want {
		ts := salert.TopicState{Topic: t, EventStates: map[string]salert.EventState{}}
		for id, l := range ids {
			ts.EventStates[id] = salert.EventState{Message: "m", Time: time.Unix(0, t0).UTC(), Level: alert.Level(l)}
		}
		if err := dao.Put(ts); err != nil {
			st.Close()
			cc.Fail("harness/v1-put", "%v", err)
			return
		}
	}
	st.Close()

	// ---- first start: the upgrade, with a copy of the file after every commit
	var mu sync.Mutex
	var db *bolt.DB
	commits := 0
	env, err := kit.NewEnv(kit.EnvOpts{Alerts: true, PersistTopics: true, Dir: dir, TMName: "main",
		StoreWrap: func(ns string, s storage.Interface) storage.Interface {
			return snapAll{Interface: s, db: &db, dir: dir, mu: &mu, count: &commits}
		},
		OnStore: func(s *kit.Store) { db = s.DB }})
	if err != nil {
		cc.Fail("migrate/open-error", "the first start on the version 1 store failed: %v", err)
		return
	}
	got := shown(env, topics)
	env.Close()
	if !sameRecord(got, want) {
		cc.Fail("migrate/uninterrupted", "after the uninterrupted upgrade the topics show %s, the version 1 store held %s", got, want)
		return
	}
	if nonOK >= 2 && commits >= 3 {
		cc.NonTrivial()
	}
	cc.Label(fmt.Sprintf("crash-points:%d", bucket(commits)))

	// ---- crash points
	for k := 1; k <= commits; k++ {
		crashDir := filepath.Join(dir, fmt.Sprintf("crash%03d", k))
		os.MkdirAll(crashDir, 0o755)
		data, err := os.ReadFile(snapName(dir, k))
		if err != nil {
			cc.Fail("harness/snapshot", "snapshot %d: %v", k, err)
			return
		}
		os.WriteFile(filepath.Join(crashDir, "kapacitor.db"), data, 0o600)
		env2, err := kit.NewEnv(kit.EnvOpts{Alerts: true, PersistTopics: true, Dir: crashDir, TMName: "main"})
		if err != nil {
			cc.Fail("migrate/restart-error", "restart from the storage after commit %d of %d of the upgrade failed: %v", k, commits, err)
			return
		}
		got := shown(env2, topics)
		env2.Close()
		if !sameRecord(got, want) {
			cc.Fail("migrate/state-lost-or-invented", "restart from the storage as it stood after commit %d of %d of the version 1 -> 2 upgrade: the topics show %s, the recorded levels are %s", k, commits, got, want)
			return
		}
		// and once more: the second start left a storage that a third start reads the same way
		env3, err := kit.NewEnv(kit.EnvOpts{Alerts: true, PersistTopics: true, Dir: crashDir, TMName: "main"})
		if err != nil {
			cc.Fail("migrate/restart-error", "second restart after commit %d failed: %v", k, err)
			return
		}
		got = shown(env3, topics)
		env3.Close()
		if !sameRecord(got, want) {
			cc.Fail("migrate/state-lost-or-invented", "second restart after a crash at commit %d of %d of the upgrade: the topics show %s, the recorded levels are %s", k, commits, got, want)
			return
		}
		os.RemoveAll(crashDir)
	}
}

var assumptionsMigrate = []string{
	"a version 1 store is what the version 1 DAO (services/alert.NewTopicStateKV on the alert namespace) writes: one object per topic with its event states; the storage has no topic_store_version key",
	"crash points are the commit boundaries of the alert and topic-state namespaces during Service.Open (the version key lives in a namespace of its own: the boundary after it is the finished upgrade); the backup file the upgrade keeps beside the database while it runs is not part of the crash image",
	"an ID recorded at level OK may be shown at OK or not at all",
}

func TestMigrate(t *testing.T) {
	r := kit.NewRec("C08", "Migrate", ruleMigrate, assumptionsMigrate...)
	kit.Check(t, r, genMigrate, runMigrate)
}

func TestReplayMigrate(t *testing.T) {
	r := kit.NewRec("C08", "Migrate", ruleMigrate, assumptionsMigrate...)
	kit.Replay(t, r, runMigrate)
}
