// C08, unit TaskRestart — restarts at the moments a running system has most of them: the task is
// stopped and started again inside the running process (disable/enable, update of the task: the
// alert service and its in-memory topics live on, the task's anonymous topic is closed with the
// task and restored from the store when the task starts), or the whole process is shut down in
// order and started again on the file. The storage "as it stood" is then the storage after the
// last event of the stopped task.
//
// Generator: the alert configurations and histories of unit Restart (same generator), with the
// three kinds of alert (named topic; named topic + handlers of its own = anonymous topic; handlers
// of its own only) equally likely, and 1-3 restarts (task or process) at generated positions of
// the history.
// Oracle: reference alert state machine, restarted at every restart from the record (last non-OK
// level told per ID): the events the handlers receive over the whole history (handler on topic T
// and/or the alert's own .log() handler), the record found in the store at every restart and at
// the end, and the final state of topic T.
package c08

import (
	"fmt"
	"os"
	"path/filepath"
	"sort"
	"strings"
	"testing"
	"time"

	"verifharness/kit"

	"github.com/influxdata/kapacitor"
	"github.com/influxdata/kapacitor/alert"
	"pgregory.net/rapid"
)

type Cut struct {
	At int `json:"at"` // the restart happens before point At (1..n-1)
	// Process: the whole process (alert service + TaskMaster) is shut down and started on the file
	// again; otherwise only the task is stopped and started again in the running process
	Process bool `json:"process,omitempty"`
}

type TRCase struct {
	Case
	Cuts []Cut `json:"cuts"`
}

const ruleTR = "rapid: alert config and history of unit Restart (named topic / named + anonymous topic / anonymous topic alone, equally likely; default ID or .id() template incl. tags that are not group-by dimensions) x 1-3 restarts at generated positions, each either of the task inside the running process (TaskMaster.StopTask + StartTask, as disable/enable does) or of the whole process (orderly shutdown, new service + TaskMaster on the file); " +
	"oracle: reference state machine restarted from the record (last non-OK level told per ID) at every restart: events received by the handler of T and by the alert's own handler over the whole history, the store's record at every restart and at the end, final state of T; non-trivial = at some restart the record holds a non-OK level for an ID whose level changes afterwards; distinct by case hash"

func genTR(t *rapid.T) TRCase {
	c := TRCase{Case: genCfg(t)}
	switch rapid.IntRange(0, 2).Draw(t, "kind") {
	case 0:
		c.Anon, c.NoTopic = false, false
	case 1:
		c.Anon, c.NoTopic = true, false
	case 2:
		c.Anon, c.NoTopic = true, true
	}
	n := len(c.Pts)
	k := rapid.IntRange(1, 3).Draw(t, "cuts")
	at := map[int]bool{}
	for i := 0; i < k; i++ {
		at[rapid.IntRange(1, n-1).Draw(t, "at")] = true
	}
	pos := make([]int, 0, len(at))
	for p := range at {
		pos = append(pos, p)
	}
	sort.Ints(pos)
	for _, p := range pos {
		c.Cuts = append(c.Cuts, Cut{At: p, Process: rapid.IntRange(0, 2).Draw(t, "process") == 0})
	}
	return c
}

const barrierBound = 120 * time.Second

// waitTaken blocks until the alert node has taken n points from its input: everything written
// so far has then passed the TaskMaster's fork, so that stopping the task loses nothing (the
// stop itself is orderly: the input edge is closed and every node finishes its backlog).
func waitTaken(et *kapacitor.ExecutingTask, n int64) error {
	deadline := time.Now().Add(barrierBound)
	for {
		stats, err := et.ExecutionStats()
		if err != nil {
			return err
		}
		got, _ := stats.NodeStats["alert2"]["collected"].(int64)
		if got >= n {
			return nil
		}
		if time.Now().After(deadline) {
			return fmt.Errorf("the alert node has taken %d of %d points after %v: %v", got, n, barrierBound, stats.NodeStats)
		}
		time.Sleep(100 * time.Microsecond)
	}
}

func levelsOf(m map[string]storedState) map[string]int {
	out := map[string]int{}
	for id, s := range m {
		if s.Level != 0 {
			out[id] = s.Level
		}
	}
	return out
}

func fmtLevels(m map[string]int) string {
	var s []string
	for _, id := range kit.SortedKeys(m) {
		s = append(s, id+"="+lvlName[m[id]])
	}
	return "{" + strings.Join(s, " ") + "}"
}

func sameLevels(a, b map[string]int) bool {
	if len(a) != len(b) {
		return false
	}
	for id, l := range a {
		if b[id] != l {
			return false
		}
	}
	return true
}

func runTR(c TRCase, cc *kit.Case) {
	const sig = "taskrestart/"
	const anonTopic = "main:" + taskName + ":alert2"
	pts := c.points()
	if c.NoTopic && !c.Anon || len(c.Cuts) == 0 {
		cc.Fail("harness/case", "malformed case")
		return
	}
	dir, err := os.MkdirTemp("", "c08r")
	if err != nil {
		cc.Fail("harness/tmp", "%v", err)
		return
	}
	defer os.RemoveAll(dir)
	logPath := filepath.Join(dir, "alert.log")
	script := c.script(logPath)
	switch {
	case c.NoTopic:
		cc.Label("anon-topic-only")
	case c.Anon:
		cc.Label("anon+named-topic")
	default:
		cc.Label("named-topic-only")
	}
	cc.Label(fmt.Sprintf("id-form:%d", c.IDForm))
	if c.SCO {
		cc.Label("stateChangesOnly")
	}
	if c.NoRec {
		cc.Label("noRecoveries")
	}

	// ---- segments and the reference
	bounds := []int{0}
	for _, cut := range c.Cuts {
		if cut.At <= bounds[len(bounds)-1] || cut.At >= len(pts) {
			cc.Fail("harness/case", "restart positions must increase inside the history: %+v", c.Cuts)
			return
		}
		bounds = append(bounds, cut.At)
		if cut.Process {
			cc.Label("restart:process")
		} else {
			cc.Label("restart:task")
		}
	}
	bounds = append(bounds, len(pts))
	nseg := len(bounds) - 1
	record := map[string]int{} // last non-OK level told per ID (an OK event clears it)
	var exp []event
	recAt := make([]map[string]int, nseg) // the record at the end of segment s
	expUpTo := make([]int, nseg)          // number of expected events up to the end of segment s
	nontrivial := false
	for s := 0; s < nseg; s++ {
		// every ID resumes at the last non-OK level on record, the others at OK
		states := map[string]*idState{}
		for id, l := range record {
			states[id] = &idState{cur: l, prevEmit: l}
		}
		evs := c.model(pts[:bounds[s+1]], bounds[s], states)
		for _, e := range evs {
			if s > 0 {
				if l, ok := recAt[s-1][e.ID]; ok && l != e.Level {
					nontrivial = true
				}
			}
			if e.Level == 0 {
				delete(record, e.ID)
			} else {
				record[e.ID] = e.Level
			}
		}
		exp = append(exp, evs...)
		recAt[s] = map[string]int{}
		for id, l := range record {
			recAt[s][id] = l
		}
		expUpTo[s] = len(exp)
	}

	// ---- the run
	h := &recHandler{}
	var env *kit.Env
	open := func() bool {
		var err error
		env, err = kit.NewEnv(kit.EnvOpts{Alerts: true, PersistTopics: true, Dir: dir, TMName: "main",
			Prepare: func(e *kit.Env) {
				if !c.NoTopic {
					e.Alert.RegisterAnonHandler("T", h)
				}
			}})
		if err != nil {
			cc.Fail("harness/env", "env: %v", err)
			return false
		}
		return true
	}
	start := func() (*kapacitor.ExecutingTask, bool) {
		et, err := env.StartTask(taskName, script, kapacitor.StreamTask, nil)
		if err != nil {
			cc.Fail("harness/script-rejected", "script rejected: %v\n%s", err, script)
			return nil, false
		}
		return et, true
	}
	describe := func() string {
		var cuts []string
		for _, cut := range c.Cuts {
			kind := "task"
			if cut.Process {
				kind = "process"
			}
			cuts = append(cuts, fmt.Sprintf("%s restart before point %d", kind, cut.At))
		}
		var ps []string
		for i, p := range pts {
			ps = append(ps, fmt.Sprintf("%d:%s@%d v=%v", i, c.idOf(p), (p.Time-t0)/sec, p.Fields["v"].Go()))
		}
		return fmt.Sprintf("script: %s\nrestarts: %s\npoints: %s", script, strings.Join(cuts, ", "), strings.Join(ps, " "))
	}
	checkRecord := func(stored map[string]map[string]storedState, want map[string]int, when string) bool {
		if !c.NoTopic {
			if got := levelsOf(stored["T"]); !sameLevels(got, want) {
				cc.Fail(sig+"record-differs", "%s the store holds %s for topic T, the last non-OK levels told are %s\n%s", when, fmtLevels(got), fmtLevels(want), describe())
				return false
			}
		}
		if c.Anon {
			if got := levelsOf(stored[anonTopic]); !sameLevels(got, want) {
				cc.Fail(sig+"record-differs", "%s the store holds %s for the anonymous topic %s, the last non-OK levels told are %s\n%s", when, fmtLevels(got), anonTopic, fmtLevels(want), describe())
				return false
			}
		}
		return true
	}
	if !open() {
		return
	}
	defer func() { env.Close() }()
	et, ok := start()
	if !ok {
		return
	}
	finalT := map[string]int{}
	for s := 0; s < nseg; s++ {
		for i := bounds[s]; i < bounds[s+1]; i++ {
			if err := env.TM.WriteKapacitorPoint(pts[i].Msg()); err != nil {
				cc.Fail("harness/write", "write: %v", err)
				return
			}
		}
		last := s == nseg-1
		when := "at the end"
		if !last {
			when = fmt.Sprintf("at the restart before point %d", bounds[s+1])
		}
		if last || c.Cuts[s].Process {
			// orderly end of the process: the TaskMaster drains, the task finishes its backlog
			env.TM.Drain()
			et.StopStats()
			if err := et.Wait(); err != nil {
				cc.Fail("task-error", "task ended with error: %v\n%s", err, describe())
				return
			}
			if last && !c.NoTopic {
				states, err := env.Alert.EventStates("T", alert.OK)
				if err != nil {
					cc.Fail(sig+"final-state", "topic T cannot be read at the end: %v\n%s", err, describe())
					return
				}
				for id, st := range states {
					finalT[id] = int(st.Level)
				}
			}
			env.Close()
			stored, err := readStore(filepath.Join(dir, "kapacitor.db"))
			if err != nil {
				cc.Fail("harness/store", "reading the store: %v", err)
				return
			}
			if !checkRecord(stored, recAt[s], when) {
				return
			}
			if last {
				break
			}
			if !open() {
				return
			}
		} else {
			// the task alone is stopped, as TaskMaster.StopTask does for disable / update
			if err := waitTaken(et, int64(bounds[s+1]-bounds[s])); err != nil {
				cc.Fail("harness/barrier", "%v", err)
				return
			}
			if err := env.TM.StopTask(taskName); err != nil {
				cc.Fail("task-error", "task stopped with error: %v\n%s", err, describe())
				return
			}
			stored, err := readStoreDB(env.Store.DB)
			if err != nil {
				cc.Fail("harness/store", "reading the store: %v", err)
				return
			}
			if !checkRecord(stored, recAt[s], when) {
				return
			}
		}
		if et, ok = start(); !ok {
			return
		}
	}

	// ---- what the handlers were told
	segOf := func(i int) string {
		for s := 0; s < nseg; s++ {
			if i < expUpTo[s] {
				if s == 0 {
					return "before the first restart"
				}
				kind := "task"
				if c.Cuts[s-1].Process {
					kind = "process"
				}
				return fmt.Sprintf("after the %s restart before point %d", kind, c.Cuts[s-1].At)
			}
		}
		return "after the last expected event"
	}
	firstDiff := func(got []event) int {
		for i := range got {
			if i >= len(exp) || got[i].ID != exp[i].ID || got[i].Level != exp[i].Level || got[i].Time != exp[i].Time {
				return i
			}
		}
		return len(got)
	}
	if !c.NoTopic {
		if got := h.get(); !sameEvents(got, exp, false) {
			i := firstDiff(got)
			cc.Fail(sig+"events-differ", "the handler of topic T received %s\nthe reference (state machine resumed from the record at every restart) says %s\nfirst difference at event %d, %s\n%s", fmtEvents(got), fmtEvents(exp), i, segOf(i), describe())
			return
		}
	}
	if c.Anon {
		got, err := readLog(logPath)
		if err != nil {
			cc.Fail("harness/log", "reading the alert log: %v", err)
			return
		}
		if !sameEvents(got, exp, false) {
			i := firstDiff(got)
			cc.Fail(sig+"events-differ", "the alert's own handler (.log(), anonymous topic) received %s\nthe reference (state machine resumed from the record at every restart) says %s\nfirst difference at event %d, %s\n%s", fmtEvents(got), fmtEvents(exp), i, segOf(i), describe())
			return
		}
	}
	// ---- final state of T: the last level told per ID (an ID told OK may be listed as OK or not at all)
	if !c.NoTopic {
		for id, l := range record {
			if finalT[id] != l {
				cc.Fail(sig+"final-state", "topic T ends with %s at %s, the last level told is %s\n%s", id, lvlName[finalT[id]], lvlName[l], describe())
				return
			}
		}
		for id, l := range finalT {
			if l != 0 && record[id] != l {
				cc.Fail(sig+"final-state", "topic T ends with %s at %s, the last level told is %s\n%s", id, lvlName[l], lvlName[record[id]], describe())
				return
			}
		}
	}
	if nontrivial {
		cc.NonTrivial()
	}
}

var assumptionsTR = []string{
	"a task is restarted inside the running process as TaskMaster.StopTask + NewTask/StartTask do it (what disabling/enabling or updating a task comes down to), a process by an orderly shutdown (TaskMaster.Drain, task ended, services closed) and a new alert service + TaskMaster on the same Bolt file; no point is lost at these restarts: before a task is stopped the harness waits until the alert node has taken every point written so far (execution statistics of the task, bound 120 s - a synchronisation barrier, never a verdict), and the stop itself lets every node finish its backlog",
	"the moment of the restart is the end of a stopped task: the storage as it stood then holds, per topic of the alert, the last non-OK level told per ID; the statement's resume rule is applied to it: the reference state machine continues every ID on record at its recorded level and every other ID at OK (with noRecoveries a withheld recovery is never told nor recorded, so the ID resumes at its last recorded level, as in unit Restart)",
	"events are observed by a handler registered on the named topic T (all kinds with .topic('T')) and from the file the alert's own .log() handler wrote (all kinds with an anonymous topic); both receive every event of the alert node (pipeline/alert.go: an alert publishes to its topic and to its own handlers); events are compared by ID, level and time, in order - previous levels and durations are not compared",
	"as in unit Restart: no repeat is expected at an orderly restart either (the reference started from the recorded level suppresses an unchanged level under stateChangesOnly exactly as the uninterrupted run does)",
	"the final state of topic T is read before the last shutdown: an ID whose last told level is OK may be listed as OK or not at all",
	"alert IDs and configurations as in unit Restart (same generator and reference state machine; one ID per group)",
}

func TestTaskRestart(t *testing.T) {
	r := kit.NewRec("C08", "TaskRestart", ruleTR, assumptionsTR...)
	kit.Check(t, r, genTR, runTR)
}

func TestReplayTaskRestart(t *testing.T) {
	r := kit.NewRec("C08", "TaskRestart", ruleTR, assumptionsTR...)
	kit.Replay(t, r, runTR)
}
