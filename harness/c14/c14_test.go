// C14 - task definitions and their running state persist and stay in step.
//
// Unit Catalogue: a generated history of task/template API requests (valid and invalid)
// and clean restarts is executed against the HTTP API of an in-process server; after every
// step the full catalogue shown by the API (list + get of every pool id, templates, and
// the template->task association keys) is compared with a model that follows the
// responses. Unit Crash (crash_test.go): the Bolt file is copied after every committed
// transaction of the last request of a history and a new server is opened on every copy.
//
// Run-time faults ("feed" steps): points written to POST /kapacitor/v1/write that the
// combine node of a running "fragile" script refuses, which ends that execution with a
// node error while the server goes on. A feed is no definition request: the catalogue must
// be exactly what it was (the last accepted definition, also when the stored definition
// was patched after the execution was started), the task is enabled, not executing, with
// the error recorded, and every way of starting it again (enable after disable, rename,
// template update, restart) brings it back to executing.
package c14

import (
	"fmt"
	"os"
	"strconv"
	"strings"
	"testing"
	"time"

	"verifharness/kit"

	"github.com/influxdata/kapacitor/client/v1"
	"github.com/influxdata/kapacitor/tick"
)

type Case struct {
	Ops []Op `json:"ops"`
	// APIOnly (saved witnesses only, never generated): the association keys are not
	// looked at, so that a witness runs on to the point where the API itself shows the
	// damage a stale or missing association does.
	APIOnly bool `json:"api_only,omitempty"`
}

const rule = "rapid: history of <= 20 task/template API requests (create, update of script/dbrps/vars/id/template/status, enable, disable, delete; " +
	"template create/update/rename/delete with 0-3 tasks created from it; valid and rejected requests) interleaved with clean restarts and with " +
	"run-time faults (points written to /kapacitor/v1/write that end the running execution of a task with a node error, also after the stored definition was patched); " +
	"rarely (3 %) with a bulk of 95-125 (or up to 201) further plain tasks, some disabled, so that the catalogue does not fit into one page of 100 tasks; " +
	"non-trivial = an accepted rename or an accepted template update of an enabled task, or a run-time failure of an execution whose task was patched since its start, is followed by a restart, or a restart with more than 100 tasks; distinct by case hash"

// ---------------------------------------------------------------- API <-> plain data

func toClientVars(vs map[string]Var) client.Vars {
	if vs == nil {
		return nil
	}
	out := client.Vars{}
	for k, v := range vs {
		var cv client.Var
		switch v.T {
		case "int":
			cv.Type = client.VarInt
			n, err := strconv.ParseInt(v.V, 10, 64)
			if err != nil {
				cv.Value = v.V
			} else {
				cv.Value = n
			}
		case "float":
			cv.Type = client.VarFloat
			f, err := strconv.ParseFloat(v.V, 64)
			if err != nil {
				cv.Value = v.V
			} else {
				cv.Value = f
			}
		case "bool":
			cv.Type = client.VarBool
			switch v.V {
			case "true":
				cv.Value = true
			case "false":
				cv.Value = false
			default:
				cv.Value = v.V // malformed: a string where a bool is announced
			}
		default:
			cv.Type = client.VarString
			cv.Value = v.V
		}
		out[k] = cv
	}
	return out
}

func fromClientVars(vs client.Vars) map[string]Var {
	out := map[string]Var{}
	for k, v := range vs {
		var x Var
		switch v.Type {
		case client.VarInt:
			x.T = "int"
		case client.VarFloat:
			x.T = "float"
		case client.VarBool:
			x.T = "bool"
		case client.VarString:
			x.T = "string"
		default:
			x.T = v.Type.String()
		}
		switch val := v.Value.(type) {
		case int64:
			x.V = strconv.FormatInt(val, 10)
		case float64:
			x.V = strconv.FormatFloat(val, 'g', -1, 64)
		case bool:
			x.V = strconv.FormatBool(val)
		case string:
			x.V = val
		default:
			x.V = fmt.Sprintf("%T:%v", v.Value, v.Value)
		}
		out[k] = x
	}
	return out
}

func toClientDBRPs(ds []DBRP) []client.DBRP {
	if ds == nil {
		return nil
	}
	out := make([]client.DBRP, len(ds))
	for i, d := range ds {
		out[i] = client.DBRP{Database: d.DB, RetentionPolicy: d.RP}
	}
	return out
}

func fromClientTask(t client.Task) oTask {
	o := oTask{ID: t.ID, Tmpl: t.TemplateID, Script: t.TICKscript, Vars: fromClientVars(t.Vars),
		Enabled: t.Status == client.Enabled, Executing: t.Executing, Error: t.Error}
	for _, d := range t.DBRPs {
		o.DBRPs = append(o.DBRPs, DBRP{d.Database, d.RetentionPolicy})
	}
	return o
}

func toStatus(s string) client.TaskStatus {
	switch s {
	case "enabled":
		return client.Enabled
	case "disabled":
		return client.Disabled
	}
	return 0
}

// ---------------------------------------------------------------- pools

var (
	taskIDs    = []string{"t1", "t2", "t", "t1_b"} // ids that are string prefixes of each other: listings and associations are key-prefix scans
	badTaskID  = "bad id!"
	tmplIDs    = []string{"p1", "p2", "p", "p1_b"}
	badTmplID  = "bad tmpl!"
	allTaskIDs = append(append([]string{}, taskIDs...), badTaskID)
	allTmplIDs = append(append([]string{}, tmplIDs...), badTmplID)
)

const (
	sStream0 = "stream|from().measurement('m0')|log()"
	sStream1 = "stream|from().measurement('m1')|window().period(10s).every(5s)|count('v')|log()"
	sStreamD = "dbrp \"dbx\".\"rpx\"\nstream|from().measurement('m2')|log()"
	sBatchDB = "batch|query('SELECT v FROM \"db\".\"rp\".\"m\"').period(10s).every(1h)|log()"
	sBatchOt = "batch|query('SELECT v FROM \"other\".\"rp\".\"m\"').period(10s).every(1h)|log()"
	// fragile scripts: their execution ends with a node error when it is fed 3 or more points
	// with one time (see fragileMark in model_test.go)
	sFragile  = "stream|from().measurement('boom')|combine(lambda: TRUE, lambda: TRUE).as('a', 'b').max(1)|log()"
	sFragile2 = "stream|from().measurement('boom')|combine(lambda: TRUE, lambda: TRUE).as('x', 'y').max(1)|log().prefix('F2')"
	sBadMeth  = "stream|from().measurement('m0')|nope()"
	sBadSyn  = "stream|from("
	sNoSrc   = "var x = 1"

	tIntTh   = "var m string\nvar th int\nstream|from().measurement(m)|where(lambda: \"v\" > th)|log()"
	tFloatTh = "var m string\nvar th float\nstream|from().measurement(m)|where(lambda: \"v\" > th)|log()"
	tExtra   = "var m string\nvar th int\nvar extra string\nstream|from().measurement(m)|where(lambda: \"v\" > th)|log().prefix(extra)"
	tWindow  = "var m string\nvar th int\nstream|from().measurement(m)|where(lambda: \"v\" >= th)|window().period(10s).every(10s)|log()"
	tDBRP    = "dbrp \"dbx\".\"rpx\"\nvar m string\nvar th int\nstream|from().measurement(m)|where(lambda: \"v\" > th)|log()"
	tBatchOt = "var m string\nvar th int\nbatch|query('SELECT v FROM \"other\".\"rp\".\"m\"').period(10s).every(1h)|where(lambda: \"v\" > th)|log().prefix(m)"
	tFragile = "var m string\nvar th int\nstream|from().measurement('boom')|combine(lambda: TRUE, lambda: TRUE).as('a', 'b').max(1)|where(lambda: \"a.v\" > th)|log().prefix(m)"
)

var (
	plainScripts = []string{sStream0, sStream1, sStreamD, sBatchDB, sBatchOt, sFragile, sFragile2}
	badScripts   = []string{sBadMeth, sBadSyn, sNoSrc}
	tmplScripts  = []string{tIntTh, tFloatTh, tExtra, tWindow, tDBRP, tBatchOt, tFragile}

	dbrpPool = [][]DBRP{{{"db", "rp"}}, {{"db", "rp"}, {"db2", "rp2"}}, {{"dbz", "rpz"}}}
	// where a feed can be written to: every db.rp a task of the alphabet can listen on
	feedPool = []DBRP{{"db", "rp"}, {"db2", "rp2"}, {"dbz", "rpz"}, {"dbx", "rpx"}}

	vInt     = map[string]Var{"m": {"string", "cpu"}, "th": {"int", "3"}}
	vFloat   = map[string]Var{"m": {"string", "mem"}, "th": {"float", "2.5"}}
	vExtra   = map[string]Var{"m": {"string", "cpu"}, "th": {"int", "4"}, "extra": {"string", "p"}}
	vMissing = map[string]Var{"m": {"string", "cpu"}}
	vBad     = map[string]Var{"m": {"string", "cpu"}, "th": {"bool", "maybe"}}
	varPool  = []map[string]Var{vInt, vFloat, vExtra, vMissing, vBad}
)

var scriptNames = map[string]string{
	sStream0: "<stream0>", sStream1: "<stream1: window+count>", sStreamD: "<streamD: dbrp \"dbx\".\"rpx\" statement>",
	sBatchDB: "<batch FROM db.rp>", sBatchOt: "<batch FROM other.rp>", sBadMeth: "<bad: unknown method>", sBadSyn: "<bad: syntax>", sNoSrc: "<no source: var x = 1>",
	tIntTh: "<T: var m string, var th int>", tFloatTh: "<T: var m string, var th float>", tExtra: "<T: var m string, var th int, var extra string>",
	tWindow: "<T: var m string, var th int; window>", tDBRP: "<T: dbrp \"dbx\".\"rpx\" statement; var m string, var th int>",
	tBatchOt: "<T: batch FROM other.rp; var m string, var th int>",
	sFragile: "<fragile: combine.max(1)>", sFragile2: "<fragile2: combine.max(1), other names>", tFragile: "<T: fragile combine.max(1); var m string, var th int>",
}

// scriptName abbreviates the scripts of the generator's alphabet in messages (the case
// file holds the full text).
func scriptName(s string) string {
	if n, ok := scriptNames[s]; ok {
		return n
	}
	return fmt.Sprintf("%q", s)
}

// ---------------------------------------------------------------- one step against the API

// send performs op and reports whether the server accepted it (2xx); for create/update it
// also returns the task of the response body.
func send(v *srv, op Op) (accepted bool, status int, errText string, body *client.Task) {
	var err error
	switch op.K {
	case "create":
		var t client.Task
		t, err = v.cli.CreateTask(client.CreateTaskOptions{ID: op.ID, TemplateID: op.Tmpl, TICKscript: op.Script,
			DBRPs: toClientDBRPs(op.DBRPs), Vars: toClientVars(op.Vars), Status: toStatus(op.Status)})
		body = &t
	case "update", "enable", "disable":
		st := toStatus(op.Status)
		if op.K == "enable" {
			st = client.Enabled
		} else if op.K == "disable" {
			st = client.Disabled
		}
		var t client.Task
		t, err = v.cli.UpdateTask(v.cli.TaskLink(op.ID), client.UpdateTaskOptions{ID: op.NewID, TemplateID: op.Tmpl, TICKscript: op.Script,
			DBRPs: toClientDBRPs(op.DBRPs), Vars: toClientVars(op.Vars), Status: st})
		body = &t
	case "delete":
		err = v.cli.DeleteTask(v.cli.TaskLink(op.ID))
	case "tcreate":
		_, err = v.cli.CreateTemplate(client.CreateTemplateOptions{ID: op.ID, TICKscript: op.Script})
	case "tupdate":
		_, err = v.cli.UpdateTemplate(v.cli.TemplateLink(op.ID), client.UpdateTemplateOptions{ID: op.NewID, TICKscript: op.Script})
	case "tdelete":
		err = v.cli.DeleteTemplate(v.cli.TemplateLink(op.ID))
	default:
		return false, 0, "harness: unknown op " + op.K, nil
	}
	status = v.st.last
	if err != nil {
		return false, status, err.Error(), nil
	}
	return true, status, "", body
}

// observe reads the whole catalogue through the API: the task list, GET of every pool id
// (which must agree with the list), the template list and the association keys.
//
// GET of a task compiles its pipeline (the dominating cost of a step), so the GET sweep
// covers the ids named by the request after a request and every id after a restart.
func observe(v *srv, getIDs []string) (*observed, error) {
	o := &observed{tasks: map[string]oTask{}, tmpls: map[string]string{}}
	lt, err := listTasksPaged(v, listLimit, []string{"type", "dbrps", "script", "status", "executing", "error", "vars", "template-id"})
	if err != nil {
		return nil, err
	}
	for _, t := range lt {
		if _, dup := o.tasks[t.ID]; dup {
			return nil, fmt.Errorf("list shows task %q twice", t.ID)
		}
		o.tasks[t.ID] = fromClientTask(t)
	}
	if getIDs == nil {
		// full observation: the same catalogue must come back with other page sizes - in one
		// page, and in about three pages
		for _, limit := range []int{len(lt) + 1, len(lt)/3 + 1} {
			other, err := listTasksPaged(v, limit, []string{"status"})
			if err != nil {
				return nil, err
			}
			seen := map[string]bool{}
			for _, t := range other {
				if seen[t.ID] {
					return nil, fmt.Errorf("list with limit=%d shows task %q twice", limit, t.ID)
				}
				seen[t.ID] = true
				if _, ok := o.tasks[t.ID]; !ok {
					return nil, fmt.Errorf("lists disagree: task %q is shown when the tasks are listed with limit=%d but not with limit=%d", t.ID, limit, listLimit)
				}
			}
			for _, t := range lt {
				if !seen[t.ID] {
					return nil, fmt.Errorf("lists disagree: task %q is shown when the tasks are listed with limit=%d but not with limit=%d (%d of %d tasks)", t.ID, listLimit, limit, len(other), len(lt))
				}
			}
		}
	}
	ids := map[string]bool{}
	if getIDs == nil {
		for _, id := range allTaskIDs {
			ids[id] = true
		}
		for id := range o.tasks {
			ids[id] = true
		}
	}
	for _, id := range getIDs {
		if id != "" {
			ids[id] = true
		}
	}
	for _, id := range sortedKeys(ids) {
		g, err := v.cli.Task(v.cli.TaskLink(id), &client.TaskOptions{ScriptFormat: "raw"})
		lo, listed := o.tasks[id]
		if err != nil {
			if v.st.last != 404 {
				return nil, fmt.Errorf("get task %q: status %d: %v", id, v.st.last, err)
			}
			if listed {
				return nil, fmt.Errorf("task %q is listed but GET answers 404", id)
			}
			continue
		}
		if !listed {
			return nil, fmt.Errorf("GET shows task %q but the list does not", id)
		}
		gt := fromClientTask(g)
		if gt.ID != lo.ID || gt.Tmpl != lo.Tmpl || gt.Script != lo.Script || !sameDBRPs(gt.DBRPs, lo.DBRPs) || !sameVars(gt.Vars, lo.Vars) ||
			gt.Enabled != lo.Enabled || gt.Executing != lo.Executing {
			return nil, fmt.Errorf("GET and list disagree on task %q: get %+v list %+v", id, gt, lo)
		}
	}
	tl, err := v.cli.ListTemplates(&client.ListTemplatesOptions{TemplateOptions: client.TemplateOptions{ScriptFormat: "raw"}})
	if err != nil {
		return nil, fmt.Errorf("list templates: %v", err)
	}
	for _, t := range tl {
		if _, dup := o.tmpls[t.ID]; dup {
			return nil, fmt.Errorf("list shows template %q twice", t.ID)
		}
		o.tmpls[t.ID] = t.TICKscript
	}
	tids := map[string]bool{}
	for _, id := range allTmplIDs {
		tids[id] = true
	}
	for id := range o.tmpls {
		tids[id] = true
	}
	for _, id := range sortedKeys(tids) {
		g, err := v.cli.Template(v.cli.TemplateLink(id), &client.TemplateOptions{ScriptFormat: "raw"})
		ls, listed := o.tmpls[id]
		if err != nil {
			if v.st.last != 404 {
				return nil, fmt.Errorf("get template %q: status %d: %v", id, v.st.last, err)
			}
			if listed {
				return nil, fmt.Errorf("template %q is listed but GET answers 404", id)
			}
			continue
		}
		if !listed {
			return nil, fmt.Errorf("GET shows template %q but the list does not", id)
		}
		if g.TICKscript != ls {
			return nil, fmt.Errorf("GET and list disagree on template %q", id)
		}
	}
	o.assoc, err = v.associations()
	if err != nil {
		return nil, fmt.Errorf("read associations: %v", err)
	}
	for _, id := range allTaskIDs {
		if _, ok := o.tasks[id]; !ok && v.s.TaskMaster.IsExecuting(id) {
			o.ghosts = append(o.ghosts, id)
		}
	}
	return o, nil
}

// listLimit is the page size of the harness' own listings: the default of the API.
const listLimit = 100

// listTasksPaged lists all tasks page by page (client/API.md "List Tasks": offset = "Offset
// count for paginating through tasks", limit = "Maximum number of tasks to return", default
// 100): pages are requested until one comes back with fewer than limit tasks.
func listTasksPaged(v *srv, limit int, fields []string) ([]client.Task, error) {
	var all []client.Task
	for offset := 0; ; offset += limit {
		page, err := v.cli.ListTasks(&client.ListTasksOptions{TaskOptions: client.TaskOptions{ScriptFormat: "raw"}, Fields: fields, Offset: offset, Limit: limit})
		if err != nil {
			return nil, fmt.Errorf("list tasks (offset=%d limit=%d): %v", offset, limit, err)
		}
		if len(page) > limit {
			return nil, fmt.Errorf("list tasks (offset=%d limit=%d) returned %d tasks, more than the limit", offset, limit, len(page))
		}
		all = append(all, page...)
		if len(page) < limit {
			return all, nil
		}
		if offset > 100*listLimit {
			return nil, fmt.Errorf("list tasks: still full pages at offset %d", offset)
		}
	}
}

// hangBound is the only time-out of the check: how long a batch task that has nowhere to
// query may take to die by itself (normally well under a millisecond).
const hangBound = 60 * time.Second

// observeQuiet observes until no enabled async-fail batch task is still on its way down
// (the goroutine that waits for the task records the error as its last action).
func observeQuiet(v *srv, getIDs []string, candidates ...*model) (*observed, error) {
	return observeSettled(v, getIDs, nil, candidates...)
}

// observeSettled is observeQuiet that also waits for the executions a feed has just brought
// to an end (dying: task ids): a node error ends the execution asynchronously, the goroutine
// that waits for it stops the task and records the error as its last action.
func observeSettled(v *srv, getIDs []string, dying []string, candidates ...*model) (*observed, error) {
	deadline := time.Now().Add(hangBound)
	for {
		o, err := observe(v, getIDs)
		if err != nil {
			// the list and the GETs are separate requests: an execution that ends in between
			// makes them differ in 'executing'
			if len(dying) > 0 && obsSig(err) == "api/list-get-disagree" && time.Now().Before(deadline) {
				time.Sleep(200 * time.Microsecond)
				continue
			}
			return nil, err
		}
		pending := ""
		for _, id := range dying {
			if t, ok := o.tasks[id]; ok && t.Enabled && (t.Executing || t.Error == "") {
				if time.Now().After(deadline) {
					return nil, fmt.Errorf("fault-hang: the execution of task %q was fed more points with one time than its combine node accepts (.max(1)), which ends the execution with a node error "+
						"(taken from combine.go), but %v later the API shows executing=%v error=%q", id, hangBound, t.Executing, t.Error)
				}
				pending = id
			}
		}
		if pending != "" {
			time.Sleep(200 * time.Microsecond)
			continue
		}
		for _, id := range sortedKeys(o.tasks) {
			t := o.tasks[id]
			if !t.Enabled || !(t.Executing || t.Error == "") {
				continue
			}
			for _, m := range candidates {
				if w, ok := m.tasks[id]; ok && w.Enabled && w.runClass(o) == clsAsyncFail {
					pending = id
				}
			}
		}
		if pending == "" {
			return o, nil
		}
		if time.Now().After(deadline) {
			return nil, fmt.Errorf("hang: batch task %q without an InfluxDB cluster is still executing / has no error recorded after %v", pending, hangBound)
		}
		time.Sleep(200 * time.Microsecond)
	}
}

// opLabels classifies a request for the label histogram (one label per patched property).
func opLabels(op Op) []string {
	switch op.K {
	case "update":
		var parts []string
		if op.NewID != "" {
			parts = append(parts, "update.id")
		}
		if op.Tmpl != "" {
			parts = append(parts, "update.template")
		}
		if op.Script != "" {
			parts = append(parts, "update.script")
		}
		if op.DBRPs != nil {
			parts = append(parts, "update.dbrps")
		}
		if op.Vars != nil {
			parts = append(parts, "update.vars")
		}
		if op.Status != "" {
			parts = append(parts, "update.status")
		}
		if len(parts) == 0 {
			return []string{"update(nothing)"}
		}
		return parts
	case "create":
		if op.Tmpl != "" {
			return []string{"create(from-template)"}
		}
		return []string{"create"}
	case "tupdate":
		var parts []string
		if op.NewID != "" {
			parts = append(parts, "tupdate.id")
		}
		if op.Script != "" {
			parts = append(parts, "tupdate.script")
		}
		return parts
	}
	return []string{op.K}
}

// sigKind maps an op to the word used in failure signatures.
func sigKind(op Op) string {
	switch op.K {
	case "update":
		switch {
		case op.NewID != "":
			return "rename"
		case op.Tmpl != "":
			return "retemplate"
		}
		return "update"
	case "create":
		if op.Tmpl != "" {
			return "create-from-template"
		}
		return "create"
	case "tupdate":
		if op.NewID != "" {
			return "template-rename"
		}
		return "template-update"
	case "tcreate":
		return "template-create"
	case "tdelete":
		return "template-delete"
	}
	return op.K
}

// runner executes one history.
type runner struct {
	cc    *kit.Case
	dir   string
	v     *srv
	m     *model
	steps []string // trace for messages
	// the non-trivial rule
	apiOnly bool
	seen    map[string]bool
	quiet   bool // no labels for the requests and states of this history (prefix of a crash case)
	// suspects: task ids named by an earlier request that is known to disturb the
	// associations (only used to make the signature of a later symptom specific)
	suspects map[string]string
	armed    bool // an accepted rename / template update of an enabled task happened
	// aroundSend, if set, is called right before (true) and right after (false) the
	// request of a step is on the wire (the crash unit switches its snapshot hook)
	aroundSend func(before bool)
	accepted   bool // answer to the last request
}

// label records a class of the case once (the histogram counts cases, not steps).
func (r *runner) label(l string) {
	if r.seen == nil {
		r.seen = map[string]bool{}
	}
	if !r.seen[l] {
		r.seen[l] = true
		r.cc.Label(l)
	}
}

func (r *runner) trace() string { return strings.Join(r.steps, "\n  ") }

func (r *runner) fail(sig, format string, args ...any) {
	r.cc.Fail(sig, "%s\nhistory:\n  %s", fmt.Sprintf(format, args...), r.trace())
}

func (r *runner) start() bool {
	v, err := startServer(r.dir)
	if err != nil {
		r.fail("server/open-failed", "server does not start on the case directory: %v", err)
		return false
	}
	r.v = v
	return true
}

// step executes one request and checks every invariant. It returns false when the case
// is over (failure recorded).
func (r *runner) step(i int, op Op) bool {
	cc := r.cc
	if op.K == "restart" {
		r.steps = append(r.steps, fmt.Sprintf("%d: restart", i))
		if !r.quiet {
			r.label("restart")
		}
		r.v.close()
		if !r.start() {
			return false
		}
		r.m = r.m.clone()
		r.m.restarted()
		o, err := observeQuiet(r.v, nil, r.m)
		if err != nil {
			r.fail(obsSig(err), "after restart: %v", err)
			return false
		}
		if d := r.m.compare(o, !r.apiOnly); d != nil {
			r.fail("restart/catalogue/"+d.kind, "after a clean restart the catalogue differs from the one before: %s", d)
			return false
		}
		if d := r.m.checkExecuting(o); d != nil {
			r.fail("restart/"+d.kind, "after a clean restart: %s", d)
			return false
		}
		if n := len(r.m.tasks); n > listLimit {
			// (the order of the ids is only used for this label)
			ids := sortedKeys(r.m.tasks)
			disabledInFirstPage, enabledBehind := false, false
			for k, id := range ids {
				if k < listLimit && !r.m.tasks[id].Enabled {
					disabledInFirstPage = true
				}
				if k >= listLimit && r.m.tasks[id].Enabled {
					enabledBehind = true
				}
			}
			if !r.quiet {
				r.label("restart with more than 100 tasks")
				if disabledInFirstPage && enabledBehind {
					r.label("restart with more than 100 tasks: a disabled task among the first 100 ids, enabled tasks behind them")
				}
			}
			cc.NonTrivial()
		}
		if r.armed {
			cc.NonTrivial()
		}
		return true
	}

	if op.K == "feed" {
		return r.feed(i, op)
	}
	if op.K == "bulk" {
		return r.bulk(i, op)
	}

	pre := r.m
	post, applicable := pre.apply(op)
	if r.aroundSend != nil {
		r.aroundSend(true)
	}
	accepted, status, errText, body := send(r.v, op)
	if r.aroundSend != nil {
		r.aroundSend(false)
	}
	if status == 0 {
		r.fail("harness/transport", "request %s failed without an HTTP status: %s", op, errText)
		return false
	}
	r.steps = append(r.steps, fmt.Sprintf("%d: %s => %d %s", i, op, status, errText))
	getIDs := []string{op.ID, op.NewID}
	if strings.HasPrefix(op.K, "t") {
		getIDs = []string{}
		for _, id := range sortedKeys(pre.tasks) {
			if pre.tasks[id].Tmpl == op.ID && op.K == "tupdate" {
				getIDs = append(getIDs, id)
			}
		}
	}
	o, err := observeQuiet(r.v, getIDs, pre, post)
	if err != nil {
		r.fail(obsSig(err), "after %s: %v", op, err)
		return false
	}
	kind := sigKind(op)
	r.accepted = accepted
	r.noteSuspects(op, accepted)
	if accepted {
		r.labelOp(op, "/accepted")
		if !applicable {
			r.fail("accepted-impossible/"+kind, "request %s was answered %d although the catalogue cannot take it", op, status)
			return false
		}
		if d := post.compare(o, !r.apiOnly); d != nil {
			r.fail(r.acceptedSig(kind, op, pre, post, o, d), "request %s was accepted (%d) but the catalogue is not the one it asks for: %s", op, status, d)
			return false
		}
		post.adoptLoose(o)
		if body != nil {
			if d := checkBody(post, op, *body); d != "" {
				r.fail("response-body/"+kind, "request %s accepted (%d): %s", op, status, d)
				return false
			}
		}
		r.m = post
		r.noteNonTrivial(op, pre, post)
	} else {
		r.labelOp(op, "/rejected")
		if d := pre.compare(o, !r.apiOnly); d != nil {
			// The property allows for "enabled, start did not succeed": a request whose
			// definition was stored but whose start failed is answered 5xx by the API.
			if applicable && post.compare(o, !r.apiOnly) == nil && startFailed(op, post, o) {
				r.label("start-failed: definition kept, answered 5xx")
				post.adoptLoose(o)
				r.m = post
			} else {
				r.fail("rejected-left-trace/"+kind+"/"+d.kind, "request %s was rejected (%d %s) but changed the catalogue: %s", op, status, errText, d)
				return false
			}
		}
	}
	if op.K == "tupdate" && !accepted {
		// "If an error occurs, any task that was updated to the new definition is reverted
		// to the old definition" (client/API.md): the reverted enabled tasks have been
		// reloaded with their stored definition - which ones is not specified
		for _, id := range sortedKeys(r.m.tasks) {
			t := r.m.tasks[id]
			if t.Tmpl == op.ID && t.Assoc && t.Enabled && t.checkExecuting(o) != nil {
				if r.m == pre {
					r.m = pre.clone()
					t = r.m.tasks[id]
				}
				t.started()
				r.label("rolled back template update reloaded a task")
			}
		}
	}
	if d := r.m.checkExecuting(o); d != nil {
		r.fail(d.kind+"/"+kind, "after %s (%d): %s", op, status, d)
		return false
	}
	for _, id := range sortedKeys(r.m.tasks) {
		if r.quiet {
			break
		}
		t := r.m.tasks[id]
		if t.Enabled && t.Died {
			r.label("state: enabled task whose execution ended with a run-time error")
		} else if t.Enabled {
			switch t.runClass(o) {
			case clsSyncFail:
				r.label("state: enabled task whose start is refused")
			case clsAsyncFail:
				r.label("state: enabled batch task that died (no InfluxDB)")
			}
		}
		if t.Tmpl != "" && !t.Assoc {
			r.label("state: orphaned task")
		}
	}
	return true
}

// bulk creates many plain tasks, one request each; the model follows every response, the
// catalogue is observed once at the end (task list in pages, templates, associations,
// executing set; the GET sweep of all tasks follows with the next restart).
func (r *runner) bulk(i int, op Op) bool {
	pre := r.m
	post := pre
	accepted, rejected := 0, 0
	firstRej := ""
	for _, sub := range op.bulkOps() {
		next, applicable := post.apply(sub)
		ok, status, errText, body := send(r.v, sub)
		if status == 0 {
			r.steps = append(r.steps, fmt.Sprintf("%d: %s", i, op))
			r.fail("harness/transport", "request %s (of a bulk) failed without an HTTP status: %s", sub, errText)
			return false
		}
		if !ok {
			rejected++
			if firstRej == "" {
				firstRej = fmt.Sprintf("%s => %d %s", sub, status, errText)
			}
			continue
		}
		accepted++
		if !applicable {
			r.steps = append(r.steps, fmt.Sprintf("%d: %s", i, op))
			r.fail("accepted-impossible/create", "request %s (of a bulk) was answered %d although the catalogue cannot take it", sub, status)
			return false
		}
		post = next
		if body != nil {
			if d := checkBody(post, sub, *body); d != "" {
				r.steps = append(r.steps, fmt.Sprintf("%d: %s", i, op))
				r.fail("response-body/create", "request %s (of a bulk) accepted (%d): %s", sub, status, d)
				return false
			}
		}
	}
	r.steps = append(r.steps, fmt.Sprintf("%d: %s => %d accepted, %d rejected %s", i, op, accepted, rejected, firstRej))
	o, err := observeQuiet(r.v, []string{}, pre, post)
	if err != nil {
		r.fail(obsSig(err), "after %s: %v", op, err)
		return false
	}
	if !r.quiet {
		r.label("bulk")
		if rejected > 0 {
			r.label("bulk: a create was rejected")
		}
	}
	if d := post.compare(o, !r.apiOnly); d != nil {
		r.fail("accepted-wrong-outcome/bulk-create/"+d.kind, "after %s, following the responses, the catalogue is not the one the requests ask for: %s", op, d)
		return false
	}
	r.m = post
	r.accepted = true
	if d := r.m.checkExecuting(o); d != nil {
		r.fail(d.kind+"/create", "after %s: %s", op, d)
		return false
	}
	return true
}

// feed writes points to the server (no definition request) and checks that nothing but the
// running state of the executions it ends has changed.
func (r *runner) feed(i int, op Op) bool {
	pre := r.m
	post, applicable := pre.apply(op)
	if !applicable {
		r.fail("harness/feed", "malformed feed %+v", op)
		return false
	}
	dying := pre.hits(op)
	status, errText := r.v.feed(op, i)
	r.steps = append(r.steps, fmt.Sprintf("%d: %s => %d %s", i, op, status, errText))
	if status/100 != 2 {
		r.fail("harness/feed-not-written", "POST /kapacitor/v1/write of well-formed line protocol was not accepted: %d %s", status, errText)
		return false
	}
	o, err := observeSettled(r.v, dying, dying, pre, post)
	if err != nil {
		r.fail(obsSig(err), "after %s: %v", op, err)
		return false
	}
	if !r.quiet {
		r.label("feed")
		r.label(fmt.Sprintf("feed: ends %d executions", min(len(dying), 2)))
	}
	patched := false
	for _, id := range dying {
		if pre.tasks[id].Patched {
			patched = true
		}
	}
	if patched {
		r.armed = true
		if !r.quiet {
			r.label("feed: ends an execution whose task was patched since its start")
		}
	}
	if d := post.compare(o, !r.apiOnly); d != nil {
		what := "data written to the server changed the catalogue"
		if len(dying) > 0 {
			what = fmt.Sprintf("the run-time failure of the executions of %v changed the catalogue (the API must keep showing the last accepted definition)", dying)
		}
		r.fail("run-time-failure/changed-catalogue/"+d.kind, "after %s: %s: %s", op, what, d)
		return false
	}
	r.m = post
	r.accepted = true
	if d := r.m.checkExecuting(o); d != nil {
		r.fail(d.kind+"/feed", "after %s: %s", op, d)
		return false
	}
	return true
}

func (r *runner) labelOp(op Op, verdict string) {
	if r.quiet {
		return
	}
	for _, l := range opLabels(op) {
		r.label(l + verdict)
	}
}

func (r *runner) noteSuspects(op Op, accepted bool) {
	if r.suspects == nil {
		r.suspects = map[string]string{}
	}
	switch {
	case op.K == "create" && op.Tmpl != "" && !accepted:
		r.suspects[op.ID] = "after-rejected-create-from-template"
	case op.K == "update" && !accepted && (op.NewID != "" || op.Tmpl != ""):
		r.suspects[op.ID] = "after-rejected-rename-or-assignment"
		if op.NewID != "" {
			r.suspects[op.NewID] = "after-rejected-rename-or-assignment"
		}
	case op.K == "update" && accepted && op.Tmpl != "" && (op.NewID == "" || op.NewID == op.ID):
		r.suspects[op.ID] = "after-template-assignment"
	}
}

// startFailed: op (re)starts a task whose start is refused, in the post state.
func startFailed(op Op, post *model, o *observed) bool {
	id := op.ID
	if op.NewID != "" {
		id = op.NewID
	}
	t, ok := post.tasks[id]
	if !ok || !t.Enabled {
		return false
	}
	g := o.tasks[id]
	return t.runClass(o) == clsSyncFail && !g.Executing && g.Error != ""
}

func (r *runner) noteNonTrivial(op Op, pre, post *model) {
	switch op.K {
	case "update":
		if t, ok := pre.tasks[op.ID]; ok && op.NewID != "" && op.NewID != op.ID && t.Enabled {
			if nt, ok := post.tasks[op.NewID]; ok && nt.Enabled {
				r.armed = true
				r.label("rename of an enabled task accepted")
			}
		}
	case "tupdate":
		n, en := 0, 0
		for _, t := range pre.tasks {
			if t.Tmpl == op.ID && t.Assoc {
				n++
				if t.Enabled {
					en++
				}
			}
		}
		r.label(fmt.Sprintf("template update accepted with %d associated tasks", min(n, 3)))
		if en > 0 {
			r.armed = true
			r.label("template update of an enabled task accepted")
		}
	}
}

func obsSig(err error) string {
	s := err.Error()
	switch {
	case strings.HasPrefix(s, "hang:"):
		return "hang/async-batch"
	case strings.HasPrefix(s, "fault-hang:"):
		return "hang/run-time-fault"
	case strings.Contains(s, "twice"):
		return "api/listed-twice"
	case strings.HasPrefix(s, "lists disagree"), strings.Contains(s, "more than the limit"), strings.Contains(s, "still full pages"):
		return "api/list-paging"
	case strings.Contains(s, "disagree"), strings.Contains(s, "listed but"), strings.Contains(s, "but the list does not"):
		return "api/list-get-disagree"
	}
	return "api/read-failed"
}

// acceptedSig names the defect class of an accepted request with a wrong outcome.
func (r *runner) acceptedSig(kind string, op Op, pre, post *model, o *observed, d *diff) string {
	if op.K == "tupdate" && strings.HasPrefix(d.kind, "task-") {
		why := ""
		for _, id := range sortedKeys(o.tasks) {
			if s, ok := r.suspects[id]; ok && why == "" {
				why = "/" + s
			}
		}
		if s, ok := r.suspects[d.id]; ok {
			why = "/" + s
		}
		// all-or-none: which associated tasks carry the new definition?
		changed, kept := 0, 0
		for _, t := range pre.tasks {
			if t.Tmpl != op.ID || !t.Assoc {
				continue
			}
			id := t.ID
			g, ok := o.tasks[id]
			if !ok {
				continue
			}
			w := post.tasks[id]
			if g.Script == w.Script && g.Tmpl == w.Tmpl {
				changed++
			} else {
				kept++
			}
		}
		if changed > 0 && kept > 0 {
			return "template-update/some-tasks-changed-others-not" + why
		}
		if pt, ok := pre.tasks[d.id]; ok && !(pt.Tmpl == op.ID && pt.Assoc) {
			return "template-update/changed-unassociated-task" + why
		}
		if kept > 0 {
			return "template-update/accepted-but-no-task-changed" + why
		}
	}
	return "accepted-wrong-outcome/" + kind + "/" + d.kind
}

// checkBody compares the task in a create/update response with the accepted definition.
// The response carries the formatted script (tick.Format, the API's own formatter).
func checkBody(post *model, op Op, b client.Task) string {
	id := op.ID
	if op.NewID != "" {
		id = op.NewID
	}
	w, ok := post.tasks[id]
	if !ok {
		return ""
	}
	g := fromClientTask(b)
	want := w.Script
	if f, err := tick.Format(w.Script); err == nil {
		want = f
	}
	switch {
	case g.ID != w.ID:
		return fmt.Sprintf("response shows id %q, want %q", g.ID, w.ID)
	case g.Script != want:
		return fmt.Sprintf("response shows script %q, want %q", g.Script, want)
	case g.Tmpl != w.Tmpl:
		return fmt.Sprintf("response shows template-id %q, want %q", g.Tmpl, w.Tmpl)
	case !sameDBRPs(g.DBRPs, w.DBRPs):
		return fmt.Sprintf("response shows dbrps %v, want %v", g.DBRPs, w.DBRPs)
	case !sameVars(g.Vars, w.Vars):
		return fmt.Sprintf("response shows vars %s, want %s", fmtVars(g.Vars), fmtVars(w.Vars))
	case g.Enabled != w.Enabled:
		return fmt.Sprintf("response shows enabled=%v, want %v", g.Enabled, w.Enabled)
	}
	return ""
}

func caseDir() (string, error) { return os.MkdirTemp(scratchBase(), "verif-c14-") }

func run(c Case, cc *kit.Case) {
	dir, err := caseDir()
	if err != nil {
		cc.Fail("harness/tempdir", "%v", err)
		return
	}
	defer os.RemoveAll(dir)
	r := &runner{cc: cc, dir: dir, m: newModel(), apiOnly: c.APIOnly}
	if !r.start() {
		return
	}
	defer func() { r.v.close() }()
	for i, op := range c.Ops {
		if !r.step(i, op) {
			return
		}
	}
	// every history ends with a restart: whatever was accepted last must persist too
	if len(c.Ops) == 0 || c.Ops[len(c.Ops)-1].K != "restart" {
		r.step(len(c.Ops), Op{K: "restart"})
	}
	n := len(r.m.tasks)
	switch {
	case n <= 4:
		r.label(fmt.Sprintf("final catalogue: %d tasks", n))
	case n < listLimit:
		r.label("final catalogue: 5-99 tasks")
	case n == listLimit, n == listLimit+1, n == 2*listLimit, n == 2*listLimit+1:
		r.label(fmt.Sprintf("final catalogue: %d tasks", n))
	case n < 2*listLimit:
		r.label("final catalogue: 102-199 tasks")
	default:
		r.label("final catalogue: > 201 tasks")
	}
}

var assumptions = []string{
	"Flux entry points are stubbed; no property depends on them",
	"the model follows the responses: a request answered 2xx is applied, any other answer must leave the catalogue (tasks, templates, associations) unchanged; exception taken from the property text ('enabled and its start succeeded'): a request that stores an enabled task whose start is refused may be answered 5xx with the definition kept",
	"PATCH semantics from client/API.md: only the properties present in the request change; a task assigned to a template carries the template's script; an accepted template update rewrites every associated task; deleting a template orphans its tasks",
	"template->task associations are read from the task_store namespace through the server's own storage service; a stale or missing association counts as a violation because it is observable through the API (the next update of the template rewrites an unrelated task / skips a task created from it)",
	"the set of executing tasks is also read from the server's TaskMaster for the pool ids the API does not show (a task executing under an id without definition); observable through the API as soon as a task is created under that id",
	"start classes on a server without InfluxDB cluster: stream tasks always start; a batch task querying a db.rp it has no dbrp for is refused by StartBatching (enabled, not executing, error recorded); a batch task with a grant starts and dies by itself - the check waits (bound 60 s, normal < 1 ms) until its error is recorded before it compares",
	"dbrps of a task whose template moved from a script with a dbrp statement to one without are not documented: the observed value is adopted",
	"scripts are compared raw (script-format=raw); the script in create/update responses is compared with tick.Format of the accepted script",
	"run-time faults: points are written through POST /kapacitor/v1/write?db=&rp= (client/API.md 'Writing Data'); writing data is not a definition request, so the catalogue (tasks with script, dbrps, vars, status, template id; templates; associations) must be what it was - in particular the API keeps showing the last accepted definition of a task whose execution the data brings to an end (property statement)",
	"taken from code (combine.go, combination.Do): a combine(lambda: TRUE, lambda: TRUE).max(1) node given 3 or more points of one time answers the next later point with the error 'refusing to perform combination ...' and a node error ends the execution of the task (node.go / task.go; the doc comment of CombineNode.Max says the error is logged); 1 or 2 points are processed. The check uses this only to inject the fault: it waits (bound 60 s, normal some ms) until the task is shown not executing with an error recorded, signature hang/run-time-fault otherwise",
	"taken from code and client/API.md: which executions a feed reaches is decided by the definition a task was STARTED with ('When patching a task, no changes are made to the running task'): its dbrps at that time and the measurement of its from() node (pipeline/stream.go: from().measurement selects by measurement); a feed is fatal only for executions of the three 'fragile' scripts of the alphabet on the written db.rp, every other execution goes on",
	"an execution that ended with a run-time error: the task stays enabled, is not executing and shows the error ('error: Any error encountered when executing the task', client/API.md; services/task_store startTask: the waiting goroutine stops the task and saves the error) until it is started again by enable after disable, a rename, an accepted template update, a rolled back template update that reloads it, or a restart of the server (property: after a restart every enabled task is executing again)",
	"catalogues of more than one page: the harness lists the tasks page by page (client/API.md 'List Tasks': offset = 'Offset count for paginating through tasks', limit = 'Maximum number of tasks to return', default 100; a page with fewer than limit tasks is the last one) with limit 100; in every full observation (after a restart) the listing is repeated with limit = number of tasks + 1 (one page) and with a limit that gives about three pages, and all three must show the same set of ids, none twice; the order of a listing is not assumed",
	"bulk tasks are plain stream tasks (script <stream0>, dbrps db.rp) created by one POST /tasks each; the model follows each response like for any other create; the catalogue is observed once after the last request of the bulk",
	"white-box synchronisation of a feed: the write request is answered before TaskMaster has distributed the points (one forking goroutine, first-in first-out), so the harness registers a fork of its own (TaskMaster.NewFork/DelFork, name 'verif-c14-sync', measurement 'c14sync' on the written db.rp), ends the request with one point of that measurement and waits for it before the next request of the history is sent; no task of the alphabet selects that measurement",
}

func TestCatalogue(t *testing.T) {
	r := kit.NewRec("C14", "Catalogue", rule, assumptions...)
	kit.Check(t, r, genCatalogue(r), run)
}

func TestReplayCatalogue(t *testing.T) {
	r := kit.NewRec("C14", "Catalogue", rule, assumptions...)
	kit.Replay(t, r, run)
}
