package c14

// In-process kapacitor server on a case-owned directory, reached through its HTTP API
// (client/v1 over a real TCP connection to 127.0.0.1:<ephemeral>).

import (
	"fmt"
	"io"
	"net/http"
	"net/url"
	"os"
	"path/filepath"
	"sort"
	"strings"
	"sync"
	"time"

	"github.com/influxdata/kapacitor"
	"github.com/influxdata/kapacitor/client/v1"
	"github.com/influxdata/kapacitor/server"
	"github.com/influxdata/kapacitor/services/diagnostic"
	"github.com/influxdata/kapacitor/services/storage"
)

var (
	diagOnce sync.Once
	diagSvc  *diagnostic.Service
)

func diag() *diagnostic.Service {
	diagOnce.Do(func() {
		diagSvc = diagnostic.NewService(diagnostic.NewConfig(), io.Discard, io.Discard)
		diagSvc.Open()
	})
	return diagSvc
}

// scratchBase is where case directories live: a memory-backed file system when there is
// one (Bolt fsyncs on every commit), else the driver's TMPDIR.
func scratchBase() string {
	if d := os.Getenv("VERIF_C14_TMP"); d != "" {
		return d
	}
	if st, err := os.Stat("/dev/shm"); err == nil && st.IsDir() {
		return "/dev/shm"
	}
	return os.TempDir()
}

// statusRT remembers the status code of the last response (client/v1 hides it).
type statusRT struct {
	rt   http.RoundTripper
	last int
	err  error
}

func (s *statusRT) RoundTrip(r *http.Request) (*http.Response, error) {
	resp, err := s.rt.RoundTrip(r)
	s.err = err
	if err != nil {
		s.last = 0
		return resp, err
	}
	s.last = resp.StatusCode
	return resp, nil
}

// snapStorage stands in for task_store.Service.StorageService: every store it hands out
// reports each committed Update to hook (the transaction boundaries of the catalogue).
type snapStorage struct {
	inner *storage.Service
	hook  func()
}

func (w *snapStorage) Store(ns string) storage.Interface {
	return &snapStore{Interface: w.inner.Store(ns), w: w}
}
func (w *snapStorage) Register(name string, store storage.StoreActioner) {
	w.inner.Register(name, store)
}

type snapStore struct {
	storage.Interface
	w *snapStorage
}

func (s *snapStore) Update(f func(storage.Tx) error) error {
	err := s.Interface.Update(f)
	if err == nil && s.w.hook != nil {
		s.w.hook()
	}
	return err
}

func (s *snapStore) Store(buckets ...[]byte) storage.Interface {
	return &snapStore{Interface: s.Interface.Store(buckets...), w: s.w}
}

type srv struct {
	dir  string
	s    *server.Server
	cli  *client.Client
	tr   *http.Transport
	st   *statusRT
	snap *snapStorage
}

func boltPath(dir string) string { return filepath.Join(dir, "bolt.db") }

// startServer opens a server on dir (created if missing; the Bolt file is dir/bolt.db).
func startServer(dir string) (*srv, error) {
	for _, d := range []string{dir, filepath.Join(dir, "data"), filepath.Join(dir, "replay")} {
		if err := os.MkdirAll(d, 0o755); err != nil {
			return nil, err
		}
	}
	c := server.NewConfig()
	c.Reporting.Enabled = false
	c.Stats.Enabled = false
	c.Replay.Dir = filepath.Join(dir, "replay")
	c.Storage.BoltDBPath = boltPath(dir)
	c.DataDir = filepath.Join(dir, "data")
	c.Task.Dir = "" // no migration from a pre-1.0 task.db
	c.HTTP.BindAddress = "127.0.0.1:0"
	c.HTTP.LogEnabled = false
	c.InfluxDB[0].Enabled = false
	c.Load.Enabled = false
	c.Hostname = "localhost"
	s, err := server.New(c, server.BuildInfo{Version: "verif", Commit: "verif", Branch: "verif"}, diag(), nil)
	if err != nil {
		return nil, fmt.Errorf("server.New: %w", err)
	}
	sn := &snapStorage{inner: s.StorageService}
	s.TaskStore.StorageService = sn
	if err := s.Open(); err != nil {
		// Open closes the services itself when one of them fails to start
		return nil, fmt.Errorf("server.Open: %w", err)
	}
	tr := &http.Transport{MaxIdleConns: 2, IdleConnTimeout: time.Minute}
	st := &statusRT{rt: tr}
	cli, err := client.New(client.Config{URL: s.HTTPDService.URL(), Transport: st})
	if err != nil {
		s.Close()
		return nil, err
	}
	return &srv{dir: dir, s: s, cli: cli, tr: tr, st: st, snap: sn}, nil
}

func (v *srv) close() {
	if v == nil || v.s == nil {
		return
	}
	v.tr.CloseIdleConnections()
	v.s.Close()
	v.s = nil
}

// associations reads the template -> task association keys of the task_store namespace
// through the server's own storage service: "template/task" strings, sorted.
func (v *srv) associations() ([]string, error) {
	const prefix = "/templates/tasks/"
	var out []string
	err := v.s.StorageService.Store("task_store").View(func(tx storage.ReadOnlyTx) error {
		kvs, err := tx.List(prefix)
		if err != nil {
			return err
		}
		for _, kv := range kvs {
			rest := strings.TrimPrefix(kv.Key, prefix)
			tmpl := rest
			if i := strings.Index(rest, "/"); i >= 0 {
				tmpl = rest[:i]
			}
			out = append(out, tmpl+"/"+string(kv.Value))
		}
		return nil
	})
	sort.Strings(out)
	return out, err
}

// feed writes the points of op to POST /kapacitor/v1/write?db=&rp= (the documented data
// entry of the API, client/API.md "Writing Data") and returns once the server has handed all
// of them to the executions listening on that db.rp.
//
// The write request is answered before the points are distributed (TaskMaster.WritePoints
// queues them for one forking goroutine), so a point could otherwise still reach an execution
// that is started by a LATER request of the history. To know when the queue is through, the
// harness registers a fork of its own for measurement 'c14sync' on the db.rp (TaskMaster.NewFork,
// what a starting stream task calls), ends the request body with one point of that measurement
// and waits for it: the queue is first-in first-out and served by a single goroutine.
//
// step makes the times of later feeds later.
func (v *srv) feed(op Op, step int) (status int, errText string) {
	const syncFork = "verif-c14-sync"
	d := op.DBRPs[0]
	base := time.Date(2020, 1, 1, 0, 0, 0, 0, time.UTC).Add(time.Duration(step) * time.Hour)
	var sb strings.Builder
	for i := 0; i < op.N; i++ {
		fmt.Fprintf(&sb, "boom,h=h%d v=%di %d\n", i, 10+i, base.UnixNano())
	}
	fmt.Fprintf(&sb, "boom,h=later v=99i %d\n", base.Add(time.Second).UnixNano())
	fmt.Fprintf(&sb, "c14sync v=1i %d\n", base.Add(2*time.Second).UnixNano())

	e, err := v.s.TaskMaster.NewFork(syncFork, []kapacitor.DBRP{{Database: d.DB, RetentionPolicy: d.RP}}, []string{"c14sync"})
	if err != nil {
		return 0, "harness: NewFork: " + err.Error()
	}
	defer v.s.TaskMaster.DelFork(syncFork)

	q := url.Values{"db": {d.DB}, "rp": {d.RP}, "precision": {"n"}}
	req, err := http.NewRequest("POST", v.s.HTTPDService.URL()+"/write?"+q.Encode(), strings.NewReader(sb.String()))
	if err != nil {
		return 0, "harness: " + err.Error()
	}
	resp, err := v.st.RoundTrip(req)
	if err != nil {
		return 0, err.Error()
	}
	body, _ := io.ReadAll(resp.Body)
	resp.Body.Close()
	if resp.StatusCode/100 != 2 {
		return resp.StatusCode, string(body)
	}
	got := make(chan bool, 1)
	go func() {
		_, ok := e.Emit()
		got <- ok
	}()
	select {
	case ok := <-got:
		if !ok {
			return 0, "harness: the sync fork was closed before the last point of the feed arrived"
		}
	case <-time.After(hangBound):
		return 0, fmt.Sprintf("harness: the last point of the feed was not distributed within %v", hangBound)
	}
	return resp.StatusCode, ""
}

func copyFile(src, dst string) error {
	b, err := os.ReadFile(src)
	if err != nil {
		return err
	}
	return os.WriteFile(dst, b, 0o600)
}
