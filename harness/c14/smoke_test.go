package c14

import (
	"os"
	"runtime"
	"testing"
	"time"

	"github.com/influxdata/kapacitor/client/v1"
)

func TestSmoke(t *testing.T) {
	if os.Getenv("C14_SMOKE") == "" {
		t.Skip()
	}
	dir, _ := os.MkdirTemp(scratchBase(), "c14-")
	defer os.RemoveAll(dir)
	g0 := runtime.NumGoroutine()
	for i := 0; i < 5; i++ {
		t0 := time.Now()
		v, err := startServer(dir)
		if err != nil {
			t.Fatal(err)
		}
		t.Logf("open %v", time.Since(t0))
		n := 0
		v.snap.hook = func() { n++ }
		if i == 0 {
			t0 = time.Now()
			_, err := v.cli.CreateTemplate(client.CreateTemplateOptions{ID: "p1", TICKscript: "var m string\nvar th int\nstream|from().measurement(m)|where(lambda: \"v\" > th)|log()"})
			t.Logf("tcreate: %v status=%d n=%d %v", err, v.st.last, n, time.Since(t0))
			t0 = time.Now()
			tk, err := v.cli.CreateTask(client.CreateTaskOptions{ID: "t1", TemplateID: "p1", DBRPs: []client.DBRP{{Database: "db", RetentionPolicy: "rp"}}, Status: client.Enabled,
				Vars: client.Vars{"m": {Type: client.VarString, Value: "cpu"}, "th": {Type: client.VarInt, Value: int64(3)}}})
			t.Logf("create: %v status=%d n=%d %v; %+v", err, v.st.last, n, time.Since(t0), tk.Vars)
			_, err = v.cli.CreateTask(client.CreateTaskOptions{ID: "b1", TICKscript: "batch|query('SELECT v FROM \"other\".\"rp\".\"m\"').period(10s).every(1h)|log()", DBRPs: []client.DBRP{{Database: "db", RetentionPolicy: "rp"}}, Status: client.Enabled})
			t.Logf("create b1 (sync fail): %v status=%d n=%d", err, v.st.last, n)
			_, err = v.cli.CreateTask(client.CreateTaskOptions{ID: "b2", TICKscript: "batch|query('SELECT v FROM \"db\".\"rp\".\"m\"').period(10s).every(1h)|log()", DBRPs: []client.DBRP{{Database: "db", RetentionPolicy: "rp"}}, Status: client.Enabled})
			t.Logf("create b2 (async fail): %v status=%d n=%d", err, v.st.last, n)
			_, err = v.cli.CreateTask(client.CreateTaskOptions{ID: "x1", TemplateID: "p1", DBRPs: []client.DBRP{{Database: "db", RetentionPolicy: "rp"}},
				Vars: client.Vars{"m": {Type: client.VarString, Value: "cpu"}, "th": {Type: client.VarInt, Value: int64(3)}, "zz": {Type: client.VarInt, Value: int64(3)}}})
			t.Logf("create x1 (extra var): %v status=%d n=%d", err, v.st.last, n)
			_, err = v.cli.UpdateTask(v.cli.TaskLink("t1"), client.UpdateTaskOptions{ID: "bad id!"})
			t.Logf("rename to bad id: %v status=%d n=%d", err, v.st.last, n)
		}
		time.Sleep(20 * time.Millisecond)
		t0 = time.Now()
		tasks, err := v.cli.ListTasks(&client.ListTasksOptions{TaskOptions: client.TaskOptions{ScriptFormat: "raw"}})
		t.Logf("list %v %v", err, time.Since(t0))
		for _, tk := range tasks {
			t.Logf("task %q tmpl=%q status=%v executing=%v err=%q dbrps=%v vars=%v script=%q", tk.ID, tk.TemplateID, tk.Status, tk.Executing, tk.Error, tk.DBRPs, tk.Vars, tk.TICKscript)
			g, err := v.cli.Task(tk.Link, nil)
			t.Logf("   get: %v %q", err, g.ID)
		}
		as, err := v.associations()
		t.Logf("assoc %v %v", as, err)
		t0 = time.Now()
		v.close()
		t.Logf("close %v goroutines %d (start %d)", time.Since(t0), runtime.NumGoroutine(), g0)
	}
}
