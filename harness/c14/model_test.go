package c14

// Reference model of the task/template catalogue, written from the property statement and
// client/API.md ("Define Task", "Updating Templates", "Delete Template"):
//   - a request answered 2xx is applied, any other answer leaves the catalogue as it was;
//   - PATCH changes only the properties that are present;
//   - a task created from / assigned to a template carries the template's script;
//   - an accepted template update rewrites the script of every task associated with it;
//   - deleting a template orphans its tasks (they keep script and template id);
//   - data written to the server (POST /kapacitor/v1/write) is not a definition request: it
//     never changes the catalogue; an execution it brings to an end with a run-time error
//     leaves the task enabled, not executing, with the error recorded (client/API.md: "error:
//     Any error encountered when executing the task") until the task is started again.

import (
	"fmt"
	"regexp"
	"sort"
	"strings"
)

type DBRP struct {
	DB string `json:"db"`
	RP string `json:"rp"`
}

// Var is a template/task variable in a JSON-stable form: T in int|float|string|bool,
// V the value as text. T "int" with a non-numeric V is the malformed-var class.
type Var struct {
	T string `json:"t"`
	V string `json:"v"`
}

type Op struct {
	K      string         `json:"k"` // create update enable disable delete tcreate tupdate tdelete restart feed bulk
	ID     string         `json:"id,omitempty"`
	NewID  string         `json:"new_id,omitempty"`
	Tmpl   string         `json:"tmpl,omitempty"`
	Script string         `json:"script,omitempty"`
	DBRPs  []DBRP         `json:"dbrps,omitempty"`
	Vars   map[string]Var `json:"vars,omitempty"`
	Status string         `json:"status,omitempty"` // "" | enabled | disabled
	// feed: DBRPs[0] is the db.rp the points are written to; N points of measurement 'boom'
	// with one and the same time, followed by one later point
	N int `json:"n,omitempty"`
	// bulk: that many plain tasks (script sStream0, dbrps db.rp) created one request each, in
	// this order
	Bulk []BulkTask `json:"bulk,omitempty"`
}

// BulkTask is one task of a bulk: its id and whether it is created disabled.
type BulkTask struct {
	ID  string `json:"id"`
	Dis bool   `json:"dis,omitempty"`
}

// bulkOps are the create requests a bulk stands for.
func (o Op) bulkOps() []Op {
	out := make([]Op, len(o.Bulk))
	for i, b := range o.Bulk {
		st := "enabled"
		if b.Dis {
			st = "disabled"
		}
		out[i] = Op{K: "create", ID: b.ID, Script: sStream0, DBRPs: []DBRP{{"db", "rp"}}, Status: st}
	}
	return out
}

func (o Op) String() string {
	if o.K == "bulk" {
		var dis []string
		for _, b := range o.Bulk {
			if b.Dis {
				dis = append(dis, b.ID)
			}
		}
		first, last := "", ""
		if len(o.Bulk) > 0 {
			first, last = o.Bulk[0].ID, o.Bulk[len(o.Bulk)-1].ID
		}
		return fmt.Sprintf("bulk: create %d plain tasks script=%s dbrps=[{db rp}] (%s .. %s), enabled except %v", len(o.Bulk), scriptName(sStream0), first, last, dis)
	}
	if o.K == "feed" && len(o.DBRPs) == 1 {
		return fmt.Sprintf("feed %s.%s: %d points of measurement 'boom' with the same time, then a later one", o.DBRPs[0].DB, o.DBRPs[0].RP, o.N)
	}
	s := o.K
	if o.ID != "" {
		s += " " + o.ID
	}
	if o.NewID != "" {
		s += " ->" + o.NewID
	}
	if o.Tmpl != "" {
		s += " tmpl=" + o.Tmpl
	}
	if o.Script != "" {
		s += " script=" + scriptName(o.Script)
	}
	if o.DBRPs != nil {
		s += fmt.Sprintf(" dbrps=%v", o.DBRPs)
	}
	if o.Vars != nil {
		s += " vars=" + fmtVars(o.Vars)
	}
	if o.Status != "" {
		s += " " + o.Status
	}
	return s
}

type mTask struct {
	ID      string
	Tmpl    string
	Script  string // raw, as accepted
	DBRPs   []DBRP
	Vars    map[string]Var
	Enabled bool
	// Assoc: the task follows updates of template Tmpl. False for plain tasks and for
	// orphans (their template was deleted since).
	Assoc bool
	// RunScript/RunDBRPs: the definition the task was last started with (client/API.md:
	// "When patching a task, no changes are made to the running task"); meaningful while
	// Enabled.
	RunScript string
	RunDBRPs  []DBRP
	// Died: the execution started last has ended with a run-time error (a feed it could not
	// process): enabled, not executing, error recorded - until the task is started again.
	Died bool
	// Patched: an accepted request changed the definition since the task was last started
	// (only for labels and the non-trivial rule)
	Patched bool
	// LooseDBRPs: the dbrps of the task are not pinned down by the documentation (a template
	// update moved the task from a script with a dbrp statement to one without).
	LooseDBRPs bool
}

type mTmpl struct {
	ID     string
	Script string
	// Batch: the type of the template, fixed by the script it was created with (an update
	// does not derive it again); only the generator's prediction looks at it
	Batch bool
}

type model struct {
	tasks map[string]*mTask
	tmpls map[string]*mTmpl
}

func newModel() *model { return &model{tasks: map[string]*mTask{}, tmpls: map[string]*mTmpl{}} }

func (m *model) clone() *model {
	c := newModel()
	for k, t := range m.tasks {
		ct := *t
		ct.DBRPs = append([]DBRP(nil), t.DBRPs...)
		ct.RunDBRPs = append([]DBRP(nil), t.RunDBRPs...)
		ct.Vars = cloneVars(t.Vars)
		c.tasks[k] = &ct
	}
	for k, t := range m.tmpls {
		ct := *t
		c.tmpls[k] = &ct
	}
	return c
}

func cloneVars(v map[string]Var) map[string]Var {
	if v == nil {
		return nil
	}
	c := make(map[string]Var, len(v))
	for k, x := range v {
		c[k] = x
	}
	return c
}

func fmtVars(v map[string]Var) string {
	ks := make([]string, 0, len(v))
	for k := range v {
		ks = append(ks, k)
	}
	sort.Strings(ks)
	parts := make([]string, 0, len(ks))
	for _, k := range ks {
		parts = append(parts, fmt.Sprintf("%s:%s=%s", k, v[k].T, v[k].V))
	}
	return "{" + strings.Join(parts, ",") + "}"
}

var dbrpStmt = regexp.MustCompile(`(?m)^dbrp "([^"]+)"\."([^"]+)"`)

// scriptDBRPs returns the dbrps a script declares itself (dbrp "db"."rp" statements).
func scriptDBRPs(script string) []DBRP {
	var out []DBRP
	for _, m := range dbrpStmt.FindAllStringSubmatch(script, -1) {
		out = append(out, DBRP{m[1], m[2]})
	}
	return out
}

// apply returns the catalogue after op, assuming the server accepted it. ok=false when
// the operation cannot be applied to this catalogue at all (unknown target, ...): an
// acceptance of such a request is then itself a finding.
func (m *model) apply(op Op) (post *model, ok bool) {
	p := m.clone()
	switch op.K {
	case "create":
		if _, dup := p.tasks[op.ID]; dup || op.ID == "" {
			return p, false
		}
		t := &mTask{ID: op.ID, Vars: cloneVars(op.Vars), Enabled: op.Status == "enabled"}
		if op.Tmpl != "" {
			tm, have := p.tmpls[op.Tmpl]
			if !have {
				return p, false
			}
			t.Tmpl, t.Script, t.Assoc = tm.ID, tm.Script, true
		} else {
			if op.Script == "" {
				return p, false
			}
			t.Script = op.Script
		}
		if t.Vars == nil {
			t.Vars = map[string]Var{}
		}
		if d := scriptDBRPs(t.Script); len(d) > 0 {
			t.DBRPs = d
		} else {
			t.DBRPs = append([]DBRP(nil), op.DBRPs...)
		}
		if t.Enabled {
			t.started()
		}
		p.tasks[t.ID] = t
	case "update", "enable", "disable":
		t, have := p.tasks[op.ID]
		if !have {
			return p, false
		}
		oldID, oldTmpl, wasEnabled := t.ID, t.Tmpl, t.Enabled
		if op.NewID != "" && op.NewID != t.ID {
			if _, dup := p.tasks[op.NewID]; dup {
				return p, false
			}
			delete(p.tasks, t.ID)
			t.ID = op.NewID
			p.tasks[t.ID] = t
		}
		if op.Tmpl != "" || t.Tmpl != "" {
			id := op.Tmpl
			if id == "" {
				id = t.Tmpl
			}
			tm, have := p.tmpls[id]
			if !have {
				return p, false
			}
			t.Tmpl, t.Script = tm.ID, tm.Script
			if oldID != t.ID || oldTmpl != t.Tmpl {
				t.Assoc = true
			}
		} else if op.Script != "" {
			t.Script = op.Script
		}
		if d := scriptDBRPs(t.Script); len(d) > 0 {
			t.DBRPs = d
			t.LooseDBRPs = false
		} else if len(op.DBRPs) > 0 {
			t.DBRPs = append([]DBRP(nil), op.DBRPs...)
			t.LooseDBRPs = false
		}
		switch {
		case op.K == "enable" || op.Status == "enabled":
			t.Enabled = true
		case op.K == "disable" || op.Status == "disabled":
			t.Enabled = false
		}
		if len(op.Vars) > 0 {
			t.Vars = cloneVars(op.Vars)
		}
		// a task is (re)started when it becomes enabled and when it is renamed while enabled
		if t.Enabled && (!wasEnabled || oldID != t.ID) {
			t.started()
		} else if t.Enabled && (t.Script != t.RunScript || !sameDBRPs(t.DBRPs, t.RunDBRPs) || len(op.Vars) > 0) {
			t.Patched = true
		}
	case "delete":
		delete(p.tasks, op.ID)
	case "bulk":
		for _, sub := range op.bulkOps() {
			q, ok := p.apply(sub)
			if !ok {
				return p, false
			}
			p = q
		}
	case "feed":
		if len(op.DBRPs) != 1 || op.N < 1 {
			return p, false
		}
		for _, id := range p.hits(op) {
			p.tasks[id].Died = true
		}
	case "tcreate":
		if _, dup := p.tmpls[op.ID]; dup || op.ID == "" || op.Script == "" {
			return p, false
		}
		p.tmpls[op.ID] = &mTmpl{ID: op.ID, Script: op.Script, Batch: strings.Contains(op.Script, "batch")}
	case "tupdate":
		tm, have := p.tmpls[op.ID]
		if !have {
			return p, false
		}
		old := *tm
		if op.NewID != "" && op.NewID != tm.ID {
			if _, dup := p.tmpls[op.NewID]; dup {
				return p, false
			}
			delete(p.tmpls, tm.ID)
			tm.ID = op.NewID
			p.tmpls[tm.ID] = tm
		}
		if op.Script != "" {
			tm.Script = op.Script
		}
		oldD, newD := scriptDBRPs(old.Script), scriptDBRPs(tm.Script)
		for _, t := range p.tasks {
			if t.Tmpl != old.ID || !t.Assoc {
				continue
			}
			t.Tmpl, t.Script = tm.ID, tm.Script
			switch {
			case len(newD) > 0:
				t.DBRPs, t.LooseDBRPs = newD, false
			case len(oldD) > 0:
				// the task had no dbrps of its own: what it has now is not documented
				// (the implementation leaves it without any; the generator's shadow
				// catalogue, which sees no responses, goes by that)
				t.DBRPs, t.LooseDBRPs = nil, true
			}
			if t.Enabled {
				// "all associated tasks are reloaded with the new template definition"
				t.started()
			}
		}
		if old.ID != tm.ID {
			// orphans of the old id stay orphans of the (now free) old id
		}
	case "tdelete":
		delete(p.tmpls, op.ID)
		for _, t := range p.tasks {
			if t.Tmpl == op.ID {
				t.Assoc = false
			}
		}
	default:
		return p, false
	}
	return p, true
}

func (t *mTask) started() {
	t.RunScript, t.RunDBRPs = t.Script, append([]DBRP(nil), t.DBRPs...)
	t.Died, t.Patched = false, false
}

// ---------------------------------------------------------------- run-time faults

// A feed is fatal for an execution of a fragile script: combine() is given more points with
// one time than .max(1) allows combinations for (3 points = 3 pairs), which the node answers
// with an error as soon as a later point arrives (combine.go: "refusing to perform
// combination as total combinations 3 exceeds max combinations 1"); a node error ends the
// execution. 1 or 2 points (0 or 1 pair) are processed.
const fragileMark = "measurement('boom')|combine(lambda: TRUE, lambda: TRUE)"

func isFragile(script string) bool { return strings.Contains(script, fragileMark) }

func (o Op) fatal() bool { return o.K == "feed" && o.N >= 3 }

// running: the model expects the task to be executing.
func (t *mTask) running() bool {
	return t.Enabled && !t.Died && startClass(t.RunScript, t.RunDBRPs) == clsStarts
}

// hitBy: the feed reaches the running execution of the task and ends it. What counts is the
// definition the execution was started with (client/API.md: "When patching a task, no changes
// are made to the running task"), not the stored one.
func (t *mTask) hitBy(op Op) bool {
	if !op.fatal() || len(op.DBRPs) != 1 || !t.running() || !isFragile(t.RunScript) {
		return false
	}
	for _, d := range t.RunDBRPs {
		if d == op.DBRPs[0] {
			return true
		}
	}
	return false
}

// hits lists the tasks whose execution the feed ends (sorted).
func (m *model) hits(op Op) []string {
	var out []string
	for _, id := range sortedKeys(m.tasks) {
		if m.tasks[id].hitBy(op) {
			out = append(out, id)
		}
	}
	return out
}

// restarted: a server start starts every enabled task with its current definition.
func (m *model) restarted() {
	for _, t := range m.tasks {
		if t.Enabled {
			t.started()
		}
	}
}

// runClass is the start class of the definition the task is running (enabled tasks).
func (t *mTask) runClass(o *observed) string {
	d := t.RunDBRPs
	if t.LooseDBRPs && o != nil {
		d = o.tasks[t.ID].DBRPs
	}
	return startClass(t.RunScript, d)
}

// wantAssoc lists the associations the catalogue implies ("template/task", sorted).
func (m *model) wantAssoc() []string {
	var out []string
	for _, t := range m.tasks {
		if t.Assoc {
			out = append(out, t.Tmpl+"/"+t.ID)
		}
	}
	sort.Strings(out)
	return out
}

// ---------------------------------------------------------------- start classes

const (
	clsStarts    = "starts"     // stream task: starting it always succeeds
	clsSyncFail  = "sync-fail"  // batch task querying a db.rp it has no grant for (StartBatching refuses); task without any dbrp
	clsAsyncFail = "async-fail" // batch task with nowhere to query (no InfluxDB cluster): starts, then dies by itself
)

var batchFrom = regexp.MustCompile(`FROM "([^"]+)"\."([^"]+)"`)

// startClass says what enabling a task with this definition does on a server without an
// InfluxDB cluster. It depends on the script alphabet of the generator only.
func startClass(script string, dbrps []DBRP) string {
	if len(dbrps) == 0 {
		// TaskMaster.StartTask: "task does contain any dbrps" (a templated task whose
		// template dropped its dbrp statement)
		return clsSyncFail
	}
	if !strings.Contains(script, "batch") {
		return clsStarts
	}
	m := batchFrom.FindStringSubmatch(script)
	if m == nil {
		return clsAsyncFail
	}
	for _, d := range dbrps {
		if d.DB == m[1] && d.RP == m[2] {
			return clsAsyncFail
		}
	}
	return clsSyncFail
}

// ---------------------------------------------------------------- observed state

type oTask struct {
	ID, Tmpl, Script string
	DBRPs            []DBRP
	Vars             map[string]Var
	Enabled          bool
	Executing        bool
	Error            string
}

func (t oTask) String() string {
	return fmt.Sprintf("[%s tmpl=%q enabled=%v executing=%v dbrps=%v vars=%s script=%s error=%q]", t.ID, t.Tmpl, t.Enabled, t.Executing, t.DBRPs, fmtVars(t.Vars), scriptName(t.Script), t.Error)
}

type observed struct {
	tasks map[string]oTask
	tmpls map[string]string // id -> raw script
	assoc []string
	// ghosts: pool ids the main TaskMaster is executing although the API shows no such task
	ghosts []string
}

type diff struct {
	kind string // task-missing task-unexpected task-<field> tmpl-missing tmpl-unexpected tmpl-script assoc-stale assoc-missing
	id   string
	msg  string
}

func (d *diff) String() string {
	if d == nil {
		return "<equal>"
	}
	return d.kind + " " + d.id + ": " + d.msg
}

func sameDBRPs(a, b []DBRP) bool {
	if len(a) != len(b) {
		return false
	}
	for i := range a {
		if a[i] != b[i] {
			return false
		}
	}
	return true
}

func sameVars(a, b map[string]Var) bool {
	if len(a) != len(b) {
		return false
	}
	for k, x := range a {
		if y, ok := b[k]; !ok || x != y {
			return false
		}
	}
	return true
}

func sortedKeys[V any](m map[string]V) []string {
	ks := make([]string, 0, len(m))
	for k := range m {
		ks = append(ks, k)
	}
	sort.Strings(ks)
	return ks
}

// compare returns the first difference between the model and what the API (and the
// association keys) show, nil if there is none. Differences are searched in a fixed
// order: task set, task fields, templates, associations.
func (m *model) compare(o *observed, withAssoc bool) *diff {
	for _, id := range sortedKeys(m.tasks) {
		if _, ok := o.tasks[id]; !ok {
			return &diff{"task-missing", id, "task is not shown by the API"}
		}
	}
	for _, id := range sortedKeys(o.tasks) {
		if _, ok := m.tasks[id]; !ok {
			t := o.tasks[id]
			return &diff{"task-unexpected", id, fmt.Sprintf("API shows a task that was not defined: %s", t)}
		}
	}
	for _, id := range sortedKeys(m.tasks) {
		w, g := m.tasks[id], o.tasks[id]
		switch {
		case g.Script != w.Script:
			return &diff{"task-script", id, fmt.Sprintf("script %s, want %s", scriptName(g.Script), scriptName(w.Script))}
		case g.Tmpl != w.Tmpl:
			return &diff{"task-template", id, fmt.Sprintf("template-id %q, want %q", g.Tmpl, w.Tmpl)}
		case !w.LooseDBRPs && !sameDBRPs(g.DBRPs, w.DBRPs):
			return &diff{"task-dbrps", id, fmt.Sprintf("dbrps %v, want %v", g.DBRPs, w.DBRPs)}
		case !sameVars(g.Vars, w.Vars):
			return &diff{"task-vars", id, fmt.Sprintf("vars %s, want %s", fmtVars(g.Vars), fmtVars(w.Vars))}
		case g.Enabled != w.Enabled:
			return &diff{"task-status", id, fmt.Sprintf("enabled=%v, want %v", g.Enabled, w.Enabled)}
		}
	}
	for _, id := range sortedKeys(m.tmpls) {
		s, ok := o.tmpls[id]
		if !ok {
			return &diff{"tmpl-missing", id, "template is not shown by the API"}
		}
		if s != m.tmpls[id].Script {
			return &diff{"tmpl-script", id, fmt.Sprintf("script %s, want %s", scriptName(s), scriptName(m.tmpls[id].Script))}
		}
	}
	for _, id := range sortedKeys(o.tmpls) {
		if _, ok := m.tmpls[id]; !ok {
			return &diff{"tmpl-unexpected", id, fmt.Sprintf("API shows a template that was not defined (script %s)", scriptName(o.tmpls[id]))}
		}
	}
	if withAssoc {
		want := m.wantAssoc()
		ws, gs := map[string]bool{}, map[string]bool{}
		for _, a := range want {
			ws[a] = true
		}
		for _, a := range o.assoc {
			gs[a] = true
		}
		for _, a := range o.assoc {
			if !ws[a] {
				return &diff{"assoc-stale", a, fmt.Sprintf("the store associates task with template (template/task %q) but the catalogue does not: associations %v, want %v", a, o.assoc, want)}
			}
		}
		for _, a := range want {
			if !gs[a] {
				return &diff{"assoc-missing", a, fmt.Sprintf("task was created from the template but the store holds no association %q: associations %v, want %v", a, o.assoc, want)}
			}
		}
	}
	return nil
}

// adoptLoose copies the observed value of every property the documentation leaves open.
func (m *model) adoptLoose(o *observed) {
	for id, t := range m.tasks {
		if g, ok := o.tasks[id]; ok && t.LooseDBRPs {
			t.DBRPs = append([]DBRP(nil), g.DBRPs...)
			t.LooseDBRPs = false
			if t.Enabled {
				t.RunDBRPs = append([]DBRP(nil), g.DBRPs...)
			}
		}
	}
}

// checkExecuting: a task is executing iff it is enabled and its start succeeded.
func (m *model) checkExecuting(o *observed) *diff {
	if len(o.ghosts) > 0 {
		return &diff{"executing-without-definition", o.ghosts[0], fmt.Sprintf("the task master executes %v but the API shows no such task (a task created under that id later is shown executing without having been started)", o.ghosts)}
	}
	for _, id := range sortedKeys(m.tasks) {
		if d := m.tasks[id].checkExecuting(o); d != nil {
			return d
		}
	}
	return nil
}

func (w *mTask) checkExecuting(o *observed) *diff {
	id := w.ID
	g := o.tasks[id]
	if !w.Enabled {
		if g.Executing {
			return &diff{"executing", id, "task is disabled but shown executing"}
		}
		return nil
	}
	if w.Died {
		if g.Executing {
			return &diff{"executing", id, fmt.Sprintf("the execution of the task (started with script %s dbrps %v) has ended with a run-time error and the task was not started again, but it is shown executing; error=%q", scriptName(w.RunScript), w.RunDBRPs, g.Error)}
		}
		if g.Error == "" {
			return &diff{"run-error-lost", id, "the execution of the task has ended with a run-time error: the task is enabled and not executing but no error is recorded"}
		}
		return nil
	}
	cls := w.runClass(o)
	switch cls {
	case clsStarts:
		if !g.Executing {
			return &diff{"executing", id, fmt.Sprintf("task is enabled, starting it succeeds (class %s, running script %s), but it is not executing; error=%q", cls, scriptName(w.RunScript), g.Error)}
		}
	default:
		if g.Executing {
			return &diff{"executing", id, fmt.Sprintf("task (class %s, last started with script %s dbrps %v) cannot have started but is shown executing", cls, scriptName(w.RunScript), w.RunDBRPs)}
		}
		if g.Error == "" {
			return &diff{"start-error-lost", id, fmt.Sprintf("task (class %s) is enabled and not executing but no error is recorded", cls)}
		}
	}
	return nil
}
