package c14

import (
	"fmt"
	"os"
	"path/filepath"
	"runtime"
	"runtime/debug"
	"testing"
	"time"
)

func TestMain(m *testing.M) {
	// the live heap of a case is a few MB while every request compiles pipelines through
	// reflection: with the default GC target a third of the CPU goes into collections
	debug.SetGCPercent(1000)
	// case directories of processes that were killed (time-out) are not left behind for ever
	if old, _ := filepath.Glob(filepath.Join(scratchBase(), "verif-c14-*")); len(old) > 0 {
		for _, d := range old {
			if st, err := os.Stat(d); err == nil && time.Since(st.ModTime()) > 2*time.Hour {
				os.RemoveAll(d)
			}
		}
	}
	rc := m.Run()
	if os.Getenv("C14_MEMSTATS") != "" {
		var ms runtime.MemStats
		runtime.GC()
		runtime.ReadMemStats(&ms)
		fmt.Fprintf(os.Stderr, "goroutines=%d heapAlloc=%dMB heapObjects=%d numGC=%d\n", runtime.NumGoroutine(), ms.HeapAlloc>>20, ms.HeapObjects, ms.NumGC)
	}
	os.Exit(rc)
}
