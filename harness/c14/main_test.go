package c14

import (
	"fmt"
	"os"
	"runtime"
	"runtime/debug"
	"testing"
)

func TestMain(m *testing.M) {
	// the live heap of a case is a few MB while every request compiles pipelines through
	// reflection: with the default GC target a third of the CPU goes into collections
	debug.SetGCPercent(1000)
	rc := m.Run()
	if os.Getenv("C14_MEMSTATS") != "" {
		var ms runtime.MemStats
		runtime.GC()
		runtime.ReadMemStats(&ms)
		fmt.Fprintf(os.Stderr, "goroutines=%d heapAlloc=%dMB heapObjects=%d numGC=%d\n", runtime.NumGoroutine(), ms.HeapAlloc>>20, ms.HeapObjects, ms.NumGC)
	}
	os.Exit(rc)
}
