package c14

// Generator of operation histories. All data of a history is drawn into the Case; a
// shadow catalogue (the model, advanced with a prediction of the server's answer) steers
// the draws towards existing ids and lets the generator recognise - and avoid by
// construction - the input classes of known defects. The prediction is never used as
// an oracle.
//
// Input classes: requests drawn one by one (drawOp), a scenario prefix (a template with 0-3
// tasks), a steered tail "rename / template update of an enabled task, then restart", and a
// steered tail "run-time fault": an enabled task running a fragile script (created, or an
// existing plain task made so), 0-2 accepted-looking updates that leave id and status alone
// (script, dbrps, vars: the stored definition moves away from the running one), a fatal
// feed on a db.rp the RUNNING execution listens on, 0-2 more requests. Feeds are also drawn
// anywhere by drawOp (db.rp steered to a running fragile execution or any of the pool;
// 1-4 points with one time: 1-2 are processed, 3-4 are fatal). Rarely (3 % of the Catalogue
// histories, none of the Crash histories: it is slow) a "bulk" follows the scenario prefix:
// 95-125 further plain tasks - or exactly as many as make 99 / 100 / 101 / 200 / 201 tasks -
// with ids that sort before, between and after the pool ids, a few of them disabled at
// generated positions of the id order, then 0-3 disable / enable / delete requests to bulk
// tasks; the usual requests, tails and restarts follow on a catalogue of more than one page.

import (
	"fmt"
	"os"
	"regexp"
	"sort"
	"strings"

	"verifharness/kit"

	"pgregory.net/rapid"
)

var varDecl = regexp.MustCompile(`(?m)^var (\w+) (int|float|string|bool)$`)

// requiredVars: the typed declarations without a value of a script.
func requiredVars(script string) map[string]string {
	out := map[string]string{}
	for _, m := range varDecl.FindAllStringSubmatch(script, -1) {
		out[m[1]] = m[2]
	}
	return out
}

func varsConvertible(vs map[string]Var) bool {
	for _, v := range vs {
		if v.T == "bool" && v.V != "true" && v.V != "false" {
			return false
		}
	}
	return true
}

func varsFit(script string, vs map[string]Var) bool {
	for name, typ := range requiredVars(script) {
		v, ok := vs[name]
		if !ok || v.T != typ {
			return false
		}
	}
	return true
}

func isBadScript(s string) bool {
	for _, b := range badScripts {
		if s == b {
			return true
		}
	}
	return false
}

// prediction of the server's answer to op on catalogue m.
type prediction struct {
	accept bool
	// why a request is predicted to be rejected *after* the handler already wrote to the
	// store (the input classes of the known defects); "" otherwise
	late string
	// input class of a known defect that does not need a rejection
	known string
}

func predict(m *model, op Op) prediction {
	rej := prediction{}
	switch op.K {
	case "create":
		if op.ID == badTaskID || op.ID == "" {
			return rej
		}
		if _, dup := m.tasks[op.ID]; dup {
			return rej
		}
		script := op.Script
		late := ""
		if op.Tmpl != "" {
			tm, ok := m.tmpls[op.Tmpl]
			if !ok {
				return rej
			}
			script = tm.Script
			late = "create-from-template-rejected"
		} else if script == "" || isBadScript(script) {
			return rej
		}
		if !varsConvertible(op.Vars) || !varsFit(script, op.Vars) || (len(scriptDBRPs(script)) > 0) == (len(op.DBRPs) > 0) || script == sNoSrc {
			return prediction{late: late}
		}
		return prediction{accept: true}
	case "update", "enable", "disable":
		t, ok := m.tasks[op.ID]
		if !ok {
			return rej
		}
		late := ""
		script := t.Script
		if op.Tmpl != "" || t.Tmpl != "" {
			id := op.Tmpl
			if id == "" {
				id = t.Tmpl
			}
			tm, ok := m.tmpls[id]
			if !ok {
				return rej
			}
			script = tm.Script
			if (op.NewID != "" && op.NewID != t.ID) || id != t.Tmpl {
				late = "association-moved-by-rejected-update"
			}
		} else if op.Script != "" {
			if isBadScript(op.Script) {
				return rej
			}
			if len(scriptDBRPs(t.Script)) > 0 && len(scriptDBRPs(op.Script)) == 0 && len(op.DBRPs) == 0 {
				return rej
			}
			script = op.Script
		}
		if (len(scriptDBRPs(script)) > 0 && len(op.DBRPs) > 0) || script == sNoSrc {
			return prediction{late: late}
		}
		vs := t.Vars
		if len(op.Vars) > 0 {
			vs = op.Vars
		}
		if !varsConvertible(op.Vars) || !varsFit(script, vs) {
			return prediction{late: late}
		}
		if op.NewID != "" && op.NewID != t.ID {
			if _, dup := m.tasks[op.NewID]; dup {
				return prediction{late: late}
			}
		} else if op.Tmpl != "" && op.Tmpl != t.Tmpl {
			return prediction{accept: true, known: "template-changed-without-rename"}
		}
		return prediction{accept: true}
	case "delete", "tdelete", "feed", "bulk":
		return prediction{accept: true}
	case "tcreate":
		if op.ID == badTmplID || op.ID == "" || op.Script == "" || isBadScript(op.Script) {
			return rej
		}
		if _, dup := m.tmpls[op.ID]; dup {
			return rej
		}
		return prediction{accept: true}
	case "tupdate":
		tm, ok := m.tmpls[op.ID]
		if !ok {
			return rej
		}
		script := tm.Script
		if op.Script != "" {
			// (a script without stream/batch source passes the validation of a template
			// update - the template keeps its type - but no task can run it)
			if isBadScript(op.Script) && op.Script != sNoSrc {
				return rej
			}
			// (the type of a template is not derived from the new script: a stream
			// template cannot take a batch script and vice versa)
			if op.Script != sNoSrc && strings.Contains(op.Script, "batch") != tm.Batch {
				return rej
			}
			script = op.Script
		}
		if op.NewID != "" && op.NewID != tm.ID {
			if _, dup := m.tmpls[op.NewID]; dup {
				return rej
			}
		}
		for _, t := range m.tasks {
			if t.Tmpl == tm.ID && t.Assoc && t.Enabled {
				d := t.DBRPs
				if sd := scriptDBRPs(script); len(sd) > 0 {
					d = sd
				}
				// (a task moved from a script with a dbrp statement to one without is left
				// without any dbrp and cannot start)
				noDBRP := len(scriptDBRPs(script)) == 0 && len(scriptDBRPs(tm.Script)) > 0
				if !varsFit(script, t.Vars) || startClass(script, d) == clsSyncFail || noDBRP || script == sNoSrc {
					return prediction{late: "template-update-rolled-back"}
				}
			}
		}
		return prediction{accept: true}
	}
	return rej
}

// Input classes of the genuine defects found by this check (witnesses under replays/C14,
// entries in known_findings_C14.final.json). true = the generator does not draw the class
// (counted with Rec.Exclude) so that the search goes on behind the defect; false = the
// defect is fixed in /repo, the class is generated again (and can be switched off with
// VERIF_C14_EXCLUDE for a run against an older tree).
var excludedCatalogue = map[string]bool{
	// POST /tasks with template-id that is rejected after handleCreateTask had already
	// written the template->task association; fixed by 28815ba
	"create-from-template-rejected": false,
	// PATCH /tasks/ID with another template-id and no id change: accepted, the association
	// was never moved; fixed by e62cd16
	"template-changed-without-rename": false,
	// PATCH /tasks/ID renaming / re-assigning a templated task that is rejected after the
	// association was moved; fixed by e62cd16
	"association-moved-by-rejected-update": false,
	// PATCH /templates/ID rejected because an enabled associated task does not start: the
	// tasks were rolled back, the template was not; fixed by 1a608f2
	"template-update-rolled-back": false,
	// an enabled batch task with a grant but no InfluxDB cluster starts and ends by itself;
	// whether kapacitor notices is a race (race_test.go): not decidable deterministically
	"batch-task-that-dies-by-itself": true,
}

func envList(name string) (all bool, set map[string]bool) {
	set = map[string]bool{}
	for _, c := range strings.Split(os.Getenv(name), ",") {
		if c == "all" {
			all = true
		} else if c != "" {
			set[c] = true
		}
	}
	return
}

// isExcluded: the default of the table, overridden per run by VERIF_C14_EXCLUDE and
// VERIF_C14_INCLUDE (comma separated class names, or "all"); INCLUDE wins.
func isExcluded(table map[string]bool, class string) bool {
	def, known := table[class]
	if !known {
		return false
	}
	if all, set := envList("VERIF_C14_INCLUDE"); all || set[class] {
		return false
	}
	if all, set := envList("VERIF_C14_EXCLUDE"); all || set[class] {
		return true
	}
	return def
}

func pick[T any](t *rapid.T, label string, xs []T) T { return rapid.SampledFrom(xs).Draw(t, label) }

// often is true with probability pct/100 and true on the minimal draw; rare is true with
// probability pct/100 and false on the minimal draw (so that shrinking moves towards the
// plain, valid variant of everything).
func often(t *rapid.T, label string, pct int) bool {
	return rapid.IntRange(0, 99).Draw(t, label) < pct
}

func rare(t *rapid.T, label string, pct int) bool {
	return rapid.IntRange(0, 99).Draw(t, label) >= 100-pct
}

// drawID draws an id of a pool: with probability pct/100 one for which want(id) holds
// (e.g. "exists in the shadow catalogue"), else any id of the pool incl. the invalid one.
func drawID(t *rapid.T, label string, pool []string, bad string, pct int, want func(string) bool) string {
	var good []string
	for _, id := range pool {
		if want(id) {
			good = append(good, id)
		}
	}
	if len(good) > 0 && often(t, label+"-steer", pct) {
		return pick(t, label, good)
	}
	if rare(t, label+"-bad", 6) {
		return bad
	}
	return pick(t, label, pool)
}

func existingTask(sh *model) func(string) bool {
	return func(id string) bool { _, ok := sh.tasks[id]; return ok }
}
func freeTask(sh *model) func(string) bool {
	return func(id string) bool { _, ok := sh.tasks[id]; return !ok }
}
func existingTmpl(sh *model) func(string) bool {
	return func(id string) bool { _, ok := sh.tmpls[id]; return ok }
}
func freeTmpl(sh *model) func(string) bool {
	return func(id string) bool { _, ok := sh.tmpls[id]; return !ok }
}

// the shadow may hold ids outside the pools (renames to the invalid id are accepted)
func taskPool(sh *model) []string {
	if _, ok := sh.tasks[badTaskID]; ok {
		return allTaskIDs
	}
	return taskIDs
}
func tmplPool(sh *model) []string {
	if _, ok := sh.tmpls[badTmplID]; ok {
		return allTmplIDs
	}
	return tmplIDs
}

func drawVars(t *rapid.T, templated bool) map[string]Var {
	if !templated {
		if often(t, "plain-vars", 85) {
			return nil
		}
		return pick(t, "vars", varPool)
	}
	switch k := rapid.IntRange(0, 9).Draw(t, "varset"); {
	case k < 5:
		return vInt
	case k < 6:
		return vFloat
	case k < 7:
		return vExtra
	case k < 8:
		return vMissing
	case k < 9:
		return vBad
	}
	return nil
}

func drawPlainScript(t *rapid.T, r *kit.Rec) string {
	switch k := rapid.IntRange(0, 19).Draw(t, "scriptkind"); {
	case k < 9:
		return pick(t, "stream", []string{sStream0, sStream1, sFragile, sFragile2})
	case k < 11:
		return sStreamD
	case k < 13:
		return sBatchOt
	case k < 15:
		// a batch task that has a grant but nowhere to query starts and then dies by
		// itself; whether kapacitor notices is a race (see TestAsyncBatchDeathRace)
		if isExcluded(excludedCatalogue, "batch-task-that-dies-by-itself") {
			r.Exclude("batch-task-that-dies-by-itself")
			return sBatchOt
		}
		return sBatchDB
	case k < 18:
		return pick(t, "bad", badScripts)
	}
	return ""
}

func drawTmplScript(t *rapid.T) string {
	switch k := rapid.IntRange(0, 19).Draw(t, "tscriptkind"); {
	case k < 6:
		return tIntTh
	case k < 8:
		return tWindow
	case k < 10:
		return tFragile
	case k < 12:
		return tFloatTh
	case k < 14:
		return tExtra
	case k < 16:
		return tDBRP
	case k < 17:
		return tBatchOt
	case k < 19:
		return pick(t, "bad", badScripts)
	}
	return ""
}

func drawDBRPs(t *rapid.T, script string) []DBRP {
	has := len(scriptDBRPs(script)) > 0
	if rare(t, "dbrp-wrong", 8) {
		has = !has
	}
	if has {
		return nil
	}
	return pick(t, "dbrps", dbrpPool)
}

func drawStatus(t *rapid.T) string {
	return pick(t, "status", []string{"enabled", "enabled", "disabled", ""})
}

func drawCreate(t *rapid.T, r *kit.Rec, sh *model) Op {
	op := Op{K: "create", ID: drawID(t, "id", taskIDs, badTaskID, 85, freeTask(sh)), Status: drawStatus(t)}
	if rare(t, "from-template", 40) {
		op.Tmpl = drawID(t, "tmpl", tmplPool(sh), badTmplID, 90, existingTmpl(sh))
		script := ""
		if tm, ok := sh.tmpls[op.Tmpl]; ok {
			script = tm.Script
		}
		op.Vars = drawVars(t, true)
		op.DBRPs = drawDBRPs(t, script)
		return op
	}
	op.Script = drawPlainScript(t, r)
	op.Vars = drawVars(t, false)
	op.DBRPs = drawDBRPs(t, op.Script)
	return op
}

func drawUpdate(t *rapid.T, r *kit.Rec, sh *model) Op {
	op := Op{K: "update", ID: drawID(t, "id", taskPool(sh), badTaskID, 90, existingTask(sh))}
	cur, exists := sh.tasks[op.ID]
	templated := exists && cur.Tmpl != ""
	if rare(t, "u-id", 25) {
		op.NewID = drawID(t, "newid", taskIDs, badTaskID, 75, freeTask(sh))
	}
	if rare(t, "u-tmpl", 15) {
		op.Tmpl = drawID(t, "tmpl", tmplPool(sh), badTmplID, 85, existingTmpl(sh))
		templated = true
	}
	if rare(t, "u-script", 30) {
		op.Script = drawPlainScript(t, r)
	}
	if rare(t, "u-dbrps", 20) {
		op.DBRPs = pick(t, "dbrps", dbrpPool)
	}
	if rare(t, "u-vars", 25) {
		op.Vars = drawVars(t, templated)
	}
	if rare(t, "u-status", 30) {
		op.Status = pick(t, "status", []string{"enabled", "disabled"})
	}
	return op
}

func drawTUpdate(t *rapid.T, sh *model) Op {
	op := Op{K: "tupdate", ID: drawID(t, "id", tmplPool(sh), badTmplID, 90, existingTmpl(sh))}
	if rare(t, "tu-id", 20) {
		op.NewID = drawID(t, "newid", tmplIDs, badTmplID, 75, freeTmpl(sh))
	}
	if op.NewID == "" || often(t, "tu-script", 70) {
		op.Script = drawTmplScript(t)
	}
	return op
}

// fragileRunning lists the tasks of the shadow catalogue whose running execution a fatal feed
// can end (sorted).
func fragileRunning(sh *model) []string {
	var out []string
	for _, id := range sortedKeys(sh.tasks) {
		if tk := sh.tasks[id]; tk.running() && isFragile(tk.RunScript) {
			out = append(out, id)
		}
	}
	return out
}

// drawFeed: points written to a db.rp - mostly the one a running fragile execution listens
// on, mostly more points with one time than it accepts; also feeds nobody listens to and
// feeds that are processed.
func drawFeed(t *rapid.T, sh *model) Op {
	op := Op{K: "feed", N: pick(t, "feed-n", []int{3, 3, 4, 3, 2, 1})}
	if ids := fragileRunning(sh); len(ids) > 0 && often(t, "feed-steer", 85) {
		op.DBRPs = []DBRP{pick(t, "feed-dbrp", sh.tasks[pick(t, "feed-task", ids)].RunDBRPs)}
	} else {
		op.DBRPs = []DBRP{pick(t, "feed-dbrp", feedPool)}
	}
	return op
}

func drawOp(t *rapid.T, r *kit.Rec, sh *model) Op {
	switch k := rapid.IntRange(0, 29).Draw(t, "op"); {
	case k >= 28:
		return drawFeed(t, sh)
	case k < 5:
		return drawCreate(t, r, sh)
	case k < 11:
		return drawUpdate(t, r, sh)
	case k < 13:
		return Op{K: "enable", ID: drawID(t, "id", taskPool(sh), badTaskID, 90, existingTask(sh))}
	case k < 15:
		return Op{K: "disable", ID: drawID(t, "id", taskPool(sh), badTaskID, 90, existingTask(sh))}
	case k < 17:
		return Op{K: "delete", ID: drawID(t, "id", taskPool(sh), badTaskID, 85, existingTask(sh))}
	case k < 19:
		return Op{K: "tcreate", ID: drawID(t, "id", tmplIDs, badTmplID, 85, freeTmpl(sh)), Script: drawTmplScript(t)}
	case k < 24:
		return drawTUpdate(t, sh)
	case k < 25:
		return Op{K: "tdelete", ID: drawID(t, "id", tmplPool(sh), badTmplID, 85, existingTmpl(sh))}
	}
	return Op{K: "restart"}
}

// scenario: a template with 0-3 tasks created from it (the population a template update
// works on), drawn like everything else.
func drawScenario(t *rapid.T) []Op {
	tid := pick(t, "sc-tmpl", tmplIDs)
	script := pick(t, "sc-script", []string{tIntTh, tIntTh, tWindow, tDBRP, tFragile})
	ops := []Op{{K: "tcreate", ID: tid, Script: script}}
	n := rapid.IntRange(0, 3).Draw(t, "sc-tasks")
	ids := rapid.Permutation(taskIDs).Draw(t, "sc-ids")
	for i := 0; i < n; i++ {
		op := Op{K: "create", ID: ids[i], Tmpl: tid, Status: drawStatus(t)}
		op.Vars = pick(t, "sc-vars", []map[string]Var{vInt, vInt, vExtra, vFloat})
		if len(scriptDBRPs(script)) == 0 {
			op.DBRPs = pick(t, "dbrps", dbrpPool)
		}
		ops = append(ops, op)
	}
	// a second template whose id is a string prefix or extension of the first (associations
	// are found by a key-prefix scan), with tasks of its own
	if often(t, "sc-second", 50) {
		var rel []string
		for _, id := range tmplIDs {
			if id != tid && (strings.HasPrefix(id, tid) || strings.HasPrefix(tid, id)) {
				rel = append(rel, id)
			}
		}
		if len(rel) > 0 {
			tid2 := pick(t, "sc-tmpl2", rel)
			script2 := pick(t, "sc-script2", []string{tIntTh, tWindow, tDBRP})
			ops = append(ops, Op{K: "tcreate", ID: tid2, Script: script2})
			for i, m := n, rapid.IntRange(1, 2).Draw(t, "sc-tasks2"); i < n+m && i < len(ids); i++ {
				op := Op{K: "create", ID: ids[i], Tmpl: tid2, Status: drawStatus(t), Vars: vInt}
				if len(scriptDBRPs(script2)) == 0 {
					op.DBRPs = pick(t, "dbrps", dbrpPool)
				}
				ops = append(ops, op)
			}
		}
	}
	return ops
}

// advance moves the shadow catalogue by the predicted answer.
func advance(sh *model, op Op) *model {
	if op.K == "restart" {
		return sh
	}
	if p := predict(sh, op); p.accept {
		if post, ok := sh.apply(op); ok {
			return post
		}
	}
	return sh
}

const maxSteps = 20

func genHistory(t *rapid.T, r *kit.Rec, excluded map[string]bool, n int, restarts bool) ([]Op, *model) {
	sh := newModel()
	var ops []Op
	push := func(op Op) bool {
		if op.K == "restart" && !restarts {
			return false
		}
		if op.K != "restart" {
			p := predict(sh, op)
			if !p.accept && p.late != "" && isExcluded(excluded, p.late) {
				r.Exclude(p.late)
				return false
			}
			if p.known != "" && isExcluded(excluded, p.known) {
				r.Exclude(p.known)
				return false
			}
		}
		ops = append(ops, op)
		sh = advance(sh, op)
		return true
	}
	if rare(t, "scenario", 60) {
		for _, op := range drawScenario(t) {
			push(op)
		}
	}
	// rarely (it is slow): a catalogue that does not fit into one page of 100 tasks - the
	// server lists its tasks in pages when it starts them, and so does every client
	if restarts && rare(t, "bulk", 3) {
		bulk := drawBulk(t, sh)
		push(bulk)
		for i, k := 0, pick(t, "bulk-tweaks", []int{0, 1, 2, 3}); i < k; i++ {
			push(Op{K: pick(t, "bulk-tweak", []string{"disable", "delete", "enable", "disable"}), ID: pick(t, "bulk-tweak-id", bulk.Bulk).ID})
		}
	}
	for tries := 0; len(ops) < n && tries < 4*maxSteps; tries++ {
		push(drawOp(t, r, sh))
	}
	// the situation the non-trivial rule names: a rename or a template update of an
	// enabled task, then a restart
	if restarts && rare(t, "tail", 45) {
		var enabled, tmpls []string
		for _, id := range sortedKeys(sh.tasks) {
			if tk := sh.tasks[id]; tk.Enabled {
				enabled = append(enabled, id)
				if _, ok := sh.tmpls[tk.Tmpl]; ok && tk.Assoc {
					tmpls = append(tmpls, tk.Tmpl)
				}
			}
		}
		pushed := false
		if len(tmpls) > 0 && often(t, "tail-template", 60) {
			pushed = push(Op{K: "tupdate", ID: pick(t, "tail-tmpl", tmpls), Script: pick(t, "tail-script", []string{tWindow, tIntTh, tExtra, tFloatTh})})
		} else if len(enabled) > 0 {
			pushed = push(Op{K: "update", ID: pick(t, "tail-id", enabled), NewID: drawID(t, "tail-newid", taskIDs, badTaskID, 90, freeTask(sh))})
		}
		if pushed {
			if rare(t, "tail-more", 30) {
				push(drawOp(t, r, sh))
			}
			push(Op{K: "restart"})
		}
	}
	// run-time fault: the execution of an enabled task ends with a node error, typically after
	// an accepted request has changed the stored definition without starting the task again
	if rare(t, "fault-tail", 30) {
		ids := fragileRunning(sh)
		if len(ids) == 0 {
			// a task whose execution can be ended: created enabled, or an existing task made so
			if free := freeIDs(sh); len(free) > 0 && often(t, "ft-create", 70) {
				push(Op{K: "create", ID: pick(t, "ft-id", free), Script: pick(t, "ft-script", []string{sFragile, sFragile2}),
					DBRPs: pick(t, "ft-dbrps", dbrpPool), Status: "enabled"})
			} else if plain := plainTasks(sh); len(plain) > 0 {
				id := pick(t, "ft-id", plain)
				op := Op{K: "update", ID: id, Script: pick(t, "ft-script", []string{sFragile, sFragile2}), Status: "enabled"}
				if len(sh.tasks[id].DBRPs) == 0 || len(scriptDBRPs(sh.tasks[id].Script)) > 0 {
					op.DBRPs = pick(t, "ft-dbrps", dbrpPool)
				}
				if sh.tasks[id].Enabled {
					push(Op{K: "disable", ID: id})
				}
				push(op)
			}
			ids = fragileRunning(sh)
		}
		if len(ids) > 0 {
			id := pick(t, "ft-target", ids)
			for i, n := 0, pick(t, "ft-patches", []int{1, 1, 2, 0}); i < n; i++ {
				push(drawPatch(t, r, sh, id))
			}
			if tk, ok := sh.tasks[id]; ok && len(tk.RunDBRPs) > 0 {
				push(Op{K: "feed", N: pick(t, "ft-n", []int{3, 4}), DBRPs: []DBRP{pick(t, "ft-dbrp", tk.RunDBRPs)}})
			}
			for i, n := 0, pick(t, "ft-more", []int{0, 0, 1, 2}); i < n; i++ {
				push(drawOp(t, r, sh))
			}
		}
	}
	return ops, sh
}

// bulkPrefixes: with a three digit number appended, ids that sort before, between and after
// the ids of the pool ("bad id!" < "t" < "t1" < "t1_b" < "t2" in byte order).
var bulkPrefixes = []string{"a", "t0", "t1a", "t1_c", "u", "B"}

// drawBulk: 95-125 additional plain tasks (sometimes exactly as many as make the catalogue
// 99 / 100 / 101 / 200 / 201 tasks), mostly enabled, a few disabled at generated positions of
// the id order; created in an order that is not the id order.
func drawBulk(t *rapid.T, sh *model) Op {
	have := len(sh.tasks)
	var n int
	switch k := rapid.IntRange(0, 11).Draw(t, "bulk-size"); {
	case k < 6:
		n = rapid.IntRange(95, 125).Draw(t, "bulk-n")
	case k < 7:
		n = 99 - have
	case k < 9:
		n = 100 - have
	case k < 11:
		n = 101 - have
	default:
		n = pick(t, "bulk-n2", []int{200, 201}) - have
	}
	ids := make([]string, n)
	for i := range ids {
		ids[i] = fmt.Sprintf("%s%03d", pick(t, "bulk-prefix", bulkPrefixes), i)
	}
	sorted := append([]string(nil), ids...)
	sort.Strings(sorted)
	dis := map[string]bool{}
	for i, k := 0, pick(t, "bulk-disabled", []int{1, 2, 1, 3, 0, 6}); i < k; i++ {
		dis[sorted[rapid.IntRange(0, n-1).Draw(t, "bulk-dis-pos")]] = true
	}
	op := Op{K: "bulk", Bulk: make([]BulkTask, n)}
	for i, id := range ids {
		op.Bulk[i] = BulkTask{ID: id, Dis: dis[id]}
	}
	return op
}

func freeIDs(sh *model) []string {
	var out []string
	for _, id := range taskIDs {
		if _, ok := sh.tasks[id]; !ok {
			out = append(out, id)
		}
	}
	return out
}

func plainTasks(sh *model) []string {
	var out []string
	for _, id := range sortedKeys(sh.tasks) {
		if sh.tasks[id].Tmpl == "" && id != badTaskID {
			out = append(out, id)
		}
	}
	return out
}

// drawPatch: an update of task id that leaves id and status alone, i.e. one that changes
// the stored definition and not the running task.
func drawPatch(t *rapid.T, r *kit.Rec, sh *model, id string) Op {
	op := Op{K: "update", ID: id}
	cur := sh.tasks[id]
	templated := cur != nil && cur.Tmpl != ""
	switch k := rapid.IntRange(0, 9).Draw(t, "patch"); {
	case k < 4 && !templated:
		op.Script = pick(t, "patch-script", []string{sStream0, sStream1, sFragile, sFragile2, sStreamD})
		if cur != nil && len(scriptDBRPs(cur.Script)) > 0 && len(scriptDBRPs(op.Script)) == 0 {
			op.DBRPs = pick(t, "dbrps", dbrpPool)
		}
	case k < 7:
		op.DBRPs = pick(t, "dbrps", dbrpPool)
	case k < 9:
		if templated {
			op.Vars = pick(t, "patch-vars", []map[string]Var{vInt, vExtra})
		} else {
			op.Vars = pick(t, "patch-vars", []map[string]Var{vInt, vFloat, vExtra})
		}
	default:
		// anything an update can ask for
		op = drawUpdate(t, r, sh)
		op.ID = id
	}
	return op
}

func genCatalogue(r *kit.Rec) func(t *rapid.T) Case {
	return func(t *rapid.T) Case {
		n := rapid.IntRange(1, maxSteps).Draw(t, "n")
		ops, _ := genHistory(t, r, excludedCatalogue, n, true)
		return Case{Ops: ops}
	}
}
