package c14

// Unit Crash - restart from the storage file at every transaction boundary of a request.
//
// task_store.Service.StorageService is replaced (between server.New and Open) by a
// wrapper that reports every committed Update of the task_store namespace. While the last
// request of a generated history is being served, the Bolt file is copied after each of
// those commits (the copy runs on the committing goroutine, between two transactions, so
// it is exactly the file a crash at that boundary leaves behind; torn writes are out of
// scope). Afterwards a NEW server is opened on EVERY copy and must show the catalogue
// from before the request or the one after it, internally consistent, with every enabled
// task executing again.

import (
	"fmt"
	"os"
	"path/filepath"
	"strings"
	"testing"

	"verifharness/kit"

	"pgregory.net/rapid"
)

const crashRule = "rapid: history of <= 12 task/template API requests followed by one target request; the Bolt file is copied after every " +
	"committed task_store transaction of the target request and a new server is opened on every copy (all boundaries enumerated); " +
	"non-trivial = the target request committed >= 2 transactions; distinct by case hash"

// classifyCrash names the way a recovered catalogue differs from both the pre-request
// and the post-request catalogue.
func classifyCrash(op Op, pre, post *model, o *observed, dPre, dPost *diff) string {
	// what the API shows is one of the two catalogues and only the association keys differ
	if pre.compare(o, false) == nil {
		return "pre-request-catalogue-with-" + dPre.kind
	}
	if post.compare(o, false) == nil {
		return "post-request-catalogue-with-" + dPost.kind
	}
	switch op.K {
	case "update":
		if op.NewID != "" && op.NewID != op.ID {
			_, hasOld := o.tasks[op.ID]
			_, hasNew := o.tasks[op.NewID]
			switch {
			case hasOld && hasNew:
				return "task-under-both-ids"
			case !hasOld && !hasNew:
				return "task-under-neither-id"
			}
		}
	case "tupdate":
		changed, kept := 0, 0
		for _, t := range pre.tasks {
			if t.Tmpl != op.ID || !t.Assoc {
				continue
			}
			g, ok := o.tasks[t.ID]
			w := post.tasks[t.ID]
			if !ok || w == nil {
				continue
			}
			if g.Script == w.Script && g.Tmpl == w.Tmpl {
				changed++
			} else {
				kept++
			}
		}
		_, hasOld := o.tmpls[op.ID]
		_, hasNew := o.tmpls[op.NewID]
		switch {
		case changed > 0 && kept > 0:
			return "some-tasks-changed-others-not"
		case op.NewID != "" && op.NewID != op.ID && hasOld && hasNew:
			return "template-under-both-ids"
		case kept > 0 && changed == 0 && dPre != nil && (dPre.kind == "tmpl-script" || dPre.kind == "tmpl-missing" || dPre.kind == "tmpl-unexpected"):
			return "template-changed-tasks-not"
		}
	}
	k := func(d *diff) string {
		if d == nil {
			return "equal"
		}
		return d.kind
	}
	return "vs-pre:" + k(dPre) + ",vs-post:" + k(dPost)
}

func runCrash(c Case, cc *kit.Case) {
	if len(c.Ops) == 0 {
		return
	}
	dir, err := caseDir()
	if err != nil {
		cc.Fail("harness/tempdir", "%v", err)
		return
	}
	defer os.RemoveAll(dir)
	r := &runner{cc: cc, dir: filepath.Join(dir, "live"), m: newModel(), quiet: true}
	if !r.start() {
		return
	}
	defer func() { r.v.close() }()
	n := len(c.Ops)
	for i, op := range c.Ops[:n-1] {
		if !r.step(i, op) {
			return
		}
	}
	target := c.Ops[n-1]
	if target.K == "restart" || target.K == "feed" {
		// (a feed is no request to the catalogue; the error of an execution it ends is recorded
		// asynchronously, after the write was answered)
		return
	}
	pre := r.m.clone()

	// snapshot after every commit while the target request is served
	var snaps []string
	var snapErr error
	r.aroundSend = func(before bool) {
		if !before {
			r.v.snap.hook = nil
			return
		}
		r.v.snap.hook = func() {
			p := filepath.Join(dir, fmt.Sprintf("snap-%d.db", len(snaps)))
			if err := copyFile(boltPath(r.dir), p); err != nil && snapErr == nil {
				snapErr = err
			}
			snaps = append(snaps, p)
		}
	}
	ok := r.step(n-1, target)
	r.aroundSend = nil
	if snapErr != nil {
		cc.Fail("harness/snapshot", "copying the Bolt file: %v", snapErr)
		return
	}
	if !ok {
		return
	}
	post := r.m.clone()
	r.v.close()

	kind := sigKind(target)
	verdict := "rejected"
	if r.accepted {
		verdict = "accepted"
	}
	r.label(fmt.Sprintf("target %s %s: %d transactions", kind, verdict, min(len(snaps), 6)))
	if len(snaps) >= 2 {
		cc.NonTrivial()
	}
	preR, postR := pre.clone(), post.clone()
	preR.restarted()
	postR.restarted()
	// enumerate every boundary; the failure reported is the gravest one, the message
	// lists them all
	type bad struct {
		boundary   int
		class, msg string
	}
	var bads []bad
	for i, snap := range snaps {
		cdir := filepath.Join(dir, fmt.Sprintf("crash-%d", i))
		if err := os.MkdirAll(cdir, 0o755); err != nil {
			cc.Fail("harness/tempdir", "%v", err)
			return
		}
		if err := copyFile(snap, boltPath(cdir)); err != nil {
			cc.Fail("harness/snapshot", "%v", err)
			return
		}
		v, err := startServer(cdir)
		if err != nil {
			bads = append(bads, bad{i + 1, "server-does-not-open", err.Error()})
			continue
		}
		o, err := observeQuiet(v, nil, preR, postR)
		v.close()
		os.RemoveAll(cdir)
		if err != nil {
			bads = append(bads, bad{i + 1, obsSig(err), err.Error()})
			continue
		}
		dPre, dPost := preR.compare(o, true), postR.compare(o, true)
		var m *model
		switch {
		case dPost == nil:
			m = postR
			if i < len(snaps)-1 {
				r.label("boundary shows the post-request catalogue")
			}
		case dPre == nil:
			m = preR
			r.label("boundary shows the pre-request catalogue")
		default:
			// "partial/...": the request is not atomic across a crash (one known-finding key
			// per request kind: crash/<kind>/partial/*)
			bads = append(bads, bad{i + 1, "partial/" + classifyCrash(target, preR, postR, o, dPre, dPost),
				fmt.Sprintf("the catalogue is neither the one before the request (%s) nor the one after it (%s)\n    observed: %s", dPre, dPost, fmtObserved(o))})
			continue
		}
		if i == len(snaps)-1 && dPost != nil {
			bads = append(bads, bad{i + 1, "last-boundary-not-post", fmt.Sprintf("the storage file after the last transaction does not hold the post-request catalogue: %s", dPost)})
			continue
		}
		if d := m.checkExecuting(o); d != nil {
			bads = append(bads, bad{i + 1, d.kind, d.String()})
		}
	}
	if len(bads) == 0 {
		return
	}
	worst := bads[0]
	for _, b := range bads[1:] {
		if crashGravity(b.class) > crashGravity(worst.class) {
			worst = b
		}
	}
	msg := ""
	for _, b := range bads {
		msg += fmt.Sprintf("\n  boundary %d of %d [%s]: %s", b.boundary, len(snaps), b.class, b.msg)
	}
	r.fail("crash/"+kind+"/"+worst.class, "request %s (%s) committed %d task_store transactions; a server opened on the storage file as of %d of these boundaries does not recover to the catalogue before or after the request:%s",
		target, verdict, len(snaps), len(bads), msg)
}

// crashGravity orders the classes of unrecovered boundaries (the gravest names the failure).
func crashGravity(class string) int {
	class = strings.TrimPrefix(class, "partial/")
	switch {
	case class == "some-tasks-changed-others-not":
		return 9
	case class == "task-under-both-ids", class == "task-under-neither-id":
		return 8
	case class == "executing", class == "start-error-lost", class == "server-does-not-open":
		return 7
	case class == "template-under-both-ids":
		return 5
	case class == "template-changed-tasks-not":
		return 3
	case strings.HasPrefix(class, "pre-request-"), strings.HasPrefix(class, "post-request-"):
		return 2
	}
	return 6
}

func fmtObserved(o *observed) string {
	s := "tasks:"
	for _, id := range sortedKeys(o.tasks) {
		s += " " + o.tasks[id].String()
	}
	s += " templates:"
	for _, id := range sortedKeys(o.tmpls) {
		s += fmt.Sprintf(" [%s script=%s]", id, scriptName(o.tmpls[id]))
	}
	s += fmt.Sprintf(" associations: %v", o.assoc)
	return s
}

// ---------------------------------------------------------------- generator

// Excluded target classes of the crash unit: requests that are several task_store
// transactions and not atomic across a crash (known findings crash/<kind>/partial/...,
// see known_findings_C14.final.json; their witnesses are replayed on every run).
var excludedCrash = map[string]bool{
	"crash:rename":                     true,
	"crash:create-from-template":       true,
	"crash:delete-templated-task":      true,
	"crash:template-update-with-tasks": true,
	"crash:template-rename":            true,
	"crash:template-assignment":        true,
}

// crashClass names the class of a target request whose transactions are known not to be
// atomic as a whole ("" = none).
func crashClass(sh *model, op Op) string {
	templated := func(id string) bool { t, ok := sh.tasks[id]; return ok && t.Tmpl != "" }
	switch op.K {
	case "create":
		if op.Tmpl != "" {
			return "crash:create-from-template"
		}
	case "update":
		if op.NewID != "" && op.NewID != op.ID {
			return "crash:rename"
		}
		if t, ok := sh.tasks[op.ID]; ok && op.Tmpl != "" && op.Tmpl != t.Tmpl {
			// (task and association are two transactions since fix e62cd16)
			return "crash:template-assignment"
		}
	case "delete":
		if templated(op.ID) {
			return "crash:delete-templated-task"
		}
	case "tupdate":
		if op.NewID != "" && op.NewID != op.ID {
			return "crash:template-rename"
		}
		for _, t := range sh.tasks {
			if t.Tmpl == op.ID && t.Assoc {
				return "crash:template-update-with-tasks"
			}
		}
	}
	return ""
}

func drawTarget(t *rapid.T, r *kit.Rec, sh *model) Op {
	exT, exP := existingTask(sh), existingTmpl(sh)
	switch k := rapid.IntRange(0, 11).Draw(t, "target"); k {
	case 0: // rename
		return Op{K: "update", ID: drawID(t, "id", taskPool(sh), badTaskID, 95, exT), NewID: drawID(t, "newid", taskIDs, badTaskID, 90, freeTask(sh)),
			Status: pick(t, "status", []string{"", "", "enabled", "disabled"})}
	case 1: // template update (script and/or id)
		return drawTUpdate(t, sh)
	case 2: // plain task created enabled (create + start bookkeeping), incl. tasks whose start is refused
		script := pick(t, "script", []string{sStream0, sStream1, sBatchOt, sStreamD})
		op := Op{K: "create", ID: drawID(t, "id", taskIDs, badTaskID, 95, freeTask(sh)), Script: script, Status: "enabled"}
		if len(scriptDBRPs(script)) == 0 {
			op.DBRPs = pick(t, "dbrps", dbrpPool)
		}
		return op
	case 3: // create from template
		op := Op{K: "create", ID: drawID(t, "id", taskIDs, badTaskID, 95, freeTask(sh)), Tmpl: drawID(t, "tmpl", tmplPool(sh), badTmplID, 95, exP),
			Status: drawStatus(t), Vars: pick(t, "vars", []map[string]Var{vInt, vExtra})}
		if tm, ok := sh.tmpls[op.Tmpl]; !ok || len(scriptDBRPs(tm.Script)) == 0 {
			op.DBRPs = pick(t, "dbrps", dbrpPool)
		}
		return op
	case 4: // delete
		return Op{K: "delete", ID: drawID(t, "id", taskPool(sh), badTaskID, 95, exT)}
	case 5: // assign to a template (+ rename)
		op := Op{K: "update", ID: drawID(t, "id", taskPool(sh), badTaskID, 95, exT), Tmpl: drawID(t, "tmpl", tmplPool(sh), badTmplID, 95, exP), Vars: vInt}
		if rare(t, "with-rename", 50) {
			op.NewID = drawID(t, "newid", taskIDs, badTaskID, 90, freeTask(sh))
		}
		return op
	case 6:
		return Op{K: pick(t, "endis", []string{"enable", "disable"}), ID: drawID(t, "id", taskPool(sh), badTaskID, 95, exT)}
	case 7:
		return Op{K: "tdelete", ID: drawID(t, "id", tmplPool(sh), badTmplID, 95, exP)}
	}
	return drawOp(t, r, sh)
}

func genCrash(r *kit.Rec) func(t *rapid.T) Case {
	return func(t *rapid.T) Case {
		n := rapid.IntRange(0, 12).Draw(t, "n")
		ops, sh := genHistory(t, r, excludedCatalogue, n, false)
		for tries := 0; tries < 20; tries++ {
			op := drawTarget(t, r, sh)
			if op.K == "restart" || op.K == "feed" {
				continue
			}
			p := predict(sh, op)
			if !p.accept && p.late != "" && isExcluded(excludedCatalogue, p.late) {
				r.Exclude(p.late)
				continue
			}
			if p.known != "" && isExcluded(excludedCatalogue, p.known) {
				r.Exclude(p.known)
				continue
			}
			if c := crashClass(sh, op); c != "" && isExcluded(excludedCrash, c) {
				r.Exclude(c)
				continue
			}
			return Case{Ops: append(ops, op)}
		}
		return Case{Ops: append(ops, Op{K: "tdelete", ID: "p1"})}
	}
}

var crashAssumptions = append([]string{
	"crash points are the commit boundaries of task_store transactions (Bolt commits are atomic; torn writes are out of scope); the file is copied by the committing goroutine right after the commit returns, while no other writer exists",
	"recovery oracle (DESIGN C14): the catalogue shown by a server opened on the copy equals the pre-request or the post-request catalogue (tasks, templates, associations) and every enabled task whose start succeeds is executing",
}, assumptions...)

func TestCrash(t *testing.T) {
	r := kit.NewRec("C14", "Crash", crashRule, crashAssumptions...)
	kit.Check(t, r, genCrash(r), runCrash)
}

func TestReplayCrash(t *testing.T) {
	r := kit.NewRec("C14", "Crash", crashRule, crashAssumptions...)
	kit.Replay(t, r, runCrash)
}
