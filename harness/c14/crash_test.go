package c14

// Unit Crash - restart from the storage file at every transaction boundary of a request.
//
// task_store.Service.StorageService is replaced (between server.New and Open) by a
// wrapper that reports every committed Update of the task_store namespace. While the last
// request of a generated history is being served, the Bolt file is copied after each of
// those commits (the copy runs on the committing goroutine, between two transactions, so
// it is exactly the file a crash at that boundary leaves behind; torn writes are out of
// scope). Afterwards a NEW server is opened on EVERY copy and must show the catalogue
// from before the request or the one after it, internally consistent, with every enabled
// task executing again.
//
// Whatever else a boundary shows, it must satisfy the entity-wise rule (entityWise below):
// no definition is lost (a task / template that exists before the request and is not deleted
// by it is shown under its id - or, while it is renamed, under the old or the new id), nothing
// is shown that neither catalogue holds, every task and template shown carries its definition
// from before or from after the request, and every task shown is executing iff it is enabled
// and its start succeeds. A boundary that breaks this rule is reported under its own signature
// (crash/<kind>/lost/..., /unexpected/..., /mixed/...), never under crash/<kind>/partial/...,
// the family of the known non-atomic requests.
//
// Unit CrashNonAtomic - the same enumeration for the target requests the Crash unit leaves
// out (the known non-atomic kinds: rename, create-from-template, template assignment, delete
// of a templated task, template update with tasks, template rename), judged by the
// entity-wise rule alone: a boundary may show a mixture of the two catalogues (that is the
// known finding), but nothing may be lost, invented or half-written, and the last boundary
// holds the post-request catalogue.

import (
	"fmt"
	"os"
	"path/filepath"
	"strings"
	"testing"

	"verifharness/kit"

	"pgregory.net/rapid"
)

const crashRule = "rapid: history of <= 12 task/template API requests followed by one target request; the Bolt file is copied after every " +
	"committed task_store transaction of the target request and a new server is opened on every copy (all boundaries enumerated); " +
	"non-trivial = the target request committed >= 2 transactions; distinct by case hash"

// classifyCrash names the way a recovered catalogue differs from both the pre-request
// and the post-request catalogue.
func classifyCrash(op Op, pre, post *model, o *observed, dPre, dPost *diff) string {
	// what the API shows is one of the two catalogues and only the association keys differ
	if pre.compare(o, false) == nil {
		return "pre-request-catalogue-with-" + dPre.kind
	}
	if post.compare(o, false) == nil {
		return "post-request-catalogue-with-" + dPost.kind
	}
	switch op.K {
	case "update":
		if op.NewID != "" && op.NewID != op.ID {
			_, hasOld := o.tasks[op.ID]
			_, hasNew := o.tasks[op.NewID]
			switch {
			case hasOld && hasNew:
				return "task-under-both-ids"
			case !hasOld && !hasNew:
				return "task-under-neither-id"
			}
		}
	case "tupdate":
		changed, kept := 0, 0
		for _, t := range pre.tasks {
			if t.Tmpl != op.ID || !t.Assoc {
				continue
			}
			g, ok := o.tasks[t.ID]
			w := post.tasks[t.ID]
			if !ok || w == nil {
				continue
			}
			if g.Script == w.Script && g.Tmpl == w.Tmpl {
				changed++
			} else {
				kept++
			}
		}
		_, hasOld := o.tmpls[op.ID]
		_, hasNew := o.tmpls[op.NewID]
		switch {
		case changed > 0 && kept > 0:
			return "some-tasks-changed-others-not"
		case op.NewID != "" && op.NewID != op.ID && hasOld && hasNew:
			return "template-under-both-ids"
		case kept > 0 && changed == 0 && dPre != nil && (dPre.kind == "tmpl-script" || dPre.kind == "tmpl-missing" || dPre.kind == "tmpl-unexpected"):
			return "template-changed-tasks-not"
		}
	}
	k := func(d *diff) string {
		if d == nil {
			return "equal"
		}
		return d.kind
	}
	return "vs-pre:" + k(dPre) + ",vs-post:" + k(dPost)
}

// entityWise checks one recovered boundary object by object. It is implied by the recovery
// oracle (the catalogue is the pre-request or the post-request one) and is what remains of the
// property statement for requests that are known not to be atomic: "the API shows exactly the
// tasks that were successfully defined with their last accepted definition ... after a restart
// every enabled task is executing again". pre and post are the catalogues as a restart leaves
// them (restarted()). It returns "" or the class of the first violation:
//
//	lost/...        a task / template that is defined before the request and not deleted by it
//	                (neither as answered nor as asked) is not shown, neither under its id nor
//	                (during its rename) under the new id
//	unexpected/...  a task / template is shown under an id that no catalogue holds (before the
//	                request, after it, asked for by it)
//	mixed/...       an object is shown with a definition that is neither the one before the
//	                request, nor the one after it, nor the one the request asks for (a request cut
//	                short by a crash was never answered: what it asks for may be there or not)
//	executing ...   a shown task is not executing although it is enabled and its start succeeds
//	                (or the other way round)
func entityWise(op Op, pre, post *model, o *observed) (class, msg string, noted []string) {
	// asked: the catalogue the request asks for. A request cut short by a crash has not been
	// answered: what it asks for may be there or not, whatever the answer would have been
	// (a template update that is rolled back and rejected in the end has written the new
	// definitions first).
	asked, applicable := pre.apply(op)
	if applicable {
		asked.restarted()
	} else {
		asked = post
	}
	taskRename := op.K == "update" && op.NewID != "" && op.NewID != op.ID
	tmplRename := op.K == "tupdate" && op.NewID != "" && op.NewID != op.ID
	for _, id := range sortedKeys(pre.tasks) {
		_, inPost := post.tasks[id]
		_, inAsked := asked.tasks[id]
		carriers := []string{id}
		if _, taken := pre.tasks[op.NewID]; taskRename && id == op.ID && !taken {
			carriers = append(carriers, op.NewID)
			if _, ok := post.tasks[op.NewID]; ok {
				inPost = true
			}
			if _, ok := asked.tasks[op.NewID]; ok {
				inAsked = true
			}
		}
		if !inPost || !inAsked {
			continue
		}
		shown := false
		for _, c := range carriers {
			if _, ok := o.tasks[c]; ok {
				shown = true
			}
		}
		if !shown {
			if len(carriers) == 2 {
				return "lost/task-under-neither-id", fmt.Sprintf("task %q is being renamed to %q: it is defined before and after the request but the API shows it under neither id - the definition is lost", id, op.NewID), noted
			}
			return "lost/task-missing", fmt.Sprintf("task %q is defined before and after the request but the API does not show it - the definition is lost", id), noted
		}
	}
	for _, id := range sortedKeys(pre.tmpls) {
		_, inPost := post.tmpls[id]
		_, inAsked := asked.tmpls[id]
		carriers := []string{id}
		if _, taken := pre.tmpls[op.NewID]; tmplRename && id == op.ID && !taken {
			carriers = append(carriers, op.NewID)
			if _, ok := post.tmpls[op.NewID]; ok {
				inPost = true
			}
			if _, ok := asked.tmpls[op.NewID]; ok {
				inAsked = true
			}
		}
		if !inPost || !inAsked {
			continue
		}
		shown := false
		for _, c := range carriers {
			if _, ok := o.tmpls[c]; ok {
				shown = true
			}
		}
		if !shown {
			if len(carriers) == 2 {
				return "lost/template-under-neither-id", fmt.Sprintf("template %q is being renamed to %q: it is defined before and after the request but the API shows it under neither id", id, op.NewID), noted
			}
			return "lost/template-missing", fmt.Sprintf("template %q is defined before and after the request but the API does not show it", id), noted
		}
	}
	same := func(w *mTask, g oTask) bool {
		return g.Script == w.Script && g.Tmpl == w.Tmpl && (w.LooseDBRPs || sameDBRPs(g.DBRPs, w.DBRPs)) && sameVars(g.Vars, w.Vars) && g.Enabled == w.Enabled
	}
	if len(o.ghosts) > 0 {
		return "executing-without-definition", fmt.Sprintf("the task master executes %v but the API shows no such task", o.ghosts), noted
	}
	for _, id := range sortedKeys(o.tasks) {
		g := o.tasks[id]
		var cands []*mTask
		for _, m := range []*model{post, pre, asked} {
			if w, ok := m.tasks[id]; ok {
				cands = append(cands, w)
			}
		}
		if len(cands) == 0 {
			return "unexpected/task", fmt.Sprintf("the API shows task %s but no task %q is defined before or after the request, nor asked for by it", g, id), noted
		}
		var w *mTask
		for _, c := range cands {
			if same(c, g) {
				w = c
				break
			}
		}
		if w == nil {
			return "mixed/task-definition", fmt.Sprintf("task %s is shown with a definition that is neither the one before the request, nor the one after it, nor the one it asks for", g), noted
		}
		if isBadScript(w.Script) {
			// a script that does not compile (only ever stored by a template update on its way
			// to being rolled back): its start is refused whatever the dbrps are
			if g.Executing {
				return "executing", fmt.Sprintf("task %s is shown executing a script that does not compile", g), noted
			}
			if g.Enabled && g.Error == "" {
				noted = append(noted, "enabled task whose start is refused at the restart has no error recorded")
			}
			continue
		}
		if d := w.checkExecuting(o); d != nil {
			if d.kind == "start-error-lost" || d.kind == "run-error-lost" {
				// The statement asks for "executing iff enabled and its start succeeded", which
				// holds here; that the error of a refused start is recorded comes from
				// client/API.md and is demanded where the definition was accepted by the API
				// (pre- / post-request catalogue, Catalogue unit). An inner boundary can hold a
				// definition that never passed the API's validation (a template update that is
				// rolled back has stored a script that does not compile): Service.Open logs
				// the refused start, startTask returns before saveLastError. Noted, not judged.
				noted = append(noted, "enabled task whose start is refused at the restart has no error recorded")
				continue
			}
			return d.kind, d.String(), noted
		}
	}
	for _, id := range sortedKeys(o.tmpls) {
		s := o.tmpls[id]
		known, match := false, false
		for _, m := range []*model{post, pre, asked} {
			if w, ok := m.tmpls[id]; ok {
				known = true
				if w.Script == s {
					match = true
				}
			}
		}
		if !known {
			return "unexpected/template", fmt.Sprintf("the API shows template %q (script %s) but no such template is defined before or after the request, nor asked for by it", id, scriptName(s)), noted
		}
		if !match {
			return "mixed/template-script", fmt.Sprintf("template %q is shown with script %s, which is neither the one before the request, nor the one after it, nor the one it asks for", id, scriptName(s)), noted
		}
	}
	return "", "", noted
}

func runCrash(c Case, cc *kit.Case) { runCrashMode(c, cc, false) }

// runCrashEntityWise judges the boundaries of a known non-atomic request by the entity-wise
// rule only (unit CrashNonAtomic).
func runCrashEntityWise(c Case, cc *kit.Case) { runCrashMode(c, cc, true) }

func runCrashMode(c Case, cc *kit.Case, entityOnly bool) {
	if len(c.Ops) == 0 {
		return
	}
	dir, err := caseDir()
	if err != nil {
		cc.Fail("harness/tempdir", "%v", err)
		return
	}
	defer os.RemoveAll(dir)
	r := &runner{cc: cc, dir: filepath.Join(dir, "live"), m: newModel(), quiet: true}
	if !r.start() {
		return
	}
	defer func() { r.v.close() }()
	n := len(c.Ops)
	for i, op := range c.Ops[:n-1] {
		if !r.step(i, op) {
			return
		}
	}
	target := c.Ops[n-1]
	if target.K == "restart" || target.K == "feed" {
		// (a feed is no request to the catalogue; the error of an execution it ends is recorded
		// asynchronously, after the write was answered)
		return
	}
	pre := r.m.clone()

	// snapshot after every commit while the target request is served
	var snaps []string
	var snapErr error
	r.aroundSend = func(before bool) {
		if !before {
			r.v.snap.hook = nil
			return
		}
		r.v.snap.hook = func() {
			p := filepath.Join(dir, fmt.Sprintf("snap-%d.db", len(snaps)))
			if err := copyFile(boltPath(r.dir), p); err != nil && snapErr == nil {
				snapErr = err
			}
			snaps = append(snaps, p)
		}
	}
	ok := r.step(n-1, target)
	r.aroundSend = nil
	if snapErr != nil {
		cc.Fail("harness/snapshot", "copying the Bolt file: %v", snapErr)
		return
	}
	if !ok {
		return
	}
	post := r.m.clone()
	r.v.close()

	kind := sigKind(target)
	verdict := "rejected"
	if r.accepted {
		verdict = "accepted"
	}
	r.label(fmt.Sprintf("target %s %s: %d transactions", kind, verdict, min(len(snaps), 6)))
	if entityOnly {
		cls := crashClass(pre, target)
		if len(snaps) >= 2 && cls != "" {
			cc.NonTrivial()
		}
		if cls == "" {
			cls = "none (request of an atomic kind)"
		}
		r.label("non-atomic class " + strings.TrimPrefix(cls, "crash:") + " " + verdict)
	} else if len(snaps) >= 2 {
		cc.NonTrivial()
	}
	preR, postR := pre.clone(), post.clone()
	preR.restarted()
	postR.restarted()
	// enumerate every boundary; the failure reported is the gravest one, the message
	// lists them all
	type bad struct {
		boundary   int
		class, msg string
	}
	var bads []bad
	for i, snap := range snaps {
		cdir := filepath.Join(dir, fmt.Sprintf("crash-%d", i))
		if err := os.MkdirAll(cdir, 0o755); err != nil {
			cc.Fail("harness/tempdir", "%v", err)
			return
		}
		if err := copyFile(snap, boltPath(cdir)); err != nil {
			cc.Fail("harness/snapshot", "%v", err)
			return
		}
		v, err := startServer(cdir)
		if err != nil {
			bads = append(bads, bad{i + 1, "server-does-not-open", err.Error()})
			continue
		}
		o, err := observeQuiet(v, nil, preR, postR)
		v.close()
		os.RemoveAll(cdir)
		if err != nil {
			bads = append(bads, bad{i + 1, obsSig(err), err.Error()})
			continue
		}
		dPre, dPost := preR.compare(o, true), postR.compare(o, true)
		var m *model
		switch {
		case dPost == nil:
			m = postR
			if i < len(snaps)-1 {
				r.label("boundary shows the post-request catalogue")
			}
		case dPre == nil:
			m = preR
			r.label("boundary shows the pre-request catalogue")
		default:
			// first the entity-wise rule: a lost, invented or half-written object is a failure
			// of its own, whatever is known about the atomicity of the request
			class, msg, noted := entityWise(target, preR, postR, o)
			for _, n := range noted {
				r.label("inner boundary: " + n)
			}
			if class != "" {
				bads = append(bads, bad{i + 1, class, fmt.Sprintf("%s\n    vs the catalogue before the request: %s; vs the one after it: %s\n    observed: %s", msg, dPre, dPost, fmtObserved(o))})
				continue
			}
			shape := classifyCrash(target, preR, postR, o, dPre, dPost)
			if entityOnly {
				if i == len(snaps)-1 {
					bads = append(bads, bad{i + 1, "last-boundary-not-post", fmt.Sprintf("the storage file after the last transaction does not hold the post-request catalogue: %s", dPost)})
					continue
				}
				if strings.HasPrefix(shape, "vs-pre:") {
					shape = "other mixture of the two catalogues"
				}
				r.label("boundary of a non-atomic request shows: " + shape)
				continue
			}
			// "partial/...": the request is not atomic across a crash (one known-finding key
			// per request kind: crash/<kind>/partial/*)
			bads = append(bads, bad{i + 1, "partial/" + shape,
				fmt.Sprintf("the catalogue is neither the one before the request (%s) nor the one after it (%s)\n    observed: %s", dPre, dPost, fmtObserved(o))})
			continue
		}
		if i == len(snaps)-1 && dPost != nil {
			bads = append(bads, bad{i + 1, "last-boundary-not-post", fmt.Sprintf("the storage file after the last transaction does not hold the post-request catalogue: %s", dPost)})
			continue
		}
		if d := m.checkExecuting(o); d != nil {
			bads = append(bads, bad{i + 1, d.kind, d.String()})
		}
	}
	if len(bads) == 0 {
		return
	}
	worst := bads[0]
	for _, b := range bads[1:] {
		if crashGravity(b.class) > crashGravity(worst.class) {
			worst = b
		}
	}
	msg := ""
	for _, b := range bads {
		msg += fmt.Sprintf("\n  boundary %d of %d [%s]: %s", b.boundary, len(snaps), b.class, b.msg)
	}
	r.fail("crash/"+kind+"/"+worst.class, "request %s (%s) committed %d task_store transactions; a server opened on the storage file as of %d of these boundaries does not recover to the catalogue before or after the request:%s",
		target, verdict, len(snaps), len(bads), msg)
}

// crashGravity orders the classes of unrecovered boundaries (the gravest names the failure).
func crashGravity(class string) int {
	class = strings.TrimPrefix(class, "partial/")
	switch {
	case strings.HasPrefix(class, "lost/"):
		return 12
	case strings.HasPrefix(class, "unexpected/"), strings.HasPrefix(class, "mixed/"), class == "executing-without-definition":
		return 11
	case class == "some-tasks-changed-others-not":
		return 9
	case class == "task-under-both-ids", class == "task-under-neither-id":
		return 8
	case class == "executing", class == "start-error-lost", class == "server-does-not-open":
		return 7
	case class == "template-under-both-ids":
		return 5
	case class == "template-changed-tasks-not":
		return 3
	case strings.HasPrefix(class, "pre-request-"), strings.HasPrefix(class, "post-request-"):
		return 2
	}
	return 6
}

func fmtObserved(o *observed) string {
	s := "tasks:"
	for _, id := range sortedKeys(o.tasks) {
		s += " " + o.tasks[id].String()
	}
	s += " templates:"
	for _, id := range sortedKeys(o.tmpls) {
		s += fmt.Sprintf(" [%s script=%s]", id, scriptName(o.tmpls[id]))
	}
	s += fmt.Sprintf(" associations: %v", o.assoc)
	return s
}

// ---------------------------------------------------------------- generator

// Excluded target classes of the crash unit: requests that are several task_store
// transactions and not atomic across a crash (known findings crash/<kind>/partial/...,
// see known_findings_C14.final.json; their witnesses are replayed on every run).
var excludedCrash = map[string]bool{
	"crash:rename":                     true,
	"crash:create-from-template":       true,
	"crash:delete-templated-task":      true,
	"crash:template-update-with-tasks": true,
	"crash:template-rename":            true,
	"crash:template-assignment":        true,
}

// crashClass names the class of a target request whose transactions are known not to be
// atomic as a whole ("" = none).
func crashClass(sh *model, op Op) string {
	templated := func(id string) bool { t, ok := sh.tasks[id]; return ok && t.Tmpl != "" }
	switch op.K {
	case "create":
		if op.Tmpl != "" {
			return "crash:create-from-template"
		}
	case "update":
		if op.NewID != "" && op.NewID != op.ID {
			return "crash:rename"
		}
		if t, ok := sh.tasks[op.ID]; ok && op.Tmpl != "" && op.Tmpl != t.Tmpl {
			// (task and association are two transactions since fix e62cd16)
			return "crash:template-assignment"
		}
	case "delete":
		if templated(op.ID) {
			return "crash:delete-templated-task"
		}
	case "tupdate":
		if op.NewID != "" && op.NewID != op.ID {
			return "crash:template-rename"
		}
		for _, t := range sh.tasks {
			if t.Tmpl == op.ID && t.Assoc {
				return "crash:template-update-with-tasks"
			}
		}
	}
	return ""
}

func drawTarget(t *rapid.T, r *kit.Rec, sh *model) Op {
	return drawTargetKind(t, r, sh, rapid.IntRange(0, 11).Draw(t, "target"))
}

func drawTargetKind(t *rapid.T, r *kit.Rec, sh *model, k int) Op {
	exT, exP := existingTask(sh), existingTmpl(sh)
	switch k {
	case 0: // rename
		return Op{K: "update", ID: drawID(t, "id", taskPool(sh), badTaskID, 95, exT), NewID: drawID(t, "newid", taskIDs, badTaskID, 90, freeTask(sh)),
			Status: pick(t, "status", []string{"", "", "enabled", "disabled"})}
	case 1: // template update (script and/or id)
		return drawTUpdate(t, sh)
	case 2: // plain task created enabled (create + start bookkeeping), incl. tasks whose start is refused
		script := pick(t, "script", []string{sStream0, sStream1, sBatchOt, sStreamD})
		op := Op{K: "create", ID: drawID(t, "id", taskIDs, badTaskID, 95, freeTask(sh)), Script: script, Status: "enabled"}
		if len(scriptDBRPs(script)) == 0 {
			op.DBRPs = pick(t, "dbrps", dbrpPool)
		}
		return op
	case 3: // create from template
		op := Op{K: "create", ID: drawID(t, "id", taskIDs, badTaskID, 95, freeTask(sh)), Tmpl: drawID(t, "tmpl", tmplPool(sh), badTmplID, 95, exP),
			Status: drawStatus(t), Vars: pick(t, "vars", []map[string]Var{vInt, vExtra})}
		if tm, ok := sh.tmpls[op.Tmpl]; !ok || len(scriptDBRPs(tm.Script)) == 0 {
			op.DBRPs = pick(t, "dbrps", dbrpPool)
		}
		return op
	case 4: // delete
		return Op{K: "delete", ID: drawID(t, "id", taskPool(sh), badTaskID, 95, exT)}
	case 5: // assign to a template (+ rename)
		op := Op{K: "update", ID: drawID(t, "id", taskPool(sh), badTaskID, 95, exT), Tmpl: drawID(t, "tmpl", tmplPool(sh), badTmplID, 95, exP), Vars: vInt}
		if rare(t, "with-rename", 50) {
			op.NewID = drawID(t, "newid", taskIDs, badTaskID, 90, freeTask(sh))
		}
		return op
	case 6:
		return Op{K: pick(t, "endis", []string{"enable", "disable"}), ID: drawID(t, "id", taskPool(sh), badTaskID, 95, exT)}
	case 7:
		return Op{K: "tdelete", ID: drawID(t, "id", tmplPool(sh), badTmplID, 95, exP)}
	}
	return drawOp(t, r, sh)
}

func genCrash(r *kit.Rec) func(t *rapid.T) Case {
	return func(t *rapid.T) Case {
		n := rapid.IntRange(0, 12).Draw(t, "n")
		ops, sh := genHistory(t, r, excludedCatalogue, n, false)
		for tries := 0; tries < 20; tries++ {
			op := drawTarget(t, r, sh)
			if op.K == "restart" || op.K == "feed" {
				continue
			}
			p := predict(sh, op)
			if !p.accept && p.late != "" && isExcluded(excludedCatalogue, p.late) {
				r.Exclude(p.late)
				continue
			}
			if p.known != "" && isExcluded(excludedCatalogue, p.known) {
				r.Exclude(p.known)
				continue
			}
			if c := crashClass(sh, op); c != "" && isExcluded(excludedCrash, c) {
				r.Exclude(c)
				continue
			}
			return Case{Ops: append(ops, op)}
		}
		return Case{Ops: append(ops, Op{K: "tdelete", ID: "p1"})}
	}
}

// Formerly excluded target class of the CrashNonAtomic unit (genuine defect found by it, repaired in
// /repo by a fix: commit, witness replays/C14/CrashNonAtomic-rolled-back-template-rename-loses-template.json;
// the class is searched again - put it back into the map to exclude it): a template update WITH id change that is
// rolled back (an enabled associated task does not start with the new script). The rollback
// removes the new template and then, in another transaction, re-creates the old one: at the
// boundary in between the template exists under neither id (crash/template-rename/lost/...).
var excludedCrashNonAtomic = map[string]bool{}

// nonAtomicKnownClass names the excluded class a target of the CrashNonAtomic unit falls into.
func nonAtomicKnownClass(sh *model, op Op, p prediction) string {
	if op.K == "tupdate" && op.NewID != "" && op.NewID != op.ID && !p.accept && p.late == "template-update-rolled-back" {
		return "crash:template-rename-rolled-back"
	}
	return ""
}

// genCrashNonAtomic: a history followed by a target request of one of the kinds that are
// known not to be atomic across a crash (the classes the Crash unit excludes). The history
// is given what these requests work on: if it leaves no task, a plain task is created; the
// scenario of genHistory (a template with 0-3 tasks) supplies templated tasks.
func genCrashNonAtomic(r *kit.Rec) func(t *rapid.T) Case {
	return func(t *rapid.T) Case {
		n := rapid.IntRange(0, 10).Draw(t, "n")
		ops, sh := genHistory(t, r, excludedCatalogue, n, false)
		if len(sh.tasks) == 0 {
			op := Op{K: "create", ID: pick(t, "seed-id", taskIDs), Script: sStream0, DBRPs: []DBRP{{"db", "rp"}}, Status: drawStatus(t)}
			ops = append(ops, op)
			sh = advance(sh, op)
		}
		var last *Op
		for tries := 0; tries < 30; tries++ {
			// 0 rename, 1 template update / rename, 3 create from template, 4 delete, 5 template assignment (+ rename)
			op := drawTargetKind(t, r, sh, pick(t, "kind", []int{0, 1, 1, 1, 3, 3, 4, 4, 5, 5}))
			p := predict(sh, op)
			if !p.accept && p.late != "" && isExcluded(excludedCatalogue, p.late) {
				r.Exclude(p.late)
				continue
			}
			if p.known != "" && isExcluded(excludedCatalogue, p.known) {
				r.Exclude(p.known)
				continue
			}
			if c := nonAtomicKnownClass(sh, op, p); c != "" && isExcluded(excludedCrashNonAtomic, c) {
				r.Exclude(c)
				continue
			}
			last = &op
			if crashClass(sh, op) == "" || (!p.accept && tries < 8) {
				// not of a non-atomic kind on this catalogue (e.g. delete of a plain task), or
				// predicted to be rejected: draw again (rejected ones are kept after 8 tries)
				continue
			}
			return Case{Ops: append(ops, op)}
		}
		if last != nil {
			return Case{Ops: append(ops, *last)}
		}
		return Case{Ops: append(ops, Op{K: "tdelete", ID: "p1"})}
	}
}

var crashAssumptions = append([]string{
	"crash points are the commit boundaries of task_store transactions (Bolt commits are atomic; torn writes are out of scope); the file is copied by the committing goroutine right after the commit returns, while no other writer exists",
	"recovery oracle (DESIGN C14): the catalogue shown by a server opened on the copy equals the pre-request or the post-request catalogue (tasks, templates, associations) and every enabled task whose start succeeds is executing",
	"a boundary that shows neither catalogue is first judged object by object (entity-wise rule, implied by the recovery oracle: nothing defined before and after the request is lost, nothing is shown that neither catalogue holds, every object carries its definition from before or after the request, shown tasks execute iff enabled and startable); a breach is reported as crash/<kind>/lost/..., /unexpected/..., /mixed/... and never as crash/<kind>/partial/..., the signature family of the known non-atomic requests (whose witnesses all satisfy the entity-wise rule on the unchanged tree)",
}, assumptions...)

const crashNonAtomicRule = "rapid: history of <= 12 task/template API requests followed by one target request of a kind known not to be atomic across a crash " +
	"(task rename, create-from-template, template assignment, delete of a templated task, template update with associated tasks, template rename); the Bolt file is " +
	"copied after every committed task_store transaction of the target request and a new server is opened on every copy (all boundaries enumerated); every boundary is " +
	"judged by the entity-wise rule, the last one must hold the post-request catalogue; non-trivial = the target is of one of these kinds and committed >= 2 transactions; distinct by case hash"

var crashNonAtomicAssumptions = append([]string{
	"entity-wise rule (weaker than, and implied by, the recovery oracle of DESIGN C14; taken from the property statement 'the API shows exactly the tasks that were successfully defined with their last accepted definition ... after a restart every enabled task is executing again', quantified over restarts from the storage file at any transaction boundary): " +
		"at every boundary (a) every task / template that is defined before the request and not deleted by it is shown by the API under its id, or - while the request renames it to a free id - under the old or the new id; " +
		"(b) every task / template shown has an id that the catalogue before or after the request holds; (c) every task shown carries, as a whole (script, template id, dbrps, vars, status), its definition from before or from after the request, every template its script from before or after; " +
		"a request cut short by a crash was never answered, so 'after the request' is read as the catalogue the answer led to OR the catalogue the request asks for (a template update that is rolled back and rejected in the end has written the new definitions first), and (a) holds only for objects that are in both; " +
		"(d) every task shown is executing iff it is enabled and starting that definition succeeds (that the error of a refused start is recorded is NOT demanded at an inner boundary: it can hold a definition that never passed the API's validation, e.g. the script of a template update that is rolled back; the case is labelled). Associations are not judged at these boundaries (known findings crash/*/partial/*-with-assoc-*)",
	"a mixture of the two catalogues at an inner boundary of these request kinds (task under both ids, template changed and only some tasks, ...) is the known finding crash/<kind>/partial/... and is only labelled here; the strict recovery oracle is applied to these kinds by the saved witnesses replays/C14/Crash-*.json",
}, crashAssumptions...)

func TestCrashNonAtomic(t *testing.T) {
	r := kit.NewRec("C14", "CrashNonAtomic", crashNonAtomicRule, crashNonAtomicAssumptions...)
	kit.Check(t, r, genCrashNonAtomic(r), runCrashEntityWise)
}

func TestReplayCrashNonAtomic(t *testing.T) {
	r := kit.NewRec("C14", "CrashNonAtomic", crashNonAtomicRule, crashNonAtomicAssumptions...)
	kit.Replay(t, r, runCrashEntityWise)
}

func TestCrash(t *testing.T) {
	r := kit.NewRec("C14", "Crash", crashRule, crashAssumptions...)
	kit.Check(t, r, genCrash(r), runCrash)
}

func TestReplayCrash(t *testing.T) {
	r := kit.NewRec("C14", "Crash", crashRule, crashAssumptions...)
	kit.Replay(t, r, runCrash)
}
