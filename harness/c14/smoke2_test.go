package c14

import (
	"os"
	"testing"
	"time"
	"fmt"

	"github.com/influxdata/kapacitor/client/v1"
)

func TestSmokeAsync(t *testing.T) {
	if os.Getenv("C14_SMOKE") == "" {
		t.Skip()
	}
	dir, _ := os.MkdirTemp(scratchBase(), "c14-")
	defer os.RemoveAll(dir)
	v, err := startServer(dir)
	if err != nil {
		t.Fatal(err)
	}
	defer v.close()
	for i := 0; i < 3000; i++ {
		id := fmt.Sprintf("b%d", i)
		_, err = v.cli.CreateTask(client.CreateTaskOptions{ID: id, TICKscript: sBatchDB, DBRPs: []client.DBRP{{Database: "db", RetentionPolicy: "rp"}}, Status: client.Enabled})
		if err != nil {
			t.Fatal(err)
		}
		t0 := time.Now()
		for {
			g, err := v.cli.Task(v.cli.TaskLink(id), nil)
			if err != nil {
				t.Fatal(err)
			}
			if !g.Executing && g.Error != "" {
				break
			}
			if time.Since(t0) > 3*time.Second {
				t.Fatalf("iteration %d: stuck: executing=%v error=%q", i, g.Executing, g.Error)
			}
			time.Sleep(100 * time.Microsecond)
		}
		v.cli.DeleteTask(v.cli.TaskLink(id))
	}
}
