package c14

import (
	"fmt"
	"os"
	"testing"
	"time"

	"github.com/influxdata/kapacitor/client/v1"
)

// TestAsyncBatchDeathRace is not part of the check (run it with VERIF_C14_RACE=1): it shows
// the schedule-dependent defect behind the excluded class "batch-task-that-dies-by-itself".
// An enabled batch task whose query node cannot get an InfluxDB client (no cluster, or
// .cluster('typo')) ends by itself right after the start. QueryNode.runBatch looks at
// n.queryErr before QueryNode.Start() (called later by StartBatching) has created it, skips
// the error and returns nil when doQuery closes the edge; the task then has finished
// "without error", task_store.startTask's waiter neither stops it nor records an error,
// and the API shows a dead task as executing=true with an empty error for ever.
// Depending on the scheduler the other order happens and the task is shown as
// not executing with the error recorded. Typically reproduces within the first 50 tasks.
func TestAsyncBatchDeathRace(t *testing.T) {
	if os.Getenv("VERIF_C14_RACE") == "" {
		t.Skip("set VERIF_C14_RACE=1")
	}
	dir, _ := os.MkdirTemp(scratchBase(), "c14-")
	defer os.RemoveAll(dir)
	v, err := startServer(dir)
	if err != nil {
		t.Fatal(err)
	}
	defer v.close()
	for i := 0; i < 3000; i++ {
		id := fmt.Sprintf("b%d", i)
		_, err = v.cli.CreateTask(client.CreateTaskOptions{ID: id, TICKscript: sBatchDB, DBRPs: []client.DBRP{{Database: "db", RetentionPolicy: "rp"}}, Status: client.Enabled})
		if err != nil {
			t.Fatal(err)
		}
		t0 := time.Now()
		for {
			g, err := v.cli.Task(v.cli.TaskLink(id), nil)
			if err != nil {
				t.Fatal(err)
			}
			if !g.Executing && g.Error != "" {
				break
			}
			if time.Since(t0) > 3*time.Second {
				t.Fatalf("iteration %d: stuck: executing=%v error=%q", i, g.Executing, g.Error)
			}
			time.Sleep(100 * time.Microsecond)
		}
		v.cli.DeleteTask(v.cli.TaskLink(id))
	}
}
