// C15 — the indexed key/value store stays consistent under any operation history.
//
// Unit Store: rapid-generated operation histories over a real storage.IndexedStore on a real
// Bolt file, compared after every step with a map model + sorted index model (model_test.go),
// including reopen of the file, multi-operation transactions through the *Tx variants with
// commit or rollback, List/ReverseList with glob pattern, offset and limit, Rebuild, and the
// raw key-space bijection between data keys and index entries.
// Unit Fault: the same histories over a fault-injecting storage.Interface (store_test.go); for
// every mutating step, every write event of the step (n-th Put/Delete, then Commit) is made to
// fail once; a failed step must report an error and leave data and every index unchanged.
package c15

import (
	"encoding/json"
	"errors"
	"fmt"
	"math"
	"os"
	"runtime/debug"
	"sort"
	"strings"
	"testing"

	"verifharness/kit"

	"github.com/influxdata/kapacitor/services/storage"
	"pgregory.net/rapid"
)

const (
	kCreate  = "create"
	kPut     = "put"
	kReplace = "replace"
	kDelete  = "delete"
	kGet     = "get"
	kList    = "list"
	kRebuild = "rebuild"
	kReopen  = "reopen"
	kTx      = "tx"
)

// Op is one step of a history. All fields are data; run() interprets them.
type Op struct {
	K        string `json:"k"`
	ID       string `json:"id,omitempty"`
	Sec      string `json:"sec,omitempty"`
	Uniq     string `json:"uniq,omitempty"`
	Val      int    `json:"val,omitempty"`
	Index    string `json:"index,omitempty"`   // list: id | sec | uniq
	Sub      string `json:"sub,omitempty"`     // list: the id index restricted to the directory Sub (index name "id/<Sub>", as services/load/dao.go does)
	Pattern  string `json:"pattern,omitempty"` // list: glob on the ID, "" = all
	Offset   int    `json:"offset,omitempty"`
	Limit    int    `json:"limit,omitempty"`
	Reverse  bool   `json:"reverse,omitempty"`  // list: ReverseList
	ViaTx    bool   `json:"viatx,omitempty"`    // get/list at top level: inside View with GetTx/ListTx/ReverseListTx instead of Get/List/ReverseList
	Ops      []Op   `json:"ops,omitempty"`      // tx: operations executed with the *Tx variants inside one Update
	Rollback bool   `json:"rollback,omitempty"` // tx: the update function returns an error at the end
}

type Case struct {
	Buckets    []string `json:"buckets"`     // Bolt bucket path of the store (storage.NewBolt(db, buckets...))
	Prefix     string   `json:"prefix"`      // IndexedStoreConfig.Prefix
	IDs        []string `json:"ids"`         // ID pool: Get of each is checked after every step
	ReopenEach bool     `json:"reopen_each"` // close and reopen the Bolt file after every top-level mutating step
	Ops        []Op     `json:"ops"`
}

const ruleStore = "rapid: histories of create/put/replace/delete/get/list/reverse-list/rebuild/reopen/multi-operation transactions (commit or rollback) over a pool of 3-6 IDs " +
	"(prefix pairs, topic/handler IDs) and three indexes (id, non-unique 'sec', unique 'uniq') on a real Bolt file; Get of every pool ID, the full list of every index and the raw key space " +
	"are compared with a map model after every step; non-trivial = a successful replace (or put over an existing object) that changes the value of a secondary index, " +
	"followed by an explicit list on that index; distinct by case hash"

const ruleFault = "rapid: the same histories over a fault-injecting storage.Interface; every mutating step (single operation, rebuild, multi-operation transaction) is run once per write event " +
	"of the step with that event failing (1st, 2nd, ... Put/Delete, then Commit), checking after each failed run that an error is reported and that the raw bucket content, Get and every index are unchanged, " +
	"then once without failure; non-trivial = at least one injected failure at the second or later Put/Delete of an update; distinct by case hash"

// ---------------------------------------------------------------- exclusions by construction

// Input classes on which the unchanged tree violates the property (see the witnesses under
// /verif/replays/C15 and the report). The generator avoids them by construction and counts
// how often it would have produced them, so that the search continues behind them.
var (
	// VERIF_C15_NO_EXCLUDE=1 switches the exclusions off (generator only), to validate a repair
	// of the defects: on a repaired tree the check must then be silent, witnesses included.
	// The three defects below were repaired in /repo ("fix:" commits 303a481, 96ec96d, 0a5d525): the
	// input classes are generated again; VERIF_C15_EXCLUDE=1 brings the exclusions back.
	noExclude               = os.Getenv("VERIF_C15_EXCLUDE") == ""
	excludeDotIDs           = !noExclude // an object whose ID is "." or ".." is stored but never listed
	excludeNegLimitFiltered = !noExclude // List(..., limit < 0) ignores the pattern and the offset
	excludeLimitOverflow    = !noExclude // List(..., offset, limit) panics when offset+limit overflows int
)

// ---------------------------------------------------------------- generator

var idAlphabet = []string{"-", ".", "_", "a", "b", "0", "1", "é"}

// values of the unique index: their order differs from the order of the IDs that carry them
var uniqPool = []string{"k0", "k1", "k10", "k2", "k-", "k.", "k_", "ka", "kA", "kb", ""}

// values of the non-unique index: RFC3339 dates (what services/replay uses) or short tokens
var secPools = [][]string{
	{"2016-01-01T00:00:00Z", "2017-01-01T00:00:00Z", "2017-06-01T12:30:00Z", "2018-01-01T00:00:00Z"},
	{"a", "ab", "a0", "b", "a_"},
}

func isDotSeg(s string) bool { return s == "." || s == ".." }

func genSeg(t *rapid.T, label string) string {
	n := rapid.IntRange(1, 3).Draw(t, label+"len")
	s := ""
	for i := 0; i < n; i++ {
		s += rapid.SampledFrom(idAlphabet).Draw(t, label+"ch")
	}
	return s
}

func genIDs(t *rapid.T, r *kit.Rec) []string {
	n := rapid.IntRange(3, 6).Draw(t, "nids")
	var pool []string
	seen := map[string]bool{}
	for i := 0; i < n; i++ {
		var id string
		mode := rapid.IntRange(0, 9).Draw(t, "idmode")
		switch {
		case mode >= 8: // topic/handler form (alert handler specs, load items)
			first := rapid.SampledFrom([]string{"t", "a", "t.0"}).Draw(t, "topic")
			if len(pool) > 0 && rapid.Bool().Draw(t, "topicFromPool") {
				p := pool[rapid.IntRange(0, len(pool)-1).Draw(t, "topicIdx")]
				if !strings.Contains(p, "/") {
					first = p
				}
			}
			second := genSeg(t, "h")
			// "." and ".." segments cannot reach the store in this form: the callers build such IDs with path.Join
			if isDotSeg(first) {
				first += "_"
			}
			if isDotSeg(second) {
				second += "_"
			}
			id = first + "/" + second
		case mode >= 5 && len(pool) > 0: // extend an existing ID: IDs that are prefixes of each other
			id = pool[rapid.IntRange(0, len(pool)-1).Draw(t, "ext")] + rapid.SampledFrom(idAlphabet).Draw(t, "extch")
		default:
			id = genSeg(t, "id")
		}
		if isDotSeg(id) && excludeDotIDs {
			r.Exclude("id-is-dot-or-dotdot")
			id += "_"
		}
		if !seen[id] {
			seen[id] = true
			pool = append(pool, id)
		}
	}
	return pool
}

type genState struct {
	t     *rapid.T
	r     *kit.Rec
	pool  []string
	secs  []string
	val   int
	fault bool
}

func (g *genState) pickID(m model, preferExisting bool) string {
	pick := rapid.IntRange(0, len(g.pool)-1).Draw(g.t, "id")
	if rapid.IntRange(0, 9).Draw(g.t, "bias") < 7 {
		var pref []string
		for _, id := range g.pool {
			if _, ok := m[id]; ok == preferExisting {
				pref = append(pref, id)
			}
		}
		if len(pref) > 0 {
			return pref[pick%len(pref)]
		}
	}
	return g.pool[pick]
}

func (g *genState) genObjFields(m model, op *Op) {
	t := g.t
	g.val++
	op.Val = g.val
	old, exists := m[op.ID]
	if exists && rapid.Bool().Draw(t, "keepSec") {
		op.Sec = old.Sec
	} else {
		op.Sec = rapid.SampledFrom(g.secs).Draw(t, "sec")
	}
	if exists && rapid.Bool().Draw(t, "keepUniq") {
		op.Uniq = old.Uniq
		return
	}
	// unique index values are unique among the stored objects: the callers' precondition
	var free []string
	for _, v := range uniqPool {
		if m.uniqFree(op.ID, v) {
			free = append(free, v)
		}
	}
	op.Uniq = free[rapid.IntRange(0, len(free)-1).Draw(t, "uniq")]
}

func (g *genState) patterns() []string {
	ps := []string{"", "", "*", "?", "??", "???", "*/*", "[a-b]*", "[^a]*", "*[0-9]", "*.*", "*é*", "t/*"}
	for _, id := range g.pool {
		ps = append(ps, id, id+"*")
		rs := []rune(id)
		ps = append(ps, string(rs[:1])+"*", "*"+string(rs[len(rs)-1:]))
		if i := strings.IndexByte(id, '/'); i > 0 {
			ps = append(ps, id[:i]+"/*", id[:i]+"/?")
		}
	}
	return ps
}

func (g *genState) genList(m model, inUpdateTx bool) Op {
	t := g.t
	op := Op{K: kList}
	op.Index = rapid.SampledFrom([]string{idxID, idxID, idxSec, idxSec, idxUniq}).Draw(t, "index")
	if !inUpdateTx {
		op.Reverse = rapid.IntRange(0, 2).Draw(t, "reverse") == 0
		op.ViaTx = rapid.IntRange(0, 3).Draw(t, "viatx") == 0
	}
	// directory listing exactly as services/load/dao.go does it: List("id/<prefix>", "", 0, -1)
	var subs []string
	for _, id := range g.pool {
		if i := strings.IndexByte(id, '/'); i > 0 {
			subs = append(subs, id[:i])
		}
	}
	if len(subs) > 0 && rapid.IntRange(0, 5).Draw(t, "sublist") == 0 {
		op.Index, op.Reverse = idxID, false
		op.Sub = subs[rapid.IntRange(0, len(subs)-1).Draw(t, "sub")]
		op.Limit = -1
		return op
	}
	op.Pattern = rapid.SampledFrom(g.patterns()).Draw(t, "pattern")
	// offsets and limits are drawn relative to the number of objects the pattern selects
	f := len(m.list(op.Index, "", op.Pattern, 0, -1, false))
	switch k := rapid.IntRange(0, 9).Draw(t, "offsetKind"); {
	case k < 3:
		op.Offset = 0
	case k < 8 && f >= 2:
		op.Offset = rapid.IntRange(1, f-1).Draw(t, "offsetInside")
	default:
		op.Offset = f + rapid.IntRange(0, 2).Draw(t, "offsetPastEnd")
	}
	rest := f - op.Offset
	if rest < 0 {
		rest = 0
	}
	switch rapid.IntRange(0, 11).Draw(t, "limitKind") {
	case 0:
		op.Limit = 0
	case 1, 2, 3:
		op.Limit = rapid.IntRange(1, rest+1).Draw(t, "limit")
	case 4:
		op.Limit = rest // exactly what is left
	case 5, 6:
		op.Limit = 100
	case 7:
		op.Limit = len(m)
	case 8, 9:
		op.Limit = rapid.SampledFrom([]int{-1, -1, -7, math.MinInt64}).Draw(t, "neglimit")
	case 10, 11:
		op.Limit = rapid.SampledFrom([]int{math.MaxInt64, math.MaxInt64 - 1, math.MaxInt32, 1 << 62}).Draw(t, "hugelimit")
	}
	if op.Limit < 0 && (op.Pattern != "" || op.Offset > 0) && excludeNegLimitFiltered {
		g.r.Exclude("list-negative-limit-with-pattern-or-offset")
		op.Pattern, op.Offset = "", 0
	}
	if op.Limit > 0 && op.Offset > math.MaxInt64-op.Limit && excludeLimitOverflow {
		g.r.Exclude("list-offset-plus-limit-overflows-int")
		op.Limit = math.MaxInt64 - op.Offset
	}
	return op
}

// genOp draws one operation given the model state it will be applied to. depth 1 = inside a transaction.
func (g *genState) genOp(m model, depth int) Op {
	t := g.t
	kinds := []string{kCreate, kCreate, kCreate, kPut, kPut, kPut, kReplace, kReplace, kReplace, kReplace, kDelete, kDelete, kGet, kList, kList, kList, kList, kRebuild}
	if depth == 0 {
		kinds = append(kinds, kReopen, kTx, kTx, kTx)
	}
	if g.fault { // more mutations, fewer reads
		kinds = append(kinds, kCreate, kPut, kReplace, kReplace, kDelete)
	}
	op := Op{K: rapid.SampledFrom(kinds).Draw(t, "kind")}
	switch op.K {
	case kCreate:
		op.ID = g.pickID(m, false)
		g.genObjFields(m, &op)
	case kPut:
		op.ID = g.pickID(m, rapid.Bool().Draw(t, "putOver"))
		g.genObjFields(m, &op)
	case kReplace:
		op.ID = g.pickID(m, true)
		g.genObjFields(m, &op)
	case kDelete:
		op.ID = g.pickID(m, true)
	case kGet:
		op.ID = g.pickID(m, true)
		if depth == 0 {
			op.ViaTx = rapid.Bool().Draw(t, "viatx")
		}
	case kList:
		op = g.genList(m, depth > 0)
	case kTx:
		n := rapid.IntRange(1, 5).Draw(t, "ntx")
		txm := m.clone()
		for i := 0; i < n; i++ {
			s := g.genOp(txm, 1)
			txm.apply(s)
			op.Ops = append(op.Ops, s)
		}
		op.Rollback = rapid.IntRange(0, 2).Draw(t, "rollback") == 0
	}
	return op
}

func genCase(r *kit.Rec, fault bool) func(t *rapid.T) Case {
	return func(t *rapid.T) Case {
		var c Case
		c.Buckets = rapid.SampledFrom([][]string{{"c15"}, {"c15"}, {"kapacitor", "c15"}, {"a", "b", "c"}}).Draw(t, "buckets")
		c.Prefix = rapid.SampledFrom([]string{"p", "tasks", "handlers"}).Draw(t, "prefix")
		c.IDs = genIDs(t, r)
		c.ReopenEach = rapid.IntRange(0, 3).Draw(t, "reopenEach") == 0
		g := &genState{t: t, r: r, pool: c.IDs, fault: fault}
		g.secs = rapid.SampledFrom(secPools).Draw(t, "secpool")
		maxOps := 30
		if fault {
			maxOps = 12
		}
		n := rapid.IntRange(1, maxOps).Draw(t, "nops")
		m := model{}
		for i := 0; i < n; i++ {
			op := g.genOp(m, 0)
			if op.K == kTx {
				txm := m.clone()
				for _, s := range op.Ops {
					txm.apply(s)
				}
				if !op.Rollback {
					m = txm
				}
			} else {
				m.apply(op)
			}
			c.Ops = append(c.Ops, op)
		}
		return c
	}
}

// ---------------------------------------------------------------- execution

var (
	errRollback = errors.New("c15: roll this transaction back")
	errAbort    = errors.New("c15: check failed inside the transaction")
)

type runner struct {
	c       Case
	cc      *kit.Case
	e       *env
	m       model
	fault   bool
	labels  map[string]bool
	changed map[string]bool // secondary indexes in which a replace changed a value
	nt      bool
	dotIDs  bool // an operation of the history stores an object under the ID "." or ".."
	step    int
	cur     Op
}

func (r *runner) label(l string) { r.labels[l] = true }

func opString(op Op) string {
	b, _ := json.Marshal(op)
	return string(b)
}

func (r *runner) fail(sig, format string, args ...any) {
	if r.dotIDs {
		// the history stores an object whose ID is "." or "..": a defect class of its own
		sig = "dot-id/" + sig
	}
	r.cc.Fail(sig, "step %d %s: %s\n(model before/at this step: %s)", r.step, opString(r.cur), fmt.Sprintf(format, args...), fmtObjs(r.m.sorted(idxID)))
}

func (r *runner) failV(prefix string, v *violation) {
	if v != nil {
		r.fail(prefix+v.sig, "%s", v.msg)
	}
}

// note classifies a mutating operation that is about to be applied to model m.
func (r *runner) note(op Op, m model) {
	old, exists := m[op.ID]
	switch op.K {
	case kCreate:
		if exists {
			r.label("create-rejected")
		} else {
			r.label("create")
		}
	case kPut:
		if exists {
			r.label("put-over-existing")
		} else {
			r.label("put-new")
		}
	case kReplace:
		if !exists {
			r.label("replace-rejected")
		} else {
			r.label("replace")
		}
	case kDelete:
		if exists {
			r.label("delete")
		} else {
			r.label("delete-absent")
		}
	case kRebuild:
		r.label("rebuild")
		if len(m) >= 2 {
			r.label("rebuild:>=2-objects")
		}
	}
	if exists && (op.K == kPut || op.K == kReplace) {
		if old.Sec != op.Sec {
			r.label("replace:sec-value-changed")
			r.changed[idxSec] = true
		}
		if old.Uniq != op.Uniq {
			r.label("replace:uniq-value-changed")
			r.changed[idxUniq] = true
		}
		if old.Sec == op.Sec && old.Uniq == op.Uniq {
			r.label("replace:index-values-unchanged")
		}
	}
}

func (r *runner) mutate1(tx storage.Tx, op Op) error {
	o := &obj{ID: op.ID, Sec: op.Sec, Uniq: op.Uniq, Val: op.Val}
	is := r.e.is
	if tx == nil {
		switch op.K {
		case kCreate:
			return is.Create(o)
		case kPut:
			return is.Put(o)
		case kReplace:
			return is.Replace(o)
		case kDelete:
			return is.Delete(op.ID)
		case kRebuild:
			return is.Rebuild()
		}
	} else {
		switch op.K {
		case kCreate:
			return is.CreateTx(tx, o)
		case kPut:
			return is.PutTx(tx, o)
		case kReplace:
			return is.ReplaceTx(tx, o)
		case kDelete:
			return is.DeleteTx(tx, op.ID)
		case kRebuild:
			return is.RebuildTx(tx)
		}
	}
	panic("c15: not a mutating operation: " + op.K)
}

// execMut runs a top-level mutating step against the store. It returns the model after the
// step if it completes, the error the store returned and the error the model asks for.
func (r *runner) execMut(op Op, m model, classify bool) (after model, got, want error) {
	after = m.clone()
	if op.K != kTx {
		if classify {
			r.note(op, m)
		}
		want = after.apply(op)
		got = r.mutate1(nil, op)
		return
	}
	txm := m.clone()
	rejected := false
	got = r.e.is.Store().Update(func(tx storage.Tx) error {
		rd := r.e.txReader(tx)
		for j, s := range op.Ops {
			s.Reverse, s.ViaTx = false, false // ReverseListTx takes a read-only transaction
			r.cur = s
			switch s.K {
			case kGet:
				o, err := rd.get(s.ID)
				r.checkGet(s, txm, o, err)
			case kList:
				if classify {
					r.label("list:inside-update-tx")
				}
				l, err := r.e.is.ListTx(tx, s.indexName(), s.Pattern, s.Offset, s.Limit)
				r.checkList(s, txm, l, err, classify)
			default:
				if classify {
					r.note(s, txm)
				}
				err := r.mutate1(tx, s)
				if isInjected(err) {
					return err // the caller gives up the transaction
				}
				w := txm.apply(s)
				if err != w {
					r.fail("op/"+s.K+"-result", "%sTx inside a transaction (operation %d) returned %v, want %v", s.K, j, err, w)
				}
				if w != nil {
					rejected = true
				}
			}
			if r.cc.Failed() {
				return errAbort
			}
			// the transaction sees its own writes
			if v := checkState(rd, r.c.Prefix, txm, r.c.IDs); v != nil {
				r.fail("tx/"+v.sig, "inside the transaction after operation %d: %s", j, v.msg)
				return errAbort
			}
		}
		r.cur = op
		if op.Rollback {
			return errRollback
		}
		return nil
	})
	r.cur = op
	if classify {
		if op.Rollback {
			r.label("tx-rollback")
		} else {
			r.label("tx-commit")
		}
		if rejected {
			r.label("tx:rejected-operation-inside")
		}
		if len(op.Ops) >= 3 {
			r.label("tx:>=3-operations")
		}
	}
	if op.Rollback {
		want = errRollback
	} else {
		after = txm
	}
	return
}

func (op Op) indexName() string {
	if op.Sub != "" {
		return op.Index + "/" + op.Sub
	}
	return op.Index
}

func (r *runner) checkGet(op Op, m model, got storage.BinaryObject, err error) {
	want, exists := m[op.ID]
	if !exists {
		if err != storage.ErrNoObjectExists {
			r.fail("get/absent-id", "Get(%q) = (%v, %v), want ErrNoObjectExists", op.ID, got, err)
		}
		return
	}
	if err != nil {
		r.fail("get/lost-object", "Get(%q) = error %v, want %+v", op.ID, err, want)
		return
	}
	p, cerr := asObj(got)
	if cerr != nil || p == nil {
		r.fail("get/type", "Get(%q): %v", op.ID, cerr)
		return
	}
	if *p != want {
		r.fail("get/stale-value", "Get(%q) = %+v, last value stored is %+v", op.ID, *p, want)
	}
}

func addOverflows(a, b int) bool { return a > 0 && b > 0 && a > math.MaxInt64-b }

func (r *runner) checkList(op Op, m model, l []storage.BinaryObject, err error, classify bool) {
	want := m.list(op.Index, op.Sub, op.Pattern, op.Offset, op.Limit, op.Reverse)
	if classify {
		r.classifyList(op, m, want)
	}
	call := fmt.Sprintf("List(%q, %q, %d, %d)", op.indexName(), op.Pattern, op.Offset, op.Limit)
	if op.Reverse {
		call = "Reverse" + call
	}
	if err != nil {
		r.fail("list/error", "%s = error %v, want %s", call, err, fmtObjs(want))
		return
	}
	got, cerr := toObjs(l)
	if cerr != nil {
		r.fail("list/type", "%s: %v", call, cerr)
		return
	}
	if !sameObjs(got, want) {
		sig := "list/page-content"
		if op.Limit < 0 && (op.Pattern != "" || op.Offset > 0) {
			sig = "list/negative-limit-ignores-pattern-or-offset"
		}
		r.fail(sig, "%s = %s, want %s (the whole index in order: %s)", call, fmtObjs(got), fmtObjs(want), fmtObjs(m.sorted(op.Index)))
	}
}

func (r *runner) classifyList(op Op, m model, want []obj) {
	r.label("list")
	r.label("list:index-" + op.Index)
	if r.changed[op.Index] {
		r.label("list:after-replace-changed-this-index")
		if !r.fault {
			r.nt = true
		}
	}
	all := m.list(op.Index, op.Sub, "", 0, -1, op.Reverse)
	filtered := m.list(op.Index, op.Sub, op.Pattern, 0, -1, op.Reverse)
	if op.Pattern != "" {
		r.label("list:pattern")
		if len(filtered) > 0 && len(filtered) < len(all) {
			r.label("list:pattern-selects-proper-subset")
		}
	}
	if op.Offset > 0 {
		r.label("list:offset>0")
		if op.Offset >= len(filtered) {
			r.label("list:offset-past-end")
		} else {
			r.label("list:offset-inside")
		}
	}
	switch {
	case op.Limit == 0:
		r.label("list:limit=0")
	case op.Limit < 0:
		r.label("list:limit<0")
		if op.Pattern != "" || op.Offset > 0 {
			r.label("list:limit<0-with-pattern-or-offset")
		}
	case op.Limit >= math.MaxInt32:
		r.label("list:limit-huge")
		if addOverflows(op.Offset, op.Limit) {
			r.label("list:offset+limit-overflows")
		}
	}
	if op.Limit >= 0 && op.Offset < len(filtered) && len(filtered)-op.Offset > op.Limit {
		r.label("list:truncated-by-limit")
	}
	if op.Reverse {
		r.label("list:reverse")
	}
	if op.ViaTx {
		r.label("list:via-view-tx")
	}
	if op.Sub != "" {
		r.label("list:sub-directory")
	}
	if len(want) >= 2 {
		r.label("list:result>=2")
	}
	if len(want) == 0 {
		r.label("list:result-empty")
	}
}

func (r *runner) read(op Op) {
	is := r.e.is
	switch op.K {
	case kGet:
		if !op.ViaTx {
			o, err := is.Get(op.ID)
			r.checkGet(op, r.m, o, err)
			return
		}
		var o storage.BinaryObject
		err := r.e.base.View(func(tx storage.ReadOnlyTx) (err error) {
			o, err = is.GetTx(tx, op.ID)
			return err
		})
		r.checkGet(op, r.m, o, err)
	case kList:
		var l []storage.BinaryObject
		var err error
		switch {
		case !op.ViaTx && !op.Reverse:
			l, err = is.List(op.indexName(), op.Pattern, op.Offset, op.Limit)
		case !op.ViaTx:
			l, err = is.ReverseList(op.indexName(), op.Pattern, op.Offset, op.Limit)
		default:
			err = r.e.base.View(func(tx storage.ReadOnlyTx) (err error) {
				if op.Reverse {
					l, err = is.ReverseListTx(tx, op.indexName(), op.Pattern, op.Offset, op.Limit)
				} else {
					l, err = is.ListTx(tx, op.indexName(), op.Pattern, op.Offset, op.Limit)
				}
				return err
			})
		}
		r.checkList(op, r.m, l, err, true)
	}
}

func (r *runner) checkNow(prefix string) {
	r.failV(prefix, checkState(r.e.apiReader(), r.c.Prefix, r.m, r.c.IDs))
}

func (r *runner) reopen(prefix string) {
	if err := r.e.reopen(); err != nil {
		r.fail("harness/reopen", "reopen: %v", err)
		return
	}
	r.checkNow(prefix)
}

// mutate runs a top-level mutating step (Store unit: once; Fault unit: once per write event
// with that event failing, then once without failure).
func (r *runner) mutate(op Op) {
	if !r.fault {
		after, got, want := r.execMut(op, r.m, true)
		if r.cc.Failed() {
			return
		}
		if got != want {
			r.fail("op/"+op.K+"-result", "%s returned %v, want %v", op.K, got, want)
			return
		}
		r.m = after
		r.checkNow("")
		if r.c.ReopenEach && !r.cc.Failed() {
			r.reopen("reopen/")
		}
		return
	}
	pre, err := r.e.rawDump()
	if err != nil {
		r.fail("harness/raw-dump", "%v", err)
		return
	}
	for n := 1; ; n++ {
		if n > 2000 {
			r.fail("harness/fault-enumeration-does-not-end", "more than 2000 write events in one step")
			return
		}
		r.e.plan.arm(n)
		after, got, want := r.execMut(op, r.m, false)
		fired, kind := r.e.plan.fired, r.e.plan.kind
		r.e.plan.arm(0)
		if r.cc.Failed() {
			return
		}
		if !fired {
			// every write event of this step has been failed once; this run is the real one
			r.execLabels(op, n-1)
			if got != want {
				r.fail("op/"+op.K+"-result", "%s returned %v, want %v", op.K, got, want)
				return
			}
			r.m = after
			r.checkNow("")
			if r.c.ReopenEach && !r.cc.Failed() {
				r.reopen("reopen/")
			}
			return
		}
		what := fmt.Sprintf("write event %d (%s) of this step failed", n, kind)
		r.label("fault-at:" + kind)
		if kind != "commit" {
			if n == 1 {
				r.label("fault-at:first-write")
			} else {
				r.label("fault-at:second-or-later-write")
				r.nt = true
			}
		}
		r.label("fault-in:" + op.K)
		if got == nil {
			r.fail("fault/error-not-reported", "%s, but %s returned nil", what, op.K)
			return
		}
		post, err := r.e.rawDump()
		if err != nil {
			r.fail("harness/raw-dump", "%v", err)
			return
		}
		if post != pre {
			r.fail("fault/trace-left", "%s (returned %v); the bucket content changed.\nbefore:\n%safter:\n%s", what, got, pre, post)
			return
		}
		if v := checkState(r.e.apiReader(), r.c.Prefix, r.m, r.c.IDs); v != nil {
			r.fail("fault/"+v.sig, "%s (returned %v): %s", what, got, v.msg)
			return
		}
		if r.c.ReopenEach && n%4 == 1 {
			if err := r.e.reopen(); err != nil {
				r.fail("harness/reopen", "reopen: %v", err)
				return
			}
			post, err := r.e.rawDump()
			if err != nil || post != pre {
				r.fail("fault/trace-left-after-reopen", "%s (returned %v); after reopening the file the bucket content differs (%v).\nbefore:\n%safter:\n%s", what, got, err, pre, post)
				return
			}
		}
	}
}

// execLabels classifies a step of the Fault unit once it has been executed for real
// (events = number of write events it consists of).
func (r *runner) execLabels(op Op, events int) {
	// classification only: replay the model semantics of the step
	m := r.m.clone()
	if op.K == kTx {
		for _, s := range op.Ops {
			if s.K != kGet && s.K != kList {
				r.note(s, m)
				m.apply(s)
			}
		}
		if op.Rollback {
			r.label("tx-rollback")
		} else {
			r.label("tx-commit")
		}
	} else {
		r.note(op, m)
	}
	switch {
	case events == 0:
		r.label("step:no-write-event")
	case events <= 2:
		r.label("step:1-2-write-events")
	case events <= 6:
		r.label("step:3-6-write-events")
	default:
		r.label("step:>6-write-events")
	}
}

func runCase(c Case, cc *kit.Case, fault bool) {
	r := &runner{c: c, cc: cc, m: model{}, fault: fault, labels: map[string]bool{}, changed: map[string]bool{}}
	defer func() {
		ls := make([]string, 0, len(r.labels))
		for l := range r.labels {
			ls = append(ls, l)
		}
		sort.Strings(ls)
		for _, l := range ls {
			cc.Label(l)
		}
		if r.nt {
			cc.NonTrivial()
		}
	}()
	if len(c.IDs) == 0 || c.Prefix == "" || len(c.Buckets) == 0 {
		cc.Fail("harness/bad-case", "case without IDs, prefix or bucket")
		return
	}
	e, err := newEnv(c, fault)
	if err != nil {
		cc.Fail("harness/env", "open: %v", err)
		return
	}
	r.e = e
	defer e.close()
	defer func() {
		if p := recover(); p != nil {
			sig := "panic/" + r.cur.K
			if r.cur.K == kList && addOverflows(r.cur.Offset, r.cur.Limit) {
				sig = "panic/list-offset-plus-limit-overflows"
			}
			r.fail(sig, "panic: %v\n%s", p, debug.Stack())
		}
	}()

	// case classification
	if len(c.Buckets) > 1 {
		r.label("bucket:nested")
	}
	if c.ReopenEach {
		r.label("reopen-after-every-step")
	}
	for _, a := range c.IDs {
		if strings.Contains(a, "/") {
			r.label("ids:topic/handler-form")
		}
		if strings.Contains(a, "é") {
			r.label("ids:non-ascii")
		}
		if isDotSeg(a) {
			r.label("ids:dot-or-dotdot")
		}
		for _, b := range c.IDs {
			if a != b && strings.HasPrefix(b, a) {
				r.label("ids:prefix-pair")
			}
		}
	}

	for _, op := range c.Ops {
		for _, s := range append([]Op{op}, op.Ops...) {
			if isDotSeg(s.ID) && (s.K == kCreate || s.K == kPut || s.K == kReplace) {
				r.dotIDs = true
			}
		}
	}
	r.checkNow("empty/")
	maxObjs := 0
	for i, op := range c.Ops {
		if cc.Failed() {
			return
		}
		r.step, r.cur = i, op
		switch op.K {
		case kGet, kList:
			r.read(op)
		case kReopen:
			r.label("reopen")
			r.reopen("reopen/")
		case kCreate, kPut, kReplace, kDelete, kRebuild, kTx:
			r.mutate(op)
		default:
			cc.Fail("harness/bad-case", "unknown operation %q", op.K)
		}
		if len(r.m) > maxObjs {
			maxObjs = len(r.m)
		}
	}
	switch {
	case maxObjs >= 4:
		r.label("objects:>=4")
	case maxObjs >= 2:
		r.label("objects:2-3")
	default:
		r.label("objects:0-1")
	}
}

func runStore(c Case, cc *kit.Case) { runCase(c, cc, false) }
func runFault(c Case, cc *kit.Case) { runCase(c, cc, true) }

var assumptions = []string{
	"trusted: go.etcd.io/bbolt (atomic commits, ordered keys), Go's path.Match (the DAO doc comments define the pattern as 'shell/glob matching see https://golang.org/pkg/path/#Match'), sort and JSON of the standard library",
	"Bolt is opened with NoSync (no fsync per commit); a reopen closes and reopens the file in the same process, so it observes committed transactions, not torn writes (DESIGN section 8: crash points are transaction boundaries)",
	"IDs are non-empty, match the callers' ID rule [-._\\p{L}0-9]+ (task_store, replay, alert handlers) or the topic/handler form the alert and load services build with path.Join (one '/', no '.' or '..' segment)",
	"values of a unique index are unique among the stored objects (callers' precondition: every unique index in the tree is keyed by the object ID); the generator tracks the model to draw only free values",
	"values of the non-unique index contain no '/' and are either fixed-width RFC3339 dates (services/replay) or tokens over [a-z0-9_], so that 'index order' (by value, then by ID, bytewise) is unambiguous",
	"the glob pattern is matched against the object ID (what every caller relies on); malformed patterns are not generated (their result is not specified anywhere)",
	"offsets are >= 0 ('Offset is inclusive starting at index 0'); limits take any int value because the HTTP list handlers (tasks, templates, recordings, replays, users) pass the client's integer through unchecked and config/load pass -1; 'If limit < 0, then no limit is enforced' (doc of List)",
	"the sub-directory listing List(\"id/<prefix>\", \"\", 0, -1) is generated only in the exact form services/load/dao.go uses",
	"inside a multi-operation transaction a rejected *Tx operation (ErrObjectExists, ErrNoObjectExists) lets the transaction continue; an operation that fails with a storage error makes the caller return that error, i.e. roll the whole transaction back (services/alert/service.go, services/alert/dao.go DeleteMultiple)",
	"injected failures: the failing Put/Delete/Commit does not perform the underlying write; reads are never failed",
}

func TestStore(t *testing.T) {
	r := kit.NewRec("C15", "Store", ruleStore, assumptions...)
	kit.Check(t, r, genCase(r, false), runStore)
}

func TestReplayStore(t *testing.T) {
	r := kit.NewRec("C15", "Store", ruleStore, assumptions...)
	kit.Replay(t, r, runStore)
}

func TestFault(t *testing.T) {
	r := kit.NewRec("C15", "Fault", ruleFault, assumptions...)
	kit.Check(t, r, genCase(r, true), runFault)
}

func TestReplayFault(t *testing.T) {
	r := kit.NewRec("C15", "Fault", ruleFault, assumptions...)
	kit.Replay(t, r, runFault)
}
