package c15

// Reference model of the indexed store, written from the property statement and the doc
// comments of services/storage/indexed.go and of the DAO interfaces that sit on top of it
// (services/task_store/dao.go, services/alert/dao.go):
//
//   - Create: ErrObjectExists if an object with the same ID exists, otherwise stores it
//   - Put: stores it (create or overwrite)
//   - Replace: ErrNoObjectExists if no object with that ID exists, otherwise overwrites it
//   - Delete: removes it; "It is not an error to delete a non-existent" object
//   - Get: the last value stored under the ID, ErrNoObjectExists if there is none
//   - List(index, pattern, offset, limit): the stored objects sorted by the index, those whose ID
//     matches the glob pattern ("shell/glob matching see https://golang.org/pkg/path/#Match";
//     the empty pattern matches everything), "Offset is inclusive starting at index 0", at most
//     limit of them; "If limit < 0, then no limit is enforced"
//   - ReverseList: the same "using reverse sort"
//
// It is a map plus a sort: nothing of the key layout of the implementation is in here.

import (
	"path"
	"sort"
	"strings"

	"github.com/influxdata/kapacitor/services/storage"
)

// obj is the stored object: an ID, a non-unique secondary value, a unique secondary value and a payload.
type obj struct {
	ID   string `json:"id"`
	Sec  string `json:"sec"`
	Uniq string `json:"uniq"`
	Val  int    `json:"val"`
}

const (
	idxID   = "id"
	idxSec  = "sec"
	idxUniq = "uniq"
)

var indexNames = []string{idxID, idxSec, idxUniq}

type model map[string]obj

func (m model) clone() model {
	c := make(model, len(m))
	for k, v := range m {
		c[k] = v
	}
	return c
}

func (m model) equal(o model) bool {
	if len(m) != len(o) {
		return false
	}
	for k, v := range m {
		if w, ok := o[k]; !ok || w != v {
			return false
		}
	}
	return true
}

// apply executes a mutating operation on the model and returns the error the store must report.
func (m model) apply(op Op) error {
	o := obj{ID: op.ID, Sec: op.Sec, Uniq: op.Uniq, Val: op.Val}
	_, exists := m[op.ID]
	switch op.K {
	case kCreate:
		if exists {
			return storage.ErrObjectExists
		}
		m[op.ID] = o
	case kPut:
		m[op.ID] = o
	case kReplace:
		if !exists {
			return storage.ErrNoObjectExists
		}
		m[op.ID] = o
	case kDelete:
		delete(m, op.ID)
	case kRebuild:
		// rebuilding the indexes does not change what is stored
	}
	return nil
}

// uniqFree reports whether value v of the unique index is not used by an object other than id.
func (m model) uniqFree(id, v string) bool {
	for k, o := range m {
		if k != id && o.Uniq == v {
			return false
		}
	}
	return true
}

// sorted returns the stored objects in the order of the index: the id index by ID, the unique
// index by its value, the non-unique index by value and, among equal values, by ID. Strings
// are compared bytewise (the order of the underlying key/value store).
func (m model) sorted(index string) []obj {
	out := make([]obj, 0, len(m))
	for _, o := range m {
		out = append(out, o)
	}
	sort.Slice(out, func(i, j int) bool {
		a, b := out[i], out[j]
		switch index {
		case idxSec:
			if a.Sec != b.Sec {
				return a.Sec < b.Sec
			}
		case idxUniq:
			if a.Uniq != b.Uniq {
				return a.Uniq < b.Uniq
			}
		}
		return a.ID < b.ID
	})
	return out
}

// list is the reference of List/ReverseList. sub != "" restricts the id index to the
// 'directory' sub, i.e. to the IDs of the form sub/... (services/load/dao.go lists the index
// "id/<prefix>" to get the items whose ID starts with "<prefix>/").
func (m model) list(index, sub, pattern string, offset, limit int, reverse bool) []obj {
	all := m.sorted(index)
	if reverse {
		for i, j := 0, len(all)-1; i < j; i, j = i+1, j-1 {
			all[i], all[j] = all[j], all[i]
		}
	}
	matched := make([]obj, 0, len(all))
	for _, o := range all {
		if sub != "" && !strings.HasPrefix(o.ID, sub+"/") {
			continue
		}
		if pattern != "" {
			if ok, _ := path.Match(pattern, o.ID); !ok {
				continue
			}
		}
		matched = append(matched, o)
	}
	if offset >= len(matched) {
		return nil
	}
	matched = matched[offset:]
	if limit >= 0 && limit < len(matched) {
		matched = matched[:limit]
	}
	return matched
}
