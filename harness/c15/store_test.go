package c15

// The store under test: a real storage.IndexedStore on a real Bolt file, optionally behind a
// fault-injecting storage.Interface, plus the observation helpers (API state, raw key space).

import (
	"encoding/json"
	"errors"
	"fmt"
	"os"
	"path/filepath"
	"sort"
	"strings"
	"time"

	"github.com/influxdata/kapacitor/services/storage"
	pkgerrors "github.com/pkg/errors"
	bolt "go.etcd.io/bbolt"
)

func (o obj) ObjectID() string                { return o.ID }
// The objects are encoded the way every production DAO encodes its objects (task_store, alert,
// config, replay ...): storage.VersionJSONEncode / VersionJSONDecode. The bytes MarshalBinary returns
// are handed to the store as they are (bolt keeps the value slice of a Put until the commit).
type objV1 obj

func (o obj) MarshalBinary() ([]byte, error) { return storage.VersionJSONEncode(1, objV1(o)) }
func (o *obj) UnmarshalBinary(b []byte) error {
	return storage.VersionJSONDecode(b, func(version int, dec *json.Decoder) error {
		if version != 1 {
			return fmt.Errorf("unexpected version %d", version)
		}
		return dec.Decode((*objV1)(o))
	})
}

func asObj(o storage.BinaryObject) (*obj, error) {
	p, ok := o.(*obj)
	if !ok {
		return nil, storage.ImpossibleTypeErr(p, o)
	}
	return p, nil
}

func storeConfig(prefix string) storage.IndexedStoreConfig {
	c := storage.DefaultIndexedStoreConfig(prefix, func() storage.BinaryObject { return new(obj) })
	c.Indexes = append(c.Indexes,
		storage.Index{Name: idxSec, ValueFunc: func(o storage.BinaryObject) (string, error) {
			p, err := asObj(o)
			if err != nil {
				return "", err
			}
			return p.Sec, nil
		}},
		storage.Index{Name: idxUniq, Unique: true, ValueFunc: func(o storage.BinaryObject) (string, error) {
			p, err := asObj(o)
			if err != nil {
				return "", err
			}
			return p.Uniq, nil
		}},
	)
	return c
}

// ---------------------------------------------------------------- fault injection

var errInjected = errors.New("c15: injected write failure")

func isInjected(err error) bool {
	return err != nil && (errors.Is(err, errInjected) || pkgerrors.Cause(err) == errInjected)
}

// faultPlan fails the at-th write event (Put, Delete or Commit, counted in order of
// occurrence from the moment it is armed). at == 0: disarmed.
type faultPlan struct {
	at, n  int
	fired  bool
	kind   string // what the failed event was: put | delete | commit
	events int    // write events seen since arm (also when disarmed)
}

func (p *faultPlan) arm(at int) { *p = faultPlan{at: at} }

func (p *faultPlan) hit(kind string) bool {
	p.events++
	if p.at == 0 || p.fired {
		return false
	}
	p.n++
	if p.n == p.at {
		p.fired, p.kind = true, kind
		return true
	}
	return false
}

// faultStore is a storage.Interface over Bolt whose update transactions can be made to fail.
// Update is storage.DoUpdate (the code under test) over this TxOperator, exactly as
// (*storage.Bolt).Update is DoUpdate over Bolt. Reads are never failed.
type faultStore struct {
	inner *storage.Bolt
	plan  *faultPlan
}

func (s *faultStore) View(f func(storage.ReadOnlyTx) error) error { return storage.DoView(s, f) }
func (s *faultStore) Update(f func(storage.Tx) error) error      { return storage.DoUpdate(s, f) }
func (s *faultStore) Store(b ...[]byte) storage.Interface {
	return &faultStore{inner: s.inner.Store(b...).(*storage.Bolt), plan: s.plan}
}
func (s *faultStore) BeginReadOnlyTx() (storage.ReadOnlyTx, error) { return s.inner.BeginReadOnlyTx() }
func (s *faultStore) BeginTx() (storage.Tx, error) {
	tx, err := s.inner.BeginTx()
	if err != nil {
		return nil, err
	}
	return &faultTx{Tx: tx, plan: s.plan}, nil
}

type faultTx struct {
	storage.Tx
	plan *faultPlan
}

func (t *faultTx) Put(k string, v []byte) error {
	if t.plan.hit("put") {
		return errInjected
	}
	return t.Tx.Put(k, v)
}
func (t *faultTx) Delete(k string) error {
	if t.plan.hit("delete") {
		return errInjected
	}
	return t.Tx.Delete(k)
}
func (t *faultTx) Commit() error {
	if t.plan.hit("commit") {
		return errInjected // not committed: DoUpdate's deferred Rollback undoes the transaction
	}
	return t.Tx.Commit()
}
func (t *faultTx) Bucket(name []byte) storage.Tx {
	return &faultTx{Tx: t.Tx.Bucket(name), plan: t.plan}
}

// ---------------------------------------------------------------- environment

type env struct {
	dir     string
	file    string
	buckets [][]byte
	prefix  string
	db      *bolt.DB
	raw     *storage.Bolt     // for observing the raw key space, never faulted
	base    storage.Interface // what the IndexedStore sits on
	is      *storage.IndexedStore
	plan    *faultPlan // nil: no fault injection
}

func newEnv(c Case, fault bool) (*env, error) {
	// a memory-backed file system if there is one (the file is still a real Bolt file, created,
	// closed and reopened through the OS), else the temp dir the driver assigned
	dir, err := os.MkdirTemp("/dev/shm", "c15-")
	if err != nil {
		if dir, err = os.MkdirTemp("", "c15-"); err != nil {
			return nil, err
		}
	}
	e := &env{dir: dir, file: filepath.Join(dir, "kapacitor.db"), prefix: c.Prefix}
	for _, b := range c.Buckets {
		e.buckets = append(e.buckets, []byte(b))
	}
	if fault {
		e.plan = &faultPlan{}
	}
	if err := e.open(); err != nil {
		os.RemoveAll(dir)
		return nil, err
	}
	return e, nil
}

func (e *env) open() error {
	// NoSync: no fsync per commit (speed). Commits are still written to the file, so that
	// closing and reopening the file reads back exactly what was committed.
	db, err := bolt.Open(e.file, 0o600, &bolt.Options{Timeout: 10 * time.Second, NoSync: true, NoFreelistSync: true})
	if err != nil {
		return err
	}
	e.db = db
	e.raw = storage.NewBolt(db, e.buckets...)
	e.base = e.raw
	if e.plan != nil {
		e.base = &faultStore{inner: e.raw, plan: e.plan}
	}
	e.is, err = storage.NewIndexedStore(e.base, storeConfig(e.prefix))
	return err
}

func (e *env) reopen() error {
	if err := e.db.Close(); err != nil {
		return err
	}
	e.db = nil
	return e.open()
}

func (e *env) close() {
	if e.db != nil {
		e.db.Close()
	}
	os.RemoveAll(e.dir)
}

// ---------------------------------------------------------------- observation

// rawDump is the complete content of the bucket as "key=value" lines in key order.
func (e *env) rawDump() (string, error) {
	var sb strings.Builder
	err := e.raw.View(func(tx storage.ReadOnlyTx) error {
		kvs, err := tx.List("")
		if err != nil {
			return err
		}
		for _, kv := range kvs {
			fmt.Fprintf(&sb, "%q=%q\n", kv.Key, kv.Value)
		}
		return nil
	})
	return sb.String(), err
}

// reader is the read API of the store either outside a transaction or bound to one.
type reader struct {
	get  func(id string) (storage.BinaryObject, error)
	list func(index, pattern string, offset, limit int) ([]storage.BinaryObject, error)
	raw  func() ([]*storage.KeyValue, error)
}

func (e *env) apiReader() reader {
	return reader{
		get:  e.is.Get,
		list: e.is.List,
		raw: func() (kvs []*storage.KeyValue, err error) {
			err = e.raw.View(func(tx storage.ReadOnlyTx) error {
				kvs, err = tx.List("")
				return err
			})
			return
		},
	}
}

func (e *env) txReader(tx storage.Tx) reader {
	return reader{
		get:  func(id string) (storage.BinaryObject, error) { return e.is.GetTx(tx, id) },
		list: func(index, pattern string, offset, limit int) ([]storage.BinaryObject, error) { return e.is.ListTx(tx, index, pattern, offset, limit) },
		raw:  func() ([]*storage.KeyValue, error) { return tx.List("") },
	}
}

type violation struct{ sig, msg string }

func fmtObjs(os []obj) string {
	var sb strings.Builder
	sb.WriteString("[")
	for i, o := range os {
		if i > 0 {
			sb.WriteString(" ")
		}
		fmt.Fprintf(&sb, "%q(sec=%q uniq=%q val=%d)", o.ID, o.Sec, o.Uniq, o.Val)
	}
	sb.WriteString("]")
	return sb.String()
}

func toObjs(l []storage.BinaryObject) ([]obj, error) {
	out := make([]obj, len(l))
	for i, b := range l {
		p, err := asObj(b)
		if err != nil {
			return nil, err
		}
		if p == nil {
			return nil, fmt.Errorf("nil object at position %d", i)
		}
		out[i] = *p
	}
	return out, nil
}

func sameObjs(a, b []obj) bool {
	if len(a) != len(b) {
		return false
	}
	for i := range a {
		if a[i] != b[i] {
			return false
		}
	}
	return true
}

// pageAll is the limit used to list "everything": the page size of the callers' internal loops.
const pageAll = 100

// checkState compares everything observable with the model: Get of every ID of the pool, the
// full list of every index, and the raw key space (data keys and index entries in bijection,
// nothing else in the bucket).
func checkState(rd reader, prefix string, m model, pool []string) *violation {
	for _, id := range pool {
		got, err := rd.get(id)
		want, exists := m[id]
		switch {
		case !exists:
			if err != storage.ErrNoObjectExists {
				return &violation{"get/absent-id", fmt.Sprintf("Get(%q): no object is stored under this ID, got (%v, %v), want ErrNoObjectExists", id, got, err)}
			}
		case err != nil:
			return &violation{"get/lost-object", fmt.Sprintf("Get(%q) = error %v, the model holds %+v", id, err, want)}
		default:
			p, cerr := asObj(got)
			if cerr != nil || p == nil {
				return &violation{"get/type", fmt.Sprintf("Get(%q): %v", id, cerr)}
			}
			if *p != want {
				return &violation{"get/stale-value", fmt.Sprintf("Get(%q) = %+v, last value stored is %+v", id, *p, want)}
			}
		}
	}
	for _, idx := range indexNames {
		l, err := rd.list(idx, "", 0, pageAll)
		if err != nil {
			return &violation{"list/error", fmt.Sprintf("List(%q, \"\", 0, %d) = error %v; model: %s", idx, pageAll, err, fmtObjs(m.sorted(idx)))}
		}
		got, err := toObjs(l)
		if err != nil {
			return &violation{"list/type", err.Error()}
		}
		if want := m.sorted(idx); !sameObjs(got, want) {
			return &violation{"index/" + idx + "-content", fmt.Sprintf("index %q lists %s, stored objects in index order are %s", idx, fmtObjs(got), fmtObjs(want))}
		}
	}
	kvs, err := rd.raw()
	if err != nil {
		return &violation{"harness/raw-list", err.Error()}
	}
	return checkRaw(kvs, prefix, m)
}

// checkRaw: the documented layout is /<prefix>/data/<ID> for the data and
// /<prefix>/indexes/<index>/<value> -> ID for the index entries (comment of indexKey). Every
// key of the bucket must be one of these, the data IDs must be the model's IDs, and every
// index must hold exactly one entry per data ID (bijection), pointing at it.
func checkRaw(kvs []*storage.KeyValue, prefix string, m model) *violation {
	dataP := "/" + prefix + "/data/"
	idxP := "/" + prefix + "/indexes/"
	data := map[string]bool{}
	entries := map[string]map[string]int{}
	for _, n := range indexNames {
		entries[n] = map[string]int{}
	}
	for _, kv := range kvs {
		switch {
		case strings.HasPrefix(kv.Key, dataP):
			data[kv.Key[len(dataP):]] = true
		case strings.HasPrefix(kv.Key, idxP):
			rest := kv.Key[len(idxP):]
			i := strings.IndexByte(rest, '/')
			if i < 0 || entries[rest[:i]] == nil { // an empty index value gives the key <index>/ (nothing after the slash)
				return &violation{"raw/stray-key", fmt.Sprintf("key %q (value %q) is neither a data key nor an entry of one of the indexes %v", kv.Key, kv.Value, indexNames)}
			}
			entries[rest[:i]][string(kv.Value)]++
		default:
			return &violation{"raw/stray-key", fmt.Sprintf("key %q (value %q) is outside %q and %q", kv.Key, kv.Value, dataP, idxP)}
		}
	}
	ids := make([]string, 0, len(data))
	for id := range data {
		ids = append(ids, id)
	}
	sort.Strings(ids)
	for _, id := range ids {
		if _, ok := m[id]; !ok {
			return &violation{"raw/data-not-in-model", fmt.Sprintf("data key for ID %q exists, the model holds no such object", id)}
		}
	}
	mids := make([]string, 0, len(m))
	for id := range m {
		mids = append(mids, id)
	}
	sort.Strings(mids)
	for _, id := range mids {
		if !data[id] {
			return &violation{"raw/data-missing", fmt.Sprintf("no data key for stored ID %q", id)}
		}
	}
	for _, n := range indexNames {
		targets := make([]string, 0, len(entries[n]))
		for id := range entries[n] {
			targets = append(targets, id)
		}
		sort.Strings(targets)
		for _, id := range targets {
			if !data[id] {
				return &violation{"store/index-orphan", fmt.Sprintf("index %q holds an entry for ID %q which has no data", n, id)}
			}
			if k := entries[n][id]; k != 1 {
				return &violation{"store/index-duplicate", fmt.Sprintf("index %q holds %d entries for ID %q", n, k, id)}
			}
		}
		for _, id := range ids {
			if entries[n][id] == 0 {
				return &violation{"store/index-missing", fmt.Sprintf("index %q holds no entry for the stored ID %q", n, id)}
			}
		}
	}
	return nil
}
