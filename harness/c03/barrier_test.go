// C03, unit Barrier — the time window's second entry point: windows flushed by barriers.
//
// Pipeline:  stream|from().measurement('m')[.groupBy('host')] |barrier().idle(<idle>ms) |log('B')
//            |window().period(..).every(..)[.align()][.fillPeriod()] |log('W')
//
// pipeline/barrier.go documents exactly this pipeline (barrier().idle(5s)|window().period(10s).every(5s)):
// the barrier lets the window be emitted "in the absence of data traffic". An idle barrier stamps its
// barrier lastPointTime+idle (data time) once no point of the group arrived for <idle> of wall time,
// again lastPointTime+2*idle after another <idle>, ...; it drops points older than its last barrier.
//
// Generator: time window configuration (period a multiple of 10ms in 10..300ms, every = 0 | < | = | >
// period, align, fillPeriod) x idle 80|120 ms (the same order of magnitude as period/every, so that a
// barrier lands inside, on the edge of, or beyond the pending window) x 1-3 interleaved groups x
// gap-pattern timestamps x planned silences (wall-clock pauses of 1.3 or 2.4 idle after 0-2 chosen
// points and after the last one) x the gap of each group's first point after a silence (exactly on the
// expected barrier time, just after it, inside the same window, far later, just before it = dropped).
//
// Oracle (declarative, independent of which message triggered a window and of how many barriers
// fired): let B_g be the points of group g seen directly below the barrier (= what the window
// receives, in this order). Every window of group g with end time T must hold exactly the points of
// B_g with T-period <= t < T in arrival order (every=0: a contiguous run of B_g inside (T-period, T]
// that contains every point with T-period < t < T). Plus what the statement says about the schedule
// without knowing the barriers: end times at least 'every' apart, multiples of 'every' with align,
// first window not before t0+period with fillPeriod (period > every).
//
// The idle barrier works on the system clock. Nothing is concluded from timing: the number of
// barriers is never assumed; the wall clock is only used conservatively to recognise runs in which a
// point may have been overtaken by a barrier inside the barrier node (label
// barrier-timing-inconclusive, not compared).
package c03

import (
	"fmt"
	"reflect"
	"sync"
	"testing"
	"time"

	"verifharness/kit"

	"github.com/influxdata/kapacitor"
	"pgregory.net/rapid"
)

type BCase struct {
	Period  int64   `json:"period"` // ns, multiple of 10ms
	Every   int64   `json:"every"`  // ns, multiple of 10ms or 0
	Align   bool    `json:"align"`
	Fill    bool    `json:"fill"`
	GroupBy bool    `json:"groupby"`
	Base    int64   `json:"base"`
	Groups  int     `json:"groups"`
	IdleMs  int     `json:"idle_ms"`
	Order   []int   `json:"order"` // group of the i-th fed point
	Gaps    []int64 `json:"gaps"`  // gap (ns) to the previous fed point of its group
	Pause   []int   `json:"pause"` // wall-clock silence after the i-th fed point, in tenths of idle (0 = none)
}

const ruleBarrier = "rapid: barrier().idle(80|120ms) |window(period 10..300ms / every 0,<,=,> period / align / fillPeriod) x 1-3 interleaved groups x gap-pattern timestamps x " +
	"wall-clock silences (1.3 or 2.4 idle) after 0-2 chosen points and after the last one x the first gap after a silence (on / after / before the expected barrier time); " +
	"non-trivial = a window that the point-only schedule does not contain (flushed or shifted by a barrier) was emitted non-empty, and the run was compared; distinct by case hash"

func genBarrier(t *rapid.T) BCase {
	var c BCase
	const u = int64(10 * time.Millisecond)
	c.GroupBy = rapid.Bool().Draw(t, "groupby")
	c.Groups = 1
	if c.GroupBy {
		c.Groups = rapid.IntRange(1, 3).Draw(t, "groups")
	}
	c.IdleMs = rapid.SampledFrom([]int{80, 120}).Draw(t, "idle")
	idle := int64(c.IdleMs) * int64(time.Millisecond)
	pk := int64(rapid.IntRange(1, 30).Draw(t, "periodK"))
	c.Period = pk * u
	switch rapid.IntRange(0, 6).Draw(t, "everyKind") {
	case 0:
		c.Every = 0
	case 1, 5: // overlapping
		c.Every = int64(rapid.IntRange(1, int(pk)).Draw(t, "everyK")) * u
	case 2: // tumbling
		c.Every = c.Period
	case 3: // gaps
		c.Every = (pk + int64(rapid.IntRange(1, 10).Draw(t, "everyK"))) * u
	default:
		c.Every = int64(rapid.IntRange(1, 40).Draw(t, "everyK")) * u
	}
	c.Align = rapid.Bool().Draw(t, "align")
	c.Fill = rapid.Bool().Draw(t, "fill")
	step, per := c.Every, c.Period
	if step == 0 {
		step = per
	}
	c.Base = 1_000_000_000_000_000_000 + rapid.Int64Range(0, 2*step).Draw(t, "phase")
	n := rapid.IntRange(1, 30).Draw(t, "n")
	pauseAfter := map[int]int{}
	for k := rapid.IntRange(0, 2).Draw(t, "npause"); k > 0 && n > 1; k-- {
		pauseAfter[rapid.IntRange(0, n-2).Draw(t, "pausepos")] = rapid.SampledFrom([]int{13, 13, 24}).Draw(t, "pauselen")
	}
	pauseAfter[n-1] = rapid.SampledFrom([]int{13, 13, 24}).Draw(t, "lastpause")
	gapAlphabet := []int64{0, 0, 1, step / 2, step - 1, step, step + 1, per - 1, per, per + 1, per / 3, step / 3, idle / 2, idle - 1, idle, int64(time.Millisecond), u}
	pend := make([]int64, c.Groups) // barriers planned since the group's last point
	for i := 0; i < n; i++ {
		g := rapid.IntRange(0, c.Groups-1).Draw(t, "g")
		c.Order = append(c.Order, g)
		var gap int64
		if k := pend[g]; k > 0 {
			gap = rapid.SampledFrom([]int64{k * idle, k * idle, k*idle + 1, k*idle + step/2, k*idle + step - 1, k*idle + per - 1, k*idle + per/3, (k + 1) * idle,
				(k+3)*idle + per, (k+2)*idle + 5*per + 3, k*idle - 1, step / 2}).Draw(t, "gapAfterSilence")
			pend[g] = 0
		} else {
			gap = rapid.SampledFrom(gapAlphabet).Draw(t, "gap")
		}
		if gap < 0 {
			gap = 0
		}
		c.Gaps = append(c.Gaps, gap)
		c.Pause = append(c.Pause, pauseAfter[i])
		if pauseAfter[i] > 0 {
			for j := range pend {
				pend[j] += int64(pauseAfter[i] / 10)
			}
		}
	}
	return c
}

func (c BCase) script() string {
	s := "stream|from().measurement('m')"
	if c.GroupBy {
		s += ".groupBy('host')"
	}
	s += fmt.Sprintf("|barrier().idle(%dms)|log().prefix('B')", c.IdleMs)
	s += fmt.Sprintf("|window().period(%dms).every(%dms)", c.Period/int64(time.Millisecond), c.Every/int64(time.Millisecond))
	if c.Align {
		s += ".align()"
	}
	if c.Fill {
		s += ".fillPeriod()"
	}
	return s + "|log().prefix('W')"
}

func (c BCase) points() []kit.Pt {
	last := make([]int64, c.Groups)
	for i := range last {
		last[i] = c.Base
	}
	var pts []kit.Pt
	for i, g := range c.Order {
		last[g] += c.Gaps[i]
		pts = append(pts, kit.Pt{Name: "m", Tags: map[string]string{"host": fmt.Sprintf("h%d", g), "x": fmt.Sprintf("x%d", i%3)},
			Fields: map[string]kit.FV{"n": kit.I(int64(i))}, Time: last[g]})
	}
	return pts
}

func (c BCase) valid() bool {
	n := len(c.Order)
	if n == 0 || len(c.Gaps) != n || len(c.Pause) != n || c.Groups < 1 || c.Groups > 3 || c.Period <= 0 || c.Every < 0 || c.IdleMs < 20 {
		return false
	}
	for i := range c.Order {
		if c.Order[i] < 0 || c.Order[i] >= c.Groups || c.Gaps[i] < 0 || c.Pause[i] < 0 || c.Pause[i] > 100 {
			return false
		}
	}
	return true
}

func runBarrier(c BCase, cc *kit.Case) {
	if !c.valid() {
		cc.Fail("harness/case", "malformed Barrier case")
		return
	}
	idle := time.Duration(c.IdleMs) * time.Millisecond
	pts := c.points()
	env, err := kit.NewEnv(kit.EnvOpts{})
	if err != nil {
		cc.Fail("harness/env", "env: %v", err)
		return
	}
	defer env.Close()
	var mu sync.Mutex
	var seenAt []time.Time // wall-clock instant of the j-th observation of log('B') (one goroutine, in order)
	env.Sink.OnObs = func(prefix string) {
		if prefix == "B" {
			now := time.Now()
			mu.Lock()
			seenAt = append(seenAt, now)
			mu.Unlock()
		}
	}
	et, err := env.StartTask("t"+kit.Unique(), c.script(), kapacitor.StreamTask, nil)
	if err != nil {
		cc.Fail("harness/script-rejected", "script %q rejected: %v", c.script(), err)
		return
	}
	handIn := make([]time.Time, len(pts))
	for i, p := range pts {
		p.DB, p.RP = "db", "rp"
		handIn[i] = time.Now()
		if err := env.TM.WriteKapacitorPoint(p.Msg()); err != nil {
			cc.Fail("harness/write", "write: %v", err)
			return
		}
		if c.Pause[i] > 0 {
			time.Sleep(idle * time.Duration(c.Pause[i]) / 10)
		}
	}
	env.TM.Drain()
	et.StopStats()
	if runErr := et.Wait(); runErr != nil {
		cc.Fail("task-error", "script %s: task ended with error: %v", c.script(), runErr)
		return
	}
	obsB, obsW := env.Sink.By("B"), env.Sink.By("W")
	mu.Lock()
	seen := append([]time.Time(nil), seenAt...)
	mu.Unlock()

	// labels
	switch {
	case c.Every == 0:
		cc.Label("every=0")
	case c.Every < c.Period:
		cc.Label("every<period")
	case c.Every == c.Period:
		cc.Label("every=period")
	default:
		cc.Label("every>period")
	}
	if c.Align {
		cc.Label("align")
	}
	if c.Fill {
		cc.Label("fillPeriod")
	}
	if c.Groups > 1 {
		cc.Label("multi-group")
	}
	if int64(idle) < c.Period {
		cc.Label("idle<period")
	}

	// B_g: what the window received, per group, in arrival order
	type bp struct {
		n    int64
		t    int64
		seen time.Time
		pt   kit.Pt
	}
	bg := make([][]bp, c.Groups)
	if len(seen) < len(obsB) {
		cc.Fail("harness/obs", "%d observations below the barrier but %d time stamps", len(obsB), len(seen))
		return
	}
	used := map[int64]bool{}
	for j, o := range obsB {
		if o.P == nil {
			cc.Fail("harness/obs", "observation %d below the barrier is not a point", j)
			return
		}
		nv, ok := o.P.Fields["n"].Go().(int64)
		if !ok || nv < 0 || int(nv) >= len(pts) || used[nv] || o.P.Time != pts[nv].Time {
			cc.Fail("harness/obs", "observation %d below the barrier (%+v) is not one of the fed points, or a repeated one", j, *o.P)
			return
		}
		used[nv] = true
		gi := 0
		if c.GroupBy {
			gi = c.Order[nv]
		}
		bg[gi] = append(bg[gi], bp{n: nv, t: o.P.Time, seen: seen[j], pt: pts[nv]})
	}
	if len(obsB) < len(pts) {
		cc.Label("point-dropped-by-barrier-node")
	}

	// Timing guard. A barrier of group g is stamped q.t + j*idle (q = the group's last point that
	// passed the barrier node, j = 1, 2, ...) and its j-th timer cannot fire earlier than j*idle of
	// wall time after q was handed in. Hence, when p (the next point of B_g) was seen below the barrier
	// node `elapsed` after q was handed in, at most kmax = floor(elapsed/idle) barriers were emitted
	// before p was forwarded, the latest stamped q.t + kmax*idle. If p is not older than that, p
	// cannot have been overtaken by a younger barrier (the barrier node's check-then-forward of a
	// point is not atomic with its timer goroutine); otherwise the run says nothing.
	for _, g := range bg {
		for k := 1; k < len(g); k++ {
			q, p := g[k-1], g[k]
			kmax := int64(p.seen.Sub(handIn[q.n]) / idle)
			if kmax >= 1 && p.t < q.t+kmax*int64(idle) {
				cc.Label("barrier-timing-inconclusive")
				return
			}
		}
	}

	// point-only schedule over B_g (unit Window's reference): which windows are due to barriers?
	c0 := Case{Period: c.Period, Every: c.Every, Align: c.Align, Fill: c.Fill, GroupBy: c.GroupBy, Groups: c.Groups}
	var bpts []kit.Pt
	for _, o := range obsB {
		nv := o.P.Fields["n"].Go().(int64)
		c0.Order = append(c0.Order, c.Order[nv])
		bpts = append(bpts, pts[nv])
	}
	pointOnly := map[[2]int64]int{}
	for _, e := range reference(c0, bpts) {
		pointOnly[[2]int64{int64(e.group), e.T}]++
	}

	describe := func() string {
		s := fmt.Sprintf("script %s\nbelow the barrier:", c.script())
		for gi, g := range bg {
			s += fmt.Sprintf(" g%d[", gi)
			for _, p := range g {
				s += fmt.Sprintf(" %d@%d", p.n, p.t-c.Base)
			}
			s += " ]"
		}
		s += "\nwindows:"
		for _, o := range obsW {
			if o.B == nil {
				s += " [point]"
				continue
			}
			s += fmt.Sprintf(" [%s T=%d:", o.B.Group, o.B.TMax-c.Base)
			for _, p := range o.B.Points {
				s += " " + p.Fields["n"].V
			}
			s += "]"
		}
		return s + fmt.Sprintf("\n(times relative to base %d; period %d every %d idle %d)", c.Base, c.Period, c.Every, int64(idle))
	}

	lastT := map[int]int64{}
	emitted := map[int]int{}
	barrierWindow, barrierWindowNonEmpty := false, false
	for i, o := range obsW {
		if o.B == nil {
			cc.Fail("window/not-a-batch", "emission %d is not a batch\n%s", i, describe())
			return
		}
		b := o.B
		gi := -1
		for g := 0; g < c.Groups; g++ {
			wantGroup, wantTags := "", map[string]string(nil)
			if c.GroupBy {
				h := fmt.Sprintf("h%d", g)
				wantGroup, wantTags = "host="+h, map[string]string{"host": h}
			}
			if b.Group == wantGroup && reflect.DeepEqual(b.Tags, wantTags) {
				gi = g
			}
		}
		if b.Name != "m" || gi < 0 || len(bg[gi]) == 0 {
			cc.Fail("window/batch-identity", "emission %d: name=%q tags=%v group=%q is not a group that received points\n%s", i, b.Name, b.Tags, b.Group, describe())
			return
		}
		T := b.TMax
		g := bg[gi]
		// schedule, as far as the statement fixes it without knowing the barriers
		if c.Every > 0 {
			if prev, ok := lastT[gi]; ok && T-prev < c.Every {
				cc.Fail("window/emit-time", "emission %d (group %d): end time %d follows end time %d of the group's previous window by less than every\n%s", i, gi, T-c.Base, prev-c.Base, describe())
				return
			}
			if c.Align && trunc(T, c.Every) != T {
				cc.Fail("window/emit-time", "emission %d (group %d): end time %d (absolute %d) is not a multiple of every although align() is set\n%s", i, gi, T-c.Base, T, describe())
				return
			}
		}
		if c.Fill && c.Period > c.Every && emitted[gi] == 0 && T < g[0].t+c.Period {
			cc.Fail("window/emit-time", "emission %d (group %d): fillPeriod, but the first window ends at %d, before first point + period = %d\n%s", i, gi, T-c.Base, g[0].t+c.Period-c.Base, describe())
			return
		}
		lastT[gi] = T
		emitted[gi]++
		// content
		idx := map[int64]int{}
		for k, p := range g {
			idx[p.n] = k
		}
		first, prevK := -1, -1
		for j, q := range b.Points {
			nv, ok := q.Fields["n"].Go().(int64)
			k, known := idx[nv]
			if !ok || !known {
				cc.Fail("window/content", "emission %d (group %d, T=%d): point %d (%+v) is not a point this group received\n%s", i, gi, T-c.Base, j, q, describe())
				return
			}
			p := g[k]
			if q.Time != p.t || !reflect.DeepEqual(q.Fields, p.pt.Fields) || !reflect.DeepEqual(q.Tags, p.pt.Tags) {
				cc.Fail("window/content", "emission %d (group %d, T=%d): point %d is %+v, received was %+v\n%s", i, gi, T-c.Base, j, q, p.pt, describe())
				return
			}
			inside := p.t >= T-c.Period && p.t < T
			if c.Every == 0 {
				inside = p.t > T-c.Period && p.t <= T
			}
			if !inside {
				cc.Fail("window/content", "emission %d (group %d, T=%d): holds point n=%d with time %d outside the window's period\n%s", i, gi, T-c.Base, nv, p.t-c.Base, describe())
				return
			}
			if j == 0 {
				first = k
			} else if k != prevK+1 {
				cc.Fail("window/content", "emission %d (group %d, T=%d): the points are not a contiguous run of the received points in arrival order (n=%d follows n=%d)\n%s", i, gi, T-c.Base, nv, g[prevK].n, describe())
				return
			}
			prevK = k
		}
		// completeness: every received point with lo <= t < T (every=0: lo < t < T) arrived before the
		// window was emitted (see assumptions) and must be in it
		for k, p := range g {
			must := p.t >= T-c.Period && p.t < T
			if c.Every == 0 {
				must = p.t > T-c.Period && p.t < T
			}
			if must && (first < 0 || k < first || k > prevK) {
				cc.Fail("window/content", "emission %d (group %d, T=%d): point n=%d with time %d lies in the window's period and was received, but is missing (window holds %d points)\n%s", i, gi, T-c.Base, p.n, p.t-c.Base, len(b.Points), describe())
				return
			}
		}
		key := [2]int64{int64(gi), T}
		if pointOnly[key] > 0 {
			pointOnly[key]--
		} else {
			barrierWindow = true
			if len(b.Points) > 0 {
				barrierWindowNonEmpty = true
			}
		}
	}
	if barrierWindow {
		cc.Label("window-flushed-or-shifted-by-barrier")
	}
	if barrierWindowNonEmpty {
		cc.Label("barrier-window-non-empty")
		cc.NonTrivial()
	}
}

var assumptionsBarrier = []string{
	"timestamps are non-decreasing per group (the property's quantifier); groups may be interleaved arbitrarily",
	"pipeline/barrier.go documents barrier().idle(d)|window().period().every() as the way to have windows emitted in the absence of data traffic: an idle barrier is stamped 'idle time since the last received message' (barrier.go emitBarrier: lastPointTime+idle, repeatedly) and 'any messages received after an emitted barrier that is older than the last emitted barrier will be dropped'; what the window receives is observed at a log() directly below the barrier node, barriers themselves are not observable (log() forwards them silently) and their number is never assumed",
	"a window with end time T is emitted only when the group's data time has reached T - a point with time >= T (unit Window pins this) or a barrier with time >= T (edge/messages.go: 'BarrierMessage indicates that no data older than the barrier time will arrive'; window.go Barrier/Point emit only if the message is not before nextEmit). With non-decreasing timestamps every point of the group with time < T has then been received before the window is emitted, so 'the points received so far in [T-period, T)' are all points seen below the barrier node with such a time",
	"every()=0: a window flushed by a barrier ends at the barrier's time; points stamped exactly T may arrive after it, so for t = T only 'a contiguous run of the received points' is demanded, for T-period < t < T completeness",
	"schedule without knowing the barriers: 'emitted once per every step of data time' is read as: end times of a group's successive windows are at least 'every' apart; with align they are multiples of 'every' (Go time.Truncate, as unit Window); with fillPeriod and period > every the group's first window does not end before first point + period",
	"the idle barrier works on the system clock: timers never fire early, so at most floor(elapsed/idle) barriers (the latest stamped q.t + that many idle) were emitted between handing in point q and seeing the group's next point p below the barrier node; if p is older than that stamp p may have been overtaken by a younger barrier inside the barrier node (its check-then-forward is not atomic with the timer goroutine): the run is labelled barrier-timing-inconclusive and not compared. barrier().period() is not used: it stamps and filters with the system clock",
}

func TestBarrier(t *testing.T) {
	r := kit.NewRec("C03", "Barrier", ruleBarrier, assumptionsBarrier...)
	kit.Check(t, r, genBarrier, runBarrier)
}

func TestReplayBarrier(t *testing.T) {
	r := kit.NewRec("C03", "Barrier", ruleBarrier, assumptionsBarrier...)
	kit.Replay(t, r, runBarrier)
}
